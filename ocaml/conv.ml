(* conv.ml (helpers of the driver) — runs the extracted Coq model (Model) on a case file and prints one canonical outcome
   line per case, in the same format as the Rust harness.  Hand-written, trusted (DESIGN §7). *)
module ZA = Z
open Model

(* ------------------------------------------------------------------ conversions (zarith for decimals) *)
let rec pos_of_z (x : ZA.t) : positive =
  if ZA.equal x ZA.one then XH
  else if ZA.is_even x then XO (pos_of_z (ZA.shift_right x 1))
  else XI (pos_of_z (ZA.shift_right x 1))
let n_of_zt (x : ZA.t) : n = if ZA.sign x = 0 then N0 else Npos (pos_of_z x)
let z_of_zt (x : ZA.t) : z =
  if ZA.sign x = 0 then Z0 else if ZA.sign x > 0 then Zpos (pos_of_z x) else Zneg (pos_of_z (ZA.neg x))
let rec zt_of_pos (p : positive) : ZA.t =
  match p with
  | XH -> ZA.one
  | XO q -> ZA.shift_left (zt_of_pos q) 1
  | XI q -> ZA.succ (ZA.shift_left (zt_of_pos q) 1)
let zt_of_n (x : n) : ZA.t = match x with N0 -> ZA.zero | Npos p -> zt_of_pos p
let zt_of_z (x : z) : ZA.t = match x with Z0 -> ZA.zero | Zpos p -> zt_of_pos p | Zneg p -> ZA.neg (zt_of_pos p)
let n_of_int (i : int) : n = n_of_zt (ZA.of_int i)
let int_of_n (x : n) : int = ZA.to_int (zt_of_n x)
let rec nat_of_int (i : int) : nat = if i <= 0 then O else S (nat_of_int (i - 1))
let rec int_of_nat (x : nat) : int = match x with O -> 0 | S y -> 1 + int_of_nat y

(* byte table so that bytes share structure *)
let byte_tab : n array = Array.init 256 n_of_int
let hv c =
  match c with
  | '0' .. '9' -> Char.code c - 48
  | 'a' .. 'f' -> Char.code c - 87
  | 'A' .. 'F' -> Char.code c - 55
  | _ -> 0
let unhex_raw (s : string) : n list =
  let l = String.length s / 2 in
  List.init l (fun i -> byte_tab.((hv s.[2 * i] lsl 4) lor hv s.[(2 * i) + 1]))
let unhex (s : string) : n list = if s = "-" then [] else unhex_raw s
let hexs (b : n list) : string =
  let buf = Buffer.create 64 in
  List.iter (fun x -> Buffer.add_string buf (Printf.sprintf "%02x" (int_of_n x))) b;
  Buffer.contents buf
let hex (b : n list) : string = if b = [] then "-" else hexs b
let hexlist (s : string) : n list list = if s = "_" then [] else List.map unhex (String.split_on_char ',' s)
let bytes_of_string (s : string) : n list = List.init (String.length s) (fun i -> byte_tab.(Char.code s.[i]))
let string_of_bytes (b : n list) : string =
  let buf = Buffer.create 64 in
  List.iter (fun x -> Buffer.add_char buf (Char.chr (int_of_n x land 255))) b;
  Buffer.contents buf

(* ------------------------------------------------------------------ neutral value text *)
type cur = { s : string; mutable i : int }
let peek c = if c.i < String.length c.s then c.s.[c.i] else '\000'
let eat c ch = if peek c <> ch then failwith (Printf.sprintf "driver parse: expected %c at %d in %s" ch c.i c.s); c.i <- c.i + 1
let is_hex ch = (ch >= '0' && ch <= '9') || (ch >= 'a' && ch <= 'f')
let hexrun c =
  let st = c.i in
  while c.i < String.length c.s && is_hex c.s.[c.i] do c.i <- c.i + 1 done;
  unhex_raw (String.sub c.s st (c.i - st))
let decrun c =
  let st = c.i in
  if peek c = '-' then c.i <- c.i + 1;
  while c.i < String.length c.s && c.s.[c.i] >= '0' && c.s.[c.i] <= '9' do c.i <- c.i + 1 done;
  ZA.of_string (String.sub c.s st (c.i - st))
let p_num c : num =
  let k = peek c in
  c.i <- c.i + 1;
  match k with
  | 'i' -> NInt (z_of_zt (decrun c))
  | 'u' -> NUInt (n_of_zt (decrun c))
  | 'd' ->
      let st = c.i in
      while c.i < String.length c.s && is_hex c.s.[c.i] do c.i <- c.i + 1 done;
      NFloat (n_of_zt (ZA.of_string_base 16 (String.sub c.s st (c.i - st))))
  | _ -> failwith "driver parse: number"
let rec p_value c : value =
  match peek c with
  | 'n' -> c.i <- c.i + 1; VNull
  | 't' -> c.i <- c.i + 1; VBool true
  | 'f' -> c.i <- c.i + 1; VBool false
  | 'i' | 'u' | 'd' -> VNum (p_num c)
  | 's' -> c.i <- c.i + 1; VStr (hexrun c)
  | '[' ->
      c.i <- c.i + 1;
      if peek c = ']' then (c.i <- c.i + 1; VArr [])
      else begin
        let acc = ref [] in
        let go = ref true in
        while !go do
          acc := p_value c :: !acc;
          if peek c = ',' then c.i <- c.i + 1 else (eat c ']'; go := false)
        done;
        VArr (List.rev !acc)
      end
  | '{' ->
      c.i <- c.i + 1;
      if peek c = '}' then (c.i <- c.i + 1; VObj [])
      else begin
        let acc = ref [] in
        let go = ref true in
        while !go do
          let k = hexrun c in
          eat c ':';
          let v = p_value c in
          acc := assoc_insert k v !acc;
          if peek c = ',' then c.i <- c.i + 1 else (eat c '}'; go := false)
        done;
        VObj !acc
      end
  | ch -> failwith (Printf.sprintf "driver parse: value char %c" ch)
let parse_val (s : string) : value = p_value { s; i = 0 }
let parse_num (s : string) : num = p_num { s; i = 0 }
let show_num (x : num) : string =
  match x with
  | NInt z -> "i" ^ ZA.to_string (zt_of_z z)
  | NUInt n -> "u" ^ ZA.to_string (zt_of_n n)
  | NFloat b -> Printf.sprintf "d%s" (ZA.format "%016x" (zt_of_n b))
let rec show_val (v : value) : string =
  match v with
  | VNull -> "n"
  | VBool true -> "t"
  | VBool false -> "f"
  | VNum x -> show_num x
  | VStr s -> "s" ^ hexs s
  | VArr l -> "[" ^ String.concat "," (List.map show_val l) ^ "]"
  | VObj l -> "{" ^ String.concat "," (List.map (fun (k, x) -> hexs k ^ ":" ^ show_val x) l) ^ "}"

let show_cmp (c : comparison) = match c with Lt -> "lt" | Eq -> "eq" | Gt -> "gt"
let show_err (e : err) =
  match e with
  | EInvalidJsonType -> "InvalidJsonType"
  | EInvalidObject -> "InvalidObject"
  | EDupKey -> "ObjectDuplicateKey"
  | EInvalidPredicate -> "InvalidJsonPathPredicate"
  | EFuel -> "FUEL"
  | EOther -> "Other"
let show_res (f : 'a -> string) (r : 'a res) : string =
  match r with Ok a -> "ok " ^ f a | Err e -> "err " ^ show_err e | Panic -> "panic"
let show_bool b = if b then "=true" else "=false"


let show_opt (f : 'a -> string) (o : 'a option) : string = match o with Some x -> f x | None -> "=none"
(* buffer-writing ops print the whole buffer, on success and on error: the state the model computed (`stm unit`
   functions of BufSt.v: the buffer as the call leaves it, and the outcome).  There is no printer that substitutes the
   caller's prefix for the buffer of a failed editor call any more. *)
let show_buf_st ((b, r) : n list * unit res) : string =
  match r with Ok _ -> "ok " ^ hex b | Err e -> "err " ^ show_err e ^ " " ^ hex b | Panic -> "panic"
let show_offs (o : n list) : string = String.concat "," (List.map (fun x -> ZA.to_string (zt_of_n x)) o)
(* the outcome of a selection together with the caller's (data, offsets) AS THE MODEL LEFT THEM (SelSt.v: state functions over
   the two vectors): printed on Ok and on Err, like the harness prints the vectors the Rust function left *)
let show_sel_st (((d, o), r) : (n list * n list) * unit res) : string =
  match r with
  | Ok _ -> "ok " ^ hex d ^ " " ^ show_offs o
  | Err e -> "err " ^ show_err e ^ " " ^ hex d ^ " " ^ show_offs o
  | Panic -> "panic"
let show_sel (prefix : n list) (r : (n list * n list) res) : string =
  match r with
  | Ok (b, o) -> "ok " ^ hex b ^ " " ^ show_offs o
  | Err e -> "err " ^ show_err e ^ " " ^ hex prefix
  | Panic -> "panic"
let mode_of (s : string) : mode = match s with "first" -> MFirst | "array" -> MArray | "all" -> MAll | _ -> MMixed

(* key paths: i<dec> n<hex> q<hex>, comma separated, _ = empty *)
let parse_keypaths (s : string) : keypath list =
  if s = "_" then []
  else
    List.map
      (fun e ->
        let r = String.sub e 1 (String.length e - 1) in
        match e.[0] with
        | 'i' -> KIndex (z_of_zt (ZA.of_string r))
        | 'n' -> KName (unhex_raw r)
        | 'q' -> KQuoted (unhex_raw r)
        | _ -> failwith "driver parse: keypath")
      (String.split_on_char ',' s)
let show_keypaths (ks : keypath list) : string =
  if ks = [] then "_"
  else
    String.concat ","
      (List.map (fun k -> match k with
         | KIndex i -> "i" ^ ZA.to_string (zt_of_z i)
         | KName s -> "n" ^ hexs s
         | KQuoted s -> "q" ^ hexs s) ks)

(* JSONPath AST neutral text *)
let p_int c : z = z_of_zt (decrun c)
let p_index c : index =
  let k = peek c in
  c.i <- c.i + 1;
  match k with 'x' -> IIndex (p_int c) | 'l' -> ILast (p_int c) | _ -> failwith "driver parse: index"
let rec p_pathlist c : path list =
  let p = p_path c in
  if peek c = ';' then (c.i <- c.i + 1; p :: p_pathlist c) else [p]
and p_path c : path =
  let k = peek c in
  c.i <- c.i + 1;
  match k with
  | 'R' -> PRoot | 'C' -> PCurrent | 'W' -> PDotWild | 'B' -> PBracketWild
  | 'D' -> PDotField (hexrun c) | 'K' -> PColonField (hexrun c) | 'O' -> PObjectField (hexrun c)
  | 'I' ->
      eat c '(';
      let acc = ref [] in
      let go = ref true in
      while !go do
        (if peek c = 'S' then begin
           c.i <- c.i + 1;
           let a = p_index c in
           eat c '~';
           let b = p_index c in
           acc := ASlice (a, b) :: !acc
         end else acc := AIndex (p_index c) :: !acc);
        if peek c = ',' then c.i <- c.i + 1 else (eat c ')'; go := false)
      done;
      PIndices (List.rev !acc)
  | 'F' -> PFilter (p_expr c)
  | 'P' -> PPredicate (p_expr c)
  | ch -> failwith (Printf.sprintf "driver parse: path %c" ch)
and p_expr c : expr =
  let k = peek c in
  c.i <- c.i + 1;
  match k with
  | 'p' -> eat c '('; let v = p_pathlist c in eat c ')'; EPaths v
  | 'e' -> eat c '('; let v = p_pathlist c in eat c ')'; EExists v
  | 'v' ->
      (match peek c with
       | 'n' -> c.i <- c.i + 1; EValue PVNull
       | 't' -> c.i <- c.i + 1; EValue (PVBool true)
       | 'f' -> c.i <- c.i + 1; EValue (PVBool false)
       | 's' -> c.i <- c.i + 1; EValue (PVStr (hexrun c))
       | _ -> EValue (PVNum (p_num c)))
  | 'b' ->
      let st = c.i in
      while peek c <> '(' do c.i <- c.i + 1 done;
      let op = match String.sub c.s st (c.i - st) with
        | "and" -> OAnd | "or" -> OOr | "eq" -> OEq | "ne" -> ONe | "lt" -> OLt | "le" -> OLe | "gt" -> OGt | "ge" -> OGe
        | _ -> failwith "driver parse: op" in
      eat c '(';
      let l = p_expr c in
      eat c '|';
      let r = p_expr c in
      eat c ')';
      EBin (op, l, r)
  | 'A' ->
      let kind = peek c in
      c.i <- c.i + 1;
      let o = peek c in
      c.i <- c.i + 1;
      eat c '(';
      if kind = 'b' then begin
        let l = p_expr c in
        eat c '|';
        let r = p_expr c in
        eat c ')';
        EArithB ((match o with '+' -> BAdd | '-' -> BSub | '*' -> BMul | '/' -> BDiv | _ -> BMod), l, r)
      end else begin
        let e = p_expr c in
        eat c ')';
        EArithU ((if o = '+' then UAdd else USub), e)
      end
  | ch -> failwith (Printf.sprintf "driver parse: expr %c" ch)
let parse_jsonpath (s : string) : path list =
  let c = { s; i = 0 } in
  let ps = p_pathlist c in
  if c.i <> String.length s then failwith "driver parse: trailing path text";
  ps

let show_ix (i : index) = match i with IIndex z -> "x" ^ ZA.to_string (zt_of_z z) | ILast z -> "l" ^ ZA.to_string (zt_of_z z)
let rec show_paths (ps : path list) : string = String.concat ";" (List.map show_path1 ps)
and show_path1 (p : path) : string =
  match p with
  | PRoot -> "R" | PCurrent -> "C" | PDotWild -> "W" | PBracketWild -> "B"
  | PDotField s -> "D" ^ hexs s | PColonField s -> "K" ^ hexs s | PObjectField s -> "O" ^ hexs s
  | PIndices l ->
      "I(" ^ String.concat "," (List.map (fun a -> match a with
                 | AIndex i -> show_ix i
                 | ASlice (a, b) -> "S" ^ show_ix a ^ "~" ^ show_ix b) l) ^ ")"
  | PFilter e -> "F" ^ show_expr1 e
  | PPredicate e -> "P" ^ show_expr1 e
and show_expr1 (e : expr) : string =
  match e with
  | EPaths ps -> "p(" ^ show_paths ps ^ ")"
  | EExists ps -> "e(" ^ show_paths ps ^ ")"
  | EValue PVNull -> "vn" | EValue (PVBool true) -> "vt" | EValue (PVBool false) -> "vf"
  | EValue (PVNum x) -> "v" ^ show_num x
  | EValue (PVStr s) -> "vs" ^ hexs s
  | EBin (op, l, r) ->
      "b" ^ (match op with OAnd -> "and" | OOr -> "or" | OEq -> "eq" | ONe -> "ne" | OLt -> "lt" | OLe -> "le" | OGt -> "gt" | OGe -> "ge")
      ^ "(" ^ show_expr1 l ^ "|" ^ show_expr1 r ^ ")"
  | EArithU (op, x) -> "Au" ^ (match op with UAdd -> "+" | USub -> "-") ^ "(" ^ show_expr1 x ^ ")"
  | EArithB (op, l, r) ->
      "Ab" ^ (match op with BAdd -> "+" | BSub -> "-" | BMul -> "*" | BDiv -> "/" | BMod -> "%")
      ^ "(" ^ show_expr1 l ^ "|" ^ show_expr1 r ^ ")"

(* serde dump *)
let show_snum (x : snum) : string =
  match x with
  | SPos n -> "u" ^ ZA.to_string (zt_of_n n)
  | SNeg z -> "i" ^ ZA.to_string (zt_of_z z)
  | SFloat b -> "d" ^ ZA.format "%016x" (zt_of_n b)
let rec show_sj (v : sj) : string =
  match v with
  | SNull -> "n" | SBool true -> "t" | SBool false -> "f"
  | SNum x -> show_snum x
  | SStr s -> "s" ^ hexs s
  | SArr l -> "[" ^ String.concat "," (List.map show_sj l) ^ "]"
  | SObj l ->
      let l = List.sort (fun (a, _) (b, _) -> compare (string_of_bytes a) (string_of_bytes b)) l in
      "{" ^ String.concat "," (List.map (fun (k, x) -> hexs k ^ ":" ^ show_sj x) l) ^ "}"
let rec sj_of_value (v : value) : sj =
  match v with
  | VNull -> SNull | VBool b -> SBool b | VStr s -> SStr s
  | VNum (NInt z) -> if ZA.sign (zt_of_z z) < 0 then SNum (SNeg z) else SNum (SPos (n_of_zt (zt_of_z z)))
  | VNum (NUInt n) -> SNum (SPos n)
  | VNum (NFloat b) -> SNum (SFloat b)
  | VArr l -> SArr (List.map sj_of_value l)
  | VObj l -> SObj (List.map (fun (k, x) -> (k, sj_of_value x)) l)
(* the neutral text of a serde value is the neutral value text: i<neg> = NegInt, u = PosInt, d = Float *)
let parse_sj (s : string) : sj = sj_of_value (parse_val s)
