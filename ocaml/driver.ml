(* driver.ml — main loop of the model driver: one canonical outcome line per case *)
let () =
  let path = if Array.length Sys.argv > 1 then Sys.argv.(1) else "-" in
  let ic = if path = "-" then stdin else open_in path in
  let out = Buffer.create (1 lsl 16) in
  (try
     while true do
       let line = input_line ic in
       let line = String.trim line in
       if line <> "" && line.[0] <> '#' then begin
         let f = Array.of_list (String.split_on_char ' ' line) in
         let id = f.(0) in
         let args = Array.sub f 2 (Array.length f - 2) in
         let r = try Ops.run f.(1) args with
           | Stack_overflow -> "model-stack-overflow"
           | Failure m -> "driver-failure " ^ m
           | Invalid_argument m -> "driver-failure " ^ m in
         Buffer.add_string out id;
         Buffer.add_char out ' ';
         Buffer.add_string out r;
         Buffer.add_char out '\n';
         (* one write and one flush per outcome: when a later case kills the process, every outcome before it is in the file *)
         print_string (Buffer.contents out); flush stdout; Buffer.clear out
       end
     done
   with End_of_file -> ());
  print_string (Buffer.contents out); flush stdout
