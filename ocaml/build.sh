#!/bin/sh
# build the model driver from the extracted model; output: /verif/work/ocaml/driver
set -e
HERE=$(cd "$(dirname "$0")" && pwd)
OUT="$HERE/../work/ocaml"
mkdir -p "$OUT"
cp "$HERE"/../coq/extracted/model.ml "$HERE"/../coq/extracted/model.mli "$HERE"/conv.ml "$HERE"/ops.ml "$HERE"/driver.ml "$OUT"/
cd "$OUT"
ocamlfind ocamlopt -w -a -package zarith -linkpkg model.mli model.ml conv.ml ops.ml driver.ml -o driver 2>&1 | grep -v "^$" || true
test -x driver
