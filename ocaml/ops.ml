(* ops.ml — op dispatch of the model driver *)
module ZA = Z
open Model
open Conv

(* ------------------------------------------------------------------ dispatch *)
let split_prefix (op : string) : string * n list =
  match String.index_opt op '@' with
  | Some k -> (String.sub op 0 k, unhex (String.sub op (k + 1) (String.length op - k - 1)))
  | None -> (op, [])

(* every buffer-writing editor is run as its state function (BufSt.v): the buffer printed is the one THE MODEL computed,
   on Ok and on Err (the Rust side prints the buffer the function left: harness `bufres`).  build_array / build_object
   write as they go and leave bytes behind on an error return; the others write once, at the end *)


(* chain <registers as a hex list> op args | op args | ... : ChainWalk.run_b over byte registers, a register argument is
   @<index> (lists of them comma-separated, _ = none); the outcome is the whole final register file *)
let reg_ix (s : string) : nat = nat_of_int (int_of_string (String.sub s 1 (String.length s - 1)))
let reg_ixs (s : string) : nat list = if s = "_" then [] else List.map reg_ix (String.split_on_char ',' s)
let chain_op (f : string array) : op3 =
  let b o = OOp2 (OBase o) in
  match f.(0) with
  | "concat" -> b (OConcat (reg_ix f.(1), reg_ix f.(2)))
  | "delete_by_name" -> b (ODeleteByName (reg_ix f.(1), unhex f.(2)))
  | "delete_by_index" -> b (ODeleteByIndex (reg_ix f.(1), z_of_zt (ZA.of_string f.(2))))
  | "array_insert" -> b (OArrayInsert (reg_ix f.(1), z_of_zt (ZA.of_string f.(2)), reg_ix f.(3)))
  | "object_insert" -> b (OObjectInsert (reg_ix f.(1), unhex f.(2), reg_ix f.(3), f.(4) = "1"))
  | "object_delete" -> b (OObjectDelete (reg_ix f.(1), hexlist f.(2)))
  | "object_pick" -> b (OObjectPick (reg_ix f.(1), hexlist f.(2)))
  | "strip_nulls" -> b (OStripNulls (reg_ix f.(1)))
  | "build_array" -> b (OBuildArray (reg_ixs f.(1)))
  | "build_object" -> b (OBuildObject (hexlist f.(1), reg_ixs f.(2)))
  | "get_by_index" -> b (OGetByIndex (reg_ix f.(1), n_of_zt (ZA.of_string f.(2))))
  | "get_by_name" -> b (OGetByName (reg_ix f.(1), unhex f.(2), f.(3) = "1"))
  | "array_distinct" -> b (ODistinct (reg_ix f.(1)))
  | "array_intersection" -> b (OIntersection (reg_ix f.(1), reg_ix f.(2)))
  | "array_except" -> b (OExcept (reg_ix f.(1), reg_ix f.(2)))
  | "reencode" -> b (OReencode (reg_ix f.(1)))
  | "get_by_keypath" -> OOp2 (OGetByKeypath (reg_ix f.(1), parse_keypaths f.(2)))
  | "delete_by_keypath" -> OOp2 (ODeleteByKeypath (reg_ix f.(1), parse_keypaths f.(2)))
  | "object_keys" -> OOp2 (OObjectKeys (reg_ix f.(1)))
  | "select" -> OSelect (reg_ix f.(1), parse_jsonpath f.(2), mode_of f.(3))
  | "get_by_path" -> OGetByPath (reg_ix f.(1), parse_jsonpath f.(2), MMixed)
  | "get_by_path_first" -> OGetByPath (reg_ix f.(1), parse_jsonpath f.(2), MFirst)
  | "get_by_path_array" -> OGetByPath (reg_ix f.(1), parse_jsonpath f.(2), MArray)
  | o -> failwith ("chain: unknown op " ^ o)
let chain_ops (a : string list) : op3 list =
  let rec go cur acc = function
    | [] -> List.rev (if cur = [] then acc else List.rev cur :: acc)
    | "|" :: r -> go [] (if cur = [] then acc else List.rev cur :: acc) r
    | x :: r -> go (x :: cur) acc r in
  List.map (fun f -> chain_op (Array.of_list f)) (go [] [] a)

let run (op_full : string) (a : string array) : string =
  let op, prefix = split_prefix op_full in
  match op with
  | "to_vec" -> "ok " ^ hex (to_vec (parse_val a.(0)))
  | "write_to_vec" -> "ok " ^ hex (write_to_vec prefix (parse_val a.(0)))
  | "layout" -> "ok " ^ hex (enc (parse_val a.(0)))
  | "parse_jsonb" -> show_res show_val (parse_jsonb (unhex a.(0)))
  | "num_encode" -> "ok " ^ hex (compact_encode (parse_num a.(0)))
  | "num_decode" -> show_res show_num (num_decode (unhex a.(0)))
  | "num_decode_old" -> show_res show_num (num_decode_old (unhex a.(0)))
  | "num_cmp" -> show_res (fun c -> "=" ^ show_cmp c) (num_cmp_rs_res (parse_num a.(0)) (parse_num a.(1)))
  | "num_cmp_old" -> "ok =" ^ show_cmp (num_cmp_old (parse_num a.(0)) (parse_num a.(1)))
  | "num_eq" -> show_res show_bool (num_eqb_rs_res (parse_num a.(0)) (parse_num a.(1)))
  | "num_as_i64" -> (match as_i64 (parse_num a.(0)) with Some z -> "ok =" ^ ZA.to_string (zt_of_z z) | None -> "ok =none")
  | "num_as_u64" -> (match as_u64 (parse_num a.(0)) with Some n -> "ok =" ^ ZA.to_string (zt_of_n n) | None -> "ok =none")
  | "num_as_f64" -> "ok =" ^ ZA.format "%016x" (zt_of_n (as_f64 (parse_num a.(0))))
  | "from_slice" -> show_res show_val (from_slice (unhex a.(0)))
  | "reencode" -> show_res (fun v -> hex (to_vec v)) (from_slice (unhex a.(0)))
  | "parse_value" -> show_res show_val (parse_value (unhex a.(0)))
  | "parse_lazy_value" ->
      (match parse_lazy_value (unhex a.(0)) with
       | Ok lv ->
           let al = match lazy_array_length_w lv with Ok (Some n) -> ZA.to_string (zt_of_n n) | Ok None -> "none" | _ -> "?" in
           let tv = match lazy_to_value lv with Ok v -> show_val v | Panic -> "panic" | Err _ -> "err" in
           "ok " ^ hex (lazy_to_vec lv) ^ "|" ^ al ^ "|" ^ tv
       | r -> show_res (fun _ -> "") r)
  | "to_string" -> show_res hex (to_string_w (unhex a.(0)))
  | "to_pretty_string" -> show_res hex (to_pretty_string_w (unhex a.(0)))
  (* the same two model functions; the harness prints the rendering byte for byte under these names (no float canonicalisation) *)
  | "to_string_bytes" -> show_res hex (to_string_w (unhex a.(0)))
  | "to_pretty_string_bytes" -> show_res hex (to_pretty_string_w (unhex a.(0)))
  | "compare" -> show_res (fun c -> "=" ^ show_cmp c) (compare_w (unhex a.(0)) (unhex a.(1)))
  | "cmp_value" -> "ok =" ^ show_cmp (cmp_value (parse_val a.(0)) (parse_val a.(1)))
  | "convert_to_comparable" -> show_res hex (comparable_w (unhex a.(0)) prefix)
  | "key_safe_doc" -> show_res show_bool (match doc_of (unhex a.(0)) with Ok v -> Ok (key_safe_doc v) | Err e -> Err e | Panic -> Panic)
  | "array_length" -> show_res (show_opt (fun n -> "=" ^ ZA.to_string (zt_of_n n))) (array_length_w (unhex a.(0)))
  | "get_by_index" -> show_res (show_opt hex) (get_by_index_w (unhex a.(0)) (n_of_zt (ZA.of_string a.(1))))
  | "get_by_name" -> show_res (show_opt hex) (get_by_name_w (unhex a.(0)) (unhex a.(1)) (a.(2) = "1"))
  | "get_by_keypath" -> show_res (show_opt hex) (get_by_keypath_w (unhex a.(0)) (parse_keypaths a.(1)))
  | "object_keys" -> show_res (show_opt hex) (object_keys_w (unhex a.(0)))
  | "object_each" ->
      show_res (show_opt (fun l -> "[" ^ String.concat "|" (List.map (fun (k, v) -> hexs k ^ ":" ^ hex v) l) ^ "]"))
        (object_each_w (unhex a.(0)))
  | "array_values" ->
      show_res (show_opt (fun l -> "[" ^ String.concat "|" (List.map hex l) ^ "]")) (array_values_w (unhex a.(0)))
  | "type_of" ->
      show_res (fun n -> "=" ^ (match int_of_n n with 0 -> "null" | 1 -> "boolean" | 2 -> "number" | 3 -> "string" | 4 -> "array" | _ -> "object"))
        (type_of_w (unhex a.(0)))
  | "is_null" | "as_null" -> show_res show_bool (as_null_w (unhex a.(0)))
  | "is_boolean" -> show_res (fun o -> show_bool (o <> None)) (as_bool_w (unhex a.(0)))
  | "as_bool" -> show_res (show_opt show_bool) (as_bool_w (unhex a.(0)))
  | "to_bool" -> show_res show_bool (to_bool_w (unhex a.(0)))
  | "is_number" -> show_res (fun o -> show_bool (o <> None)) (as_number_w (unhex a.(0)))
  | "as_number" -> show_res (show_opt (fun x -> "=" ^ show_num x)) (as_number_w (unhex a.(0)))
  | "is_i64" -> show_res (fun o -> show_bool (o <> None)) (as_i64_w (unhex a.(0)))
  | "as_i64" -> show_res (show_opt (fun z -> "=" ^ ZA.to_string (zt_of_z z))) (as_i64_w (unhex a.(0)))
  | "to_i64" -> show_res (fun z -> "=" ^ ZA.to_string (zt_of_z z)) (to_i64_w (unhex a.(0)))
  | "is_u64" -> show_res (fun o -> show_bool (o <> None)) (as_u64_w (unhex a.(0)))
  | "as_u64" -> show_res (show_opt (fun n -> "=" ^ ZA.to_string (zt_of_n n))) (as_u64_w (unhex a.(0)))
  | "to_u64" -> show_res (fun n -> "=" ^ ZA.to_string (zt_of_n n)) (to_u64_w (unhex a.(0)))
  | "is_f64" -> show_res (fun o -> show_bool (o <> None)) (as_f64_w (unhex a.(0)))
  | "as_f64" -> show_res (show_opt (fun n -> "=" ^ ZA.format "%016x" (zt_of_n n))) (as_f64_w (unhex a.(0)))
  | "to_f64" -> show_res (fun n -> "=" ^ ZA.format "%016x" (zt_of_n n)) (to_f64_w (unhex a.(0)))
  | "is_string" -> show_res (fun o -> show_bool (o <> None)) (as_str_w (unhex a.(0)))
  | "as_str" -> show_res (show_opt hex) (as_str_w (unhex a.(0)))
  | "to_str" -> show_res hex (to_str_w (unhex a.(0)))
  | "is_array" -> show_res show_bool (is_array_w (unhex a.(0)))
  | "is_object" -> show_res show_bool (is_object_w (unhex a.(0)))
  | "exists_all_keys" -> show_res show_bool (exists_all_keys_w (unhex a.(0)) (hexlist a.(1)))
  | "exists_any_keys" -> show_res show_bool (exists_any_keys_w (unhex a.(0)) (hexlist a.(1)))
  | "traverse_check_string" -> show_res show_bool (traverse_check_string_w (unhex a.(0)) (unhex a.(1)))
  | "contains" -> show_res show_bool (contains_w (unhex a.(0)) (unhex a.(1)))
  | "array_distinct" -> show_buf_st (array_distinct_st (unhex a.(0)) prefix)
  | "array_intersection" -> show_buf_st (array_intersection_st (unhex a.(0)) (unhex a.(1)) prefix)
  | "array_except" -> show_buf_st (array_except_st (unhex a.(0)) (unhex a.(1)) prefix)
  | "array_overlap" -> show_res show_bool (array_overlap_w (unhex a.(0)) (unhex a.(1)))
  | "concat" -> show_buf_st (concat_st (unhex a.(0)) (unhex a.(1)) prefix)
  | "delete_by_name" -> show_buf_st (delete_by_name_st (unhex a.(0)) (unhex a.(1)) prefix)
  | "delete_by_index" -> show_buf_st (delete_by_index_st (unhex a.(0)) (z_of_zt (ZA.of_string a.(1))) prefix)
  | "delete_by_keypath" -> show_buf_st (delete_by_keypath_st (unhex a.(0)) (parse_keypaths a.(1)) prefix)
  | "array_insert" -> show_buf_st (array_insert_st (unhex a.(0)) (z_of_zt (ZA.of_string a.(1))) (unhex a.(2)) prefix)
  | "object_insert" -> show_buf_st (object_insert_st (unhex a.(0)) (unhex a.(1)) (unhex a.(2)) (a.(3) = "1") prefix)
  | "object_delete" -> show_buf_st (object_delete_st (unhex a.(0)) (hexlist a.(1)) prefix)
  | "object_pick" -> show_buf_st (object_pick_st (unhex a.(0)) (hexlist a.(1)) prefix)
  | "strip_nulls" -> show_buf_st (strip_nulls_st (unhex a.(0)) prefix)
  | "build_array" -> show_buf_st (build_array_st (hexlist a.(0)) prefix)
  | "build_object" -> show_buf_st (build_object_st (hexlist a.(0)) (hexlist a.(1)) prefix)
  | "select" -> show_sel_st (select_st (unhex a.(0)) (parse_jsonpath a.(1)) (mode_of a.(2)) (prefix, []))
  | "sel_exists" -> show_res show_bool (sel_exists_w (unhex a.(0)) (parse_jsonpath a.(1)))
  | "sel_predicate_match" -> show_res show_bool (sel_predicate_match_w (unhex a.(0)) (parse_jsonpath a.(1)))
  | "get_by_path" -> show_sel_st (get_by_path_st (unhex a.(0)) (parse_jsonpath a.(1)) (prefix, []))
  | "get_by_path_first" -> show_sel_st (get_by_path_first_st (unhex a.(0)) (parse_jsonpath a.(1)) (prefix, []))
  | "get_by_path_array" -> show_sel_st (get_by_path_array_st (unhex a.(0)) (parse_jsonpath a.(1)) (prefix, []))
  | "path_batch" ->
      (* several selections into ONE data buffer and ONE offsets vector: the state is threaded through the calls; the first
         Err ends the batch with the vectors as that call left them *)
      let root = unhex a.(0) in
      let f = match a.(1) with "get_by_path" -> get_by_path_st | "get_by_path_first" -> get_by_path_first_st | _ -> get_by_path_array_st in
      let rec go i st =
        if i >= Array.length a then show_sel_st (st, Ok ())
        else match f root (parse_jsonpath a.(i)) st with
          | (st', Ok _) -> go (i + 1) st'
          | (st', Err e) -> show_sel_st (st', Err e)
          | (_, Panic) -> "panic" in
      go 2 (prefix, [])
  | "path_exists" -> show_res show_bool (path_exists_w (unhex a.(0)) (parse_jsonpath a.(1)))
  | "path_match" -> show_res show_bool (path_match_w (unhex a.(0)) (parse_jsonpath a.(1)))
  | "parse_json_path" ->
      show_res (fun ps -> show_paths ps ^ " " ^ hex (show_json_path float_placeholder ps)) (parse_json_path (unhex a.(0)))
  | "print_json_path" -> "ok " ^ hex (show_json_path float_placeholder (parse_jsonpath a.(0)))
  | "print_parse_json_path" ->
      let text = show_json_path float_placeholder (parse_jsonpath a.(0)) in
      (match parse_json_path text with
       | Ok ps -> "ok " ^ show_paths ps ^ " " ^ hex text
       | Err _ -> "err Other " ^ hex text
       | Panic -> "panic")
  | "reparse_json_path" ->
      (* parse, print, parse again; leaf=1 when the round-trip theorem (Props/C09: C09_negative_infinity_literal_round_trips, i.e.
         C09_accepted_path_round_trips with the printer float_placeholder and the non-finite floats inf / -inf / NaN, which it
         prints as the crate does; -inf is read back since the crate's fix e1187a7) applies to the accepted path *)
      (match parse_json_path (unhex a.(0)) with
       | Ok ps ->
           let second = (match parse_json_path (show_json_path float_placeholder ps) with
                         | Ok ps2 -> show_paths ps2 | Err _ -> "err" | Panic -> "panic") in
           (* anyf=1: the path is in the class of the round-trip theorem once float literals are let in (PathImage: leaf_path okf with
              okf = everything); with leaf=0 this says "only the floats keep it out": the judge then requires parsed = reparsed of the
              implementation alone (the model prints a placeholder for floats, so its own second parse says nothing) *)
           "ok " ^ show_paths ps ^ " " ^ second ^ (if leaf_path nonfinite_floats ps then " leaf=1" else " leaf=0")
           ^ (if leaf_path (fun _ -> true) ps then " anyf=1" else " anyf=0")
       | Err e -> "err " ^ show_err e
       | Panic -> "panic")
  | "print_parse_key_paths" ->
      let text = show_key_paths (parse_keypaths a.(0)) in
      (match parse_key_paths text with
       | Ok ks -> "ok " ^ show_keypaths ks ^ " " ^ hex text
       | Err _ -> "err Other " ^ hex text
       | Panic -> "panic")
  | "parse_key_paths" ->
      show_res (fun ks -> show_keypaths ks ^ " " ^ hex (show_key_paths ks)) (parse_key_paths (unhex a.(0)))
  | "print_key_paths" -> "ok " ^ hex (show_key_paths (parse_keypaths a.(0)))
  | "to_serde_json" -> show_res show_sj (to_serde_json_w (unhex a.(0)))
  | "to_serde_json_object" -> show_res (show_opt show_sj) (to_serde_json_object_w (unhex a.(0)))
  | "value_to_serde" -> show_res show_sj (value_to_serde (parse_val a.(0)))
  | "serde_to_value" -> "ok " ^ show_val (serde_to_value (parse_sj a.(0)))
  | "serde_roundtrip" ->
      let v = parse_val a.(0) in
      (match value_to_serde v with
       | Ok j -> let back = serde_to_value j in "ok " ^ show_val back ^ " " ^ show_bool (value_eqb back v)
       | r -> show_res (fun _ -> "") r)
  (* ---- the tree-level API (ValueApi.v): value.rs helpers, Display, from.rs, lazy_value.rs *)
  | "value_api" ->
      let v = parse_val a.(0) in
      let b x = if x then "1" else "0" in
      let o f x = match x with Some y -> f y | None -> "none" in
      String.concat " "
        [ "ok"; "sc=" ^ b (value_is_scalar v); "ob=" ^ b (value_is_object v); "ar=" ^ b (value_is_array v);
          "st=" ^ b (value_is_string v); "nu=" ^ b (value_is_number v); "i64=" ^ b (value_is_i64 v); "u64=" ^ b (value_is_u64 v);
          "f64=" ^ b (value_is_f64 v); "bo=" ^ b (value_is_boolean v); "nl=" ^ b (value_is_null v);
          "as_i64=" ^ o (fun z -> ZA.to_string (zt_of_z z)) (value_as_i64 v);
          "as_u64=" ^ o (fun n -> ZA.to_string (zt_of_n n)) (value_as_u64 v);
          "as_f64=" ^ o (fun n -> ZA.format "%016x" (zt_of_n n)) (value_as_f64 v);
          "as_bool=" ^ o (fun x -> b x) (value_as_bool v);
          "as_str=" ^ o (fun x -> "s" ^ hexs x) (value_as_str v);
          "as_number=" ^ o show_num (value_as_number v);
          "as_array=" ^ o (fun l -> show_val (VArr l)) (value_as_array v);
          "as_object=" ^ o (fun l -> show_val (VObj l)) (value_as_object v);
          "alen=" ^ o (fun n -> ZA.to_string (zt_of_n n)) (value_array_length v);
          "keys=" ^ o show_val (value_object_keys v) ]
  | "value_get_ci" -> "ok " ^ show_opt show_val (value_get_by_name_ignore_case (parse_val a.(0)) (unhex a.(1)))
  | "value_eq_variant" -> "ok " ^ show_bool (value_eq_variant (parse_val a.(0)) (parse_val a.(1)))
  | "display" | "display_bytes" -> "ok " ^ hex (display_t (parse_val a.(0)))
  | "from_prim" ->
      let z () = z_of_zt (ZA.of_string a.(1)) and n () = n_of_zt (ZA.of_string a.(1)) in
      let bits () = n_of_zt (ZA.of_string_base 16 a.(1)) in
      let ints s = if s = "_" then [] else List.map (fun x -> z_of_zt (ZA.of_string x)) (String.split_on_char ',' s) in
      let vals s = match parse_val s with VArr l -> l | _ -> failwith "from_prim: list expected" in
      let v = (match a.(0) with
        | "i8" | "i16" | "i32" | "i64" | "isize" -> from_i64 (z ())
        | "u8" | "u16" | "u32" | "u64" | "usize" -> from_u64 (n ())
        | "f64" | "of64" -> from_f64 (bits ())
        | "f32" | "of32" -> from_f32 (bits ())
        | "bool" -> from_bool (a.(1) = "1")
        | "string" | "str" | "cow" -> from_string (unhex a.(1))
        | "unit" -> from_unit
        | "object" -> (match parse_val a.(1) with VObj o -> from_object o | _ -> failwith "from_prim: object expected")
        | "vec_i32" | "slice_i32" | "iter_i32" -> from_vec from_i64 (ints a.(1))
        | "vec_value" | "iter_value" -> from_vec (fun x -> x) (vals a.(1))
        | "vec_str" -> from_vec from_string (hexlist a.(1))
        | "pairs" ->
            (* k1,k2,.. (hex) and a value list of the same length, in iteration order (repeated keys allowed) *)
            from_pairs (fun x -> x) (List.combine (hexlist a.(1)) (vals a.(2)))
        | k -> failwith ("from_prim: unknown kind " ^ k)) in
      "ok " ^ show_val v
  | "lazy_value" | "lazy_raw" ->
      let lv = if op = "lazy_value" then lazy_of_value (parse_val a.(0)) else LRaw (unhex a.(0)) in
      (* only to_value is run under catch_unwind by the harness: a panic of array_length is the outcome of the whole case *)
      (match lazy_array_length_w lv with
       | Panic -> "panic"
       | r ->
           let al = match r with Ok (Some n) -> ZA.to_string (zt_of_n n) | Ok None -> "none" | _ -> "err" in
           let tv = match lazy_to_value lv with Ok v -> show_val v | Panic -> "panic" | Err _ -> "err" in
           "ok " ^ hex (lazy_to_vec lv) ^ "|" ^ al ^ "|" ^ tv ^ "|" ^ hex (lazy_write_to_vec prefix lv))
  | "chain" ->
      let regs = run_b (hexlist a.(0)) (chain_ops (List.tl (Array.to_list a))) in
      "ok " ^ String.concat "," (List.map hex regs)
  | _ -> "unknown-op " ^ op

