(* ops.ml — op dispatch of the model driver *)
module ZA = Z
open Model
open Conv

(* ------------------------------------------------------------------ dispatch *)
let split_prefix (op : string) : string * n list =
  match String.index_opt op '@' with
  | Some k -> (String.sub op 0 k, unhex (String.sub op (k + 1) (String.length op - k - 1)))
  | None -> (op, [])

let run (op_full : string) (a : string array) : string =
  let op, prefix = split_prefix op_full in
  match op with
  | "to_vec" -> "ok " ^ hex (to_vec (parse_val a.(0)))
  | "write_to_vec" -> "ok " ^ hex (write_to_vec prefix (parse_val a.(0)))
  | "layout" -> "ok " ^ hex (enc (parse_val a.(0)))
  | "parse_jsonb" -> show_res show_val (parse_jsonb (unhex a.(0)))
  | "num_encode" -> "ok " ^ hex (compact_encode (parse_num a.(0)))
  | "num_decode" -> show_res show_num (num_decode (unhex a.(0)))
  | "num_decode_old" -> show_res show_num (num_decode_old (unhex a.(0)))
  | "num_cmp" -> "ok =" ^ show_cmp (num_cmp (parse_num a.(0)) (parse_num a.(1)))
  | "num_cmp_old" -> "ok =" ^ show_cmp (num_cmp_old (parse_num a.(0)) (parse_num a.(1)))
  | "num_eq" -> "ok " ^ show_bool (num_eqb (parse_num a.(0)) (parse_num a.(1)))
  | "num_as_i64" -> (match as_i64 (parse_num a.(0)) with Some z -> "ok =" ^ ZA.to_string (zt_of_z z) | None -> "ok =none")
  | "num_as_u64" -> (match as_u64 (parse_num a.(0)) with Some n -> "ok =" ^ ZA.to_string (zt_of_n n) | None -> "ok =none")
  | "num_as_f64" -> "ok =" ^ ZA.format "%016x" (zt_of_n (as_f64 (parse_num a.(0))))
  | _ -> "unknown-op " ^ op

