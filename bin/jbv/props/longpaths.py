"""Long and deeply nested JSONPath expressions (as AST texts, the form `common.path_text` produces).

The evaluators of the model (PathSem.v / SelWalk.v) recurse on the structure of the expression; there is no recursion
budget.  These cases tie that to the crate where it matters: chains of 64 .. 1000 terms of && / || (left-nested as the
parser builds them, right-nested as parentheses give them, mixed), exists(...) nested, filters inside filters."""

TERMS = ['bgt(p(C)|vu1)', 'ble(p(C)|vu3)', 'beq(p(C)|vn)', 'bne(p(C;D61)|vu1)', 'beq(vu1|vu2)', 'beq(vu1|vu1)', 'e(C;D61)', 'e(C;B)',
         'blt(p(C;B)|p(R;B))', 'bge(p(C)|p(R;I(x0)))', 'beq(p(C;D6b)|vs78)', 'bgt(p(C;I(l0))|vu2)']
FALSE, TRUE = 'beq(vu1|vu2)', 'beq(vu1|vu1)'
SIZES = (64, 70, 100, 300, 1000)


def left_chain(ops, terms):
    """((t0 op0 t1) op1 t2) ...: the shape the parser gives `t0 op0 t1 op1 t2 ...` for one operator"""
    e = terms[0]
    for i, t in enumerate(terms[1:]):
        e = 'b%s(%s|%s)' % (ops[i % len(ops)], e, t)
    return e


def right_chain(ops, terms):
    """t0 op (t1 op (t2 ...)): parentheses nested len(terms)-1 deep"""
    e = terms[-1]
    for i, t in enumerate(reversed(terms[:-1])):
        e = 'b%s(%s|%s)' % (ops[i % len(ops)], t, e)
    return e


def nested_exists(depth, inner):
    """exists(@?(exists(@?( ... inner ... ))))"""
    e = inner
    for _ in range(depth):
        e = 'e(C;F%s)' % e
    return e


def rooted(e):
    """the same expression with every `@` replaced by `$` (what a top-level predicate may contain)"""
    return e.replace('(C;', '(R;').replace('(C)', '(R)')


def exprs(r, sizes=SIZES):
    """(label, expression) pairs"""
    out = []
    for n in sizes:
        # decided by the LAST term only: every shorter evaluation gives the other answer
        out.append(('or%d_last' % n, left_chain(['or'], [FALSE] * (n - 1) + [TRUE])))
        out.append(('and%d_last' % n, left_chain(['and'], [TRUE] * (n - 1) + [FALSE])))
        out.append(('or%d_right' % n, right_chain(['or'], [FALSE] * (n - 1) + [TRUE])))
        out.append(('and%d_right' % n, right_chain(['and'], [TRUE] * (n - 1) + [FALSE])))
        ts = [r.choice(TERMS) for _ in range(n)]
        out.append(('or%d' % n, left_chain(['or'], ts)))
        out.append(('and%d' % n, left_chain(['and'], ts)))
        out.append(('mixed%d' % n, left_chain([r.choice(['or', 'and']) for _ in range(n)], ts)))
        out.append(('mixedright%d' % n, right_chain([r.choice(['or', 'and']) for _ in range(n)], ts)))
        # the parser's shape for  a && b && .. || c && d .. || ...
        groups, i = [], 0
        while i < n:
            k = r.randrange(1, 6)
            groups.append(left_chain(['and'], ts[i:i + k]))
            i += k
        out.append(('orofands%d' % n, left_chain(['or'], groups)))
    for d in (1, 3, 10, 40):
        out.append(('exists%d' % d, nested_exists(d, r.choice(['bgt(p(C)|vu1)', TRUE, 'e(C;B)', 'e(C)']))))
        out.append(('exists%d_chain' % d, nested_exists(d, left_chain(['or'], [r.choice(TERMS) for _ in range(70)]))))
    # filters inside filters, each level with its own chain
    e = left_chain(['and', 'or'], [r.choice(TERMS) for _ in range(20)])
    for _ in range(6):
        e = left_chain(['or'], [r.choice(TERMS) for _ in range(15)] + ['e(C;B;F%s)' % e])
    out.append(('filters_in_filters', e))
    return out


def paths(r, sizes=SIZES):
    """(label, path text, is_predicate)"""
    out = []
    for lab, e in exprs(r, sizes):
        pre = r.choice(['R', 'R;B', 'R;W', 'R;B;B'])
        out.append((lab, '%s;F%s' % (pre, e), False))
        if r.random() < 0.5:
            out.append((lab + '_pred', 'P' + rooted(e), True))
    return out
