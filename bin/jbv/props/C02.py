"""C02 — the JSON text parser accepts exactly the documented language, with standard meaning."""
import json
from .. import gen
from .C03 import py_of_json, reject_constant
from . import sizes

SPEC_THEOREM = 'Props/C02: parse_value never panics; RFC 8259 documents parse to the value they denote (model JsonText.v)'
TRUSTED = ['Coq 8.16.1 kernel', 'translator (HEX table, escape characters)', 'extraction + OCaml driver', 'Rust harness',
           'model JsonText.v (cursor model of parser.rs + util.rs); fast_float2 / std number parsing modelled by round_dec (exact arithmetic)',
           'Python json (strict) as an independent RFC 8259 judge for acceptance and meaning']
ASSUMPTIONS = ['fast_float2::parse and str::parse are correctly rounded (modelled by Decimal.round_dec, exercised on halfway and subnormal cases)',
               'for the relaxations beyond RFC 8259 the intended meaning is the model\'s (derived from the change log and tests)']
RULE = 'well-formed documents with every lexical choice (whitespace runs, number spellings, escapes, surrogate pairs, duplicate keys), the documented relaxations, every single-token/byte corruption of them, token soups and raw bytes; non-trivial = accepted input'

import re
NEG0 = re.compile(r'(?<![0-9a-f])i0(?![0-9])')
WS_RFC = [b' ', b'\t', b'\n', b'\r']
WS_RELAX = [b'\x0c', b'\\n', b'\\r', b'\\t', b'\\x0C']


class TextGen:
    def __init__(self, ctx, relax):
        self.ctx, self.r, self.relax = ctx, ctx.rng, relax
        self.used_relax = False

    def ws(self):
        r = self.r
        out = b''
        while r.random() < 0.25:
            if self.relax and r.random() < 0.2:
                out += r.choice(WS_RELAX)
                self.used_relax = True
            else:
                out += r.choice(WS_RFC)
        return out

    def number(self):
        r = self.r
        c = r.random()
        neg = r.random() < 0.3
        if c < 0.35:
            ip = str(r.choice([0, 1, 7, 10, 42, 127, 128, 255, 65535, 2 ** 31, 2 ** 32, 2 ** 53, 2 ** 53 + 1, 2 ** 63 - 1, 2 ** 63, 2 ** 63 + 1, 2 ** 64 - 1, 2 ** 64,
                               10 ** 20, 10 ** 25, 123456789012345678901234567890]))
            frac = exp = ''
        else:
            ip = str(r.choice([0, 1, 2, 9, 10, 17, 123, 9007199254740993, 179769313486231570, 22250738585072011, 4]))
            frac = ('.' + r.choice(['0', '5', '25', '000', '1', '123456789', '9999999999999999999', '000000000000000000001', '7976931348623157'])) if r.random() < 0.7 else ''
            exp = ''
            if r.random() < 0.5 or not frac:
                exp = r.choice('eE') + r.choice(['', '+', '-']) + str(r.choice([0, 1, 2, 5, 10, 22, 23, 100, 300, 308, 309, 323, 324, 325, 400, 5000, 99999999999999999999]))
        return (b'-' if neg else b'') + (ip + frac + exp).encode()

    def string(self):
        """returns (text, meaning bytes or None when the meaning is left to the model)"""
        r = self.r
        out = bytearray(b'"')
        mean = bytearray()
        known = True
        for _ in range(r.choice([0, 1, 1, 2, 3, 5, 8])):
            c = r.random()
            if c < 0.45:
                ch = chr(self.ctx.g.codepoint())
                o = ord(ch)
                if o < 0x20 or ch in '"\\':
                    esc = {'"': b'\\"', '\\': b'\\\\', '\b': b'\\b', '\f': b'\\f', '\n': b'\\n', '\r': b'\\r', '\t': b'\\t'}
                    if o < 0x20 and self.relax and r.random() < 0.4:
                        out += ch.encode()            # raw control character (relaxation)
                        self.used_relax = True
                    elif ch in esc:
                        out += esc[ch]
                    else:
                        out += b'\\u%04x' % o
                else:
                    out += ch.encode('utf-8')
                mean += ch.encode('utf-8')
            elif c < 0.55:
                out += b'\\/'
                mean += b'/'
            elif c < 0.75:
                o = r.choice([0x41, 0xE9, 0x20AC, 0xFFFF, 0x0, 0x7F, 0x2028, 0xD7FF, 0xE000])
                out += (b'\\u%04x' if r.random() < 0.5 else b'\\u%04X') % o
                mean += chr(o).encode('utf-8')
            elif c < 0.85:
                o = r.choice([0x10000, 0x1F600, 0x10FFFF, 0x1D11E])
                o2 = o - 0x10000
                out += b'\\u%04x\\u%04X' % (0xD800 + (o2 >> 10), 0xDC00 + (o2 & 0x3FF))
                mean += chr(o).encode('utf-8')
            elif self.relax:
                self.used_relax = True
                known = False
                k = r.random()
                if k < 0.3:
                    out += b'\\u{%04x}' % r.choice([0x41, 0xE9, 0x20AC, 0xD800, 0xDC00])
                elif k < 0.5:
                    out += r.choice([b'\\uD800', b'\\uDBFF', b'\\uDC00', b'\\udfff'])
                elif k < 0.7:
                    out += r.choice([b'\\uD800\\u0041', b'\\uD800x', b'\\uD800\\n', b'\\uD800\\uD800', b'\\u{D83D}\\u{DE00}', b'\\uD83D\\u{DE00}'])
                else:
                    out += r.choice([b'\x01', b'\x1f', b'\x00', b'\x7f'])
            else:
                out += b'z'
                mean += b'z'
        out += b'"'
        return bytes(out), (bytes(mean) if known else None)

    def value(self, depth):
        r = self.r
        c = r.random()
        if depth <= 0 or c < 0.45:
            k = r.random()
            if k < 0.1:
                return b'null'
            if k < 0.2:
                return r.choice([b'true', b'false'])
            if k < 0.55:
                return self.number()
            return self.string()[0]
        if c < 0.75:
            n = r.choice([0, 1, 2, 3, 4])
            return b'[' + self.ws() + b','.join(self.ws() + self.value(depth - 1) + self.ws() for _ in range(n)) + b']'
        n = r.choice([0, 1, 2, 3])
        members = []
        keys = [b'"a"', b'"b"', b'"a"', b'""', b'"k\\u0041"', b'"kA"']
        for _ in range(n):
            k = r.choice(keys) if r.random() < 0.6 else self.string()[0]
            members.append(self.ws() + k + self.ws() + b':' + self.ws() + self.value(depth - 1) + self.ws())
        return b'{' + self.ws() + b','.join(members) + b'}'

    def doc(self):
        return self.ws() + self.value(self.r.choice([0, 1, 2, 3, 4])) + self.ws()


def python_judge(t):
    """('ok', value) if Python's strict parser accepts t as RFC 8259 with an encodable meaning, ('reject',) , or ('skip',)"""
    try:
        s = t.decode('utf-8')
    except UnicodeDecodeError:
        return ('reject',)
    try:
        x = json.loads(s, parse_constant=reject_constant, strict=True)
    except RecursionError:
        return ('skip',)
    except Exception:
        return ('reject',)
    try:
        v = py_of_json(x)
        gen.vtext(v).encode('ascii')
        # lone surrogates are accepted by Python; their meaning here is a documented relaxation: leave to the model
        def ok(v):
            if v[0] == 's':
                v[1].decode('utf-8')
            elif v[0] == 'a':
                [ok(x) for x in v[1]]
            elif v[0] == 'o':
                for k, x in v[1]:
                    k.decode('utf-8')
                    ok(x)
        ok(v)
    except Exception:
        return ('skip',)
    # Python allows leading/trailing whitespace only of the RFC kinds, and nothing else: it is an RFC judge
    return ('ok', v)


TOKENS = [b'{', b'}', b'[', b']', b',', b':', b'"', b'"a"', b'""', b'null', b'true', b'false', b'nul', b'0', b'1', b'-', b'-0', b'01', b'1.', b'.5', b'1e', b'1e5',
          b'1E+2', b'-1.5e-3', b' ', b'\t', b'\n', b'\x0c', b'\\n', b'\\x0C', b'\\', b'"\\u0041"', b'"\\uD800"', b'"\\u{41}"', b'"\\u12"', b'"\\', b'"\\u', b'"\\u{',
          b'\x00', b'\x80', b'\xff', b'"\xc3"', b'"\xc3\xa9"', b'NaN', b'Infinity', b'+1', b"'a'", b'//', b'1e400', b'-1e400', b'18446744073709551616']


def generate(ctx):
    r = ctx.rng
    docs = []
    for _ in range(ctx.scale(2500, 100000)):
        tg = TextGen(ctx, relax=r.random() < 0.35)
        t = tg.doc()
        docs.append(t)
        ctx.add('parse_value %s' % gen.hexarg(t), meta=('doc', t, tg.used_relax))
        ctx.count('docs', 'relaxed' if tg.used_relax else 'rfc')
    # integers just beyond the 64-bit ranges, systematically: every leading digit and 20..24 digits (an accumulator that wraps
    # silently depends on the 19-digit prefix), the neighbours of 2^64 and -2^63, then a random sample; each must be read as the
    # nearest double (decided by the model diff and, with exact integers, by the Python judge)
    big = []
    for nd in (20, 21, 22, 24, 30, 40):
        for d in range(1, 10):
            big.append(str(d) + '0' * (nd - 1))
            big.append(str(d) + '9' * (nd - 1))
            big.append(str(d) + ''.join(r.choice('0123456789') for _ in range(nd - 1)))
    big += [str((1 << 64) + k) for k in (-2, -1, 0, 1, 2, 1 << 10, 1 << 32)] + [str(k * (1 << 64) + j) for k in (2, 3, 5, 10, 16) for j in (0, 1, 12345)]
    big += [str(r.randrange(1 << 64, 1 << 70)) for _ in range(60)]
    for t in big + ['-' + x for x in big] + ['-' + str((1 << 63) + k) for k in (-1, 0, 1, 2, 1 << 20)]:
        t = t.encode()
        docs.append(t)
        ctx.add('parse_value %s' % gen.hexarg(t), meta=('doc', t, False))
        if r.random() < 0.3:
            t2 = b'[' + t + b',{"k":' + t + b'}]'
            docs.append(t2)
            ctx.add('parse_value %s' % gen.hexarg(t2), meta=('doc', t2, False))
    # wide objects with duplicated keys (last one wins whatever the size: a member list sorted unstably, a small-map fast path
    # ...) and long arrays; one occurrence of the duplicated key spelled with an escape
    for w in (8, 16, 17, 32, 33, 40, 64, 100, 300):
        for order in ('asc', 'desc', 'mixed'):
            idx = list(range(w))
            if order == 'desc':
                idx.reverse()
            elif order == 'mixed':
                r.shuffle(idx)
            members = [('k%04d' % i, str(i)) for i in idx]
            for (p1, p2) in ((0, 2), (0, w - 1), (w // 2, w - 1), (1, w // 2), (w - 2, w - 1)):
                if p1 < p2 < w:
                    ms = list(members)
                    ms[p2] = (ms[p1][0], str(1000 + p2))
                    parts = []
                    for j, (k, v) in enumerate(ms):
                        kk = k if j != p2 or r.random() < 0.5 else k.replace('k', '\\u006b')
                        parts.append('"%s":%s' % (kk, v))
                    t = ('{' + ','.join(parts) + '}').encode()
                    docs.append(t)
                    ctx.add('parse_value %s' % gen.hexarg(t), meta=('doc', t, False))
        t = ('[' + ','.join(str(i) for i in range(w)) + ']').encode()
        docs.append(t)
        ctx.add('parse_value %s' % gen.hexarg(t), meta=('doc', t, False))
    # long strings and keys (300 and 5000 bytes through the model as well; 70 000 bytes -- beyond a 16-bit length -- through the
    # implementation only, the model's string reader being quadratic: those are judged by Python's strict parser alone), with an
    # escape / a multi-byte character / a surrogate pair as the very LAST thing in the string; arrays and objects of 1000 members
    # (sizes.py; second review H2)
    tails = [b'', b'\\n', b'\\u00e9', b'\\ud83d\\ude00', '\u00e9'.encode(), '\U0001F600'.encode(), b'\\\\', b'\\"', b'\\/']
    longest = 0
    for n in (300, 5000, 70000):
        for j, tail in enumerate(tails if n < 70000 else tails[:5]):
            body = sizes.text(n - len(tail), j) + tail
            lit = b'"' + body + b'"'
            longest = max(longest, len(lit))
            for t in (lit, b'[' + lit + b', 1]', b'{"a":1,' + lit + b' : [2]}') if j < 3 else (b'[1,' + lit + b']',):
                if n < 70000:
                    docs.append(t)          # (the pool the parse_lazy_value sample is drawn from: model-sized texts only)
                ctx.add('parse_value %s' % gen.hexarg(t), meta=('doc', t, False), diff=n < 70000)
    for w in (255, 256, 257, 1000):
        for t in (b'[' + b','.join(b'%d' % i for i in range(w)) + b']', b'[' + b' , '.join(b'"s%d"' % i for i in range(w)) + b']',
                  b'{' + b','.join(b'"k%04d":%d' % (i, i) for i in range(w)) + b'}', b'{' + b','.join(b'"k%04d":[]' % (w - i) for i in range(w)) + b'}',
                  b'[' * w + b']' * w):
            docs.append(t)
            ctx.add('parse_value %s' % gen.hexarg(t), meta=('doc', t, False))
    ctx.stats['size_maxima'] = {'longest_string_literal_bytes': longest, 'widest_container_in_a_text': 1000, 'deepest_nesting_in_a_text': 1000}
    # classic hard numbers
    for t in [b'0.1', b'1e23', b'5e-324', b'3e-324', b'2e-324', b'2.2250738585072011e-308', b'1.7976931348623157e308', b'1.7976931348623159e308',
              b'9007199254740993', b'9007199254740993.0', b'7.91252914157506e-14', b'8.675514674482229e-196', b'1e400', b'-1e400', b'1e-400', b'-0', b'-0.0', b'0e0',
              b'18446744073709551615', b'18446744073709551616', b'-9223372036854775808', b'-9223372036854775809', b'123456789012345678901234567890e-30',
              b'0.000000000000000000000000000000000000000000000000000000000000000000000000000001e78', b'4.9406564584124654e-324', b'2.4703282292062328e-324',
              b'2.4703282292062327e-324', b'1e99999999999999999999', b'1e-99999999999999999999', b'0e99999999999999999999']:
        docs.append(t)
        ctx.add('parse_value %s' % gen.hexarg(t), meta=('doc', t, False))
    # the boundary of the grammar (coq/JsonGrammar.v): each named relaxation / deviation and the nearest texts outside the language
    for t in [b'"\\uD800\\u0041"', b'"\\uD800\\u{0041}"', b'"\\uD800\\uD800\\uDC00"', b'"\\u{D800}"', b'"\\u{DC00}"', b'"\\uD83D\\u{DE00}"',
              b'"\\u{D83D}\\uDE00"', b'"\\u{D83D}\\u{DE00}"', b'"\\u{00e9}"', b'"\\u{1F600}"', b'"\\u{41}"', b'"\\u{041}"', b'"\\u{00041}"', b'"\\u{0041"',
              b'"\\uD800"', b'"\\uD800x"', b'"\\uD800\\n"', b'"\\uD800\\u"', b'"\\uD800\\u12"', b'"\\uDC00\\uD800"', b'"\\u00G0"', b'"\\U0041"', b'"\\a"', b'"\\x0C"',
              b'[1\\x0C,\\n2\\t]\\r', b'\\x0C1', b'\\x0c1', b'\\f1', b'\\ 1', b'\\b1', b'\\n', b'1\\', b'1\\x0', b'\x0b1', b'\xa01', b'{"a"\\n:\\t1\x0c}', b'{\\n}', b'[\\x0C]',
              b'"\x00\x1f\x7f"', b'"\xc3"', b'"\xc3\\u00a9"', b'"\xed\xa0\x80"', b'"\xf4\x90\x80\x80"', b'"\xc0\xaf"',
              b'01', b'-01', b'1.', b'.5', b'-.5', b'+1', b'1e', b'1e+', b'-', b'--1', b'0x10', b'1.5.2', b'1e5e5', b'00', b'-0', b'0.0e-0', b'1E+02',
              b'[1,]', b'[,1]', b'[1 2]', b'{"a":1,}', b'{,}', b'{"a" 1}', b'{a:1}', b'{1:1}', b'{"a":1 "b":2}', b'{"a":1,"a":2,"b":3,"a":4}', b'', b' ', b'1 2', b'nulll', b'tru']:
        ctx.add('parse_value %s' % gen.hexarg(t), kind='grammar', meta=('raw', t))
    # corruptions of well-formed documents
    for t in r.sample(docs, min(len(docs), ctx.scale(500, 10000))):
        if len(t) > 80:
            continue
        for i in range(len(t)):
            ctx.add('parse_value %s' % gen.hexarg(t[:i]), kind='truncate', meta=('raw', t[:i]))
        for _ in range(6):
            i = r.randrange(len(t) + 1)
            tok = r.choice(TOKENS)
            c = r.random()
            m = t[:i] + tok + t[i:] if c < 0.4 else (t[:i] + t[i + 1:] if c < 0.7 else t[:i] + tok + t[i + 1:])
            ctx.add('parse_value %s' % gen.hexarg(m), kind='corrupt', meta=('raw', m))
    for _ in range(ctx.scale(6000, 300000)):
        m = b''.join(r.choice(TOKENS) for _ in range(r.randrange(1, 8)))
        ctx.add('parse_value %s' % gen.hexarg(m), kind='soup', meta=('raw', m))
    for _ in range(ctx.scale(1000, 50000)):
        m = bytes(r.randrange(256) for _ in range(r.randrange(0, 10)))
        ctx.add('parse_value %s' % gen.hexarg(m), kind='bytes', meta=('raw', m))
    # parse_lazy_value, text branch
    for t in r.sample(docs, min(len(docs), 300)):
        if t[:1] not in (b' ', b'@', b'\x80'):
            ctx.add('parse_lazy_value %s' % gen.hexarg(t))


def judge(ctx):
    impl = ctx.impl
    for c in ctx.cases:
        o = impl.get(c.id, 'missing')
        if o == 'panic' or o.startswith('abort'):
            ctx.violate('the text parser panics', case=c.line, observed=o)
            continue
        m = c.meta
        if not m:
            continue
        t = m[1]
        j = python_judge(t)
        if j[0] == 'ok':
            want = 'ok ' + gen.vtext(j[1])
            # "-0" is the integer zero whichever of the two integer types holds it
            if NEG0.sub('u0', o) != want:
                ctx.violate('an RFC 8259 document is rejected or given a different meaning', case=c.line, text=repr(t)[:200], expected=want, observed=o)
            ctx.count('python_judge', 'accepted')
        elif j[0] == 'reject':
            ctx.count('python_judge', 'rejected-by-strict' + ('/accepted-by-crate' if o.startswith('ok') else ''))
        if m[0] == 'doc' and not o.startswith('ok '):
            ctx.violate('a well-formed (possibly relaxed) document is rejected', case=c.line, text=repr(t)[:200], observed=o)
