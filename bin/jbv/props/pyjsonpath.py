"""pyjsonpath.py — an INDEPENDENT evaluator of the crate's JSONPath dialect over the tuple trees of gen.py.

Written from the text of property C08 and the operator table of the README's SQL/JSONPath section only; it shares nothing with
coq/PathSem.v, coq/SelWalk.v or src/jsonpath/selector.rs.  What the two sources say (and nothing more):

  $                 the root element
  @                 the current element in a filter expression
  .name :name ["name"]   the member of that name of an OBJECT (anything else has no such member: nothing)
  .*                all member values of an OBJECT, in the object's order (anything else: nothing)
  [*]               all elements of an ARRAY; a non-array passes through unchanged (property text)
  [p, q to r, ..]   0-based positions in an ARRAY, `last` = index of the last element, `last - n` / `last + n` relative to it;
                    listed order, repetitions kept; a position outside the array selects nothing, a range is clamped to the array
  ?(expr)           keeps an item when expr holds with @ = that item
  expr              comparison == != < <= > >= between two operands: holds when SOME pair of operand values satisfies it;
                    an operand is a literal or a path from @ or $ (all the values the path selects); && || parentheses;
                    exists(path) = the path selects something
  stand-alone predicate   one boolean

What neither source defines is NOT decided here; `Unjudged(reason)` is raised (the caller counts the reason):
  * an index step applied to a non-array item (pass-through like `[*]`, or nothing like `.name`?)
  * a comparison whose only candidate pairs are of different kinds (number vs string, null vs boolean ...) or involve a container
    value or a NaN; a pair of the same scalar kind is compared by value (numbers exactly, across int / float encodings; strings by
    code point = UTF-8 byte order; false < true; null = null)
  * arithmetic
Truth values are three-valued inside && / || (unknown && false = false, unknown || true = true), so an undefined comparison only
makes the path unjudged when it decides.
"""
from fractions import Fraction


class Unjudged(Exception):
    pass


class BadPathText(Exception):
    pass


# ------------------------------------------------------------------------------------------- neutral AST text -> tuples
class _P:
    def __init__(self, s):
        self.s, self.i = s, 0

    def peek(self):
        return self.s[self.i] if self.i < len(self.s) else ''

    def eat(self, c):
        if self.peek() != c:
            raise BadPathText('expected %r at %d in %r' % (c, self.i, self.s[:80]))
        self.i += 1

    def hexrun(self):
        st = self.i
        while self.i < len(self.s) and self.s[self.i] in '0123456789abcdef':
            self.i += 1
        return bytes.fromhex(self.s[st:self.i])

    def intrun(self):
        st = self.i
        if self.peek() == '-':
            self.i += 1
        while self.i < len(self.s) and self.s[self.i].isdigit():
            self.i += 1
        return int(self.s[st:self.i])

    def index(self):
        c = self.peek()
        self.i += 1
        if c not in 'xl':
            raise BadPathText('index')
        return (c, self.intrun())

    def pathlist(self):
        out = [self.step()]
        while self.peek() == ';':
            self.i += 1
            out.append(self.step())
        return out

    def step(self):
        c = self.peek()
        self.i += 1
        if c in 'RCWB':
            return (c,)
        if c in 'DKO':
            return (c, self.hexrun())
        if c == 'I':
            self.eat('(')
            ixs = []
            while True:
                if self.peek() == 'S':
                    self.i += 1
                    a = self.index()
                    self.eat('~')
                    ixs.append(('S', a, self.index()))
                else:
                    ixs.append(('X', self.index()))
                if self.peek() == ',':
                    self.i += 1
                else:
                    self.eat(')')
                    break
            return ('I', ixs)
        if c in 'FP':
            return (c, self.expr())
        raise BadPathText('step %r at %d' % (c, self.i))

    def num(self):
        c = self.peek()
        self.i += 1
        if c in 'iu':
            return (c, self.intrun())
        if c == 'd':
            st = self.i
            self.i += 16
            return ('d', int(self.s[st:self.i], 16))
        raise BadPathText('number')

    def expr(self):
        c = self.peek()
        self.i += 1
        if c in 'pe':
            self.eat('(')
            ps = self.pathlist()
            self.eat(')')
            return (c, ps)
        if c == 'v':
            k = self.peek()
            if k == 'n':
                self.i += 1
                return ('v', ('n',))
            if k in 'tf':
                self.i += 1
                return ('v', ('b', k == 't'))
            if k == 's':
                self.i += 1
                return ('v', ('s', self.hexrun()))
            return ('v', self.num())
        if c == 'b':
            st = self.i
            while self.peek() != '(':
                self.i += 1
            op = self.s[st:self.i]
            self.eat('(')
            l = self.expr()
            self.eat('|')
            r = self.expr()
            self.eat(')')
            return ('b', op, l, r)
        if c == 'A':
            k = self.peek()
            self.i += 2
            self.eat('(')
            if k == 'b':
                l = self.expr()
                self.eat('|')
                r = self.expr()
                self.eat(')')
                return ('Ab', l, r)
            e = self.expr()
            self.eat(')')
            return ('Au', e)
        raise BadPathText('expr %r at %d' % (c, self.i))


def parse_path_text(s):
    p = _P(s)
    ps = p.pathlist()
    if p.i != len(s):
        raise BadPathText('trailing text')
    return ps


# ------------------------------------------------------------------------------------------- values
def num_value(v):
    """exact value of a number: Fraction, or 'inf' / '-inf' / 'nan'"""
    if v[0] in 'iu':
        return Fraction(v[1])
    b = v[1]
    e, m = (b >> 52) & 0x7FF, b & ((1 << 52) - 1)
    if e == 0x7FF:
        return 'nan' if m else ('-inf' if b >> 63 else 'inf')
    q = Fraction(m, 1 << 52) * Fraction(2) ** (-1022) if e == 0 else (1 + Fraction(m, 1 << 52)) * Fraction(2) ** (e - 1023)
    return -q if b >> 63 else q


def _num_cmp(a, b):
    if a == b:
        return 0
    if a == '-inf' or b == 'inf':
        return -1
    if a == 'inf' or b == '-inf':
        return 1
    return -1 if a < b else 1


def kind_of(v):
    return 'num' if v[0] in 'iud' else v[0]


def compare_pair(a, b):
    """-1 / 0 / 1 for two values of the same scalar kind; None when the documentation does not say"""
    ka, kb = kind_of(a), kind_of(b)
    if ka != kb or ka in 'ao':
        return None
    if ka == 'n':
        return 0
    if ka == 'b':
        return (a[1] > b[1]) - (a[1] < b[1])
    if ka == 's':
        return (a[1] > b[1]) - (a[1] < b[1])
    x, y = num_value(a), num_value(b)
    if x == 'nan' or y == 'nan':
        return None
    return _num_cmp(x, y)


OPS = {'eq': lambda c: c == 0, 'ne': lambda c: c != 0, 'lt': lambda c: c < 0, 'le': lambda c: c <= 0, 'gt': lambda c: c > 0, 'ge': lambda c: c >= 0}


# ------------------------------------------------------------------------------------------- evaluation
class Eval:
    def __init__(self, root):
        self.root = root
        self.reasons = set()

    def resolve(self, ix, n):
        return ix[1] if ix[0] == 'x' else n - 1 + ix[1]

    def step(self, items, st):
        k = st[0]
        out = []
        if k in 'DKO':
            for v in items:
                if v[0] == 'o':
                    out += [x for kk, x in v[1] if kk == st[1]]
            return out
        if k == 'W':
            for v in items:
                if v[0] == 'o':
                    out += [x for _, x in v[1]]
            return out
        if k == 'B':
            for v in items:
                if v[0] == 'a':
                    out += v[1]
                else:
                    out.append(v)
            return out
        if k == 'I':
            for v in items:
                if v[0] != 'a':
                    raise Unjudged('index step on a non-array item')
                n = len(v[1])
                for ix in st[1]:
                    if ix[0] == 'X':
                        j = self.resolve(ix[1], n)
                        if 0 <= j < n:
                            out.append(v[1][j])
                    else:
                        a, b = self.resolve(ix[1], n), self.resolve(ix[2], n)
                        a, b = max(a, 0), min(b, n - 1)
                        out += v[1][a:b + 1] if a <= b else []
            return out
        if k == 'F':
            for v in items:
                t = self.truth(st[1], v)
                if t is None:
                    raise Unjudged(self.last_reason)
                if t:
                    out.append(v)
            return out
        raise Unjudged('step kind %s inside a path' % k)

    def path(self, ps, cur):
        """items selected by a path whose first step is R (root) or C (current)"""
        if not ps:
            raise Unjudged('empty path')
        if ps[0][0] == 'R':
            items = [self.root]
        elif ps[0][0] == 'C':
            if cur is None:
                raise Unjudged('@ outside a filter')
            items = [cur]
        else:
            raise Unjudged('a path that starts with neither $ nor @')
        for st in ps[1:]:
            if st[0] in 'RC':
                raise Unjudged('$ or @ in the middle of a path')
            items = self.step(items, st)
        return items

    def operand(self, e, cur):
        if e[0] == 'v':
            return [e[1]]
        if e[0] == 'p':
            return self.path(e[1], cur)
        raise Unjudged('arithmetic' if e[0] in ('Ab', 'Au') else 'an operand that is neither a literal nor a path')

    last_reason = 'undefined comparison'

    def truth(self, e, cur):
        """True / False / None (the documentation does not decide; self.last_reason says why)"""
        k = e[0]
        if k == 'e':
            try:
                return len(self.path(e[1], cur)) > 0
            except Unjudged as u:
                self.last_reason = str(u)
                return None
        if k == 'b' and e[1] in ('and', 'or'):
            l = self.truth(e[2], cur)
            if e[1] == 'and' and l is False:
                return False
            if e[1] == 'or' and l is True:
                return True
            r = self.truth(e[3], cur)
            if e[1] == 'and':
                return False if r is False else (None if l is None or r is None else True)
            return True if r is True else (None if l is None or r is None else False)
        if k == 'b':
            try:
                ls, rs = self.operand(e[2], cur), self.operand(e[3], cur)
            except Unjudged as u:
                self.last_reason = str(u)
                return None
            unknown = None
            for a in ls:
                for b in rs:
                    c = compare_pair(a, b)
                    if c is None:
                        ka, kb = kind_of(a), kind_of(b)
                        unknown = ('a container operand value' if ka in 'ao' or kb in 'ao' else 'a NaN operand' if ka == kb == 'num'
                                   else 'cross-kind comparison')
                    elif OPS[e[1]](c):
                        return True
            if unknown:
                self.last_reason = unknown
                return None
            return False
        self.last_reason = 'arithmetic' if k in ('Ab', 'Au') else 'an expression that is not a condition'
        return None


def select_all(root, ps):
    """the items an `all`-mode selection returns, as sub-trees of root (a stand-alone predicate: one boolean).
    ps: AST tuples (common.gen_path / parse_path_text).  Raises Unjudged."""
    ev = Eval(root)
    if len(ps) == 1 and ps[0][0] == 'P':
        t = ev.truth(ps[0][1], None)
        if t is None:
            raise Unjudged(ev.last_reason)
        return [('b', t)]
    if any(st[0] == 'P' for st in ps):
        raise Unjudged('a predicate inside a longer path')
    return ev.path(ps, None)
