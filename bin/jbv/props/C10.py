"""C10 — decoding untrusted bytes never panics and never yields ill-formed strings."""
import struct
from .. import gen
from . import common, sizes
from .C02 import TextGen, python_judge, NEG0

SPEC_THEOREM = 'Props/C10: parse_jsonb/from_slice never Panic; decoded strings are UTF-8; proper prefixes are rejected; valid text falls back'
TRUSTED = ['Coq 8.16.1 kernel', 'translator (tags, masks)', 'extraction + OCaml driver', 'Rust harness', 'model Codec.v (cursor decoder, every get/index/unwrap explicit), JsonText.v']
ASSUMPTIONS = ['allocation failure is outside the model (capacity hints are bounded by the input after the fix)']
RULE = 'valid encodings under single faults: truncation at every offset, every single-bit flip, byte substitution by {00,01,7F,80,FF,tag bytes} at every offset, insert/delete at every offset, header-count and entry type/length rewrites, a boundary shifted between neighbouring entries (multi-byte keys and strings); raw random bytes; valid JSON texts; non-trivial = decoder returns a value'

SUBST = [0x00, 0x01, 0x7F, 0x80, 0xFF, 0x10, 0x20, 0x30, 0x40, 0x50, 0x60, 0x70]


def generate(ctx):
    r = ctx.rng
    ds = common.docs(ctx, ctx.scale(40, 3000), finite=False, depth=3)[::2]
    ctx.prefix_ids = []
    seen = set()

    def add(b, kind):
        if b in seen:
            return
        seen.add(b)
        h = gen.hexarg(b)
        ctx.add('parse_jsonb %s' % h, kind=kind)
        ctx.add('from_slice %s' % h, kind=kind)
        ctx.add('utf8_check %s' % h, kind=kind, diff=False, meta=('utf8',))

    # a fixed corpus next to the random documents: objects and arrays whose keys / strings are multi-byte, so that a
    # boundary moved between two neighbouring keys (or strings) falls inside a character while the area as a whole stays
    # well-formed UTF-8 (a decoder validating the concatenation instead of the pieces); also nested below the top level
    n1, n2 = ('u', 1), ('u', 2)
    mb = [('o', [('aé'.encode(), n1), (b'b', n2)]), ('o', [(b'a', n1), ('é'.encode(), n2)]), ('o', [('é'.encode(), n1), ('ü'.encode(), n2)]),
          ('o', [('日本'.encode(), n1), ('語'.encode(), n2), ('𝄞z'.encode(), ('n',))]), ('o', [('é'.encode(), ('s', 'ü'.encode())), ('ü'.encode(), ('s', 'é'.encode()))]),
          ('a', [('s', 'aé'.encode()), ('s', 'üb'.encode()), ('s', '語'.encode())]),
          ('a', [('o', [('aé'.encode(), n1), ('éa'.encode(), n2)])]), ('o', [(b'k', ('o', [('é'.encode(), n1), ('ée'.encode(), n2)]))])]
    ds = mb + ds
    # valid encodings nested 100 .. 600 levels, whole, cut short and with the innermost header word changed (only documents of up
    # to 120 bytes are used below: a depth counter of the decoder -- a u8, a limit off by one -- never met a deep document)
    for d in (100, 127, 128, 129, 255, 256, 257, 300, 511, 512, 513, 600):
        for kd in 'ao':
            v = ('a', []) if kd == 'a' else ('o', [])
            for _ in range(d):
                v = ('a', [v]) if kd == 'a' else ('o', [(b'k', v)])
            e = gen.enc(v)
            add(e, 'valid')
            add(e[:-1], 'prefix')
            add(e[:-4] + b'\x60\x00\x00\x01', 'bitflip')
            add(e[:-4] + b'\x80\x00\x00\x01', 'bitflip')
    for v in ds:
        e = gen.enc(v)
        if len(e) > 120:
            continue
        add(e, 'valid')
        for i in range(len(e)):
            p = e[:i]
            h = gen.hexarg(p)
            ctx.prefix_ids.append((ctx.add('parse_jsonb %s' % h, kind='prefix').id, ctx.add('from_slice %s' % h, kind='prefix').id, v, i))
        for i in range(len(e)):
            for bit in range(8):
                add(e[:i] + bytes([e[i] ^ (1 << bit)]) + e[i + 1:], 'bitflip')
            for s in r.sample(SUBST, 4):
                add(e[:i] + bytes([s]) + e[i + 1:], 'subst')
            add(e[:i] + e[i + 1:], 'delete')
            add(e[:i] + bytes([r.choice(SUBST)]) + e[i:], 'insert')
        # header count and entry words rewritten
        if v[0] in 'ao':
            h0 = struct.unpack('>I', e[:4])[0]
            n = h0 & 0x1FFFFFFF
            for cnt in (0, n + 1, max(n - 1, 0), 0x1FFFFFFF, 0xFFFFFF, 2 * n + 1):
                add(struct.pack('>I', (h0 & 0xE0000000) | cnt) + e[4:], 'count')
            for kind in (0x20000000, 0x40000000, 0x80000000, 0x60000000, 0xA0000000, 0x00000000):
                add(struct.pack('>I', kind | n) + e[4:], 'kind')
            k = n if v[0] == 'a' else 2 * n
            for j in range(k):
                off = 4 + 4 * j
                w = struct.unpack('>I', e[off:off + 4])[0]
                ln = w & 0x0FFFFFFF
                for ty in range(8):
                    add(e[:off] + struct.pack('>I', (ty << 28) | ln) + e[off + 4:], 'entry-type')
                for l2 in (0, ln + 1, max(ln - 1, 0), 0x0FFFFFFF, 9, 1):
                    add(e[:off] + struct.pack('>I', (w & 0xF0000000) | l2) + e[off + 4:], 'entry-len')
            # a boundary moved between two neighbouring entries, the total length unchanged
            for j in range(k - 1):
                off = 4 + 4 * j
                w1, w2 = struct.unpack('>II', e[off:off + 8])
                l1, l2 = w1 & 0x0FFFFFFF, w2 & 0x0FFFFFFF
                for d in (1, 2, 3, -1, -2, -3):
                    if 0 <= l1 + d and 0 <= l2 - d:
                        add(e[:off] + struct.pack('>II', (w1 & 0xF0000000) | (l1 + d), (w2 & 0xF0000000) | (l2 - d)) + e[off + 8:], 'boundary-shift')
    # the same faults on BIG buffers (300 bytes .. 64 KiB: strings / keys of 256 .. 65536 bytes, 257 and 1000 members; sizes.py, second
    # review H2) at SAMPLED offsets: around every entry word, around the byte positions 255 / 256 / 65535 / 65536, around the start and
    # the end of the long payload, and the end of the buffer
    want = ('str256-elem', 'str257-value', 'key256-last', 'key4096-first', 'mbstr257-elem', 'mbkey256', 'str4096-elem', 'str65535-elem',
            'str65536-value', 'key65536-last', 'arr257-num', 'arr256-str', 'obj256', 'obj257', 'arr1000-mixed', 'obj1000')
    for lab, v in sizes.string_docs() + sizes.container_docs():
        if lab not in want:
            continue
        e = gen.enc(v)
        n = len(e)
        add(e, 'valid')
        huge = n > 5000            # the model decoder needs 0.1 .. 0.4 s per buffer of that size: fewer offsets there
        offs = set(range(0, min(n, 20 if huge else 40))) | set(range(max(0, n - (6 if huge else 12)), n))
        for c in (255, 256, 257, 4095, 4096, 65535, 65536, n // 2):
            offs |= set(range(max(0, c - (1 if huge else 2)), min(n, c + (2 if huge else 3))))
        offs |= set(r.sample(range(n), min(n, 10 if huge else 40)))
        ctx.count('big_buffers', lab)
        for i in sorted(offs):
            h = gen.hexarg(e[:i])
            ctx.prefix_ids.append((ctx.add('parse_jsonb %s' % h, kind='prefix').id, ctx.add('from_slice %s' % h, kind='prefix').id, v, i))
            add(e[:i] + bytes([e[i] ^ (1 << r.randrange(8))]) + e[i + 1:], 'bitflip')
            add(e[:i] + bytes([r.choice(SUBST)]) + e[i + 1:], 'subst')
            if i % 3 == 0:
                add(e[:i] + e[i + 1:], 'delete')
                add(e[:i] + bytes([r.choice(SUBST)]) + e[i:], 'insert')
        # entry words: length off by one / by 256 / by 65536 (a dropped or doubled length byte), the boundary with the neighbour moved
        k = len(v[1]) if v[0] == 'a' else 2 * len(v[1])
        for j in sorted(set(list(range(min(k, 6))) + list(range(max(0, k - 3), k)) + [k // 2])):
            off = 4 + 4 * j
            w = struct.unpack('>I', e[off:off + 4])[0]
            ln = w & 0x0FFFFFFF
            for l2 in (ln + 1, max(ln - 1, 0), ln + 256, max(ln - 256, 0), ln + 65536, ln & 0xFF, ln & 0xFFFF, ln >> 8):
                if l2 != ln:
                    add(e[:off] + struct.pack('>I', (w & 0xF0000000) | l2) + e[off + 4:], 'entry-len')
            if j + 1 < k:
                w2 = struct.unpack('>I', e[off + 4:off + 8])[0]
                for d in (1, -1, 256, -256):
                    l1, l2 = ln + d, (w2 & 0x0FFFFFFF) - d
                    if l1 >= 0 and l2 >= 0:
                        add(e[:off] + struct.pack('>II', (w & 0xF0000000) | l1, (w2 & 0xF0000000) | l2) + e[off + 8:], 'boundary-shift')
        h0 = struct.unpack('>I', e[:4])[0]
        cnt = h0 & 0x1FFFFFFF
        for c2 in (cnt + 1, cnt - 1, cnt & 0xFF, cnt + 256, max(cnt - 256, 0), cnt >> 8):
            if c2 != cnt and c2 >= 0:
                add(struct.pack('>I', (h0 & 0xE0000000) | c2) + e[4:], 'count')
    # known panics of the code before the fixes
    for h in ['2000000020000000', '20000000200000026000', '4000000120000001' + '00000000' + '50', '2000000010000002fffe', '4000000110000002' + '00000000' + 'fffe',
              '400000011000000120000001' + '61' + '', '3132333435363738', '2d31323334353637', '2261626330303030' + '22']:
        add(bytes.fromhex(h), 'witness')
    for _ in range(ctx.scale(3000, 400000)):
        b = bytes(r.randrange(256) for _ in range(r.randrange(0, 24)))
        if r.random() < 0.7 and b:
            b = bytes([r.choice([0x20, 0x40, 0x80])]) + b[1:]
        add(b, 'random')
    # valid JSON text must be decoded by the text fallback
    ctx.texts = []
    for _ in range(ctx.scale(500, 30000)):
        t = TextGen(ctx, relax=False).doc().lstrip(b' ')
        if not t or t[:1] == b' ':
            continue
        ctx.texts.append((ctx.add('from_slice %s' % gen.hexarg(t), kind='text').id, t))
    for t in [b'12345678', b'-1234567', b'"abc0000"', b'[1,2,3,4]', b'123456789012', b'"\\u0041bcdefgh"', b'1.5e300000', b'00000000']:
        ctx.texts.append((ctx.add('from_slice %s' % gen.hexarg(t), kind='text').id, t))
    # DecodeMore.from_slice_text needs no "does not begin with a space": white-space-initial texts fall back too
    for t in [b' 12345678', b'  [1,2,3]', b'\t[1,2]', b'\n{"a":1}', b' "abc"', b'   0', b' 000', b'    null', b' \r\n true']:
        ctx.texts.append((ctx.add('from_slice %s' % gen.hexarg(t), kind='text').id, t))


def judge(ctx):
    impl = ctx.impl
    for c in ctx.cases:
        o = impl.get(c.id, 'missing')
        if o == 'panic' or o.startswith('abort'):
            ctx.violate('a binary decoder panics on untrusted bytes', case=c.line, observed=o)
        if c.meta and c.meta[0] == 'utf8' and o == 'ok =false':
            ctx.violate('a decoded value contains a string or key that is not well-formed UTF-8', case=c.line, observed=o)
        ctx.count('fault_kind', c.kind)
    for pj, fs, v, i in ctx.prefix_ids:
        a, b = impl.get(pj), impl.get(fs)
        if not (a or '').startswith('err') or not (b or '').startswith('err'):
            ctx.violate('a proper prefix of a valid encoding is not rejected', case={'value': gen.vtext(v), 'prefix_len': i}, observed=[a, b])
    for cid, t in ctx.texts:
        o = impl.get(cid, 'missing')
        j = python_judge(t)
        if j[0] == 'ok':
            want = 'ok ' + gen.vtext(j[1])
            if NEG0.sub('u0', o) != want:
                ctx.violate('valid JSON text is not decoded by the text fallback to the value it denotes', case='from_slice ' + t.hex(), text=repr(t)[:120],
                            expected=want, observed=o)
