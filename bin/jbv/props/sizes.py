"""sizes.py — the BIG part of the size corpus (second review, H2): strings and keys whose length needs the second (third) length
byte of an entry word, containers whose count needs the second count byte, a buffer beyond 64 KiB.

The random trees and common.size_corpus() stop at strings < 100 bytes, 300 members, a few KiB.  A change of the Rust code that
only shows for a string of 256 bytes or more, a count of 256 or more, or an offset beyond 65 535 was seen by nothing.

The extracted model is list-based: a lookup in a 1000-member object costs ~2 s, contains(a, a) is cubic (7 s at 256 elements,
minutes at 1000), to_string / parse_value are quadratic in a string (0.2 s at 4 KiB, ~100 s at 64 KiB).  Every property therefore
picks its own (document, operation) pairs from here and decides per case whether the model runs (`diff`); where it does not, an
independent oracle of the property judges the implementation alone.  tools/slowcases.py measures; the quick tier of every check
is kept under about a minute.

All documents are returned as (label, value); values are tuple trees as in gen.py."""

STR_SIZES = (255, 256, 257, 4096, 65535, 65536)
COUNTS = (255, 256, 257, 1000)

N = ('n',)
ONE, TWO = ('u', 1), ('u', 2)


def text(n, seed=0):
    """n bytes of printable ASCII that is not periodic with a short period (a copy shifted by a few bytes differs)"""
    out = bytearray()
    i = seed
    while len(out) < n:
        out += b'%d-' % (i * 7919)
        i += 1
    return bytes(out[:n])


def multibyte(n):
    """exactly n bytes of well-formed UTF-8 with two- and three-byte characters right up to the end (n >= 4)"""
    unit = 'é語'.encode()          # 2 + 3 bytes
    s = unit * (n // 5)
    rest = n - len(s)
    return s + {0: b'', 1: b'a', 2: 'é'.encode(), 3: '語'.encode(), 4: 'éé'.encode()}[rest]


def key(i):
    return b'k%04d' % i


def string_docs(sizes=STR_SIZES):
    """a long string as array element (with a sibling AFTER it: its payload lies beyond the long one), as object value, as the
    first and as the last key of an object; a top-level scalar; the multi-byte variants"""
    out = []
    for n in sizes:
        s = ('s', text(n))
        out += [('str%d-top' % n, s),
                ('str%d-elem' % n, ('a', [ONE, s, ('s', b'after'), TWO])),
                ('str%d-value' % n, ('o', [(b'a', ONE), (b'm', s), (b'z', ('s', b'after'))])),
                ('key%d-first' % n, ('o', [(b'A' + text(n - 1, 3), ('s', b'first')), (b'z', TWO)])),
                ('key%d-last' % n, ('o', [(b'a', ONE), (b'z' + text(n - 1, 5), ('s', b'last'))]))]
        if n <= 4096:
            m = multibyte(n)
            out += [('mbstr%d-elem' % n, ('a', [('s', m), ('s', b'after')])), ('mbkey%d' % n, ('o', [(m, ONE), (m + b'~', TWO)]))]
    return out


def container_docs(counts=COUNTS):
    """arrays and objects of n members: small numbers, short strings (with repeats for the set functions), nested empty
    containers; object values of every kind"""
    out = []
    for n in counts:
        out += [('arr%d-num' % n, ('a', [('u', i) for i in range(n)])),
                ('arr%d-str' % n, ('a', [('s', key(i % (n - 3))) for i in range(n)])),
                ('arr%d-mixed' % n, ('a', [('a', []) if i % 5 == 0 else ('o', [(b'i', ('u', i))]) if i % 5 == 1 else N if i % 5 == 2 else ('s', key(i)) if i % 5 == 3 else ('i', -i)
                                           for i in range(n)])),
                ('obj%d' % n, ('o', [(key(i), ('u', i) if i % 3 == 0 else ('s', key(i)) if i % 3 == 1 else N) for i in range(n)]))]
    return out


def positions(n):
    """first / middle / last index of an n-member container, one past the end, and the same from the end"""
    return [0, 1, n // 2, n - 2, n - 1, n, -1, -n, -n - 1]


def first_mid_last(v):
    """(position, member) at the first, middle and last position of a container value"""
    n = len(v[1])
    return [(i, v[1][i]) for i in sorted(set([0, n // 2, n - 1]))] if n else []


def end_mutants(v):
    """copies of v that differ from it only at (or after) the LAST byte of its longest string / key, or in its LAST member:
    a walker that cuts a long payload short, or stops counting at 255, cannot tell them from v"""
    def bump(b):
        return b[:-1] + bytes([b[-1] ^ 1]) if b else b'\x01'
    k = v[0]
    if k == 's':
        return [('s', bump(v[1])), ('s', v[1] + b'!'), ('s', v[1][:-1])]
    if k == 'a' and v[1]:
        longest = max(range(len(v[1])), key=lambda i: len(v[1][i][1]) if v[1][i][0] == 's' else -1)
        out = [('a', v[1][:-1]), ('a', v[1][:-1] + [('s', b'changed')])]
        if v[1][longest][0] == 's' and len(v[1][longest][1]) >= 200:
            out.append(('a', v[1][:longest] + [('s', bump(v[1][longest][1]))] + v[1][longest + 1:]))
        return out
    if k == 'o' and v[1]:
        out = [('o', v[1][:-1]), ('o', v[1][:-1] + [(v[1][-1][0], ('s', b'changed'))])]
        for i, (kk, x) in enumerate(v[1]):
            if len(kk) >= 200:
                out.append(('o', sorted(v[1][:i] + [(bump(kk), x)] + v[1][i + 1:])))
            if x[0] == 's' and len(x[1]) >= 200:
                out.append(('o', v[1][:i] + [(kk, ('s', bump(x[1])))] + v[1][i + 1:]))
        return out[:4]
    return []
