"""C17 — functions that write into a caller's buffer only append to it."""
from .. import gen
from . import common

SPEC_THEOREM = 'Props/C17: writer (pre) = pre ++ writer []; offsets are positions in the same buffer; editors as state functions over the caller buffer (buffer as left, outcome): prefix kept in every outcome on any input (C17_editors_leave_prefix_on_any_input), an error return leaves the buffer as it was (C17_errors_append_nothing; build_array/build_object excepted: C17_build_array_object_error_appends)'
TRUSTED = ['Coq 8.16.1 kernel', 'translator', 'extraction + OCaml driver', 'Rust harness', 'buffer-explicit models Codec.v (Encoder), Builder.v, SelWalk.v (writers), EditWalk.v / EditWalk2.v / SetWalk.v (editors), ComparableWalk.v']
ASSUMPTIONS = ['inputs are canonical encodings of well-formed values']
RULE = 'every buffer-writing function (incl. size-preserving updates of an existing member) called with the empty buffer and with prefixes (1 byte, a previous result, 4 KiB); the prefixed result must equal prefix ++ result-on-empty and offsets must be shifted by the prefix length; non-trivial = something appended'


def same_width(ctx, x):
    """a different value whose entry word (type and payload length) equals that of x: what an 'update in place' fast path
    would accept"""
    r = ctx.rng
    k = x[0]
    if k == 's' and x[1]:
        b = bytes(x[1])
        return ('s', bytes(reversed(b)) if bytes(reversed(b)) != b else bytes([(b[0] % 26) + 97]) + b[1:])
    if k in 'ui' and 1 <= abs(x[1]) < 100:
        return (k, x[1] + (1 if x[1] > 0 else -1))
    if k in 'ui' and abs(x[1]) >= 100:
        return (k, x[1] - 1 if x[1] > 0 else x[1] + 1)
    if k == 'a':
        return ('a', [same_width(ctx, y) for y in x[1]])
    if k == 'o':
        return ('o', [(kk, same_width(ctx, y)) for kk, y in x[1]])
    return x


def generate(ctx):
    r = ctx.rng
    ds = common.docs(ctx, ctx.scale(250, 10000), finite=False)
    ctx.trials = []
    ctx.batches = []
    for v in ds:
        e = gen.hexarg(gen.enc(v))
        w = r.choice(ds)
        we = gen.hexarg(gen.enc(w))
        k = gen.hexarg(r.choice(common.key_variants(ctx, v)))
        kp = common.keypath_text(r.choice(common.keypaths_for(ctx, v, n=2)))
        p = common.path_text(common.gen_path(ctx, v))
        ops = ['write_to_vec %s' % gen.vtext(v), 'convert_to_comparable %s' % e, 'concat %s %s' % (e, we), 'strip_nulls %s' % e,
               'delete_by_name %s %s' % (e, k), 'delete_by_index %s %d' % (e, r.randrange(-3, 4)), 'delete_by_keypath %s %s' % (e, kp),
               'array_insert %s %d %s' % (e, r.randrange(-3, 4), we), 'array_distinct %s' % e, 'array_intersection %s %s' % (e, we),
               'array_except %s %s' % (e, we), 'object_insert %s %s %s %d' % (e, k, we, r.randrange(2)),
               'object_delete %s %s' % (e, gen.hexlist([gen.unhexarg(k)])), 'object_pick %s %s' % (e, gen.hexlist([gen.unhexarg(k)])),
               'build_array %s' % gen.hexlist([gen.enc(v), gen.enc(w)]), 'build_object %s %s' % (gen.hexlist([b'k', b'a']), gen.hexlist([gen.enc(v), gen.enc(w)])),
               'get_by_path %s %s' % (e, p), 'get_by_path_first %s %s' % (e, p), 'get_by_path_array %s %s' % (e, p),
               'select %s %s all' % (e, p)]
        if gen.is_finite(v) and gen.text_form(v) == v:
            # the same functions with the document given as JSON TEXT (a separate dispatch branch in front of the writers): what is
            # appended to a buffer that already holds bytes, and the offsets reported, must be as for the empty buffer
            t = gen.json_text(v, r)
            if t[:1] != b' ':
                th = gen.hexarg(t)
                ops += ['get_by_path %s %s' % (th, p), 'get_by_path_first %s %s' % (th, p), 'get_by_path_array %s %s' % (th, p), 'get_by_path %s R' % th,
                        'convert_to_comparable %s' % th, 'strip_nulls %s' % th, 'concat %s %s' % (th, we), 'array_distinct %s' % th,
                        'delete_by_index %s %d' % (th, r.randrange(-3, 4)), 'object_delete %s %s' % (th, gen.hexlist([gen.unhexarg(k)]))]
        if v[0] == 'o' and v[1]:
            # updates that keep every size (same key, a value with the same entry word): a tempting case for writing in place
            for kk, x in r.sample(v[1], min(len(v[1]), 3)):
                y = same_width(ctx, x)
                ops.append('object_insert %s %s %s 1' % (e, gen.hexarg(kk), gen.hexarg(gen.enc(y))))
                ops.append('concat %s %s' % (e, gen.hexarg(gen.enc(('o', [(kk, y)])))))
        if v[0] == 'a' and v[1]:
            ops.append('concat %s %s' % (e, e))
        prefixes = [b'\x00', gen.enc(w), bytes(r.randrange(256) for _ in range(4096)) if r.random() < 0.05 else b'\xff\x80\x40\x20']
        for op in ops:
            name, rest = op.split(' ', 1)
            base = ctx.add(op).id
            pre = r.choice(prefixes)
            big = len(pre) > 1000
            pid = ctx.add('%s@%s %s' % (name, pre.hex(), rest), diff=not big).id
            ctx.trials.append((op, pre, base, pid))
        # several selections appended to one data buffer and one offsets vector, a predicate path (which writes a
        # value but reports no offset) among them
        if r.random() < 0.6:
            paths = [common.gen_path(ctx, v) for _ in range(r.choice([2, 3, 4]))]
            pred = None
            for _ in range(20):
                q = common.gen_path(ctx, v)
                if q and q[0][0] == 'P':
                    pred = q
                    break
            if pred is not None:
                paths.insert(r.randrange(1, len(paths) + 1), pred)
            fn = r.choice(['get_by_path', 'get_by_path', 'get_by_path_first', 'get_by_path_array'])
            texts = [common.path_text(q) for q in paths]
            singles = [ctx.add('%s %s %s' % (fn, e, t)).id for t in texts]
            pre = r.choice([b'', b'\x00', gen.enc(w)])
            bid = ctx.add('path_batch%s %s %s %s' % ('@' + pre.hex() if pre else '', e, fn, ' '.join(texts))).id
            ctx.batches.append((fn, texts, pre, singles, bid))
    late_error_stream(ctx)
    lazy_stream(ctx, ds)


def late_error_stream(ctx):
    """selections that FAIL, but only at a LATER candidate (an arithmetic expression that is reached only for some elements: under
    exists(), inside a nested filter): by then earlier candidates have passed -- whatever the function does internally, an error return
    must leave data and offsets as the caller passed them (a seeded `lazy trailing filter` wrote each hit as soon as it was found)"""
    u = lambda n: ('u', n)
    o = lambda *kv: ('o', sorted(kv))
    docs = [('a', [o((b'a', u(1)), (b'k', ('s', b'v'))), o((b'a', u(2)), (b'x', o((b'y', u(1))))), o((b'a', u(1)))]),
            ('a', [o((b'a', u(1))), o((b'a', u(1))), o((b'a', u(1)), (b'x', ('a', [u(1), u(2)])))]),
            o((b'p', o((b'a', u(1)))), (b'q', o((b'a', u(1)), (b'x', o((b'y', u(3))))))),
            ('a', [o((b'a', u(1)), (b'x', o((b'y', u(1))))), o((b'a', u(1)))]),          # fails at the FIRST candidate
            ('a', [o((b'a', u(1))), o((b'a', u(1)))])]                                   # never fails
    arith = 'e(C;D78;FAb+(p(C;D79)|vu1))'
    arith2 = 'e(C;D78;B;FAb*(p(C)|vu2))'
    paths = ['R;B;Fbor(beq(p(C;D61)|vu1)|%s)' % arith, 'R;B;Fbor(%s|beq(p(C;D61)|vu1))' % arith, 'R;W;Fbor(beq(p(C;D61)|vu1)|%s)' % arith,
             'R;B;Fbor(beq(p(C;D61)|vu1)|%s)' % arith2, 'R;B;Fband(beq(p(C;D61)|vu1)|bor(e(C;D61)|%s))' % arith, 'R;B;F%s' % arith,
             'R;B;Fbor(beq(p(C;D61)|vu1)|%s);D61' % arith]
    for v in docs:
        e = gen.hexarg(gen.enc(v))
        for p in paths:
            for op in ['select %s %s %s' % (e, p, m) for m in ('all', 'first', 'array', 'mixed')] + \
                      ['%s %s %s' % (f, e, p) for f in ('get_by_path', 'get_by_path_first', 'get_by_path_array')]:
                name, rest = op.split(' ', 1)
                base = ctx.add(op).id
                for pre in (b'\x00', gen.enc(docs[0])):
                    ctx.trials.append((op, pre, base, ctx.add('%s@%s %s' % (name, pre.hex(), rest)).id))
            ctx.count('selections_that_fail_at_a_later_candidate_stream')


def lazy_stream(ctx, ds):
    """LazyValue::write_to_vec (lazy_value.rs; model coq/ValueApi.v lazy_write_to_vec) for both variants -- Value(v) built through
    From<Value>, Raw(enc v) -- with the empty buffer and with a prefix; the same case line also carries to_vec, array_length and
    to_value of the LazyValue (fields 1-3, diffed against the model).  Raw on buffers that are not encodings (prefixes, one byte
    changed): to_value unwraps from_slice and panics, write_to_vec copies the bytes whatever they are (tie only)."""
    r = ctx.rng
    ctx.lazy_trials = []
    for v in ds:
        if gen.nodes(v) > 700:
            continue
        w = r.choice(ds[:80])
        pre = r.choice([b'\x00', gen.enc(w), b'\xff\x80\x40\x20'])
        for op, arg in (('lazy_value', gen.vtext(v)), ('lazy_raw', gen.hexarg(gen.enc(v)))):
            base = ctx.add('%s %s' % (op, arg)).id
            pid = ctx.add('%s@%s %s' % (op, pre.hex(), arg)).id
            ctx.lazy_trials.append((op, v, pre, base, pid))
    small = [v for v in ds if len(gen.enc(v)) <= 60]
    for v in r.sample(small, min(len(small), ctx.scale(40, 1500))):
        e = gen.enc(v)
        muts = [e[:i] for i in range(1, len(e))] if len(e) <= 24 else [e[:r.randrange(1, len(e))] for _ in range(8)]
        for _ in range(8):
            i = r.randrange(len(e))
            muts.append(e[:i] + bytes([r.choice([0, 1, 0x10, 0x20, 0x40, 0x50, 0x60, 0x7f, e[i] ^ 1, (e[i] + 1) & 0xff])]) + e[i + 1:])
        muts += [b'[1, 2]', b'{"a":[]}', b'nope', b' 7']       # Raw may hold anything, also JSON text (from_slice falls back to the text parser)
        for m in muts:
            if all(not ((b & 0xE0) in (0x80, 0x40) and (b & 0x1F)) for b in m):      # see C19.alloc_safe
                ctx.add('lazy_raw@00 %s' % gen.hexarg(m), kind='malformed')


def judge_lazy(ctx):
    impl = ctx.impl
    for op, v, pre, base, pid in getattr(ctx, 'lazy_trials', []):
        b, p = impl.get(base, 'missing'), impl.get(pid, 'missing')
        if not b.startswith('ok ') or not p.startswith('ok '):
            continue          # a panic / death is reported by the generic rule of check.py (valid documents)
        fb, fp = b[3:].split('|'), p[3:].split('|')
        if len(fb) != 4 or len(fp) != 4:
            ctx.violate('LazyValue case: malformed outcome line', case=op, observed=[b[:200], p[:200]])
            continue
        if gen.unhexarg(fp[3]) != pre + gen.unhexarg(fb[3]):
            ctx.violate('LazyValue::write_to_vec: the prefixed call is not prefix ++ what is written into an empty buffer',
                        case='%s %s' % (op, gen.vtext(v)[:200]), prefix=pre.hex()[:64], observed=[b[:300], p[:300]])
        if fb[3] != fb[0] or fb[:3] != fp[:3]:
            ctx.violate('LazyValue: write_to_vec into an empty buffer differs from to_vec, or the buffer content changes an answer',
                        case='%s %s' % (op, gen.vtext(v)[:200]), observed=[b[:300], p[:300]])
        ctx.count('lazy_write_to_vec_trials', op)


def judge(ctx):
    impl = ctx.impl
    judge_lazy(ctx)
    for fn, texts, pre, singles, bid in ctx.batches:
        outs = [impl.get(i, 'missing') for i in singles]
        b = impl.get(bid, 'missing')
        if any(not o.startswith('ok ') for o in outs) or not b.startswith(('ok ', 'err ')):
            continue          # a panic / death of any of them is reported by the generic rule of check.py
        data, offs = pre, []
        for o in outs:
            f = o.split(' ')
            d = gen.unhexarg(f[1])
            offs += [int(x) + len(data) for x in f[2].split(',')] if len(f) > 2 and f[2] else []
            data += d
        want = 'ok %s %s' % (gen.hexarg(data), ','.join(str(x) for x in offs))
        if b.rstrip() != want.rstrip():
            ctx.violate('selections appended to one buffer: data or offsets differ from the single calls laid end to end',
                        case=[fn] + texts, prefix=pre.hex()[:64], expected=want[:300], observed=b[:300])
    for op, pre, base, pid in ctx.trials:
        b, p = impl.get(base, 'missing'), impl.get(pid, 'missing')
        if not b.startswith(('ok ', 'err ')) or not p.startswith(('ok ', 'err ')):
            continue          # panic / abort / timeout: reported by the generic rule of check.py (valid documents)
        bp, pp = b.split(' '), p.split(' ')
        if bp[0] != pp[0]:
            ctx.violate('success/error depends on the buffer content', case=op, observed=[b, p[:200]])
            continue
        if bp[0] == 'err':
            # err <Kind> <buffer>
            if gen.unhexarg(bp[2]) != b'' or gen.unhexarg(pp[2]) != pre:
                ctx.violate('an error return appended bytes to (or changed) the buffer', case=op, observed=[b, p[:200]])
            # selections: err <Kind> <data> <offsets> -- the offsets vector must be as the caller passed it (empty) as well
            if (len(bp) > 3 and bp[3]) or (len(pp) > 3 and pp[3]):
                ctx.violate('an error return of a selection pushed offsets', case=op, observed=[b, p[:200]])
            continue
        db, dp = gen.unhexarg(bp[1]), gen.unhexarg(pp[1])
        if dp != pre + db:
            ctx.violate('the prefixed call is not prefix ++ what is written into an empty buffer', case=op, prefix=pre.hex()[:64],
                        observed=[b[:300], p[:300]])
        if len(bp) > 2 or len(pp) > 2:
            ob = [int(x) for x in bp[2].split(',')] if len(bp) > 2 and bp[2] else []
            opx = [int(x) for x in pp[2].split(',')] if len(pp) > 2 and pp[2] else []
            if opx != [x + len(pre) for x in ob]:
                ctx.violate('offsets are not positions in the caller\'s buffer', case=op, observed=[b[:300], p[:300]])
