"""C12 — containment follows the PostgreSQL @> rules with compare's equality."""
from .. import gen
from . import common, sizes

SPEC_THEOREM = 'Props/C12: contains_t reflexive, transitive, scalar containment = compare equality; C12_contains_bytes: contains_w (enc a) (enc b) = Ok (contains_t a b) for the offset-faithful walker ContainWalk.v'
TRUSTED = ['Coq 8.16.1 kernel', 'translator', 'extraction + OCaml driver', 'Rust harness', 'model Contain.v (mirror of contains_value); ContainWalk.v (offset-faithful contains_jsonb / array_contains / scalar_payload_eq, refinement proved on encodings, tied to the code by correspondence including corrupt buffers)']
ASSUMPTIONS = ['inputs are canonical encodings of well-formed values']
RULE = 'pairs where b is derived from a (drop members/elements, reorder, duplicate, nest deeper/shallower, re-type numbers 1 / 1.0 / signed / unsigned) plus unrelated pairs; each in all four text/binary argument forms for finite documents; chains a>=b>=c for transitivity; non-trivial = contains is true for a != b'


def retype(ctx, v):
    r = ctx.rng
    k = v[0]
    if k == 'u' and v[1] <= gen.I64_MAX and r.random() < 0.5:
        return ('i', v[1])
    if k == 'i' and v[1] >= 0 and r.random() < 0.5:
        return ('u', v[1])
    if k in 'iu' and abs(v[1]) < 2 ** 53 and r.random() < 0.5:
        return ('d', gen.float_to_bits(float(v[1])))
    if k == 'd' and not gen.f_is_nan(v[1]) and not gen.f_is_inf(v[1]):
        f = gen.bits_to_float(v[1])
        if f == int(f) and abs(f) < 2 ** 63:
            return ('i', int(f))
    if k == 'a':
        return ('a', [retype(ctx, x) for x in v[1]])
    if k == 'o':
        return ('o', [(kk, retype(ctx, x)) for kk, x in v[1]])
    return v


def derive(ctx, a):
    """a document contained in a (by construction), or a perturbation of one"""
    r = ctx.rng
    k = a[0]
    if k == 'a':
        items = [derive(ctx, x) if x[0] in 'ao' else x for x in a[1] if r.random() < 0.7]
        r.shuffle(items)
        if items and r.random() < 0.3:
            items.append(r.choice(items))
        return ('a', items)
    if k == 'o':
        return ('o', [(kk, derive(ctx, x) if x[0] in 'ao' else x) for kk, x in a[1] if r.random() < 0.7])
    return a


def unwrap(ctx, a, top=True):
    """a with some array below the top level replaced by one of its scalar elements (the bare-scalar rule is for the
    top level only, so the result is NOT contained unless it is by other means)"""
    r = ctx.rng
    k = a[0]
    if k == 'a':
        if not top and a[1] and r.random() < 0.6:
            sc = [x for x in a[1] if x[0] not in 'ao']
            if sc:
                return r.choice(sc)
        return ('a', [unwrap(ctx, x, False) for x in a[1]])
    if k == 'o':
        return ('o', [(kk, unwrap(ctx, x, False)) for kk, x in a[1]])
    return a


def wide(a):
    return a[0] in 'ao' and len(a[1]) > 40


def small_parts(ctx, a):
    """for a WIDE container (the model's containment is cubic: 7 s for a 256-element array against itself, minutes at 1000):
    small documents made of its first / middle / last members -- contained; and the same with one member that is not there, a
    changed value, a key that is one byte longer -- not contained.  The answer is judged by the tree oracle either way."""
    fml = [m for _, m in sizes.first_mid_last(a)]
    if a[0] == 'a':
        absent = ('s', b'absent-from-the-array')
        out = [('a', fml), ('a', fml[::-1]), ('a', [fml[-1], fml[-1]]), ('a', fml + [absent]), ('a', [absent]), ('a', []), ('a', [('a', fml[-1:])])]
        out += [x for x in fml[-1:] if x[0] not in 'ao'] + [m for m in sizes.end_mutants(('a', fml))[1:]]
        return out
    (k0, x0), (k2, x2) = fml[0], fml[-1]
    return [('o', fml), ('o', [fml[-1]]), ('o', [(k2, ('s', b'another value'))]), ('o', [(k2 + b'x', x2)]), ('o', [(k0[:-1], x0)] if k0 else []),
            ('o', fml[:1] + [(b'~absent', ('n',))]), ('o', []), ('a', [('o', [fml[-1]])])]


def generate(ctx):
    r = ctx.rng
    ds = common.docs(ctx, ctx.scale(700, 30000), finite=False)
    # strings / keys of 255 .. 65536 bytes, containers of 255 .. 1000 members (sizes.py; second review H2)
    big = sizes.string_docs() + sizes.container_docs()
    ds_big = [v for _, v in big]
    ctx.pairs = []
    ctx.chains = []
    ctx.forms = []
    for a in ds + ds_big:
        is_big = any(a is v for v in ds_big)
        if wide(a):
            cands = small_parts(ctx, a) + ([a] if len(a[1]) <= 130 or (a[0] == 'a' and len(a[1]) == 256 and a[1][0][0] == 'u') else [])
        elif is_big:
            # a long string / key: the document itself, and copies that differ in its last byte, lack its last member ...
            cands = [a] + sizes.end_mutants(a) + [('a', [a])]
        else:
            cands = [a, derive(ctx, a), retype(ctx, derive(ctx, a)), retype(ctx, a), r.choice(ds), unwrap(ctx, a), derive(ctx, unwrap(ctx, a))]
        if wide(a) or is_big:
            for b in cands:
                if b[0] == 's' and not sizes_utf8(b[1]):
                    continue
                c1 = ctx.add('contains %s %s' % (gen.hexarg(gen.enc(a)), gen.hexarg(gen.enc(b))), meta=('c', a, b))
                ctx.pairs.append((a, b, c1.id))
                if not wide(b):
                    c2 = ctx.add('contains %s %s' % (gen.hexarg(gen.enc(b)), gen.hexarg(gen.enc(a))), meta=('c', b, a))
                    ctx.pairs.append((b, a, c2.id))
            continue
        if a[0] == 'a' and a[1]:
            cands.append(r.choice(a[1]))           # bare scalar / element of a top-level array
            cands.append(('a', [a]))               # one level deeper
        if a[0] in 'ao':
            cands.append(('a', [derive(ctx, a)]))
        for b in cands:
            c1 = ctx.add('contains %s %s' % (gen.hexarg(gen.enc(a)), gen.hexarg(gen.enc(b))), meta=('c', a, b))
            ctx.pairs.append((a, b, c1.id))
            # the same question with one or both documents given as JSON text (the tree implementation and the
            # dispatch between the two): all four argument forms must agree
            if r.random() < 0.35 and gen.is_finite(a) and gen.is_finite(b):
                fa, fb = gen.text_form(a), gen.text_form(b)
                ta, tb = gen.json_text(fa, r), gen.json_text(fb, r)
                if ta[:1] != b' ' and tb[:1] != b' ':
                    ea, eb = gen.hexarg(gen.enc(fa)), gen.hexarg(gen.enc(fb))
                    ids = [ctx.add('contains %s %s' % (x, y)).id for x, y in ((ea, eb), (gen.hexarg(ta), eb), (ea, gen.hexarg(tb)), (gen.hexarg(ta), gen.hexarg(tb)))]
                    ctx.forms.append((fa, fb, ids))
        b = derive(ctx, a)
        c = derive(ctx, b)
        ids = [ctx.add('contains %s %s' % (gen.hexarg(gen.enc(x)), gen.hexarg(gen.enc(y)))).id for x, y in ((a, b), (b, c), (a, c))]
        ctx.chains.append((a, b, c, ids))
        if a[0] not in 'ao':
            for b in (retype(ctx, a), r.choice(ds)):
                if b[0] not in 'ao':
                    i1 = ctx.add('contains %s %s' % (gen.hexarg(gen.enc(a)), gen.hexarg(gen.enc(b)))).id
                    i2 = ctx.add('compare %s %s' % (gen.hexarg(gen.enc(a)), gen.hexarg(gen.enc(b)))).id
                    ctx.pairs.append((a, b, (i1, i2)))
    # deterministic: numbers at the ends of the integer ranges against the floats just beyond them, in every position (scalar,
    # array element, object member, bare scalar against a top-level array) -- containment must use the equality compare reports
    # (a seeded `==` for numbers converted the float with a saturating cast: every float >= 2^64 "equals" u64::MAX)
    F = lambda x: ('d', gen.float_to_bits(float(x)))
    grid = [('u', 2 ** 64 - 1), F(2 ** 64), F(1e20), F(2 ** 64 - 2048), ('u', 2 ** 63), F(2 ** 63), ('i', 2 ** 63 - 1), F(1e19), ('i', -2 ** 63), F(-2 ** 63),
            F(-1e19), F(-2 ** 63 - 2048), ('u', 2 ** 53), F(2 ** 53), ('u', 2 ** 53 + 1), ('i', -1), F(-1.0), ('u', 0), F(-0.0), F(1e300), F(-1e300)]
    for x in grid:
        for y in grid:
            i1 = ctx.add('contains %s %s' % (gen.hexarg(gen.enc(x)), gen.hexarg(gen.enc(y)))).id
            i2 = ctx.add('compare %s %s' % (gen.hexarg(gen.enc(x)), gen.hexarg(gen.enc(y)))).id
            ctx.pairs.append((x, y, (i1, i2)))
            for a, b in ((('a', [x]), ('a', [y])), (('o', [(b'k', x)]), ('o', [(b'k', y)])), (('a', [('s', b'p'), x]), y), (('a', [('a', [x])]), ('a', [('a', [y])]))):
                ctx.pairs.append((a, b, ctx.add('contains %s %s' % (gen.hexarg(gen.enc(a)), gen.hexarg(gen.enc(b))), meta=('c', a, b)).id))
    malformed(ctx)


def mutants(ctx, e, n=14):
    """prefixes and single-byte mutations of an encoding; header counts stay small (byte 0 only switches the container
    type, byte 1 is left alone) so that no Rust-side allocation is driven by a corrupted count"""
    r = ctx.rng
    out = [e[:i] for i in range(len(e))] if len(e) <= 24 else [e[:r.randrange(len(e))] for _ in range(8)]
    for _ in range(n):
        i = r.randrange(len(e))
        if i == 0:
            nb = r.choice([0x80, 0x40, 0x20, 0x00, 0x60])
        elif i == 1:
            continue
        else:
            nb = r.choice([0, 1, 2, 3, 4, 8, 0x10, 0x20, 0x30, 0x40, 0x50, 0x60, 0x7f, 0x80, 0xff, e[i] ^ 1, e[i] ^ 0x10, (e[i] + 1) & 0xff])
        out.append(e[:i] + bytes([nb]) + e[i + 1:])
    return out


def malformed(ctx):
    # contains_jsonb on buffers that are NOT valid encodings: C12 says nothing about them, the offset-faithful model
    # (ContainWalk.v) does -- value, swallowed error (false) or panic; this stream only feeds the correspondence tie
    r = ctx.rng
    small = [(a, b) for a, b, cid in ctx.pairs if not isinstance(cid, tuple) and 8 <= len(gen.enc(a)) <= 90 and len(gen.enc(b)) <= 90]
    for a, b in r.sample(small, min(len(small), ctx.scale(160, 4000))):
        ea, eb = gen.enc(a), gen.enc(b)
        for m in mutants(ctx, ea):
            ctx.add('contains %s %s' % (gen.hexarg(m), gen.hexarg(eb)), kind='malformed')
        for m in mutants(ctx, eb):
            ctx.add('contains %s %s' % (gen.hexarg(ea), gen.hexarg(m)), kind='malformed')
        for _ in range(4):
            ctx.add('contains %s %s' % (gen.hexarg(r.choice(mutants(ctx, ea, 6))), gen.hexarg(r.choice(mutants(ctx, eb, 6)))), kind='malformed')


def sizes_utf8(b):
    try:
        b.decode('utf-8')
        return True
    except UnicodeDecodeError:
        return False


def judge(ctx):
    impl = ctx.impl
    for a, b, cid in ctx.pairs:
        if isinstance(cid, tuple):
            c, q = impl.get(cid[0]), impl.get(cid[1])
            if (c == 'ok =true') != (q == 'ok =eq'):
                ctx.violate('scalar containment differs from compare equality', case=[gen.vtext(a), gen.vtext(b)], observed=[c, q])
            continue
        o = impl.get(cid)
        if o == 'panic':
            ctx.violate('contains panics', case=[gen.vtext(a), gen.vtext(b)], observed=o)
            continue
        # the answer itself, positive AND negative, against containment written from the property text (treeoracle.contains)
        from . import treeoracle
        want = 'ok =true' if treeoracle.contains(a, b) else 'ok =false'
        ctx.count('tree_oracle_judged', want[4:])
        if o != want:
            ctx.violate('contains differs from containment on the decoded trees (independent oracle written from the property text)',
                        case=[gen.vtext(a)[:400], gen.vtext(b)[:400]], expected=want, observed=o)
        if a is b and o != 'ok =true':
            ctx.violate('containment is not reflexive', case=gen.vtext(a), observed=o)
    for a, b, ids in ctx.forms:
        outs = [impl.get(i) for i in ids]
        if any(o != outs[0] for o in outs):
            ctx.violate('contains gives different answers for the binary/binary, text/binary, binary/text and text/text forms of one question',
                        case=[gen.vtext(a), gen.vtext(b)], observed=outs)
    for a, b, c, ids in ctx.chains:
        ab, bc, ac = [impl.get(i) for i in ids]
        if ab == 'ok =true' and bc == 'ok =true' and ac != 'ok =true':
            ctx.violate('containment is not transitive', case=[gen.vtext(a), gen.vtext(b), gen.vtext(c)], observed=[ab, bc, ac])
        if ab != 'ok =true':
            ctx.violate('a document derived by dropping/reordering/duplicating is not contained', case=[gen.vtext(a), gen.vtext(b)], observed=ab)
