"""C18 — numbers: exact through the codec, ordered by value."""
from fractions import Fraction
from .. import gen

SPEC_THEOREM = 'NumProofs: num_cmp = ext_cmp on exact dyadic values (C18_order_*, C18_equal_iff_same_value); num_decode_total'
TRUSTED = ['Coq 8.16.1 kernel (coqc, full .vo build; vm_compute inside refutation lemmas only)',
           'translator tools/translate_consts.py (NUMBER_* tags)',
           'extraction ExtrOcamlBasic + ocaml/driver (conv.ml, ops.ml)', 'Rust harness /verif/harness',
           'Python exact-rational oracle (fractions.Fraction) for the direct order check']
ASSUMPTIONS = ['Number::cmp/decode/compact_encode are modelled by hand in coq/Num.v and tied by correspondence',
               '`x as f64` is modelled by round_ne (nearest-even), compared against the real cast on every case']
RULE = 'numbers from boundary pools (each width boundary +-2, 2^53 and 2^63/2^64 neighbourhoods, signed zeros, subnormals, NaN payloads, infinities) plus random 64-bit patterns; pairs and triples mix representations; malformed byte strings enumerate every tag x payload length 0..10; non-trivial = outcome other than none/err'


def ntext(n):
    return gen.vtext(n)


def exact(n):
    """exact value for the order: ('nan',) greatest, +-inf, or a Fraction"""
    k, x = n
    if k in 'iu':
        return (1, Fraction(x))
    if gen.f_is_nan(x):
        return (3, 0)
    if gen.f_is_inf(x):
        return (0, 0) if x >> 63 else (2, 0)
    return (1, Fraction(gen.bits_to_float(x)))


def cmp_exact(a, b):
    x, y = exact(a), exact(b)
    return 'lt' if x < y else ('gt' if x > y else 'eq')


def normalise(n):
    k, x = n
    if k == 'i' and x == 0:
        return ('u', 0)
    if k == 'd' and gen.f_is_nan(x):
        return ('d', 0x7FF8000000000000)
    return n


def nearest_f64(n):
    k, x = n
    if k == 'd':
        return x
    return gen.float_to_bits(float(x))   # Python int -> float is correctly rounded (nearest-even)


def generate(ctx):
    g, r = ctx.g, ctx.rng
    nums = [('i', x) for x in gen.INT_POOL] + [('u', x) for x in gen.UINT_POOL] + \
           [('d', x) for x in gen.FLOAT_POOL + gen.SPECIAL_FLOATS]
    # integers-as-floats around 2^53..2^64 and their integer neighbours
    for k in (53, 54, 62, 63, 64):
        for d in (-1024, -2, -1, 0, 1, 2, 3, 1024, 2048):
            z = (1 << k) + d
            nums.append(('d', gen.float_to_bits(float(z))))
            if z <= gen.U64_MAX:
                nums.append(('u', z))
            if z <= gen.I64_MAX:
                nums.append(('i', z))
                nums.append(('i', -z))
                nums.append(('d', gen.float_to_bits(float(-z))))
    for _ in range(ctx.scale(1500, 60000)):
        nums.append(g.number(finite=False))
    ctx.nums = nums
    for n in nums:
        t = ntext(n)
        ctx.add('num_encode ' + t, meta=('enc', n))
        ctx.add('num_decode ' + gen.hexarg(gen.enc_num(n)), meta=('rt', n))
        ctx.add('num_as_i64 ' + t, meta=('i64', n))
        ctx.add('num_as_u64 ' + t, meta=('u64', n))
        ctx.add('num_as_f64 ' + t, meta=('f64', n))
    # malformed number bytes: every tag (and neighbours) x every payload length
    tags = [0x00, 0x10, 0x20, 0x30, 0x40, 0x50, 0x60, 0x70, 0x01, 0x41, 0xFF]
    ctx.add('num_decode -', meta=('mal', b''))
    for t in tags:
        for ln in range(0, 11):
            for fill in (0x00, 0xFF, 0x7F):
                b = bytes([t]) + bytes([fill]) * ln
                ctx.add('num_decode ' + b.hex(), meta=('mal', b))
    # pairs and triples
    npairs = ctx.scale(6000, 200000)
    for _ in range(npairs):
        a, b = r.choice(nums), r.choice(nums)
        if r.random() < 0.3:
            # numerically close across representations
            k, x = a
            if k in 'iu':
                b = ('d', gen.float_to_bits(float(x)))
            elif not (gen.f_is_nan(x) or gen.f_is_inf(x)):
                f = gen.bits_to_float(x)
                if abs(f) < 2 ** 64:
                    # the integers around it: for a fraction its truncation, floor and ceiling
                    z = int(f) + r.choice([-1, 0, 0, 1])
                    b = ('i', z) if gen.I64_MIN <= z <= gen.I64_MAX else (('u', z) if 0 <= z <= gen.U64_MAX else b)
        ctx.add('num_cmp %s %s' % (ntext(a), ntext(b)), meta=('cmp', a, b))
        ctx.add('num_eq %s %s' % (ntext(a), ntext(b)), meta=('eq', a, b))
    # deterministic: a negative i64 against the u64 with the same 64-bit pattern (two's-complement twins), and signed
    # zeros / NaNs against each other -- `==` and `cmp` are separate impls and must agree (a seeded change made `==`
    # compare bit patterns across Int64 / UInt64)
    twins = []
    for k in [1, 2, 127, 128, 129, 255, 256, 32768, 65536, 2 ** 31, 2 ** 32, 2 ** 53, 2 ** 62, 2 ** 63 - 1, 2 ** 63]:
        twins += [(('i', -k), ('u', 2 ** 64 - k)), (('u', 2 ** 64 - k), ('i', -k))]
    zeros = [('d', gen.float_to_bits(0.0)), ('d', gen.float_to_bits(-0.0)), ('i', 0), ('u', 0)]
    twins += [(x, y) for x in zeros for y in zeros]
    for a, b in twins:
        ctx.add('num_cmp %s %s' % (ntext(a), ntext(b)), meta=('cmp', a, b))
        ctx.add('num_eq %s %s' % (ntext(a), ntext(b)), meta=('eq', a, b))
    ntrip = ctx.scale(1500, 40000)
    trips = []
    for _ in range(ntrip):
        a = r.choice(nums)
        k, x = a
        cands = [a, r.choice(nums)]
        if k in 'iu':
            cands += [('d', gen.float_to_bits(float(x))), ('i', x - 1) if x - 1 >= gen.I64_MIN and x - 1 <= gen.I64_MAX else a,
                      ('u', x + 1) if 0 <= x + 1 <= gen.U64_MAX else a]
        b, c = r.choice(cands), r.choice(cands)
        ids = []
        for (p, q) in ((a, b), (b, c), (a, c), (b, a)):
            ids.append(ctx.add('num_cmp %s %s' % (ntext(p), ntext(q)), meta=('cmp', p, q)).id)
        trips.append((a, b, c, ids))
    ctx.trips = trips


def judge(ctx):
    impl = ctx.impl
    for c in ctx.cases:
        m = c.meta
        if not m:
            continue
        o = impl.get(c.id, 'missing')
        kind = m[0]
        if kind == 'enc':
            want = 'ok ' + gen.hexarg(gen.enc_num(m[1]))
            if o != want:
                ctx.violate('compact_encode is not the shortest documented form', case=c.line, expected=want, observed=o)
            ctx.count('width', len(gen.enc_num(m[1])))
        elif kind == 'rt':
            want = 'ok ' + ntext(normalise(m[1]))
            if o != want:
                ctx.violate('decode(encode(n)) is not n', case=c.line, expected=want, observed=o)
        elif kind == 'mal':
            b = m[1]
            well = len(b) >= 1 and ((b[0] in (0, 0x10, 0x20, 0x30) and len(b) == 1) or
                                    (b[0] in (0x40, 0x50) and len(b) - 1 in (1, 2, 4, 8)) or (b[0] == 0x60 and len(b) == 9))
            if not well and not o.startswith('err'):
                ctx.violate('malformed number bytes are not rejected with an error', case=c.line, expected='err', observed=o)
        elif kind == 'cmp':
            want = 'ok =' + cmp_exact(m[1], m[2])
            if o != want:
                ctx.violate('Number order differs from the order of the mathematical values', case=c.line,
                            expected=want, observed=o)
            ctx.count('cmp_outcome', o)
            ctx.count('cmp_kinds', m[1][0] + m[2][0])
        elif kind == 'eq':
            want = 'ok =' + ('true' if cmp_exact(m[1], m[2]) == 'eq' else 'false')
            if o != want:
                ctx.violate('Number equality differs from equality of values', case=c.line, expected=want, observed=o)
        elif kind == 'i64':
            k, x = m[1]
            want = 'ok =%d' % x if (k in 'iu' and gen.I64_MIN <= x <= gen.I64_MAX) else 'ok =none'
            if o != want:
                ctx.violate('as_i64 is neither exact nor absent', case=c.line, expected=want, observed=o)
        elif kind == 'u64':
            k, x = m[1]
            want = 'ok =%d' % x if (k in 'iu' and 0 <= x <= gen.U64_MAX) else 'ok =none'
            if o != want:
                ctx.violate('as_u64 is neither exact nor absent', case=c.line, expected=want, observed=o)
        elif kind == 'f64':
            want = 'ok =%016x' % nearest_f64(m[1])
            if o != want:
                ctx.violate('as_f64 is not the nearest double', case=c.line, expected=want, observed=o)
    # laws on the implementation, triple by triple
    opp = {'lt': 'gt', 'gt': 'lt', 'eq': 'eq'}
    for a, b, c3, ids in ctx.trips:
        ab, bc, ac, ba = [impl.get(i, 'missing').replace('ok =', '') for i in ids]
        if ab in opp and ba in opp and opp[ab] != ba:
            ctx.violate('Number order is not antisymmetric', case=[ntext(a), ntext(b)], observed=[ab, ba])
        if ab == bc and ab in opp and ac != ab:
            ctx.violate('Number order is not transitive', case=[ntext(a), ntext(b), ntext(c3)], observed=[ab, bc, ac])
