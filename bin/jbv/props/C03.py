"""C03 — rendering JSONB as text yields valid JSON that denotes the same document."""
import json, re
from .. import gen
from . import common, sizes

SPEC_THEOREM = 'Props/C03: strict reading of the rendering gives the document back; pretty = compact + insignificant whitespace'
TRUSTED = ['Coq 8.16.1 kernel', 'translator (escape table)', 'extraction + OCaml driver', 'Rust harness',
           'model Render.v (view-level mirror of container_to_string / escape_scalar_string); ryu modelled by a parameter',
           'Python json (strict, constants rejected) as the independent strict parser',
           'model ValueApi.v of `impl Display for Value` incl. str Debug escaping; generated table coq/DebugTable.v (tools/gen_debug_table.sh: which non-ASCII chars the toolchain escapes), tied by the display cases (every table boundary)']
ASSUMPTIONS = ['documents are canonical encodings of well-formed values with finite numbers', 'float text is compared by the double it denotes (std parse) and by RFC 8259 number grammar, not byte-wise']
RULE = 'values whose strings and keys enumerate U+0000..U+001F, quote, backslash, slash, DEL, U+0080, U+2028/9, U+FFFF, astral plus random; floats from the boundary pool; non-trivial = rendering contains an escape, a float or a nested container'


def reject_constant(x):
    raise ValueError('constant ' + x)


def py_of_json(x):
    """python json value -> our value (as the text parser would type numbers)"""
    if x is None:
        return ('n',)
    if x is True or x is False:
        return ('b', x)
    if isinstance(x, int):
        if 0 <= x <= gen.U64_MAX:
            return ('u', x)
        if gen.I64_MIN <= x < 0:
            return ('i', x)
        return ('d', gen.float_to_bits(float(x)))
    if isinstance(x, float):
        return ('d', gen.float_to_bits(x))
    if isinstance(x, str):
        return ('s', x.encode('utf-8', 'surrogatepass'))
    if isinstance(x, list):
        return ('a', [py_of_json(y) for y in x])
    if isinstance(x, dict):
        return ('o', sorted((k.encode('utf-8', 'surrogatepass'), py_of_json(y)) for k, y in x.items()))
    raise ValueError(x)


def strict_parse(text):
    return py_of_json(json.loads(text.decode('utf-8'), parse_constant=reject_constant, strict=True))


def strip_ws_outside_strings(b):
    out = bytearray()
    i = 0
    n = len(b)
    while i < n:
        c = b[i]
        if c == 0x22:
            j = i + 1
            while j < n:
                if b[j] == 0x5C:
                    j += 2
                    continue
                if b[j] == 0x22:
                    break
                j += 1
            out += b[i:j + 1]
            i = j + 1
        elif c in (0x20, 0x0A):
            i += 1
        else:
            out.append(c)
            i += 1
    return bytes(out)


def generate(ctx):
    r = ctx.rng
    ds = common.docs(ctx, ctx.scale(500, 20000), finite=True)
    for op in ('to_string', 'to_pretty_string'):
        ctx.add('%s -' % op, kind='empty-input')       # empty input renders as null (tie only)
    # every control character, quote, backslash, slash, DEL, U+0080, U+2028/9, U+FFFF, astral: in values and in keys
    for cp in gen.CODEPOINTS_SPECIAL:
        s = ('a' + chr(cp) + 'b').encode('utf-8')
        ds.append(('s', s))
        ds.append(('o', [(s, ('a', [('s', s)]))]))
    ds += [('d', x) for x in gen.FLOAT_POOL] + [('a', [('d', x), ('i', -5)]) for x in gen.FLOAT_POOL[::3]]
    ds += [('i', x) for x in gen.INT_POOL[::2]] + [('u', x) for x in gen.UINT_POOL[::2]]
    # nesting well beyond what a screen shows (indentation grows with depth), far below the stack limit
    for depth in (40, 130, 200):
        for leaf in (('u', 7), ('o', [])):
            v = w = leaf
            for i in range(depth):
                v = ('a', [v])
                w = ('o', [(b'k', w)]) if i % 2 else ('a', [('n',), w])
            ds += [v, w]
    ctx.ds = ds
    ctx.trials = []
    non_jsonb_stream(ctx)
    display_stream(ctx, ds)
    # strings / keys of 255 .. 65536 bytes (also multi-byte text crossing 256) and containers of 255 .. 1000 members (sizes.py;
    # second review H2).  The model's renderer is quadratic in a string (0.2 s at 4 KiB, ~100 s at 64 KiB): the documents with a
    # 64 KiB string are rendered by the implementation only and judged by the strict parser below (too_big_for_model)
    big = sizes.string_docs() + sizes.container_docs()
    too_big_for_model = set(id(v) for lab, v in big if lab.startswith(('str6', 'key6')))
    ds += [v for _, v in big]
    for v in ds:
        e = gen.hexarg(gen.enc(v))
        ctx.add('to_string %s' % e, diff=id(v) not in too_big_for_model)
        ctx.add('to_pretty_string %s' % e, diff=id(v) not in too_big_for_model)
        ids = (ctx.add('to_string_raw %s' % e, diff=False).id, ctx.add('to_pretty_string_raw %s' % e, diff=False).id,
               ctx.add('text_roundtrip %s' % e, diff=False).id)
        ctx.trials.append((v, ids))
    # the byte walker on buffers that are NOT valid encodings (prefixes, one byte changed): C03 says nothing about them,
    # but the offset-faithful model (RenderWalk.v) does: a failed read or Number::decode error makes to_string answer
    # "null", an index past the end panics, from_utf8_lossy replaces ill-formed UTF-8.  Tie only (model = code).
    small = [v for v in ds if len(gen.enc(v)) <= 120]
    for v in r.sample(small, min(len(small), ctx.scale(150, 4000))):
        e = gen.enc(v)
        muts = [e[:i] for i in range(len(e))] if len(e) <= 40 else [e[:r.randrange(len(e))] for _ in range(12)]
        for _ in range(16):
            i = r.randrange(len(e))
            muts.append(e[:i] + bytes([r.choice([0, 1, 4, 0x10, 0x20, 0x30, 0x40, 0x50, 0x60, 0x70, 0x7f, 0x80, 0xc3, 0xe2, 0xf0, 0xff,
                                                 e[i] ^ 1, e[i] ^ 0x10, (e[i] + 1) & 0xff])]) + e[i + 1:])
        for m in muts:
            if m and m[0] in (0x80, 0x40, 0x20):
                h = gen.hexarg(m)
                ctx.add('to_string %s' % h, kind='malformed')
                ctx.add('to_pretty_string %s' % h, kind='malformed')
            elif m:
                # the first byte was changed: no longer JSONB, echoed by the text branch (byte-exact ops, see non_jsonb_stream)
                try:
                    m.decode('utf-8')
                    wf = True
                except UnicodeDecodeError:
                    wf = False
                for op in ('to_string_bytes', 'to_pretty_string_bytes'):
                    c = ctx.add('%s %s' % (op, gen.hexarg(m)), kind='non-jsonb-input', diff=wf or ILL_FORMED_DIFF)
                    ctx.non_jsonb.append((c.id, c.line, m))
                ctx.count('non_jsonb_inputs', 'mutated encoding, ' + ('well-formed UTF-8' if wf else 'ill-formed UTF-8'))


def non_jsonb_stream(ctx):
    """to_string / to_pretty_string on input that is NOT JSONB (first byte none of 0x80 0x40 0x20): the text branch echoes the
    input through String::from_utf8_lossy.  Compared byte for byte on both sides (ops to_string_bytes / to_pretty_string_bytes:
    no canonicalisation anywhere) and judged on the implementation alone against Python's `errors='replace'` decoder (the same
    maximal-subpart substitution of U+FFFD).
    TODO(lead): the model's text branch returned the input bytes unchanged (second review, M2); the Coq side is being changed to
    apply `lossy`.  Until that is merged the ILL-FORMED inputs are diff=False (flip ILL_FORMED_DIFF to True afterwards); the
    well-formed ones are diffed already."""
    r = ctx.rng
    ill = [b'\xff', b'\x9f', b'\x9fabc', b'\x81\x00', b'a\x80b', b'\xc3', b'\xc3(', b'ab\xc3', b'\xe2\x82', b'\xe2\x82x', b'\xe2(\xa1', b'\xf0\x9f\x98', b'\xf0\x9f\x98x',
           b'\xf0(\x8c\xbc', b'\xc0\xaf', b'\xc1\xbf', b'\xe0\x80\xaf', b'\xe0\x9f\xbf', b'\xed\xa0\x80', b'\xed\xbf\xbf', b'\xf0\x8f\xbf\xbf', b'\xf4\x90\x80\x80',
           b'\xf5\x80\x80\x80', b'\xf8\x88\x80\x80\x80', b'\xfe', b'\xfe\xff', b'[1,"\xff"]', b'{"a\xc3":1}', b'"\xed\xa0\x80\xed\xb0\x80"', b'\x00\xff\x00',
           b'\x9f' * 5, b'x' + b'\x80' * 300, b'\xe2\x82\xac' * 100 + b'\xe2\x82', b'1.5e3\xff', b'\x21\x80\x40\x20']
    well = [b'null', b' [1, 2.50, 1e3]', b'1.50', b'-0.0', b'"a\\u0041"', b'not json at all', '"é€😀"'.encode(), b'\x00', b'\x7f', b'\t{"a" :\n1}', b'[', b'\x1f',
            '語'.encode() * 120, b'{"k":"' + b'v' * 400 + b'"}', b'1' * 300]
    for _ in range(ctx.scale(150, 4000)):
        n = r.randrange(1, 12)
        b = bytes(r.choice([0x61, 0x22, 0x5b, 0x80, 0xbf, 0xc2, 0xc3, 0xe0, 0xe2, 0xed, 0xf0, 0xf4, 0xff, 0x9f, 0xa0, 0x00, 0x31]) for _ in range(n))
        try:
            b.decode('utf-8')
            well.append(b)
        except UnicodeDecodeError:
            ill.append(b)
    ctx.non_jsonb = []
    for b, wf in [(x, False) for x in ill] + [(x, True) for x in well]:
        if not b or b[0] in (0x80, 0x40, 0x20):
            continue
        for op in ('to_string_bytes', 'to_pretty_string_bytes'):
            c = ctx.add('%s %s' % (op, gen.hexarg(b)), kind='non-jsonb-input', diff=wf or ILL_FORMED_DIFF)
            ctx.non_jsonb.append((c.id, c.line, b))
        ctx.count('non_jsonb_inputs', 'well-formed UTF-8' if wf else 'ill-formed UTF-8')


def debug_escaped_ranges():
    """the generated table coq/DebugTable.v: closed ranges of code points >= U+0080 that <str as Debug>::fmt prints as \\u{..}"""
    import os, re
    from .. import core
    txt = open(os.path.join(core.COQ, 'DebugTable.v')).read()
    return [(int(a), int(b)) for a, b in re.findall(r'\((\d+), (\d+)\)', txt)]


def display_safe_for_tokeniser(v):
    """no quote / backslash in any key: Display writes keys raw, so the harness's float canonicaliser (which tracks string literals)
    can only be used on such values"""
    return all(b'"' not in k and b'\\' not in k for k in common.keys_of(v))


def without_finite_floats(v):
    k = v[0]
    if k == 'd' and not (gen.f_is_nan(v[1]) or gen.f_is_inf(v[1])):
        return ('u', 7)
    if k == 'a':
        return ('a', [without_finite_floats(x) for x in v[1]])
    if k == 'o':
        return ('o', [(kk, without_finite_floats(x)) for kk, x in v[1]])
    return v


def plain_value(v):
    """strings and keys of printable ASCII without quote and backslash (ValueApi.plain_value)"""
    ok = lambda b: all(0x20 <= c < 0x7f and c not in (0x22, 0x5c) for c in b)
    return all(ok(x[1]) for x in gen.subvalues(v) if x[0] == 's') and all(ok(k) for k in common.keys_of(v))


def display_stream(ctx, ds):
    """`impl Display for Value` (value.rs; model coq/ValueApi.v display_t): strings through `{:?}` (str's Debug escaping), keys
    raw, numbers as to_string prints them.  The corpus as trees, every ASCII char and every special code point in a string and in
    a key, and every boundary of the generated table of non-ASCII chars that Debug escapes (DebugTable.v).  Values whose keys hold
    a quote or a backslash are compared byte for byte (op display_bytes; finite floats replaced by an integer), the others with the
    float tokens canonicalised (op display) like to_string.  Tie only: no listed property speaks about Display.  On values with
    plain strings and keys the two renderers agree (Props/ValueApi.v ValueApi_display_agrees_*): counted, the diff decides."""
    r = ctx.rng
    ctx.display_plain = []
    vals = [v for v in ds if gen.nodes(v) <= 700]
    # every ASCII char, alone and between letters, as a string and as a key
    for c in range(128):
        for st in (bytes([c]), b'a' + bytes([c]) + b'b'):
            vals.append(('s', st))
            vals.append(('o', [(st, ('a', [('s', st), ('u', 1)]))]))
    vals.append(('s', bytes(range(128))))
    vals.append(('o', [(bytes(range(128)), ('n',))]))
    for cp in gen.CODEPOINTS_SPECIAL:
        st = ('x' + chr(cp) + 'y').encode('utf-8')
        vals += [('s', st), ('o', [(st, ('s', st))])]
    # boundaries of the escaped ranges: lo - 1, lo, hi, hi + 1 (scalar values only), in strings of 40 chars and one per string
    cps = set()
    for lo, hi in debug_escaped_ranges():
        cps.update(x for x in (lo - 1, lo, (lo + hi) // 2, hi, hi + 1) if 0x80 <= x <= 0x10FFFF and not 0xD800 <= x <= 0xDFFF)
    cps = sorted(cps)
    ctx.count('display_debug_table_boundary_code_points', n=len(cps))
    for i in range(0, len(cps), 40):
        st = ''.join(chr(x) for x in cps[i:i + 40]).encode('utf-8')
        vals += [('s', st), ('o', [(st, ('s', b'v'))])]
    for x in r.sample(cps, min(len(cps), ctx.scale(300, 4000))):
        vals.append(('s', chr(x).encode('utf-8')))
    for _ in range(ctx.scale(300, 6000)):
        st = ''.join(chr(ctx.g.codepoint()) for _ in range(r.randrange(1, 10))).encode('utf-8')
        vals.append(r.choice([('s', st), ('a', [('s', st), ('d', r.choice(gen.FLOAT_POOL))]), ('o', [(st, ('s', st))])]))
    vals += [('d', x) for x in gen.FLOAT_POOL + gen.SPECIAL_FLOATS]
    for v in vals:
        if display_safe_for_tokeniser(v):
            ctx.add('display %s' % gen.vtext(v), kind='display')
        else:
            ctx.add('display_bytes %s' % gen.vtext(without_finite_floats(v)), kind='display')
        if plain_value(v) and gen.is_finite(v):
            ids = (ctx.add('display_bytes %s' % gen.vtext(v), diff=False, kind='display').id,
                   ctx.add('to_string_raw %s' % gen.hexarg(gen.enc(v)), diff=False).id)
            ctx.display_plain.append((v, ids))


def judge_display(ctx):
    for v, ids in getattr(ctx, 'display_plain', []):
        d, t = [ctx.impl.get(i, 'missing') for i in ids]
        ctx.count('display_vs_to_string_on_plain_values', 'same bytes' if d == t else 'DIFFERENT')


ILL_FORMED_DIFF = True      # the model's text branch applies `lossy` (second review, M2): ill-formed inputs are diffed too


def judge(ctx):
    impl = ctx.impl
    judge_display(ctx)
    for cid, line, b in ctx.non_jsonb:
        o = impl.get(cid, 'missing')
        want = 'ok ' + gen.hexarg(b.decode('utf-8', 'replace').encode('utf-8'))
        if o != want:
            ctx.violate('the rendering of non-JSONB input is not the input with every ill-formed UTF-8 sequence replaced by U+FFFD', case=line,
                        expected=want[:300], observed=o[:300])
    for v, ids in ctx.trials:
        c, p, rt = [impl.get(i, 'missing') for i in ids]
        case = gen.vtext(v)
        if not (c.startswith('ok ') and p.startswith('ok ')):
            ctx.violate('rendering failed', case=case, observed=[c, p])
            continue
        ct, pt = gen.unhexarg(c[3:]), gen.unhexarg(p[3:])
        want = gen.text_form(v)
        for name, t in (('compact', ct), ('pretty', pt)):
            try:
                got = strict_parse(t)
            except Exception as ex:
                ctx.violate('the %s rendering is not well-formed RFC 8259 JSON for a strict parser' % name, case=case,
                            observed=t.hex(), why=str(ex)[:200])
                continue
            if got != want:
                ctx.violate('the %s rendering denotes a different document' % name, case=case, observed=t.hex(),
                            expected=gen.vtext(want), parsed=gen.vtext(got))
        if strip_ws_outside_strings(pt) != ct:
            ctx.violate('the pretty rendering differs from the compact one in more than insignificant whitespace', case=case,
                        observed=[ct.hex(), pt.hex()])
        # shape: every line is indented by an even number of spaces
        for line in pt.split(b'\n'):
            ind = len(line) - len(line.lstrip(b' '))
            if ind % 2 and line.strip():
                ctx.violate('pretty rendering: indentation is not a multiple of two spaces', case=case, observed=pt.hex())
                break
        want_rt = 'ok ' + gen.hexarg(gen.enc(want))
        if rt != want_rt:
            ctx.violate('parsing the rendering and re-encoding does not give the bytes of the (unsigned-normalised) original', case=case,
                        expected=want_rt, observed=rt)
