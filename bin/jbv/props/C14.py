"""C14 — the comparable key sorts bytewise exactly as compare orders documents."""
from .. import gen
from . import common
from .C04 import py_cmp, mutate, NAMES

SPEC_THEOREM = 'Props/C14: refuted in general (two witness classes); restricted embedding outside the known classes'
TRUSTED = ['Coq 8.16.1 kernel', 'translator (levels)', 'extraction + OCaml driver', 'Rust harness', 'model CmpKey.v (view-level mirror of convert_to_comparable)']
ASSUMPTIONS = ['documents are canonical encodings of well-formed values']
RULE = 'pairs as in C04 (mutations of a base document); the byte order of the two keys is compared with compare; pairs inside an open known-finding class are counted, not judged; non-trivial = keys differ'


def has_big_int(v):
    for x in gen.subvalues(v):
        if x[0] in 'iu' and abs(x[1]) > 2 ** 53:
            return True
    return False


def strings_of(v):
    for x in gen.subvalues(v):
        if x[0] == 's':
            yield x[1]
        if x[0] == 'o':
            for k, _ in x[1]:
                yield k


def has_low_bytes(v):
    """a string or key containing a byte that can be taken for a depth marker (< 0x10 is ample for depth <= 15)"""
    return any(any(b < 0x10 for b in s) for s in strings_of(v))


def in_known_class(a, b):
    if has_big_int(a) or has_big_int(b):
        return 'comparable-key-big-int'
    return None


def generate(ctx):
    r = ctx.rng
    ds = common.docs(ctx, ctx.scale(700, 30000), finite=False)
    ctx.pairs = []
    for a in ds:
        b = mutate(ctx, a) if r.random() < 0.8 else r.choice(ds)
        ea, eb = gen.hexarg(gen.enc(a)), gen.hexarg(gen.enc(b))
        ids = (ctx.add('convert_to_comparable %s' % ea).id, ctx.add('convert_to_comparable %s' % eb).id,
               ctx.add('compare %s %s' % (ea, eb)).id)
        ctx.pairs.append((a, b, ids))
    # the byte walker on buffers that are NOT valid encodings (prefixes, one byte changed): tie only (ComparableWalk.v
    # models the early returns and the panics of convert_to_comparable on such buffers)
    small = [v for v in ds if len(gen.enc(v)) <= 100]
    for v in r.sample(small, min(len(small), ctx.scale(150, 4000))):
        e = gen.enc(v)
        muts = [e[:i] for i in range(len(e))] if len(e) <= 32 else [e[:r.randrange(len(e))] for _ in range(10)]
        for _ in range(14):
            i = r.randrange(len(e))
            muts.append(e[:i] + bytes([r.choice([0, 1, 4, 0x10, 0x20, 0x30, 0x40, 0x50, 0x7f, 0x80, 0xff, e[i] ^ 1, e[i] ^ 0x10, (e[i] + 1) & 0xff])]) + e[i + 1:])
        for m in muts:
            if m and m[0] in (0x80, 0x40, 0x20):
                ctx.add('convert_to_comparable %s' % gen.hexarg(m), kind='malformed')
    # numbers of every width and sign against each other (both zeros, fractions next to integers, the 64-bit limits),
    # at top level and at the deciding position inside a container
    nums = [('i', x) for x in gen.INT_POOL] + [('u', x) for x in gen.UINT_POOL] + [('d', x) for x in gen.FLOAT_POOL + gen.SPECIAL_FLOATS[:3]]
    zeros = [('d', gen.float_to_bits(-0.0)), ('d', 0), ('u', 0), ('i', 0)]
    pairs = [(x, y) for x in zeros for y in zeros + [('i', -1), ('d', gen.float_to_bits(-0.5)), ('d', gen.float_to_bits(5e-324)), ('d', gen.float_to_bits(-5e-324)), ('u', 1)]]
    for f in gen.FLOAT_POOL:
        x = gen.bits_to_float(f)
        if abs(x) < 2.0 ** 53:
            pairs += [(('d', f), ('i', int(x) + d)) for d in (-1, 0, 1)]
    for _ in range(ctx.scale(800, 30000)):
        pairs.append((r.choice(nums), r.choice(nums)))
    for j, (x, y) in enumerate(pairs):
        for a, b in ((x, y), (y, x)):
            if j % 3 == 1:
                a, b = ('a', [('s', b'p'), a]), ('a', [('s', b'p'), b])
            elif j % 3 == 2:
                a, b = ('o', [(b'k', a)]), ('o', [(b'k', b)])
            ea, eb = gen.hexarg(gen.enc(a)), gen.hexarg(gen.enc(b))
            ids = (ctx.add('convert_to_comparable %s' % ea).id, ctx.add('convert_to_comparable %s' % eb).id,
                   ctx.add('compare %s %s' % (ea, eb)).id)
            ctx.pairs.append((a, b, ids))


def judge(ctx):
    impl = ctx.impl
    for a, b, ids in ctx.pairs:
        ka, kb, c = [impl.get(i, 'missing') for i in ids]
        if not (ka.startswith('ok ') and kb.startswith('ok ') and c.startswith('ok =')):
            ctx.violate('convert_to_comparable / compare failed on valid documents', case=[gen.vtext(a), gen.vtext(b)], observed=[ka, kb, c])
            continue
        x, y = gen.unhexarg(ka[3:]), gen.unhexarg(kb[3:])
        kc = 'ok =' + NAMES[(x > y) - (x < y)]
        if kc != c:
            cls = in_known_class(a, b)
            if cls is None and (has_low_bytes(a) or has_low_bytes(b)) and kc == 'ok =eq' or cls is None and (has_low_bytes(a) or has_low_bytes(b)):
                cls = 'comparable-key-marker-collision'
            if cls and cls in ctx.open_classes:
                ctx.known_hits[cls] = ctx.known_hits.get(cls, 0) + 1
            else:
                ctx.violate('byte order of the comparable keys differs from compare', case=[gen.vtext(a), gen.vtext(b)],
                            observed={'keys': [ka, kb], 'key_order': kc, 'compare': c})
