"""C14 — the comparable key sorts bytewise exactly as compare orders documents."""
from .. import gen
from . import common, sizes
from .C04 import py_cmp, mutate, NAMES, rank

SPEC_THEOREM = 'Props/C14: refuted in general (witness classes); embedding proved on the class key_safe_doc, containers included (C14_container_keys_order_as_compare)'
TRUSTED = ['Coq 8.16.1 kernel', 'translator (levels)', 'extraction + OCaml driver', 'Rust harness', 'specification CmpKey.v (tree-level key, class key_safe_doc) and the offset-faithful walker ComparableWalk.v tied by correspondence']
ASSUMPTIONS = ['documents are canonical encodings of well-formed values']
RULE = 'pairs as in C04 (mutations of a base document); the byte order of the two keys is compared with compare; pairs inside an open known-finding class are counted, not judged, EXCEPT pairs inside the proved class key_safe_doc (CmpKey.v), which are always judged; non-trivial = keys differ'


def has_big_int(v):
    for x in gen.subvalues(v):
        if x[0] in 'iu' and abs(x[1]) > 2 ** 53:
            return True
    return False


def strings_of(v):
    for x in gen.subvalues(v):
        if x[0] == 's':
            yield x[1]
        if x[0] == 'o':
            for k, _ in x[1]:
                yield k


def has_low_bytes(v):
    """a string or key containing a byte that can be taken for a depth marker (< 0x10 is ample for depth <= 15)"""
    return any(any(b < 0x10 for b in s) for s in strings_of(v))


def num_exact(x):
    """CmpKey.v num_key_exactb on the decoded number: every double (decoding makes any NaN the canonical one), and
    every integer that a double represents exactly"""
    if x[0] in 'iu':
        return int(float(x[1])) == x[1]
    return True


def key_safe(d, v):
    """CmpKey.v key_safe: the class on which Props/C14 C14_container_keys_order_as_compare is PROVED"""
    k = v[0]
    if k == 's':
        return all(b > d for b in v[1])
    if k in 'iud':
        return num_exact(v)
    if k == 'a':
        return (not v[1] or d < 255) and all(key_safe(d + 1, x) for x in v[1])
    if k == 'o':
        return (not v[1] or d < 255) and all(all(b > d + 1 for b in kk) and key_safe(d + 1, x) for kk, x in v[1])
    return True


def key_safe_doc(v):
    return True if v[0] == 's' else key_safe(0, v)


def too_deep(v, d=0):
    """a non-empty container at depth >= 255: its children's depth marker saturates"""
    if v[0] == 'a':
        return (len(v[1]) > 0 and d >= 255) or any(too_deep(x, d + 1) for x in v[1])
    if v[0] == 'o':
        return (len(v[1]) > 0 and d >= 255) or any(too_deep(x, d + 1) for _, x in v[1])
    return False


def deciding(a, b, c=-1):
    """walk both documents in parallel, as compare does, to the FIRST position where they differ: the pair that decides
    compare.  c = depth of the container enclosing a and b (-1: they are the documents themselves).  Returns None when the
    documents compare equal, else (what, x, y, depth of the innermost container around the position) with what =
    'rank' (values of different kinds) | 'str' | 'num' | 'key' (member names differ) | 'len' (one container ends first)"""
    if rank(a) != rank(b):
        return ('rank', a, b, c)
    k = a[0]
    if k in 'nb':
        return None
    if k == 's':
        return ('str', a, b, c) if a[1] != b[1] else None
    if k in 'iud':
        return ('num', a, b, c) if py_cmp(a, b) != 0 else None
    if k == 'a':
        for x, y in zip(a[1], b[1]):
            r = deciding(x, y, c + 1)
            if r:
                return r
    else:
        for (k1, x), (k2, y) in zip(a[1], b[1]):
            if k1 != k2:
                return ('key', ('s', k1), ('s', k2), c + 1)
            r = deciding(x, y, c + 1)
            if r:
                return r
    return ('len', a, b, c + 1) if len(a[1]) != len(b[1]) else None


def in_known_class(a, b):
    """the open known-finding class of the pair, judged at the DECIDING position only (a big integer or a low byte somewhere
    else in the documents excuses nothing):
      * the position lies inside a container at depth >= 255 (its depth marker has saturated)      -> depth-saturation
      * two numbers decide and one of them is an integer that no double represents exactly           -> big-int
      * two strings / two member names decide and one of them has a byte that is not above the depth marker of its
        container (depth of the container + 1): the byte can be taken for a marker                   -> marker-collision
    anything else (different kinds, exact numbers, clean strings, one container ending first) is judged"""
    r = deciding(a, b)
    if r is None:
        return None
    what, x, y, c = r
    if c >= 255:
        return 'comparable-key-depth-saturation'
    if what == 'num' and not (num_exact(x) and num_exact(y)):
        return 'comparable-key-big-int'
    if what in ('str', 'key') and c >= 0 and any(bb <= c + 1 for s in (x[1], y[1]) for bb in s):
        return 'comparable-key-marker-collision'
    return None


def generate(ctx):
    r = ctx.rng
    ds = common.docs(ctx, ctx.scale(700, 30000), finite=False)
    ctx.pairs = []
    ctx.mixed = []
    ctx.prefixed = []
    for t in (b'nul', b'[1,', b'tru e', b'@@', b'{"a"}'):
        ctx.add('convert_to_comparable %s' % gen.hexarg(t), kind='invalid-text')    # INVALID_LEVEL branch (tie only)
        ctx.add('convert_to_comparable@c0ffee %s' % gen.hexarg(t), kind='invalid-text')
    for a in ds:
        b = mutate(ctx, a) if r.random() < 0.8 else r.choice(ds)
        ea, eb = gen.hexarg(gen.enc(a)), gen.hexarg(gen.enc(b))
        ids = (ctx.add('convert_to_comparable %s' % ea).id, ctx.add('convert_to_comparable %s' % eb).id,
               ctx.add('compare %s %s' % (ea, eb)).id)
        ctx.pairs.append((a, b, ids))
        # the same pair with one side given as JSON TEXT (both functions accept either form): the key of a text is the key of
        # its encoding and compare answers the same whichever side is text (a seeded change swapped the operands when the text
        # is the RIGHT argument and forgot to reverse the answer)
        if gen.is_finite(a) and gen.is_finite(b) and r.random() < 0.4:
            ta, tb = gen.hexarg(gen.json_text(a, r)), gen.hexarg(gen.json_text(b, r))
            if not ta.startswith('20') and not tb.startswith('20'):
                ctx.mixed.append((a, b, ids, (ctx.add('convert_to_comparable %s' % ta).id, ctx.add('convert_to_comparable %s' % tb).id,
                                              ctx.add('compare %s %s' % (ea, tb)).id, ctx.add('compare %s %s' % (ta, eb)).id)))
                # composite sort keys: the key is APPENDED to a buffer that already holds a prefix (a tenant id, the key of an
                # earlier column), for a text as for an encoding
                pre = r.choice([b'tenant-42:', b'\x00', gen.enc(b)])
                ctx.prefixed.append((pre, ids[0], ctx.add('convert_to_comparable@%s %s' % (pre.hex(), ea)).id,
                                     ctx.add('convert_to_comparable@%s %s' % (pre.hex(), ta)).id))
    # strings / keys of 255 .. 65536 bytes and containers of 255 .. 1000 members against copies that differ at the very end
    # (sizes.py; second review H2): the keys must order them as compare does (all of them are inside the proved class)
    for lab, v in sizes.string_docs() + sizes.container_docs():
        for m in sizes.end_mutants(v)[:1 if lab.startswith(('obj1000', 'arr1000')) else 3]:
            if m[0] == 's':
                try:
                    m[1].decode('utf-8')
                except UnicodeDecodeError:
                    continue
            ea, eb = gen.hexarg(gen.enc(v)), gen.hexarg(gen.enc(m))
            ids = (ctx.add('convert_to_comparable %s' % ea).id, ctx.add('convert_to_comparable %s' % eb).id,
                   ctx.add('compare %s %s' % (ea, eb)).id)
            ctx.pairs.append((v, m, ids))
    # the byte walker on buffers that are NOT valid encodings (prefixes, one byte changed): tie only (ComparableWalk.v
    # models the early returns and the panics of convert_to_comparable on such buffers)
    small = [v for v in ds if len(gen.enc(v)) <= 100]
    for v in r.sample(small, min(len(small), ctx.scale(150, 4000))):
        e = gen.enc(v)
        muts = [e[:i] for i in range(len(e))] if len(e) <= 32 else [e[:r.randrange(len(e))] for _ in range(10)]
        for _ in range(14):
            i = r.randrange(len(e))
            muts.append(e[:i] + bytes([r.choice([0, 1, 4, 0x10, 0x20, 0x30, 0x40, 0x50, 0x7f, 0x80, 0xff, e[i] ^ 1, e[i] ^ 0x10, (e[i] + 1) & 0xff])]) + e[i + 1:])
        for m in muts:
            if m and m[0] in (0x80, 0x40, 0x20):
                ctx.add('convert_to_comparable %s' % gen.hexarg(m), kind='malformed')
    # numbers of every width and sign against each other (both zeros, fractions next to integers, the 64-bit limits),
    # at top level and at the deciding position inside a container
    nums = [('i', x) for x in gen.INT_POOL] + [('u', x) for x in gen.UINT_POOL] + [('d', x) for x in gen.FLOAT_POOL + gen.SPECIAL_FLOATS[:3]]
    zeros = [('d', gen.float_to_bits(-0.0)), ('d', 0), ('u', 0), ('i', 0)]
    pairs = [(x, y) for x in zeros for y in zeros + [('i', -1), ('d', gen.float_to_bits(-0.5)), ('d', gen.float_to_bits(5e-324)), ('d', gen.float_to_bits(-5e-324)), ('u', 1)]]
    for f in gen.FLOAT_POOL:
        x = gen.bits_to_float(f)
        if abs(x) < 2.0 ** 53:
            pairs += [(('d', f), ('i', int(x) + d)) for d in (-1, 0, 1)]
    for _ in range(ctx.scale(800, 30000)):
        pairs.append((r.choice(nums), r.choice(nums)))
    for j, (x, y) in enumerate(pairs):
        for a, b in ((x, y), (y, x)):
            if j % 3 == 1:
                a, b = ('a', [('s', b'p'), a]), ('a', [('s', b'p'), b])
            elif j % 3 == 2:
                a, b = ('o', [(b'k', a)]), ('o', [(b'k', b)])
            ea, eb = gen.hexarg(gen.enc(a)), gen.hexarg(gen.enc(b))
            ids = (ctx.add('convert_to_comparable %s' % ea).id, ctx.add('convert_to_comparable %s' % eb).id,
                   ctx.add('compare %s %s' % (ea, eb)).id)
            ctx.pairs.append((a, b, ids))


    # the bounds of the proved class key_safe_doc, from both sides (Props/C14 C14_marker_bounds_are_sharp): a string byte
    # one above its depth marker / a key byte two above the depth of its object is inside (must agree); equal to the
    # bound it is the open marker-collision finding.  Plus a pair decided three levels down after an equal prefix, and
    # the deepest nesting the class admits (a non-empty container at depth 254).
    def nest(n, v):
        for _ in range(n):
            v = ('a', [v])
        return v
    nul = ('n',)
    bounds = [(('a', [('s', b'a'), nul]), ('a', [('s', b'a\x02\x06')])),
              (('a', [('s', b'a'), nul]), ('a', [('s', b'a\x01\x06')])),
              (('o', [(b'a', nul)]), ('o', [(b'a\x02\x06', nul)])),
              (('o', [(b'a', nul)]), ('o', [(b'a\x01\x06', nul)])),
              (nest(2, ('a', [('s', b'a'), nul])), nest(2, ('a', [('s', b'a\x04\x06')]))),
              (nest(2, ('a', [('s', b'a'), nul])), nest(2, ('a', [('s', b'a\x03\x06')]))),
              (('a', [('o', [(b'k', ('a', [('s', b'ab'), ('o', [(b'm', ('u', 1)), (b'n', ('s', b'x'))])]))]), ('s', b'z')]),
               ('a', [('o', [(b'k', ('a', [('s', b'ab'), ('o', [(b'm', ('u', 1)), (b'n', ('s', b'xy'))])]))]), ('s', b'a')])),
              (nest(254, ('a', [('a', []), ('a', [])])), nest(254, ('a', [('a', []), ('a', []), ('a', [])]))),
              (nest(254, ('a', [('a', []), ('s', b'')])), nest(254, ('a', [('a', [])])))]
    for x, y in bounds:
        for a, b in ((x, y), (y, x)):
            ea, eb = gen.hexarg(gen.enc(a)), gen.hexarg(gen.enc(b))
            ids = (ctx.add('convert_to_comparable %s' % ea).id, ctx.add('convert_to_comparable %s' % eb).id,
                   ctx.add('compare %s %s' % (ea, eb)).id)
            ctx.pairs.append((a, b, ids))


def judge(ctx):
    impl = ctx.impl
    # the class is the one defined in Coq: the extracted CmpKey.key_safe_doc (on the decoded document) is asked about
    # every generated document, and the Python mirror used below for counting and judging must agree with it
    from .. import core
    docs = {}
    for a, b, _ in ctx.pairs:
        for v in (a, b):
            docs.setdefault(gen.hexarg(gen.enc(v)), v)
    keys = sorted(docs)
    out = core.run_cases(core.DRIVER_BIN, ['k%d key_safe_doc %s' % (i, h) for i, h in enumerate(keys)], ctx.pid + '-class')
    core.require_outcomes(out, ['k%d' % i for i in range(len(keys))], 'C14 class membership by the extracted key_safe_doc')
    for i, h in enumerate(keys):
        want = 'ok =true' if key_safe_doc(docs[h]) else 'ok =false'
        if out.get('k%d' % i, 'missing') != want:
            ctx.violate('the judge\'s mirror of key_safe_doc disagrees with the extracted CmpKey.key_safe_doc',
                        case=gen.vtext(docs[h]), expected_by_model=out.get('k%d' % i, 'missing'), observed=want)
    ctx.count('documents_classified_by_the_extracted_key_safe_doc', None, len(keys))
    for pre, plain, pb, pt in ctx.prefixed:
        k, kb, kt = impl.get(plain, 'missing'), impl.get(pb, 'missing'), impl.get(pt, 'missing')
        ctx.count('keys_appended_to_a_prefilled_buffer')
        if k.startswith('ok '):
            want = 'ok ' + gen.hexarg(pre + gen.unhexarg(k[3:]))
            if kb != want or kt != want:
                ctx.violate('a comparable key appended to a buffer that already holds bytes is not prefix ++ key', case=ctx.cases[int(pt[1:]) - 1].line[:400],
                            expected=want[:300], observed={'encoding': kb[:300], 'text': kt[:300]})
    for a, b, ids, tids in ctx.mixed:
        ka, kb, c = [impl.get(i, 'missing') for i in ids]
        kta, ktb, c_bt, c_tb = [impl.get(i, 'missing') for i in tids]
        ctx.count('pairs_with_one_side_as_json_text')
        if (kta, ktb) != (ka, kb):
            ctx.violate('the comparable key of a JSON text differs from the key of its encoding', case=[gen.vtext(a), gen.vtext(b)],
                        observed={'keys_of_encodings': [ka, kb], 'keys_of_texts': [kta, ktb]})
        if c_bt != c or c_tb != c:
            ctx.violate('compare answers differently when one side is given as JSON text, so it no longer agrees with the order of the keys',
                        case=[gen.vtext(a), gen.vtext(b)], observed={'compare(jsonb, jsonb)': c, 'compare(jsonb, text)': c_bt, 'compare(text, jsonb)': c_tb})
    for a, b, ids in ctx.pairs:
        ka, kb, c = [impl.get(i, 'missing') for i in ids]
        if not (ka.startswith('ok ') and kb.startswith('ok ') and c.startswith('ok =')):
            ctx.violate('convert_to_comparable / compare failed on valid documents', case=[gen.vtext(a), gen.vtext(b)], observed=[ka, kb, c])
            continue
        x, y = gen.unhexarg(ka[3:]), gen.unhexarg(kb[3:])
        kc = 'ok =' + NAMES[(x > y) - (x < y)]
        proved = key_safe_doc(a) and key_safe_doc(b)
        ctx.count('pairs', 'inside the proved class key_safe_doc' if proved else 'outside (a number not exactly a double, or a string byte <= its depth marker)')
        if proved:
            ctx.count('pairs_inside_proved_class_by_outcome', c[4:])
            if any(v[0] in 'ao' and v[1] for v in (a, b)):
                ctx.count('pairs_inside_proved_class_with_a_nonempty_container')
        if kc != c and proved:
            # no known class can excuse a pair on which the embedding is a theorem of the model
            ctx.violate('byte order of the comparable keys differs from compare INSIDE the proved class key_safe_doc',
                        case=[gen.vtext(a), gen.vtext(b)], observed={'keys': [ka, kb], 'key_order': kc, 'compare': c})
        elif kc != c:
            cls = in_known_class(a, b)
            ctx.count('mismatches_outside_the_proved_class_by_deciding_position', cls or 'no known class: judged')
            if cls and cls in ctx.open_classes:
                ctx.known_hits[cls] = ctx.known_hits.get(cls, 0) + 1
            else:
                ctx.violate('byte order of the comparable keys differs from compare', case=[gen.vtext(a), gen.vtext(b)],
                            observed={'keys': [ka, kb], 'key_order': kc, 'compare': c})
