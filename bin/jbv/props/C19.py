"""C19 — conversion to and from serde_json preserves the document."""
from .. import gen
from . import common, sizes
from .C03 import strict_parse

SPEC_THEOREM = ('Props/C19: serde_to_value (value_to_serde v) is value-equal to v for finite v; object-only variant agrees; '
                'byte walker: to_serde_json_w (enc v) = to_serde_json_t v, to_serde_json_object_w likewise (SerdeWalk.v, offset-faithful)')
TRUSTED = ['Coq 8.16.1 kernel', 'translator', 'extraction + OCaml driver', 'Rust harness (structural dump of serde_json::Value)',
           'model Serde.v of the serde_json data model (modelled, not verified)', 'Python json as the strict parser of the rendering']
ASSUMPTIONS = ['documents are canonical encodings of well-formed values with finite numbers']
RULE = 'finite documents with integers across the whole u64/i64 ranges; to_serde_json / to_serde_json_object on bytes, both From impls on trees; non-trivial = a container or a number'


def serde_form(v):
    """what serde_json stores: non-negative i64 become PosInt (printed u), negatives i, floats d"""
    k = v[0]
    if k == 'i' and v[1] >= 0:
        return ('u', v[1])
    if k == 'a':
        return ('a', [serde_form(x) for x in v[1]])
    if k == 'o':
        return ('o', [(kk, serde_form(x)) for kk, x in v[1]])
    return v


def generate(ctx):
    ds = common.docs(ctx, ctx.scale(500, 20000), finite=True)
    ds += [('i', x) for x in gen.INT_POOL] + [('u', x) for x in gen.UINT_POOL] + [('d', x) for x in gen.FLOAT_POOL]
    # strings / keys of 255 .. 65536 bytes, containers of 255 .. 1000 members (sizes.py; second review H2)
    ds += [v for _, v in sizes.string_docs() + sizes.container_docs()]
    # containers beyond a few thousand elements (a seeded `hardening` clamped the pre-allocation to 4096 and then compared the clamped
    # count with the number of converted elements)
    ds += [('a', [('u', i % 7) for i in range(n)]) for n in (4095, 4096, 4097, 5000)] + [('a', [('a', [('b', True)] * 4097)]),
           ('o', [(('k%05d' % i).encode(), ('u', 1)) for i in range(4097)])]
    ctx.trials = []
    for v in ds:
        e = gen.hexarg(gen.enc(v))
        t = gen.vtext(v)
        ids = (ctx.add('to_serde_json %s' % e).id, ctx.add('to_serde_json_object %s' % e).id,
               ctx.add('value_to_serde %s' % t).id, ctx.add('serde_roundtrip %s' % t).id,
               ctx.add('to_string_raw %s' % e, diff=False).id)
        ctx.add('serde_to_value %s' % gen.vtext(serde_form(v)))
        ctx.trials.append((v, ids))
    # non-finite numbers: an error from bytes (never a panic)
    for b in gen.SPECIAL_FLOATS[:3]:
        ctx.add('to_serde_json %s' % gen.hexarg(gen.enc(('a', [('d', b)]))))
    malformed_stream(ctx, ds)
    from_prim_stream(ctx, ds)


def alloc_safe(m):
    """no byte that, read as the first byte of a container header, puts count bits >= 2^24 into `with_capacity`
    (Vec / Map / VecDeque::with_capacity(count) is called before anything is read; a refused allocation aborts the process)"""
    return all(not ((b & 0xE0) in (0x80, 0x40) and (b & 0x1F)) for b in m)


def malformed_stream(ctx, ds):
    """the byte walker on buffers that are NOT valid encodings (prefixes, one byte changed): C19 says nothing about them,
    but the offset-faithful model (SerdeWalk.v) does: a failed read / Number::decode error / unknown tag / non-finite float
    is an error, a slice past the end panics, a string is taken without a UTF-8 check, a repeated key replaces.
    Tie only (model = code).  Counts stay small: see alloc_safe."""
    r = ctx.rng
    small = [v for v in ds if len(gen.enc(v)) <= 120]
    vals = [0, 1, 2, 3, 0x10, 0x20, 0x30, 0x40, 0x50, 0x60, 0x70]
    n_skipped = 0
    for v in r.sample(small, min(len(small), ctx.scale(150, 4000))):
        e = gen.enc(v)
        muts = [e[:i] for i in range(len(e))] if len(e) <= 40 else [e[:r.randrange(len(e))] for _ in range(12)]
        for b0 in (0x80, 0x40, 0x20, 0x00, 0x60):
            if e[0] != b0:
                muts.append(bytes([b0]) + e[1:])
        for _ in range(16):
            i = r.randrange(2, len(e)) if len(e) > 2 else 0
            if i < 2:
                continue
            muts.append(e[:i] + bytes([r.choice(vals + [e[i] ^ 1, e[i] ^ 0x10, (e[i] + 1) & 0xff])]) + e[i + 1:])
        for m in muts:
            if not alloc_safe(m):
                n_skipped += 1
                continue
            h = gen.hexarg(m)
            ctx.add('to_serde_json %s' % h, kind='malformed')
            ctx.add('to_serde_json_object %s' % h, kind='malformed')
    ctx.count('malformed_skipped_allocation', n=n_skipped)
    # hand-made non-canonical buffers: repeated / unsorted keys, strings and keys that are not UTF-8, unknown entry and
    # header tags below the top level, a container entry under the scalar header, stray bits in the scalar header
    w = gen.be32
    S, NUM, CONT = 0x10000000, 0x20000000, 0x50000000
    arr1 = w(0x80000001) + w(NUM | 2) + b'\x50\x07'
    hand = [
        w(0x40000002) + w(S | 1) + w(S | 1) + w(NUM | 2) + w(NUM | 2) + b'aa' + b'\x50\x01\x50\x02',
        w(0x40000002) + w(S | 1) + w(S | 1) + w(NUM | 2) + w(NUM | 2) + b'ba' + b'\x50\x01\x50\x02',
        w(0x40000003) + w(S | 1) * 3 + w(0) + w(0x40000000) + w(0x30000000) + b'kak',
        w(0x20000000) + w(S | 2) + b'\xff\xfe',
        w(0x40000001) + w(S | 2) + w(S | 3) + b'\xc3\x28' + b'\xe2\x82\x28',
        w(0x80000002) + w(0x60000000) + w(0),
        w(0x80000002) + w(0) + w(0x70000001) + b'x',
        w(0x80000001) + w(CONT | 4) + w(0xA0000000),
        w(0x80000001) + w(CONT | 4) + w(0x60000000),
        w(0x80000001) + w(CONT | 4) + w(0x00000000),
        w(0x80000001) + w(CONT | 2) + b'\x80\x00',
        w(0x80000001) + w(CONT | 0),
        w(0x20000000) + w(CONT | len(arr1)) + arr1,
        w(0x20000000) + w(CONT | 8) + w(0x20000000) + w(0x40000000),
        w(0x20000005) + w(NUM | 2) + b'\x50\x07',
        w(0x20000000) + w(NUM | 3) + b'\x50\x07',
        w(0x20000000) + w(NUM | 1) + b'\x50\x07',
        w(0x20000000) + w(NUM | 1) + b'\x20',
        w(0x20000000) + w(NUM | 1) + b'\x10',
        w(0x20000000) + w(NUM | 2) + b'\x30\x00',
        w(0x20000000) + w(NUM | 9) + b'\x60\x7f\xf0\x00\x00\x00\x00\x00\x00',
        w(0x20000000) + w(NUM | 9) + b'\x60\xff\xf8\x00\x00\x00\x00\x00\x01',
        w(0x20000000) + w(NUM | 9) + b'\x60\x80\x00\x00\x00\x00\x00\x00\x00',
        w(0x20000000) + w(NUM | 0),
        w(0x20000000) + w(0x80000000 | S | 1) + b'x',
        w(0x40000001) + w(S | 1) + w(CONT | 10) + b'k' + arr1,
        w(0x80000003) + w(S | 1) + w(S | 1),
        w(0x40000002) + w(S | 1),
    ]
    for m in hand:
        for mm in [m] + [m[:i] for i in range(4, len(m))]:
            h = gen.hexarg(mm)
            ctx.add('to_serde_json %s' % h, kind='malformed')
            ctx.add('to_serde_json_object %s' % h, kind='malformed')


def f32_to_f64_bits(b):
    """the double with the value of the f32 pattern b (struct does the widening); a NaN keeps sign and payload and is quiet"""
    import struct
    if (b >> 23) & 0xFF == 0xFF and b & 0x7FFFFF:
        return ((b >> 31) << 63) | (0x7FF << 52) | ((b & 0x7FFFFF) << 29) | (1 << 51)
    return gen.float_to_bits(struct.unpack('>f', struct.pack('>I', b))[0])


def from_prim_stream(ctx, ds):
    """the From<primitive> impls of from.rs (model coq/ValueApi.v: from_i64, from_u64, from_f64, from_f32, from_bool, from_string,
    from_unit, from_object, from_vec, from_pairs): every integer type at its limits, f32 patterns of every class (zeros, subnormals,
    the normal range, infinities, NaNs), f64 patterns, strings through String / &str / Cow, Vec / slice / iterator of i32 and of
    values, an iterator of (key, value) pairs with repeated keys (the later pair wins).  Diffed against the model; the integer and
    float cases are also judged on the implementation alone against the expected tree."""
    r = ctx.rng
    ctx.from_prim = []

    def add(kind, arg, want=None, *more):
        c = ctx.add(' '.join(['from_prim', kind, arg] + list(more)))
        if want is not None:
            ctx.from_prim.append((c.id, c.line, 'ok ' + gen.vtext(want)))
    for bits, name in ((8, 'i8'), (16, 'i16'), (32, 'i32'), (64, 'i64'), (64, 'isize')):
        lo, hi = -(1 << (bits - 1)), (1 << (bits - 1)) - 1
        for x in sorted(set([lo, lo + 1, -129, -128, -1, 0, 1, 127, 128, hi - 1, hi] + [r.randrange(lo, hi + 1) for _ in range(6)])):
            if lo <= x <= hi:
                add(name, str(x), ('i', x))
    for bits, name in ((8, 'u8'), (16, 'u16'), (32, 'u32'), (64, 'u64'), (64, 'usize')):
        hi = (1 << bits) - 1
        for x in sorted(set([0, 1, 127, 128, 255, 256, hi - 1, hi, hi // 2, hi // 2 + 1] + [r.randrange(0, hi + 1) for _ in range(6)])):
            if x <= hi:
                add(name, str(x), ('u', x))
    f32s = [0, 0x80000000, 1, 2, 0x00400000, 0x007FFFFF, 0x00800000, 0x00800001, 0x3F800000, 0xBF800000, 0x3DCCCCCD, 0x7F7FFFFF, 0xFF7FFFFF,
            0x7F800000, 0xFF800000, 0x7FC00000, 0xFFC00000, 0x7FC00001, 0x7FFFFFFF, 0x80000001, 0x807FFFFF, 0x00000100, 0x00012345]
    f32s += [r.getrandbits(32) for _ in range(ctx.scale(300, 5000))]
    f32s += [(r.getrandbits(1) << 31) | r.getrandbits(r.randrange(1, 24)) for _ in range(ctx.scale(60, 1000))]        # subnormals of every width
    for b in f32s:
        signalling = (b >> 23) & 0xFF == 0xFF and b & 0x7FFFFF and not b & 0x400000
        if signalling:
            continue          # a signalling NaN: whether `as f64` sets the quiet bit is left to the platform by the language
        for kind in ('f32', 'of32'):
            add(kind, '%08x' % b, ('d', f32_to_f64_bits(b)))
    for b in gen.FLOAT_POOL + gen.SPECIAL_FLOATS + [r.getrandbits(64) for _ in range(50)]:
        for kind in ('f64', 'of64'):
            add(kind, '%016x' % b, ('d', b))
    add('bool', '1', ('b', True))
    add('bool', '0', ('b', False))
    add('unit', '-', ('n',))
    strs = [b'', b'a', 'é€😀'.encode(), b'a"b\\c\n', b'\x00\x7f'] + [ctx.g.string() for _ in range(20)]
    for st in strs:
        for kind in ('string', 'str', 'cow'):
            add(kind, gen.hexarg(st), ('s', st))
    for _ in range(30):
        xs = [r.choice([0, 1, -1, 2147483647, -2147483648, r.randrange(-1000, 1000)]) for _ in range(r.randrange(0, 6))]
        for kind in ('vec_i32', 'slice_i32', 'iter_i32'):
            add(kind, ','.join(str(x) for x in xs) or '_', ('a', [('i', x) for x in xs]))
    add('vec_str', gen.hexlist(strs[:4]), ('a', [('s', x) for x in strs[:4]]))
    add('vec_str', '_', ('a', []))
    for v in ds[:120] + r.sample(ds, min(len(ds), 80)):
        if gen.nodes(v) > 300:
            continue
        if v[0] == 'a':
            for kind in ('vec_value', 'iter_value'):
                add(kind, gen.vtext(v), v)
        if v[0] == 'o':
            add('object', gen.vtext(v), v)
            # the members in a shuffled order with some of them repeated under the same key with another value: the LAST pair of a key wins
            pairs = list(v[1]) + [(k, ('s', b'early')) for k, _ in v[1][:2]]
            r.shuffle(pairs)
            final = {}
            for k, x in pairs:
                final[k] = x
            add('pairs', gen.hexlist([k for k, _ in pairs]), ('o', sorted(final.items())), gen.vtext(('a', [x for _, x in pairs])))


def judge_from_prim(ctx):
    for cid, line, want in getattr(ctx, 'from_prim', []):
        o = ctx.impl.get(cid, 'missing')
        if o != want:
            ctx.violate('a From<..> for Value conversion does not build the expected value', case=line[:300], expected=want[:300], observed=o[:300])


def judge(ctx):
    impl = ctx.impl
    judge_from_prim(ctx)
    for v, ids in ctx.trials:
        sj, so, vs, rt, ts = [impl.get(i, 'missing') for i in ids]
        case = gen.vtext(v)
        want = 'ok ' + gen.vtext(serde_form(v))
        if sj != want:
            ctx.violate('to_serde_json is not the document (same structure, strings, members, numbers)', case=case, expected=want, observed=sj)
        if vs != want:
            ctx.violate('From<Value> for serde_json::Value is not the document', case=case, expected=want, observed=vs)
        if ts.startswith('ok '):
            try:
                parsed = strict_parse(gen.unhexarg(ts[3:]))
                if 'ok ' + gen.vtext(parsed) != sj:
                    ctx.violate('to_serde_json differs from what a strict parser reads from the text rendering', case=case,
                                expected=gen.vtext(parsed), observed=sj)
            except Exception:
                pass   # C03's business
        wo = want if v[0] == 'o' else 'ok =none'
        if so != wo:
            ctx.violate('to_serde_json_object disagrees with the general conversion', case=case, expected=wo, observed=so)
        if not rt.endswith('=true'):
            ctx.violate('converting to serde_json and back does not give an equal value', case=case, observed=rt)
