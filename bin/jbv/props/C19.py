"""C19 — conversion to and from serde_json preserves the document."""
from .. import gen
from . import common
from .C03 import strict_parse

SPEC_THEOREM = 'Props/C19: serde_to_value (value_to_serde v) is value-equal to v for finite v; object-only variant agrees'
TRUSTED = ['Coq 8.16.1 kernel', 'translator', 'extraction + OCaml driver', 'Rust harness (structural dump of serde_json::Value)',
           'model Serde.v of the serde_json data model (modelled, not verified)', 'Python json as the strict parser of the rendering']
ASSUMPTIONS = ['documents are canonical encodings of well-formed values with finite numbers']
RULE = 'finite documents with integers across the whole u64/i64 ranges; to_serde_json / to_serde_json_object on bytes, both From impls on trees; non-trivial = a container or a number'


def serde_form(v):
    """what serde_json stores: non-negative i64 become PosInt (printed u), negatives i, floats d"""
    k = v[0]
    if k == 'i' and v[1] >= 0:
        return ('u', v[1])
    if k == 'a':
        return ('a', [serde_form(x) for x in v[1]])
    if k == 'o':
        return ('o', [(kk, serde_form(x)) for kk, x in v[1]])
    return v


def generate(ctx):
    ds = common.docs(ctx, ctx.scale(500, 20000), finite=True)
    ds += [('i', x) for x in gen.INT_POOL] + [('u', x) for x in gen.UINT_POOL] + [('d', x) for x in gen.FLOAT_POOL]
    ctx.trials = []
    for v in ds:
        e = gen.hexarg(gen.enc(v))
        t = gen.vtext(v)
        ids = (ctx.add('to_serde_json %s' % e).id, ctx.add('to_serde_json_object %s' % e).id,
               ctx.add('value_to_serde %s' % t).id, ctx.add('serde_roundtrip %s' % t).id,
               ctx.add('to_string_raw %s' % e, diff=False).id)
        ctx.add('serde_to_value %s' % gen.vtext(serde_form(v)))
        ctx.trials.append((v, ids))
    # non-finite numbers: an error from bytes (never a panic)
    for b in gen.SPECIAL_FLOATS[:3]:
        ctx.add('to_serde_json %s' % gen.hexarg(gen.enc(('a', [('d', b)]))))


def judge(ctx):
    impl = ctx.impl
    for v, ids in ctx.trials:
        sj, so, vs, rt, ts = [impl.get(i, 'missing') for i in ids]
        case = gen.vtext(v)
        want = 'ok ' + gen.vtext(serde_form(v))
        if sj != want:
            ctx.violate('to_serde_json is not the document (same structure, strings, members, numbers)', case=case, expected=want, observed=sj)
        if vs != want:
            ctx.violate('From<Value> for serde_json::Value is not the document', case=case, expected=want, observed=vs)
        if ts.startswith('ok '):
            try:
                parsed = strict_parse(gen.unhexarg(ts[3:]))
                if 'ok ' + gen.vtext(parsed) != sj:
                    ctx.violate('to_serde_json differs from what a strict parser reads from the text rendering', case=case,
                                expected=gen.vtext(parsed), observed=sj)
            except Exception:
                pass   # C03's business
        wo = want if v[0] == 'o' else 'ok =none'
        if so != wo:
            ctx.violate('to_serde_json_object disagrees with the general conversion', case=case, expected=wo, observed=so)
        if not rt.endswith('=true'):
            ctx.violate('converting to serde_json and back does not give an equal value', case=case, observed=rt)
