"""C20 — deep nesting and extreme arguments end in a result or an error, never a crash."""
from .. import gen, core
from . import common

SPEC_THEOREM = 'Props/C20: index arithmetic of every position-taking function stays inside i64/Z for all i32 arguments (Part A); recursion depth is unbounded in the input (Part B, refuted bound)'
TRUSTED = ['Coq 8.16.1 kernel', 'extraction + OCaml driver', 'Rust harness (debug build: overflow checks on; one child process per deep case)']
ASSUMPTIONS = ['the stack limit itself is outside the model: Part B is exhibited by child processes on this machine (default 8 MiB main-thread stack, debug build)']
RULE = 'Part A: every position-taking function x i32 extremes and boundaries x array lengths 0..5, JSONPath indices/slices with last +- extremes, get_by_index at usize extremes. Part B: 24 entry points x arrays/objects x depths 10^2..10^5 (5*10^5 thorough), each in its own process; non-trivial = a case at an extreme argument or depth >= 1000'

EXT = [0, 1, -1, 2, -2, 5, -5, 2147483647, -2147483647, -2147483648, 2147483646, 1073741824, -1073741824, 65536, -65536]
ENTRY = ['parse', 'parse_drop', 'decode', 'encode', 'to_string', 'to_pretty_string', 'compare', 'get_by_path', 'comparable', 'contains', 'strip_nulls', 'to_serde_json', 'traverse',
         # the buffer writers and the key-path reader (second review, M5): delete_by_keypath descends one call per level (open known
         # finding); the others were checked NOT to recurse on the document (ok at 10^5 levels) and must stay that way
         'delete_by_keypath', 'get_by_keypath', 'concat', 'array_insert', 'object_insert', 'delete_by_name', 'delete_by_index',
         'object_delete_pick', 'array_distinct',
         # the renderers on a deep document given as JSON text: they hand the text back without parsing it and must stay that way
         'to_string_text', 'to_pretty_string_text']


def generate(ctx):
    r = ctx.rng
    for ln in range(0, 6):
        v = ('a', [('u', i) for i in range(ln)])
        nested = ('o', [(b'a', v)])
        e, ne = gen.hexarg(gen.enc(v)), gen.hexarg(gen.enc(nested))
        for i in EXT:
            ctx.add('delete_by_index %s %d' % (e, i), kind='extreme')
            ctx.add('array_insert %s %d 2000000000000000' % (e, i), kind='extreme')
            ctx.add('delete_by_keypath %s i%d' % (e, i), kind='extreme')
            ctx.add('delete_by_keypath %s n61,i%d' % (ne, i), kind='extreme')
            ctx.add('get_by_keypath %s i%d' % (e, i), kind='extreme')
            ctx.add('get_by_keypath %s n61,i%d' % (ne, i), kind='extreme')
            for t in (gen.hexarg(gen.json_text(v)),):
                ctx.add('delete_by_index %s %d' % (t, i), kind='extreme')
                ctx.add('delete_by_keypath %s i%d' % (t, i), kind='extreme')
                ctx.add('get_by_keypath %s i%d' % (t, i), kind='extreme')
            for j in r.sample(EXT, 5):
                for p in ('R;I(x%d)' % i, 'R;I(l%d)' % i, 'R;I(Sx%d~l%d)' % (i, j), 'R;I(Sl%d~x%d)' % (i, j), 'R;I(Sl%d~l%d,x%d)' % (i, j, j)):
                    ctx.add('select %s %s all' % (e, p), kind='extreme')
    # get_by_index takes a usize: indices far beyond any array (and beyond i32 / u32 / i64) must simply miss.
    # (the model compares the index with the length before any unary conversion, so these are diffed too)
    ctx.usize_cases = []
    for v in (('a', []), ('a', [('u', 1), ('u', 2), ('u', 3)]), ('o', [(b'a', ('u', 1))]), ('u', 7)):
        e = gen.hexarg(gen.enc(v))
        for i in (2000000, (1 << 31) - 1, 1 << 31, (1 << 32) - 1, 1 << 32, (1 << 32) + 1, (1 << 63) - 1, 1 << 63, (1 << 64) - 2, (1 << 64) - 1):
            ctx.usize_cases.append(ctx.add('get_by_index %s %d' % (e, i), kind='extreme').id)
    # `last - 2147483648` etc. through the parser (i64 then checked_neg and i32::try_from; was saturating_neg)
    for t in (b'$[last - 2147483648]', b'$[last + 2147483647]', b'$[-2147483648 to last]', b'$[last-2147483647 to 2147483647]', b'{-2147483648}', b'{2147483647}'):
        ctx.add(('parse_json_path %s' if t[:1] == b'$' else 'parse_key_paths %s') % gen.hexarg(t), kind='extreme')
    ctx.deep = []
    depths = [100, 128, 129, 200, 255, 256, 257, 300, 500, 1000, 2000, 5000, 10000, 20000, 50000, 100000] + ([200000, 500000] if not ctx.quick else [])
    known = {k['class']: k for k in core.load_known() if k.get('property') == 'C20' and k.get('status') == 'open' and k.get('class')}
    for sub in ENTRY:
        for kind in ('arr', 'obj'):
            ns = set(depths)
            if sub == 'to_pretty_string':
                # the indentation makes the output quadratic in the depth: moderate depths only, but from the first levels on
                ns = set([8, 16, 17, 32, 33, 64, 65] + [d for d in depths if d <= 2000])
            k = known.get('deep-recursion-%s' % sub)
            if k and 'min_depth_by_kind' in k:
                # the deepest document that is known to go through on the unchanged tree must still go through
                ns.add(k['min_depth_by_kind'][kind] - 1)
            for n in sorted(ns):
                ctx.deep.append((sub, n, kind))


def judge(ctx):
    for c in ctx.cases:
        o = ctx.impl.get(c.id, 'missing')
        if o == 'panic' or o.startswith('abort'):
            ctx.violate('an extreme position argument panics (arithmetic overflow)', case=c.line, observed=o)
    for cid in ctx.usize_cases:
        o = ctx.impl.get(cid, 'missing')
        if o != 'ok =none':
            ctx.violate('get_by_index with an index beyond every array does not answer None', case=[c.line for c in ctx.cases if c.id == cid][0], expected='ok =none', observed=o)
    # Part B: each deep case in its own process
    import concurrent.futures
    def one(t):
        sub, n, kind = t
        try:
            return t, core.run_one(core.HARNESS_BIN, 'd deep %s %d %s' % (sub, n, kind), timeout=300)
        except Exception as ex:
            return t, 'timeout'
    # a known deep-recursion finding is a stack overflow (the child dies on a signal) at or beyond the depth recorded
    # with the finding; a panic, or a crash on a shallower document, is a different violation and is reported
    known = {k['class']: k for k in core.load_known() if k.get('property') == 'C20' and k.get('status') == 'open' and k.get('class')}
    first_bad = {}
    with concurrent.futures.ThreadPoolExecutor(max_workers=8) as ex:
        for (sub, n, kind), o in ex.map(one, ctx.deep):
            ctx.count('deep_outcomes', '%s:%s' % (sub, o.split(' ')[0]))
            if core.infra_outcome(o):
                raise core.InfraError('deep %s %d %s -> %s' % (sub, n, kind, o))
            if o.startswith('ok') or o.startswith('err'):
                ctx.nontrivial.add(('deep', sub, n, kind))          # counted only when the call completed
                continue
            key = (sub, kind)
            if key not in first_bad or n < first_bad[key][0]:
                first_bad[key] = (n, o)
            cls = 'deep-recursion-%s' % sub
            k = known.get(cls)
            if k and o in core.STACK_OVERFLOW_DEATHS and n >= k.get('min_depth_by_kind', {}).get(kind, k.get('min_depth', 1 << 62)):
                ctx.known_hits[cls] = ctx.known_hits.get(cls, 0) + 1
            else:
                ctx.violate('a nested document brings the call down' if o.startswith('abort') else 'a nested document makes the call panic',
                            case='deep %s %d %s' % (sub, n, kind), observed=o)
    ctx.stats['first_crashing_depth'] = {'%s/%s' % k: '%d (%s)' % v for k, v in sorted(first_bad.items())}
