"""C05 — read-only accessors on JSONB bytes agree with the document they encode."""
from .. import gen
from . import common, treeoracle, sizes

SPEC_THEOREM = 'Props/C05: accessor_m (enc v) = lift enc (accessor_t v) (tree answer), results canonical'
TRUSTED = ['Coq 8.16.1 kernel', 'translator (tags, masks, is_jsonb set)', 'extraction + OCaml driver', 'Rust harness',
           'hand-written model: tree operations TreeOps.v; byte walkers tied by correspondence (view-level) and, for the walkers in Walk.v and CastWalk.v, by refinement proofs']
ASSUMPTIONS = ['documents are canonical encodings of well-formed values with top-level count < 2^24',
               'str::to_lowercase agrees with ASCII lower-casing on the words true/false; std integer/float grammars are modelled (parse_int_std, parse_float_std)']
RULE = 'every accessor x (all indices -len-2..len+2; every key of the document, case variants, proper prefixes, empty, multi-byte; key paths 0..depth+1 from the structure plus perturbations); non-trivial = result is not none/false/error'

SCALAR_OPS = ['type_of', 'is_null', 'as_null', 'is_boolean', 'as_bool', 'to_bool', 'is_number', 'as_number', 'is_i64',
              'as_i64', 'to_i64', 'is_u64', 'as_u64', 'to_u64', 'is_f64', 'as_f64', 'to_f64', 'is_string', 'as_str',
              'to_str', 'is_array', 'is_object', 'array_length', 'object_keys', 'object_each', 'array_values']
CAST_STRINGS = [b'true', b'TRUE', b'False', b'fAlSe', b'truex', b'1', b'-1', b'+5', b'0', b'007', b'9223372036854775807',
                b'9223372036854775808', b'-9223372036854775808', b'-9223372036854775809', b'18446744073709551615',
                b'18446744073709551616', b'1.5', b'1e3', b'.5', b'5.', b'-0', b'+', b'-', b'', b' 1', b'1 ', b'inf', b'-Infinity',
                b'nan', b'NaN', b'1e400', b'1e-400', b'0x10', b'1_0', b'1e', b'1e+', b'e5', b'.', b'12abc', b'\xef\xbc\x91']
# numeric strings LONGER than the longest i64 / u64 literal (leading zeros, an explicit sign): still integers for the string
# fallback of the casts (a seeded length guard of 20 bytes refused them)
CAST_STRINGS += [b'000000000000000000000042', b'-09223372036854775808', b'+18446744073709551615', b'-000000000000000000000', b'0' * 40 + b'1',
                 b'+' + b'0' * 19 + b'7', b'-' + b'0' * 19 + b'7', b'0' * 20, b'0' * 21, b'00000000000000000000018446744073709551615',
                 b'00000000000000000000018446744073709551616', b'1.' + b'0' * 30, b'0.' + b'0' * 30 + b'1', b'1' + b'0' * 30, b'1e0000000000000000000002',
                 b'0' * 25 + b'.5', b'true' + b' ' * 20]


CAST_OPS = [op for op in SCALAR_OPS if op not in ('array_length', 'object_keys', 'object_each', 'array_values')]


def strs_of(v):
    return [x[1] for x in gen.subvalues(v) if x[0] == 's'] + common.keys_of(v)


def string_payload_is_utf8(m):
    """m[8 : 8 + (entry word & 0x0fffffff)] (cut at the end of the buffer) decodes as UTF-8, or there is no entry word"""
    if len(m) < 8:
        return True
    ln = int.from_bytes(m[4:8], 'big') & 0x0fffffff
    try:
        m[8:8 + ln].decode('utf-8')
        return True
    except UnicodeDecodeError:
        return False


def py_get_by_index(v, i):
    if v[0] == 'a' and 0 <= i < len(v[1]):
        return v[1][i]
    return None


def is_utf8(b):
    try:
        b.decode('utf-8')
        return True
    except UnicodeDecodeError:
        return False


def big_stream(ctx):
    """every accessor at the first / middle / last position (index, name, key path) of containers of 255 .. 1000 members and of
    documents with strings / keys of 255 .. 65536 bytes (sizes.py; second review H2).  All cases carry the meta of the tree
    oracles, so each answer is judged against the decoded tree as well as diffed against the model."""
    for lab, v in sizes.string_docs() + sizes.container_docs():
        e = gen.hexarg(gen.enc(v))
        for op in SCALAR_OPS:
            ctx.add('%s %s' % (op, e), meta=(op, v))
        n = len(v[1]) if v[0] in 'ao' else 0
        kps, keysets, needles = [], [], [b'zzz']
        if v[0] == 'a':
            for i in sorted(set(p for p in sizes.positions(n) if p >= 0)) + [n + 1]:
                ctx.add('get_by_index %s %d' % (e, i), meta=('get_by_index', v, i))
            kps = [[('i', i)] for i in sizes.positions(n)]
            kps += [[('i', i), ('n', b'i')] for i, x in sizes.first_mid_last(v) if x[0] == 'o'] + [[('i', n - 1), ('i', 0)]]
            strs = [x[1] for x in v[1] if x[0] == 's']
            if strs:
                keysets = [[strs[0], strs[-1]], [strs[-1] + b'x', strs[-1]], [strs[-1][:-1]], [b'nokey', strs[len(strs) // 2]]]
                needles += [strs[-1][:3], strs[-1], strs[-1] + b'x', strs[0][:-1]]
        elif v[0] == 'o':
            for _, (k, x) in sizes.first_mid_last(v):
                variants = [(k, 0), (k, 1), (k.upper(), 1), (k.upper(), 0), (k[:-1], 1), (k + b'x', 0)]
                for kk, ic in variants:
                    if is_utf8(kk):            # names are handed to the crate as &str
                        ctx.add('get_by_name %s %s %d' % (e, gen.hexarg(kk), ic), meta=('get_by_name', v, kk, ic))
                kps += [[('n', k)], [('q', k)], [('n', k), ('i', 0)]] + ([[('n', k[:-1])]] if is_utf8(k[:-1]) else [])
                needles += [k[:4], k, k + b'x'] + ([x[1][:-1], x[1] + b'x'] if x[0] == 's' else [])
            ks = [k for k, _ in v[1]]
            keysets = [[ks[0], ks[-1]], [ks[0], ks[-1] + b'x'], [b'nokey', ks[-1]], [ks[n // 2][:-1]], ks[::max(1, n // 7)]]
        for kp in kps:
            ctx.add('get_by_keypath %s %s' % (e, common.keypath_text(kp)), meta=('kp', v, kp))
        for ks in keysets:
            ctx.add('exists_all_keys %s %s' % (e, gen.hexlist(ks)), meta=('exists', v, list(ks), True))
            ctx.add('exists_any_keys %s %s' % (e, gen.hexlist(ks)), meta=('exists', v, list(ks), False))
        for nd in needles:
            ctx.add('traverse_check_string %s %s' % (e, gen.hexarg(nd)), meta=('trav', v, nd))
        ctx.count('big_documents', lab.split('-')[0].rstrip('0123456789'))


def generate(ctx):
    r = ctx.rng
    ds = common.docs(ctx, ctx.scale(350, 12000), finite=False)
    big_stream(ctx)
    ds += [('s', s) for s in CAST_STRINGS]
    ds += [('i', x) for x in gen.INT_POOL[::3]] + [('u', x) for x in gen.UINT_POOL[::3]] + [('d', x) for x in gen.FLOAT_POOL[::4] + gen.SPECIAL_FLOATS]
    # a key that is not UTF-8 against a document given as JSON TEXT (the from_utf8 error branch of the text path of
    # exists_all_keys / exists_any_keys; line coverage showed it unexercised): tie only
    for t in (b'{"a":1,"b":2}', b'["a","b"]', b'7'):
        for ks in ([b'a', b'\xff'], [b'\xff', b'a'], [b'\xc3'], [b'a', b'b']):
            ctx.add('exists_all_keys %s %s' % (gen.hexarg(t), gen.hexlist(ks)), kind='text-keys')
            ctx.add('exists_any_keys %s %s' % (gen.hexarg(t), gen.hexlist(ks)), kind='text-keys')
    for v in ds:
        e = gen.hexarg(gen.enc(v))
        for op in SCALAR_OPS:
            if v[0] in 'ao' and op in ('to_bool', 'to_i64', 'to_u64', 'to_f64', 'to_str') and r.random() < 0.7:
                continue
            ctx.add('%s %s' % (op, e), meta=(op, v))
        if v[0] == 'a' or r.random() < 0.1:
            ln = len(v[1]) if v[0] == 'a' else 1
            for i in range(0, ln + 3):
                ctx.add('get_by_index %s %d' % (e, i), meta=('get_by_index', v, i))
                ctx.count('sibling_width_before_lookup', 'n/a' if v[0] != 'a' or i == 0 or i > ln else
                          min(len(gen.enc_item(v[1][i - 1])[1]), 10))
        for k in common.key_variants(ctx, v)[:10]:
            for ic in (0, 1):
                ctx.add('get_by_name %s %s %d' % (e, gen.hexarg(k), ic), meta=('get_by_name', v, k, ic))
        ks = common.key_variants(ctx, v)
        for _ in range(2):
            sub = r.sample(ks, min(len(ks), r.choice([0, 1, 2, 3])))
            if r.random() < 0.1:
                sub = sub + [b'\xff\xfe']          # a key that is not UTF-8
            ctx.add('exists_all_keys %s %s' % (e, gen.hexlist(sub)), meta=('exists', v, list(sub), True))
            ctx.add('exists_any_keys %s %s' % (e, gen.hexlist(sub)), meta=('exists', v, list(sub), False))
        # key LISTS are iterators, not sets: the empty list, repeated keys, more keys than the container has members
        present = common.keys_of(v)[:2] or [x[1] for x in (v[1] if v[0] == 'a' else []) if x[0] == 's'][:2]
        for sub in ([], present * 2, (present[:1] * 5) if present else [b'a'] * 3, present + [b'missing'] + present):
            ctx.add('exists_all_keys %s %s' % (e, gen.hexlist(sub)), meta=('exists', v, list(sub), True))
            ctx.add('exists_any_keys %s %s' % (e, gen.hexlist(sub)), meta=('exists', v, list(sub), False))
        strs = [x[1] for x in gen.subvalues(v) if x[0] == 's'] + common.keys_of(v)
        for needle in ([b'', b'zzz'] + [s[:2] for s in strs[:3]] + strs[-1:]):
            ctx.add('traverse_check_string %s %s' % (e, gen.hexarg(needle)), meta=('trav', v, needle))
        for kp in common.keypaths_for(ctx, v, n=5):
            ctx.add('get_by_keypath %s %s' % (e, common.keypath_text(kp)), meta=('kp', v, kp))
            ctx.count('keypath_len', len(kp))
    # the byte walkers on buffers that are NOT valid encodings (prefixes, one byte changed): C05 says nothing about
    # them, but the offset-faithful model (Walk.v) does, including where an index expression panics; this stream
    # only feeds the correspondence tie, so that the model the C05_bytes_* theorems are about is the code's arithmetic
    small = [v for v in ds if len(gen.enc(v)) <= 120]
    for v in r.sample(small, min(len(small), ctx.scale(120, 3000))):
        e = gen.enc(v)
        muts = [e[:i] for i in range(len(e))] if len(e) <= 40 else [e[:r.randrange(len(e))] for _ in range(12)]
        for _ in range(12):
            i = r.randrange(len(e))
            muts.append(e[:i] + bytes([r.choice([0, 1, 4, 0x10, 0x20, 0x40, 0x50, 0x7f, 0x80, 0xff, e[i] ^ 1, e[i] ^ 0x10, (e[i] + 1) & 0xff])]) + e[i + 1:])
        ks = common.key_variants(ctx, v)
        kps = common.keypaths_for(ctx, v, n=2)
        for m in muts:
            h = gen.hexarg(m)
            ctx.add('array_length %s' % h, kind='malformed')
            ctx.add('get_by_index %s %d' % (h, r.randrange(0, 4)), kind='malformed')
            ctx.add('get_by_name %s %s %d' % (h, gen.hexarg(r.choice(ks)), r.randrange(2)), kind='malformed')
            ctx.add('get_by_keypath %s %s' % (h, common.keypath_text(r.choice(kps))), kind='malformed')
            for op in ('object_keys', 'object_each', 'array_values'):
                if r.random() < 0.5:
                    ctx.add('%s %s' % (op, h), kind='malformed')
            # the header/entry/payload readers (CastWalk.v): every scalar accessor and cast, and the container walk of
            # traverse_check_string.  to_bool lower-cases the from_utf8_unchecked text, so it only gets buffers whose
            # would-be string payload is valid UTF-8 (anything else is undefined behaviour in the code, not a result).
            for op in CAST_OPS:
                if op == 'to_bool' and not string_payload_is_utf8(m):
                    continue
                if r.random() < 0.6:
                    ctx.add('%s %s' % (op, h), kind='malformed')
            for needle in (b'', r.choice(strs_of(v) + [b'zzz'])[:2]):
                ctx.add('traverse_check_string %s %s' % (h, gen.hexarg(needle)), kind='malformed')
    # the same readers on scalar documents (where the entry word and the payload slice matter): every prefix, every byte
    # of the header and entry words replaced, payload bytes replaced (number payloads that Number::decode rejects,
    # lengths that run past the end), and a few bytes appended
    scalars = [v for v in ds if v[0] not in 'ao' and len(gen.enc(v)) <= 60]
    fixed = [('n',), ('b', True), ('b', False), ('s', b''), ('s', b'true'), ('s', b'-12'), ('u', 0), ('i', -129), ('d', gen.float_to_bits(1.5))]
    for v in fixed + r.sample(scalars, min(len(scalars), ctx.scale(90, 2000))):
        e = gen.enc(v)
        muts = [e[:i] for i in range(len(e))] + [e + b'\x00', e + b'ab']
        for i in range(min(len(e), 8)):
            for b in r.sample([0, 1, 2, 5, 0x10, 0x20, 0x30, 0x40, 0x50, 0x60, 0x70, 0x80, 0xa0, 0xff, e[i] ^ 1, e[i] ^ 0x10], 4):
                muts.append(e[:i] + bytes([b]) + e[i + 1:])
        for _ in range(4 if len(e) > 8 else 0):
            i = r.randrange(8, len(e))
            muts.append(e[:i] + bytes([r.choice([0, 0x10, 0x20, 0x30, 0x40, 0x50, 0x60, 0x61, 0x7f, 0x80, 0xff, e[i] ^ 1])]) + e[i + 1:])
        for m in muts:
            h = gen.hexarg(m)
            for op in CAST_OPS:
                if op == 'to_bool' and not string_payload_is_utf8(m):
                    continue
                if r.random() < 0.5:
                    ctx.add('%s %s' % (op, h), kind='malformed')
            if r.random() < 0.3:
                ctx.add('traverse_check_string %s %s' % (h, gen.hexarg(r.choice([b'', b'a', e[8:10]]))), kind='malformed')
    # the order in which traverse_check_string visits containers (a queue: level by level), seen through what happens
    # first: a string that matches in a shallow right sibling against an out-of-bounds string / an unknown header kind /
    # a short read deeper down on the left; and zero-length container entries that all point at the same offset
    S = lambda b: ('s', b)
    A = lambda *xs: ('a', list(xs))
    for doc in (A(A(A(S(b'x'))), A(S(b'a'))), A(A(A(S(b'x')), S(b'q')), ('o', [(b'a', S(b'y'))])),
                ('o', [(b'k', A(A(A(S(b'x'))))), (b'l', A(A(S(b'a'))))])):
        e = gen.enc(doc)
        i = e.index(bytes.fromhex('10000001') + b'x') if bytes.fromhex('10000001') + b'x' in e else e.index(bytes.fromhex('10000001'))
        j = e.rindex(bytes.fromhex('80000001'), 0, i)
        for m in (e[:i] + bytes.fromhex('100000ff') + e[i + 4:], e[:j] + bytes.fromhex('a0000001') + e[j + 4:],
                  e[:j] + bytes.fromhex('9fffffff') + e[j + 4:], e[:i] + bytes.fromhex('50000000') + e[i + 4:]):
            for needle in (b'a', b'x', b'q', b'y', b'zz', b''):
                ctx.add('traverse_check_string %s %s' % (gen.hexarg(m), gen.hexarg(needle)), kind='malformed')
    for k, d, tail in ((3, 4, b''), (4, 3, b''), (2, 6, bytes.fromhex('a0000000')), (3, 3, bytes.fromhex('8000000110000001') + b'a'),
                       (3, 3, bytes.fromhex('8000000110000002') + b'a')):
        m = b''.join((0x80000000 | k).to_bytes(4, 'big') + bytes.fromhex('50000000') * k for _ in range(d)) + tail
        for needle in (b'a', b''):
            ctx.add('traverse_check_string %s %s' % (gen.hexarg(m), gen.hexarg(needle)), kind='malformed')
    keys_malformed_stream(ctx, ds)
    value_api_stream(ctx, ds)


def alloc_safe(m):
    """no byte that, read as the first byte of a container header, carries count bits >= 2^24 (kept for uniformity with
    the C19 stream; the key walkers do not allocate by count)"""
    return all(not ((b & 0xE0) in (0x80, 0x40) and (b & 0x1F)) for b in m)


def keys_malformed_stream(ctx, ds):
    """exists_all_keys / exists_any_keys on buffers that are NOT valid encodings (prefixes, one byte changed, hand-made
    non-canonical layouts): ties the offset-faithful model KeysWalk.v (iterator reads, slices, early exits) to the code"""
    r = ctx.rng
    small = [v for v in ds if len(gen.enc(v)) <= 120 and v[0] in 'ao']
    vals = [0, 1, 2, 3, 0x10, 0x20, 0x30, 0x40, 0x50, 0x60, 0x70]
    for v in r.sample(small, min(len(small), ctx.scale(120, 3000))):
        e = gen.enc(v)
        muts = [e[:i] for i in range(len(e))] if len(e) <= 40 else [e[:r.randrange(len(e))] for _ in range(12)]
        for b0 in (0x80, 0x40, 0x20, 0x00, 0x60):
            if e[0] != b0:
                muts.append(bytes([b0]) + e[1:])
        for _ in range(14):
            if len(e) <= 2:
                break
            i = r.randrange(2, len(e))
            muts.append(e[:i] + bytes([r.choice(vals + [e[i] ^ 1, e[i] ^ 0x10, (e[i] + 1) & 0xff])]) + e[i + 1:])
        ks = common.key_variants(ctx, v)
        strs = [x[1] for x in (v[1] if v[0] == 'a' else []) if x[0] == 's']
        pool = ks + strs + [b'', b'a']
        for m in muts:
            if not alloc_safe(m):
                continue
            h = gen.hexarg(m)
            for _ in range(2):
                sub = r.sample(pool, min(len(pool), r.choice([1, 1, 2, 3])))
                if r.random() < 0.15:
                    sub.insert(r.randrange(len(sub) + 1), b'\xff\xfe')
                ctx.add('exists_all_keys %s %s' % (h, gen.hexlist(sub)), kind='malformed')
                ctx.add('exists_any_keys %s %s' % (h, gen.hexlist(sub)), kind='malformed')
    w = gen.be32
    S, NUM, CONT = 0x10000000, 0x20000000, 0x50000000
    hand = [
        w(0x40000002) + w(S | 1) + w(S | 1) + w(NUM | 2) + w(NUM | 2) + b'ba' + b'\x50\x01\x50\x02',
        w(0x40000002) + w(S | 1) + w(S | 9) + w(0) + w(0) + b'ab',
        w(0x40000002) + w(NUM | 1) + w(CONT | 1) + w(0) + w(0) + b'ab',
        w(0x40000003) + w(S | 1) + w(S | 1),
        w(0x80000003) + w(S | 1) + w(NUM | 1) + w(S | 1) + b'aab',
        w(0x80000003) + w(0) + w(S | 1) + w(S | 7) + b'ab',
        w(0x80000002) + w(NUM | 9) + w(S | 1) + b'a',
        w(0x80000002) + w(0x90000001) + w(0x10000001 | 0x0f000000) + b'ab',
        w(0x80000004) + w(S | 1) + w(S | 1) + b'ab',
        w(0x20000000) + w(S | 1) + b'a',
        w(0x2000),
        b'\x80', b'\x40\x00', b'\x20\x00\x00',
    ]
    keysets = [[b'a'], [b'b'], [b'a', b'b'], [b'b', b'a'], [b'zz', b'a'], [b'\xff', b'a'], [b'a', b'\xff'], [b''], []]
    for m in hand:
        for mm in [m] + [m[:i] for i in range(4, len(m))]:
            h = gen.hexarg(mm)
            for ks in keysets:
                ctx.add('exists_all_keys %s %s' % (h, gen.hexlist(ks)), kind='malformed')
                ctx.add('exists_any_keys %s %s' % (h, gen.hexlist(ks)), kind='malformed')


def value_api_stream(ctx, ds):
    """the tree-level helpers of value.rs (is_* / as_* / array_length / object_keys / eq_variant / get_by_name_ignore_case on a
    `Value`, model coq/ValueApi.v): every document of the corpus as a tree (op value_api prints all the views in one line), the
    case-insensitive lookup with the key variants of the document, eq_variant against documents of every variant.  Diffed against
    the model; and, on the implementation alone, compared with the byte-level accessor on the encoding (Props/ValueApi.v says the
    two agree: ValueApi_array_length, ValueApi_object_keys, ValueApi_get_by_name_ignore_case)."""
    r = ctx.rng
    ctx.value_api = []
    one_of_each = [('n',), ('b', True), ('s', b'x'), ('u', 1), ('i', -1), ('d', gen.float_to_bits(0.5)), ('a', []), ('o', [])]
    for v in ds:
        if gen.nodes(v) > 700:
            continue
        t = gen.vtext(v)
        e = gen.hexarg(gen.enc(v))
        ids = (ctx.add('value_api %s' % t).id, ctx.add('array_length %s' % e).id, ctx.add('object_keys %s' % e).id)
        ctx.value_api.append(('views', v, ids))
        for w in one_of_each[:3] + [r.choice(one_of_each), r.choice(ds[:60])]:
            ctx.add('value_eq_variant %s %s' % (t, gen.vtext(w)))
        if v[0] == 'o' or r.random() < 0.05:
            for k in common.key_variants(ctx, v)[:8]:
                if not is_utf8(k):
                    continue
                ids = (ctx.add('value_get_ci %s %s' % (t, gen.hexarg(k))).id, ctx.add('get_by_name %s %s 1' % (e, gen.hexarg(k))).id)
                ctx.value_api.append(('ci', v, ids))
    # several keys that differ in case only: the first in key order wins, an exact match wins over all
    for keys in ([b'KEY', b'Key', b'key'], [b'AB', b'Ab', b'aB'], [b'\xc3\x89a', b'\xc3\xa9A'], [b'a', b'b'], ['\u00b5S'.encode(), b'a'], ['\u00ffx'.encode(), b'zz'], ['\u212a'.encode(), b'k0']):
        v = ('o', sorted((k, ('u', i)) for i, k in enumerate(keys)))
        for name in keys + [keys[0].lower(), keys[0].upper(), keys[-1].swapcase(), b'kEY', b'', b'\xc3\xa9a', '\u00b5s'.encode(), '\u00ffX'.encode()]:
            ids = (ctx.add('value_get_ci %s %s' % (gen.vtext(v), gen.hexarg(name))).id,
                   ctx.add('get_by_name %s %s 1' % (gen.hexarg(gen.enc(v)), gen.hexarg(name))).id)
            ctx.value_api.append(('ci', v, ids))


def judge_value_api(ctx):
    for kind, v, ids in getattr(ctx, 'value_api', []):
        outs = [ctx.impl.get(i, 'missing') for i in ids]
        if kind == 'views':
            va, al, ok = outs
            f = dict(x.split('=', 1) for x in va.split(' ')[1:]) if va.startswith('ok ') else {}
            want_al = 'ok =' + f.get('alen', '?')
            if al != want_al:
                ctx.violate('Value::array_length differs from array_length on the encoding', case=gen.vtext(v)[:300], expected=al, observed=va[:300])
            if f.get('keys') == 'none':
                want_ok = 'ok =none'
            else:
                try:
                    want_ok = 'ok ' + gen.hexarg(gen.enc(gen.parse_vtext(f.get('keys', ''))))
                except Exception:
                    want_ok = '?'
            if ok != want_ok:
                ctx.violate('Value::object_keys differs from object_keys on the encoding', case=gen.vtext(v)[:300], expected=ok[:300], observed=va[:300])
            ctx.count('value_api_vs_bytes', 'views')
        else:
            ci, gb = outs
            if ci == 'ok =none' or not ci.startswith('ok '):
                want = ci
            else:
                want = 'ok ' + gen.hexarg(gen.enc(gen.parse_vtext(ci[3:])))
            if gb != want:
                ctx.violate('Value::get_by_name_ignore_case differs from get_by_name(.., true) on the encoding', case=gen.vtext(v)[:300],
                            expected=gb[:300], observed=ci[:300])
            ctx.count('value_api_vs_bytes', 'get_by_name_ignore_case')


def judge(ctx):
    judge_value_api(ctx)
    # independent tree oracles for the two most offset-sensitive walkers; everything else is judged by the model diff
    for c in ctx.cases:
        m = c.meta
        if not m:
            continue
        o = ctx.impl.get(c.id, 'missing')
        if o == 'panic':
            ctx.violate('accessor panics on a valid document', case=c.line, observed=o)
        if m[0] == 'get_by_index':
            x = py_get_by_index(m[1], m[2])
            want = 'ok ' + gen.hexarg(gen.enc(x)) if x is not None else 'ok =none'
            if o != want:
                ctx.violate('get_by_index differs from the element of the decoded tree', case=c.line, expected=want, observed=o)
        elif m[0] == 'array_length':
            want = 'ok =%d' % len(m[1][1]) if m[1][0] == 'a' else 'ok =none'
            if o != want:
                ctx.violate('array_length differs from the decoded tree', case=c.line, expected=want, observed=o)
        elif m[0] == 'get_by_name' and m[3] == 0:
            v, k = m[1], m[2]
            x = dict(v[1]).get(k) if v[0] == 'o' else None
            want = 'ok ' + gen.hexarg(gen.enc(x)) if x is not None else 'ok =none'
            if o != want:
                ctx.violate('get_by_name differs from the member of the decoded tree', case=c.line, expected=want, observed=o)
        # cheap independent oracles on the decoded tree (treeoracle.py: property text + doc comments, no model) for every other
        # accessor; None = the documentation does not decide this case (counted), the model diff still covers it
        want = None
        if m[0] == 'get_by_name':
            want = treeoracle.get_by_name(m[1], m[2], m[3] == 1)
        elif m[0] == 'kp':
            want = treeoracle.get_by_keypath(m[1], m[2])
        elif m[0] == 'exists':
            want = treeoracle.exists_keys(m[1], m[2], m[3])
        elif m[0] == 'trav':
            want = treeoracle.traverse_starts_with(m[1], m[2])
        elif m[0] in SCALAR_OPS:
            want = treeoracle.scalar_op(m[0], m[1])
        if m[0] in SCALAR_OPS or m[0] in ('get_by_name', 'kp', 'exists', 'trav'):
            name = m[0] if m[0] in SCALAR_OPS else {'kp': 'get_by_keypath', 'exists': 'exists_keys', 'trav': 'traverse_check_string'}.get(m[0], m[0])
            if want is None:
                ctx.count('tree_oracle_not_judged', name)
            else:
                ctx.count('tree_oracle_judged', name)
                if o != want:
                    ctx.violate('%s differs from the answer on the decoded tree (independent oracle)' % name, case=c.line[:600], expected=want[:300], observed=o[:300])
        if o.startswith('ok ') and not o.startswith('ok =') and m[0] in ('get_by_index', 'get_by_name', 'kp', 'object_keys'):
            try:
                gen.dec(gen.unhexarg(o[3:]))
            except gen.DecodeError as ex:
                ctx.violate('a sub-value handed back is not a complete canonical JSONB document', case=c.line, observed=o, why=str(ex))
