"""C11 — functions give the same answer for JSON text as for its JSONB encoding."""
from .. import gen
from . import common
from .C03 import strict_parse
from .C12 import derive, retype, unwrap

SPEC_THEOREM = 'Props/C11: is_jsonb separates text from encodings; every dispatching function gives the same result on spell d and enc (denote d)'
TRUSTED = ['Coq 8.16.1 kernel', 'translator (is_jsonb byte set)', 'extraction + OCaml driver', 'Rust harness', 'offset-faithful walker models (Iter.v, Builder.v, *Walk*.v) tied to the Rust functions by correspondence on valid and corrupt buffers; tree-level specifications TreeOps.v / SetOps.v / PathSem.v / Contain.v / CmpKey.v / Render.v / Serde.v; text branches as in Dispatch.v']
ASSUMPTIONS = ['JSON texts are valid, finite and do not begin with a space (a third of them begin with other white space: tab, LF, CR, FF, escaped forms); top-level count < 2^24']
RULE = 'every public function taking documents, all 2^k text/binary choices of its k document arguments, arguments from the C05/C06/C08/C12/C13 streams (second documents unrelated to, derived from, or a re-typed copy of the first); the outcomes of the 2^k calls must be equal; non-trivial = outcome is not none/false/error'


CASE_FOLD = [
    (['\u00c9a', 'b'], ['\u00e9a', '\u00c9A', '\u00e9A', 'B']),
    (['\u0391\u0392\u0393', 'x'], ['\u03b1\u03b2\u03b3', '\u0391\u0392\u03b3', 'X']),
    (['\u00c4rger', 'z'], ['\u00e4rger', '\u00c4RGER', '\u00e4RGER']),
    (['\u212a', 'a'], ['k', 'K', '\u212a']),                      # Kelvin sign lower-cases to ASCII k
    (['k', 'a'], ['\u212a', 'K']),
    (['\u0130', 'i'], ['I', 'i\u0307', '\u0131']),               # dotted capital I, dotless i
    (['stra\u00dfe', 'STRASSE'], ['strasse', 'STRA\u1e9eE', 'Stra\u00dfe']),
    (['\u017f', 's'], ['S', '\u017f']),                          # long s upper-cases to S
    (['\u0436\u0416', 'q'], ['\u0416\u0436', '\u0436\u0436', 'Q']),
    (['\u00b5S', 'a'], ['\u00b5s', '\u039cS', '\u03bcs']),                # micro sign: its upper case sorts AFTER it in UTF-8
    (['\u00ffx', 'b'], ['\u00ffX', '\u0178x', '\u0178X']),                # y diaeresis likewise
    (['\ud801\udc00'.encode('utf-16', 'surrogatepass').decode('utf-16'), 'm'], ['\ud801\udc28'.encode('utf-16', 'surrogatepass').decode('utf-16'), 'M']),  # Deseret
]


def unary_ops(ctx, v):
    r = ctx.rng
    k = gen.hexarg(r.choice(common.key_variants(ctx, v)))
    ks = gen.hexlist(r.sample(common.key_variants(ctx, v), 2))
    kp = common.keypath_text(r.choice(common.keypaths_for(ctx, v, n=2)))
    p = common.path_text(common.gen_path(ctx, v))
    i = r.randrange(-3, 4)
    ops = ['array_length {}', 'get_by_index {} %d' % abs(i), 'get_by_name {} %s 0' % k, 'get_by_name {} %s 1' % k, 'get_by_keypath {} %s' % kp,
           'object_keys {}', 'object_each {}', 'array_values {}', 'type_of {}', 'is_null {}', 'as_null {}', 'is_boolean {}', 'as_bool {}', 'to_bool {}',
           'is_number {}', 'as_number {}', 'is_i64 {}', 'as_i64 {}', 'to_i64 {}', 'is_u64 {}', 'as_u64 {}', 'to_u64 {}', 'is_f64 {}', 'as_f64 {}', 'to_f64 {}',
           'is_string {}', 'as_str {}', 'to_str {}', 'is_array {}', 'is_object {}', 'exists_all_keys {} %s' % ks, 'exists_any_keys {} %s' % ks,
           'traverse_check_string {} %s' % k, 'to_serde_json {}', 'to_serde_json_object {}', 'convert_to_comparable {}',
           'delete_by_keypath {} %s' % kp, 'delete_by_name {} %s' % k, 'delete_by_index {} %d' % i, 'array_distinct {}',
           'object_delete {} %s' % ks, 'object_pick {} %s' % ks, 'exists_all_keys {} _', 'exists_any_keys {} _',
           'exists_all_keys {} %s' % (k + ',' + k + ',' + k), 'exists_any_keys {} %s' % (k + ',' + k),
           'get_by_name {} %s 1' % gen.hexarg(bytes(gen.unhexarg(k)).decode('utf-8', 'ignore').swapcase().encode() or b'x'), 'strip_nulls {}', 'path_exists {} %s' % p, 'path_match {} %s' % p,
           'get_by_path {} %s' % p, 'get_by_path_first {} %s' % p, 'get_by_path_array {} %s' % p, 'parse_lazy_value {}',
           'get_by_path {} R', 'get_by_path_first {} R', 'get_by_path_array {} R', 'path_exists {} R', 'get_by_keypath {} _',
           'delete_by_keypath {} _', 'object_delete {} _', 'object_pick {} _']
    return ops


def binary_ops(ctx, v, w):
    r = ctx.rng
    k = gen.hexarg(r.choice(common.key_variants(ctx, v)))
    return ['contains {} {}', 'compare {} {}', 'concat {} {}', 'array_insert {} %d {}' % r.randrange(-3, 4), 'array_intersection {} {}',
            'array_except {} {}', 'array_overlap {} {}', 'object_insert {} %s {} %d' % (k, r.randrange(2))]


def generate(ctx):
    r = ctx.rng
    ds = [gen.text_form(v) for v in common.docs(ctx, ctx.scale(200, 8000), finite=True)]
    ds += [('u', x) for x in (12345678, 123456789012)] + [('i', -1234567), ('s', b'abc0000'), ('a', [('u', 1), ('u', 2), ('u', 3), ('u', 4)]),
                                                           ('d', gen.float_to_bits(7.91252914157506e-14)), ('d', gen.float_to_bits(-0.0)), ('d', gen.float_to_bits(1.0))]
    ctx.groups = []
    for v in ds:
        b = gen.hexarg(gen.enc(v))
        t = gen.json_text(v, r)
        if t[:1] == b' ':
            continue
        # the property covers every text that does not begin with a SPACE: other leading white space (tab, LF, CR, form
        # feed and the parser's escaped forms) is skipped by the parser and must be skipped by every function
        t_rfc = t
        if r.random() < 0.35:
            lead = r.choice([b'\t', b'\n', b'\r\n', b'\x0c', b'\\n', b'\\t\\x0C', b'\n  '])
            tail = r.choice([b'', b'\n', b' \t'])
            # to_string returns a text argument as it is, and the judge of the renderings is a strict RFC parser: those two
            # ops get RFC white space only
            t_rfc = (lead if lead in (b'\t', b'\n', b'\r\n', b'\n  ') else b'\n') + t + tail
            t = lead + t + tail
        t, t_rfc = gen.hexarg(t), gen.hexarg(t_rfc)
        for op in unary_ops(ctx, v):
            ids = [ctx.add(op.format(x)).id for x in (b, t)]
            ctx.groups.append((op, ids))
        # the second document: unrelated, or derived from the first (a part of it, an element of it, numbers re-typed 1 / 1.0),
        # so that containment, overlap and equality actually hold for a good share of the pairs
        c = r.random()
        if c < 0.35:
            w = r.choice(ds)
        elif c < 0.55:
            w = gen.text_form(derive(ctx, v))
        elif c < 0.7:
            w = gen.text_form(retype(ctx, derive(ctx, v)))
        elif c < 0.85:
            # an array below the top level replaced by one of its scalar elements: the bare-scalar rule of contains is for
            # the top level only
            w = gen.text_form(unwrap(ctx, v) if r.random() < 0.5 else derive(ctx, unwrap(ctx, v)))
        elif v[0] == 'a' and v[1]:
            w = gen.text_form(retype(ctx, r.choice(v[1])))
        else:
            w = gen.text_form(retype(ctx, v))
        wb, wt = gen.hexarg(gen.enc(w)), gen.hexarg(gen.json_text(w, r))
        if gen.unhexarg(wt)[:1] == b' ':
            continue
        for op in binary_ops(ctx, v, w):
            ids = [ctx.add(op.format(x, y)).id for x in (b, t) for y in (wb, wt)]
            ctx.groups.append((op, ids))
        for op in ('to_string', 'to_pretty_string'):
            ids = [ctx.add('%s_raw %s' % (op, x), diff=False).id for x in (b, t_rfc)]
            ctx.groups.append((op + '_raw', ids))
    # deterministic: objects of different sizes with shared keys through concat in every text / JSONB combination (the tree branch
    # is a second implementation of the merge)
    u = lambda n: ('u', n)
    small = [('o', [(b'b', u(1))]), ('o', [(b'a', u(1)), (b'z', ('s', b'l'))]), ('o', [])]
    large = [('o', [(b'a', u(10)), (b'b', u(20)), (b'c', u(30))]), ('o', [(b'', u(5)), (b'a', ('a', [u(1)])), (b'b', ('o', [])), (b'y', u(8)), (b'z', u(9))])]
    for x in small + large:
        for y in small + large:
            args = [(gen.hexarg(gen.enc(v)), gen.hexarg(gen.json_text(v))) for v in (x, y)]
            for op in ('concat {} {}', 'contains {} {}', 'compare {} {}'):
                ids = [ctx.add(op.format(a, b)).id for a in args[0] for b in args[1]]
                ctx.groups.append((op, ids))
    # deterministic: the ignore-case lookup folds ASCII letters only, in both forms -- keys and names that differ by the case of
    # NON-ASCII letters, or that full Unicode folding would identify with an ASCII name (Kelvin sign, dotted capital I, sharp s,
    # long s), must give the same answer for a text and for its encoding (a seeded change showed the random swapcase above
    # reaches such a pair only by luck)
    for keys, names in CASE_FOLD:
        v = ('o', sorted((k.encode(), ('u', n + 1)) for n, k in enumerate(keys)))
        b, t = gen.hexarg(gen.enc(v)), gen.hexarg(gen.json_text(v))
        for nm in names:
            for op in ('get_by_name {} %s 1' % gen.hexarg(nm.encode()), 'get_by_name {} %s 0' % gen.hexarg(nm.encode()),
                       'get_by_keypath {} %s' % common.keypath_text([('n', nm.encode())])):
                ids = [ctx.add(op.format(x)).id for x in (b, t)]
                ctx.groups.append((op, ids))


def judge(ctx):
    impl = ctx.impl
    for op, ids in ctx.groups:
        outs = [impl.get(i, 'missing') for i in ids]
        name = op.split(' ')[0]
        if name in ('to_string_raw', 'to_pretty_string_raw'):
            try:
                vals = [strict_parse(gen.unhexarg(o[3:])) for o in outs]
            except Exception as ex:
                ctx.violate('a rendering is not valid JSON', case=[ctx.cases[int(i[1:]) - 1].line for i in ids], observed=outs, why=str(ex)[:100])
                continue
            if any(v != vals[0] for v in vals):
                ctx.violate('renderings of a text and of its encoding denote different documents', case=[ctx.cases[int(i[1:]) - 1].line for i in ids], observed=outs)
            continue
        if name == 'parse_lazy_value':
            # ok <to_vec>|<array_length>|<to_value>
            pass
        if any(o != outs[0] for o in outs):
            ctx.violate('the result depends on whether a document is given as JSON text or as JSONB',
                        case=[ctx.cases[int(i[1:]) - 1].line for i in ids], observed=outs)
        ctx.count('functions', name)
