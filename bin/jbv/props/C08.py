"""C08 — JSONPath evaluation returns exactly the items the path denotes."""
from .. import gen
from . import common

SPEC_THEOREM = 'Props/C08: the evaluator never panics on parser-producible paths; selection = PathSem semantics on the decoded tree'
TRUSTED = ['Coq 8.16.1 kernel', 'translator', 'extraction + OCaml driver', 'Rust harness (paths are handed over as ASTs, no parser on the way)',
           'model PathSem.v: selector.rs step by step with positions replaced by the sub-values they denote (offset arithmetic tied by correspondence)']
ASSUMPTIONS = ['documents are canonical encodings of well-formed values', 'cross-kind comparisons follow the derived variant order of PathValue (the README is silent)']
RULE = '(path, document) pairs with paths generated from the document (steps hit) and perturbed; scalar roots, empty containers, container-valued items; step-kind pair coverage is measured; non-trivial = at least one item selected'


def generate(ctx):
    r = ctx.rng
    ds = common.docs(ctx, ctx.scale(500, 20000), finite=False)
    fixed = ['R', 'R;B', 'R;W', 'R;B;B', 'R;W;W', 'R;I(xl0)'.replace('xl0', 'l0'), 'R;I(x0,x0,l0,S' + 'x0~l0)', 'R;I(Sl-1~l0,x-1,x99)',
             'R;Fbgt(p(C)|vu1)', 'R;B;Fbgt(p(C)|vu1)', 'R;B;Fbeq(p(C;D61)|vu1)', 'R;Fe(C;D61)', 'Pbgt(p(R;D61)|vu0)', 'Pe(R;B)',
             'R;B;Fbor(band(bge(p(C)|vu1)|ble(p(C)|vu3))|beq(p(C)|vn))', 'R;D61;D62;D63;B', 'R;K61;O62', 'R;W;Fbne(p(C;B)|p(R;D62))',
             'R;I(l2147483647)', 'R;I(Sx-2147483648~l2147483647)', 'R;I(l-2147483648)', 'R;FAb+(p(C)|vu1)', 'R;B;FAu-(vu1)']
    for v in ds:
        e = gen.hexarg(gen.enc(v))
        paths = [common.path_text(common.gen_path(ctx, v)) for _ in range(4)] + r.sample(fixed, 4)
        for p in paths:
            m = r.choice(['all', 'all', 'first', 'array', 'mixed'])
            ctx.add('select %s %s %s' % (e, p, m), meta=('sel', v, p))
            if r.random() < 0.3:
                ctx.add('sel_exists %s %s' % (e, p))
                ctx.add('sel_predicate_match %s %s' % (e, p))
            if r.random() < 0.25:
                op = r.choice(['get_by_path', 'get_by_path_first', 'get_by_path_array', 'path_exists', 'path_match'])
                ctx.add('%s %s %s' % (op, e, p))
            kinds = [s[0] for s in p.split(';')]
            for a, b in zip(kinds, kinds[1:]):
                ctx.count('step_pairs', a + b)


def judge(ctx):
    for c in ctx.cases:
        o = ctx.impl.get(c.id, 'missing')
        if o == 'panic' or o.startswith('abort'):
            ctx.violate('path evaluation panics', case=c.line, observed=o)
