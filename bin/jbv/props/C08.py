"""C08 — JSONPath evaluation returns exactly the items the path denotes."""
from .. import gen
from . import common, longpaths, pyjsonpath, sizes

SPEC_THEOREM = ('Props/C08: the evaluator never panics on parser-producible paths; selection = PathSem semantics on the decoded tree; '
                'C08_bytes_*: the offset-faithful selector (SelWalk.v: byte positions, no decoding) on enc v = the tree evaluator on normalise v')
TRUSTED = ['Coq 8.16.1 kernel', 'translator', 'extraction + OCaml driver', 'Rust harness (paths are handed over as ASTs, no parser on the way)',
           'independent JSONPath evaluator in Python (props/pyjsonpath.py, written from the property text and the README operator table only) as the oracle of the search',
           'model SelWalk.v: selector.rs on byte positions (tied to the code by correspondence, corrupt buffers included); PathSem.v is the same '
           'evaluator on the denoted sub-values and SelWalkProofs.v proves the two equal on every canonical encoding']
ASSUMPTIONS = ['documents are canonical encodings of well-formed values', 'cross-kind comparisons follow the derived variant order of PathValue (the README is silent)']
RULE = '(path, document) pairs with paths generated from the document (steps hit) and perturbed; scalar roots, empty containers, container-valued items; step-kind pair coverage is measured; non-trivial = at least one item selected'


def generate(ctx):
    r = ctx.rng
    ctx.twins, ctx.prefixed = [], []
    ds = common.docs(ctx, ctx.scale(500, 20000), finite=False)
    fixed = ['R', 'R;B', 'R;W', 'R;B;B', 'R;W;W', 'R;I(Sx0~l0)', 'R;W;I(Sx0~l0)', 'R;B;I(Sx0~l0)', 'R;I(Sx0~l0);I(Sx0~l0)', 'R;Fe(C;I(Sx0~l0))', 'R;I(xl0)'.replace('xl0', 'l0'), 'R;I(x0,x0,l0,S' + 'x0~l0)', 'R;I(Sl-1~l0,x-1,x99)',
             'R;Fbgt(p(C)|vu1)', 'R;B;Fbgt(p(C)|vu1)', 'R;B;Fbeq(p(C;D61)|vu1)', 'R;Fe(C;D61)', 'Pbgt(p(R;D61)|vu0)', 'Pe(R;B)',
             'R;B;Fbor(band(bge(p(C)|vu1)|ble(p(C)|vu3))|beq(p(C)|vn))', 'R;D61;D62;D63;B', 'R;K61;O62', 'R;W;Fbne(p(C;B)|p(R;D62))',
             'R;I(l2147483647)', 'R;I(Sx-2147483648~l2147483647)', 'R;I(l-2147483648)', 'R;FAb+(p(C)|vu1)', 'R;B;FAu-(vu1)']
    for v in ds:
        e = gen.hexarg(gen.enc(v))
        paths = [common.path_text(common.gen_path(ctx, v)) for _ in range(4)] + r.sample(fixed, 4)
        for p in paths:
            m = r.choice(['all', 'all', 'first', 'array', 'mixed'])
            plain = ctx.add('select %s %s %s' % (e, p, m), meta=('sel', v, p))
            # the parser also accepts a path WITHOUT the leading `$` (a bare first name, `.name`, `[..]`, `?(..)`): it denotes the
            # same items as its `$` twin (a seeded helper dropped the first step of such a path)
            if p.startswith('R;') and r.random() < 0.5:
                ctx.add('select %s %s %s' % (e, p[2:], m), meta=('sel', v, p))
                ctx.count('unrooted_twins')
                if r.random() < 0.4:
                    op = r.choice(['get_by_path', 'get_by_path_first', 'get_by_path_array', 'path_exists'])
                    ctx.twins.append((ctx.add('%s %s %s' % (op, e, p)).id, ctx.add('%s %s %s' % (op, e, p[2:])).id))
            # the same selection appended to a buffer that already holds bytes: the data is prefix ++ the same items and the
            # offsets are shifted by the length of the prefix (a seeded writer patched its entry words from the buffer start)
            if r.random() < 0.3:
                pre = gen.enc(r.choice(ds[:60]))
                ctx.prefixed.append((plain.id, ctx.add('select@%s %s %s %s' % (pre.hex(), e, p, m)).id, pre))
            if r.random() < 0.3:
                ctx.add('sel_exists %s %s' % (e, p))
                ctx.add('sel_predicate_match %s %s' % (e, p))
            if r.random() < 0.25:
                op = r.choice(['get_by_path', 'get_by_path_first', 'get_by_path_array', 'path_exists', 'path_match'])
                ctx.add('%s %s %s' % (op, e, p))
            kinds = [s[0] for s in p.split(';')]
            for a, b in zip(kinds, kinds[1:]):
                ctx.count('step_pairs', a + b)
    # first / middle / last index and name, wildcards and a filter deciding on the last member, on containers of 255 .. 1000 members
    # and on documents with strings / keys of 255 .. 65536 bytes (sizes.py; second review H2); judged by the independent evaluator
    for lab, v in sizes.string_docs() + sizes.container_docs():
        if v[0] not in 'ao':
            continue
        e = gen.hexarg(gen.enc(v))
        n = len(v[1])
        if v[0] == 'a':
            ps = ['R;I(x%d)' % i for i in (0, n // 2, n - 1, n)] + ['R;I(l0)', 'R;I(l-1,x0,l0)', 'R;I(Sl-1~l5)', 'R;I(Sx%d~x%d)' % (n - 2, n + 3), 'R;B']
            last = v[1][-1]
            if last[0] in 'sui':
                ps.append('R;B;Fbeq(p(C)|%s)' % common.expr_text(('v', last)))
                ps.append('Pbeq(p(R;I(l0))|%s)' % common.expr_text(('v', last)))
        else:
            ks = [k for _, (k, _) in sizes.first_mid_last(v)]
            ps = ['R;%s%s' % (c, k.hex()) for c, k in zip('DKO', ks)] + ['R;D%s' % (ks[-1] + b'x').hex(), 'R;W', 'R;W;Fe(C)', 'Pe(R;O%s)' % ks[-1].hex()]
            last = v[1][-1][1]
            if last[0] in 'sui':
                ps.append('R;W;Fbeq(p(C)|%s)' % common.expr_text(('v', last)))
        for p in ps:
            ctx.add('select %s %s %s' % (e, p, 'all' if not lab.startswith(('obj1000', 'arr1000')) else r.choice(['all', 'array'])), meta=('sel', v, p))
        ctx.add('sel_exists %s %s' % (e, ps[2]))
        ctx.add('get_by_path_first %s %s' % (e, ps[1]))
    # long chains of && / ||, deep parentheses, nested exists(), filters inside filters: the evaluators of the model recurse on
    # the structure of the expression (no fuel); the crate must agree however long the expression is
    ldocs = [v for v in ds if len(gen.enc(v)) <= 200][:40]
    for lab, p, is_pred in longpaths.paths(r):
        for v in r.sample(ldocs, 3) + [('u', 5), ('a', [('u', 1), ('u', 2), ('u', 3)])]:
            e = gen.hexarg(gen.enc(v))
            ctx.add('select %s %s %s' % (e, p, r.choice(['all', 'first', 'array', 'mixed'])), meta=('sel', v, p))
            ctx.add(('sel_predicate_match %s %s' if is_pred else 'sel_exists %s %s') % (e, p))
            ctx.add('%s %s %s' % (r.choice(['get_by_path', 'get_by_path_first', 'get_by_path_array', 'path_exists', 'path_match']), e, p))
            ctx.count('long_paths', lab.rstrip('0123456789'))
        # and on a corrupt buffer (the walker model is about any buffer)
        v = r.choice(ldocs)
        b = gen.enc(v)
        ctx.add('select %s %s all' % (gen.hexarg(b[:r.randrange(len(b))]), p), kind='malformed')
    # the selector on buffers that are NOT valid encodings (prefixes, one byte changed), with paths derived from the
    # original document: C08 says nothing about them, but the offset-faithful model (SelWalk.v) does, including where an
    # index expression or an unreachable!() panics; this stream only feeds the correspondence tie, so that the model the
    # C08_bytes_* theorems are about is the position arithmetic of selector.rs
    small = [v for v in ds if len(gen.enc(v)) <= 120]
    for v in r.sample(small, min(len(small), ctx.scale(120, 3000))):
        e = gen.enc(v)
        muts = [e[:i] for i in range(len(e))] if len(e) <= 40 else [e[:r.randrange(len(e))] for _ in range(12)]
        for _ in range(14):
            i = r.randrange(len(e))
            muts.append(e[:i] + bytes([r.choice([0, 1, 4, 0x10, 0x20, 0x30, 0x40, 0x50, 0x60, 0x70, 0x7f, 0x80, 0xff, e[i] ^ 1, e[i] ^ 0x10,
                                                 (e[i] + 1) & 0xff])]) + e[i + 1:])
        paths = [common.path_text(common.gen_path(ctx, v)) for _ in range(4)] + r.sample(fixed, 3)
        for m in muts:
            # a count field blown up to 2^24 or more makes the index list of `[0 to last]` gigabytes long before the
            # entry words are read: such buffers are left to the wildcard / name / filter steps
            huge = len(m) >= 4 and m[0] & 0xe0 == 0x80 and (m[0] & 0x1f or m[1] & 0xf0)
            h = gen.hexarg(m)
            for p in r.sample(paths, 3):
                if huge and 'I(' in p:
                    continue
                ctx.add('select %s %s %s' % (h, p, r.choice(['all', 'first', 'array', 'mixed'])), kind='malformed')
                c = r.random()
                if c < 0.15:
                    ctx.add('sel_exists %s %s' % (h, p), kind='malformed')
                elif c < 0.3:
                    ctx.add('sel_predicate_match %s %s' % (h, p), kind='malformed')
                elif c < 0.5:
                    ctx.add('%s %s %s' % (r.choice(['get_by_path', 'get_by_path_first', 'get_by_path_array', 'path_exists', 'path_match']), h, p),
                            kind='malformed')


def split_items(o):
    """'ok <hex> <offsets>' -> list of item byte strings (None when the offsets do not delimit the data)"""
    f = o[3:].split(' ')
    data = gen.unhexarg(f[0])
    offs = [int(x) for x in f[1].split(',')] if len(f) > 1 and f[1] else []
    out, prev = [], 0
    for x in offs:
        out.append(data[prev:x])
        prev = x
    return (out, data) if prev == len(data) or not offs else (None, data)


def expected_by_oracle(v, p, mode):
    """the encoded items the property text requires of `select v p mode` (independent evaluator), or raises Unjudged"""
    ps = pyjsonpath.parse_path_text(p)
    want = pyjsonpath.select_all(v, ps)
    if ps[0][0] == 'P':
        return [gen.enc(want[0])], True          # one boolean in every mode, no offset reported
    if mode == 'first':
        want = want[:1]
    elif mode == 'array' or (mode == 'mixed' and len(want) >= 2):
        want = [('a', want)]
    return [gen.enc(x) for x in want], False


def judge(ctx):
    for a, b in ctx.twins:
        oa, ob = ctx.impl.get(a, 'missing'), ctx.impl.get(b, 'missing')
        if oa != ob:
            ctx.violate('a path without the leading `$` does not give what its `$` twin gives', case=[ctx.cases[int(a[1:]) - 1].line[:400], ctx.cases[int(b[1:]) - 1].line[:400]],
                        observed=[oa[:300], ob[:300]])
    for a, b, pre in ctx.prefixed:
        oa, ob = ctx.impl.get(a, 'missing'), ctx.impl.get(b, 'missing')
        ctx.count('selections_into_a_prefilled_buffer')
        if oa.startswith('ok ') and not oa.startswith('ok ='):
            f = oa[3:].split(' ')
            offs = [str(int(x) + len(pre)) for x in f[1].split(',')] if len(f) > 1 and f[1] else []
            want = 'ok ' + gen.hexarg(pre + gen.unhexarg(f[0])) + ((' ' + ','.join(offs)) if len(f) > 1 else '')
            if ob != want:
                ctx.violate('a selection appended to a buffer that already holds bytes is not prefix ++ the same items with shifted offsets',
                            case=ctx.cases[int(b[1:]) - 1].line[:600], expected=want[:400], observed=ob[:400])
    for c in ctx.cases:
        if c.kind == 'malformed':
            continue
        o = ctx.impl.get(c.id, 'missing')
        if o == 'panic' or o.startswith('abort'):
            ctx.violate('path evaluation panics', case=c.line, observed=o)
            continue
        m = c.meta
        if not m or m[0] != 'sel':
            continue
        # the ORACLE of this property: an evaluator written from the documentation alone decides which items the path denotes
        _, v, p = m
        mode = c.line.rsplit(' ', 1)[1]
        try:
            want, is_pred = expected_by_oracle(v, p, mode)
        except pyjsonpath.Unjudged as u:
            ctx.count('oracle_not_judged (the documentation does not define it)', str(u))
            continue
        ctx.count('oracle_judged', mode)
        if not o.startswith('ok '):
            ctx.violate('selection fails where the documented meaning of the path gives a result', case=c.line, doc=gen.vtext(v)[:400], path=p[:400],
                        expected=[x.hex() for x in want][:8], observed=o[:300])
            continue
        items, data = split_items(o)
        if is_pred:
            items = [data]
        if items != want:
            def show(bs):
                out = []
                for b in (bs or [])[:8]:
                    try:
                        out.append(gen.vtext(gen.dec(b))[:120])
                    except gen.DecodeError:
                        out.append('undecodable:' + b.hex()[:80])
                return out
            ctx.violate('the selected items are not the items the path denotes (independent evaluator written from the documentation)',
                        case=c.line[:600], doc=gen.vtext(v)[:400], path=p[:400], mode=mode, expected=show(want), observed=show(items),
                        n_expected=len(want), n_observed=len(items or []))
        elif want:
            ctx.count('oracle_agreed_nonempty', mode)
