"""C09 — JSONPath syntax: every documented form parses as intended; printing is faithful."""
from .. import gen
from . import common

SPEC_THEOREM = 'Props/C09: parse_json_path is total (no Panic); documented forms parse to the intended AST; C09_print_then_parse_is_identity / C09_accepted_path_round_trips: print then parse is the identity on safe_path (= accepted paths satisfying leaf_path)'
TRUSTED = ['Coq 8.16.1 kernel', 'translator (raw_string delimiter set, HEX table)', 'extraction + OCaml driver', 'Rust harness',
           'model PathParse.v of jsonpath/parser.rs over modelled nom 7 combinators (alt, many0, separated_list1, i32/i64/u64, double, tag, tag_no_case, multispace0)']
ASSUMPTIONS = ['nom 7.1.3 combinators and std float parsing are modelled, not verified', 'the intended AST of a rendered path is the AST it was rendered from (generator-side oracle)']
RULE = 'abstract paths (step sequences, nested filters, every literal kind, every index form) rendered in spacing / keyword-case / quoting variants; every proper prefix and single-byte mutations of rendered paths and byte soups as raw input; non-trivial = accepted input'

SAFE = 'abcdefghijklmnopqrstuvwxyzABCDEFGHIJKLMNOPQRSTUVWXYZ_0123456789'


def safe_name(ctx):
    r = ctx.rng
    n = r.choice([1, 1, 2, 3, 5])
    s = ''.join(r.choice(SAFE) for _ in range(n))
    if r.random() < 0.1:
        s += r.choice(['é', '日', '𝄞'])
    # keep clear of tokens that read as keywords or floats
    if s[0].isdigit() or s.lower() in ('last', 'to', 'null', 'true', 'false', 'exists', 'nan', 'inf'):
        s = 'k' + s
    return s.encode()


def ws(ctx, p=0.3):
    r = ctx.rng
    if r.random() < p:
        return r.choice([' ', '  ', '\t', '\n', ' \r\n']) if ctx.ws_kinds else ' '
    return ''


def case_var(ctx, word):
    r = ctx.rng
    c = r.random()
    if c < 0.6:
        return word
    if c < 0.8:
        return word.upper()
    return ''.join(ch.upper() if r.random() < 0.5 else ch for ch in word)


def render_index(ctx, ix):
    k, z = ix
    if k == 'x':
        return str(z)
    last = case_var(ctx, 'last')
    if z == 0:
        return last
    if z > 0:
        return last + ws(ctx) + '+' + ws(ctx) + str(z)
    return last + ws(ctx) + '-' + ws(ctx) + str(-z)


def quote(b):
    return '"' + b.decode().replace('\\', '\\\\').replace('"', '\\"') + '"'


def render_literal(ctx, v):
    k = v[0]
    if k == 'n':
        return 'null'
    if k == 'b':
        return 'true' if v[1] else 'false'
    if k == 's':
        return quote(v[1])
    if k in 'iu':
        return str(v[1])
    return repr(gen.bits_to_float(v[1]))


def render_steps(ctx, steps):
    out = ''
    for p in steps:
        k = p[0]
        out += ws(ctx)
        if k == 'R':
            out += '$'
        elif k == 'C':
            out += '@'
        elif k == 'W':
            out += '.*'
        elif k == 'B':
            out += '[' + ws(ctx) + '*' + ws(ctx) + ']'
        elif k in 'DK':
            sep = '.' if k == 'D' else ':'
            out += sep + (quote(p[1]) if ctx.rng.random() < 0.3 else p[1].decode())
        elif k == 'O':
            out += '[' + ws(ctx) + quote(p[1]) + ws(ctx) + ']'
        elif k == 'I':
            parts = []
            for a in p[1]:
                if a[0] == 'S':
                    parts.append(ws(ctx) + render_index(ctx, a[1]) + ws(ctx, 1.0) + case_var(ctx, 'to') + ws(ctx, 1.0) + render_index(ctx, a[2]) + ws(ctx))
                else:
                    parts.append(ws(ctx) + render_index(ctx, a[1]) + ws(ctx))
            out += '[' + ','.join(parts) + ']'
        elif k == 'F':
            out += '?' + ws(ctx) + '(' + ws(ctx) + render_expr(ctx, p[1]) + ws(ctx) + ')'
        out += ws(ctx)
    return out


SYM = {'eq': ['=='], 'ne': ['!=', '<>'], 'lt': ['<'], 'le': ['<='], 'gt': ['>'], 'ge': ['>='], 'and': ['&&'], 'or': ['||']}


def render_operand(ctx, e):
    if e[0] == 'p':
        # operand paths: no whitespace before the first step, inner steps may be spaced
        return ('$' if e[1][0][0] == 'R' else '@') + render_steps(ctx, e[1][1:])
    return render_literal(ctx, e[1])


def render_expr(ctx, e, parent=None, right=False):
    k = e[0]
    if k == 'e':
        return 'exists' + ws(ctx) + '(' + ws(ctx) + ('$' if e[1][0][0] == 'R' else '@') + render_steps(ctx, e[1][1:]) + ws(ctx) + ')'
    op = e[1]
    if op in ('and', 'or'):
        s = render_expr(ctx, e[2], op, False) + ws(ctx, 0.6) + SYM[op][0] + ws(ctx, 0.6) + render_expr(ctx, e[3], op, True)
        need = parent is not None and (parent != op or right) and not (parent == 'or' and op == 'and')
        if need or ctx.rng.random() < 0.1:
            return '(' + ws(ctx) + s + ws(ctx) + ')'
        return s
    s = ws(ctx) + render_operand(ctx, e[2]) + ws(ctx, 0.6) + ctx.rng.choice(SYM[op]) + ws(ctx, 0.6) + render_operand(ctx, e[3]) + ws(ctx)
    if ctx.rng.random() < 0.08:
        return '(' + s + ')'
    return s


def gen_ast(ctx, depth=2):
    """an abstract path in the parser's image with safe names"""
    r = ctx.rng

    def name():
        return safe_name(ctx)

    def index():
        return r.choice([('x', r.choice([0, 1, 2, 10, -1, -3, 2147483647, -2147483648])), ('l', r.choice([0, 1, -1, -2, 5, 2147483647, -2147483647]))])

    def steps(d, allow_filter=True, n=None):
        out = []
        for _ in range(r.randrange(0, 4) if n is None else n):
            c = r.random()
            if c < 0.3:
                out.append((r.choice('DKO'), name()))
            elif c < 0.4:
                out.append(('W',))
            elif c < 0.5:
                out.append(('B',))
            elif c < 0.75:
                ixs = []
                for _ in range(r.choice([1, 1, 2, 3])):
                    ixs.append(('S', index(), index()) if r.random() < 0.3 else ('X', index()))
                out.append(('I', ixs))
            elif allow_filter and d > 0:
                out.append(('F', expr(d - 1, False)))
            else:
                out.append(('D', name()))
        return out

    def literal():
        c = r.random()
        if c < 0.1:
            return ('v', ('n',))
        if c < 0.2:
            return ('v', ('b', r.random() < 0.5))
        if c < 0.4:
            return ('v', ('s', r.choice([b'', b'a', b'abc', 'é'.encode(), b'a b', b'x.y', b'1'])))
        if c < 0.6:
            return ('v', ('u', r.choice([0, 1, 42, 18446744073709551615])))
        if c < 0.75:
            return ('v', ('i', r.choice([-1, -42, -9223372036854775808])))
        return ('v', ('d', gen.float_to_bits(r.choice([1.5, 0.1, -2.5, 1e20, 1e-7, 123.456, 1e3 + 0.5, -0.001]))))

    def operand(pred):
        if r.random() < 0.55:
            return ('p', [('R',) if pred or r.random() < 0.3 else ('C',)] + steps(0, False, r.randrange(0, 3)))
        return literal()

    def expr(d, pred):
        c = r.random()
        if d > 0 and c < 0.3:
            return ('b', r.choice(['and', 'or']), expr(d - 1, pred), expr(d - 1, pred))
        if c < 0.42:
            return ('e', [('R',) if pred or r.random() < 0.3 else ('C',)] + steps(d, d > 0, r.randrange(0, 3)))
        return ('b', r.choice(['eq', 'ne', 'lt', 'le', 'gt', 'ge']), operand(pred), operand(pred))

    if r.random() < 0.15:
        return [('P', expr(depth, True))]
    head = [('R',)] if r.random() < 0.85 else [('D', name())]
    return head + steps(depth)


def render(ctx, ast):
    if ast[0][0] == 'P':
        return (ws(ctx) + render_expr(ctx, ast[0][1]) + ws(ctx)).encode()
    if ast[0][0] == 'R':
        return (ws(ctx) + '$' + render_steps(ctx, ast[1:])).encode()
    return (ws(ctx) + ast[0][1].decode() + render_steps(ctx, ast[1:])).encode()


def has_float(t):
    return 'vd' in t


NONFINITE = ('7ff0000000000000', 'fff0000000000000', '7ff8000000000000')     # inf, -inf, NaN: printed inf, -inf, NaN on both sides


def has_finite_float(t):
    """some float literal of the structure is printed with digits (ryu's on one side, a placeholder on the other)"""
    import re
    return any(h not in NONFINITE for h in re.findall(r'vd([0-9a-f]{16})', t)) or t.count('vd') != len(re.findall(r'vd[0-9a-f]{16}', t))


def generate(ctx):
    r = ctx.rng
    ctx.ws_kinds = True
    ctx.trials = []
    texts = []
    for _ in range(ctx.scale(2500, 100000)):
        ast = gen_ast(ctx)
        want = common.path_text(ast)
        for _ in range(2):
            t = render(ctx, ast)
            texts.append(t)
            # float literals too go through the model (normalise_outcome drops the one thing that differs: the PRINTED text, ryu's
            # digits on one side and a placeholder on the other)
            cid = ctx.add('parse_json_path %s' % gen.hexarg(t), meta=('parse', want, t)).id
            ctx.trials.append(cid)
            ctx.add('reparse_json_path %s' % gen.hexarg(t), meta=('reparse',))
        # (print_parse with a float: the model prints a placeholder it cannot read back -- judged on the implementation by meta 'pp')
        ctx.add('print_parse_json_path %s' % want, diff=not has_float(want), meta=('pp', want))
    # long and deep expressions: chains of 64 .. 400 terms of && / || (left-nested by the parser, 250 and more levels deep as an
    # AST), parentheses nested to the right, exists() / filters nested.  The printer model and the class of the round-trip
    # theorem are structural (no fuel): the printed text must be the crate's, byte for byte, at every depth
    def term(i):
        c = r.random()
        if c < 0.7:
            return ('b', r.choice(['eq', 'ne', 'lt', 'le', 'gt', 'ge']), ('p', [('C',), ('D', b'k%d' % (i % 7))]), ('v', ('u', i % 11)))
        if c < 0.85:
            return ('b', 'eq', ('v', ('s', b's%d' % (i % 5))), ('p', [('R',), ('D', b'r')]))
        return ('e', [('C',), ('D', b'x%d' % (i % 3))])

    def lchain(ops, ts):
        e = ts[0]
        for i, t in enumerate(ts[1:]):
            e = ('b', ops[i % len(ops)], e, t)
        return e

    def rchain(ops, ts):
        e = ts[-1]
        for i, t in enumerate(reversed(ts[:-1])):
            e = ('b', ops[i % len(ops)], t, e)
        return e

    deep = []
    for n in (64, 100, 199, 200, 201, 210, 250, 400):
        ts = [term(i) for i in range(n)]
        deep += [lchain(['and'], ts), lchain(['or'], ts), rchain(['and'], ts), rchain(['or'], ts),
                 lchain([r.choice(['and', 'or']) for _ in range(n)], ts), rchain([r.choice(['and', 'or']) for _ in range(n)], ts)]
    for d in (10, 70, 250):
        e = term(0)
        for i in range(d):
            e = ('e', [('C',), ('D', b'n'), ('F', e)])
        deep.append(e)
        e = term(1)
        for i in range(d):
            e = ('b', 'or', term(i), ('e', [('C',), ('F', ('b', 'and', e, term(i + 1)))]))
        deep.append(e)
    for e in deep:
        ast = [('R',), ('D', b'a'), ('F', e)]
        want = common.path_text(ast)
        ctx.ws_kinds = False
        t = render(ctx, ast)
        ctx.ws_kinds = True
        texts_deep = t
        cid = ctx.add('parse_json_path %s' % gen.hexarg(t), meta=('parse', want, t)).id
        ctx.trials.append(cid)
        ctx.add('reparse_json_path %s' % gen.hexarg(t), meta=('reparse',))
        ctx.add('print_parse_json_path %s' % want, meta=('pp', want))
        ctx.add('print_json_path %s' % want, kind='deep-print')
        ctx.count('deep', 'expressions')
    # parentheses / exists nested as deep as the crate's own recursion allows in a test build (beyond ~4000 levels the
    # crate overflows its stack)
    for n in (100, 1000, 2000):
        for t in ('$?(' + '(' * n + '@ == 1' + ')' * n + ')', '$?(' + 'exists(@?(' * n + '@ == 1' + '))' * n + ')',
                  '$?(' + '(' * n + '@ == 1' + ')' * (n - 1) + ')', '$' + '?(exists(@' * n + ')' * (2 * n)):
            ctx.add('parse_json_path %s' % gen.hexarg(t.encode()), kind='deep-nesting')
    # documented examples from the README / test data
    for t in [b'$', b'$.*', b'$[*]', b'$.store.book[*].author', b'$.store.book[0, 1 to last-1]', b'$.phones[last]', b'$[last - 2 to last]',
              b'$.a ? (@.b == 1 && @.c > "x" || exists(@.d))', b'$?(@.price < 10)', b'$.a > 1', b'$ ? (@ > 1)', b'a.b', b'a:b', b'$["a"]["b"]',
              b'$.phones[0 to last]', b'$?(@.a == "")', b'$?(@.a == 1.5)', b'$?(@.a == 1e3)', b'$?(-1 == @.a)', b'$?(@.a == -1.5e-3)',
              b'$.a\t?(@.b\n== 1)', b'$?(@.a == 1&&@.b == 2)', b'$?(@.a==@.b&&@.c==1||@.d==2)', b'$.\xc3\xa9', b'$:a:b', b'$."a b"', b'$[ "a" ]']:
        texts.append(t)
        ctx.add('parse_json_path %s' % gen.hexarg(t), meta=('doc', t))
    # `last - n` at the i32 boundary (n is read as an i64 and negated with a range check; it was an i32 with saturating_neg,
    # so that the printout of LastIndex(i32::MIN) was rejected), and the print/parse round trip of the extreme offsets
    for t in [b'$[last-2147483648]', b'$[last - -2147483648]', b'$[last+-2147483648]', b'$[last-2147483649]', b'$[last - 9223372036854775808]',
              b'$[last - -9223372036854775808]', b'$[last--2147483647]', b'$[last+2147483647]', b'$[last+2147483648]', b'$[last - 0]', b'$[last + 0]',
              b'$[-2147483648 to last-2147483648]']:
        texts.append(t)
        ctx.add('parse_json_path %s' % gen.hexarg(t), kind='extreme')
        ctx.add('reparse_json_path %s' % gen.hexarg(t), kind='extreme', meta=('reparse',))
    for t in [b'."5e"', b'$."5e"', b'."5"', b'$?(@.a == +5)', b'$."a b"', b'$?(+$.a || -@.b)', b'$?($.a + 1)', b'$?(@.a * @.b)']:
        ctx.add('reparse_json_path %s' % gen.hexarg(t), kind='excluded-class', meta=('reparse',))
    for want in ['R;I(l-2147483648)', 'R;I(l2147483647)', 'R;I(Sx-2147483648~l-2147483648)', 'R;I(l-2147483647,x2147483647)']:
        ctx.add('print_parse_json_path %s' % want, meta=('pp', want))
    # the literal `-inf` (crate fix e1187a7: `-` followed by `inf` in any letter case is negative infinity, which is what a literal
    # overflowing downwards prints as; finding negative-infinity-literal-not-reparsed).  Pinned: the accepted spellings, the
    # literal on either side, inside filters and as a stand-alone predicate, next to `inf`, what is NOT the literal (-infinity,
    # -infx, -inf5, `- inf`, -nan, +inf), and the stand-alone signed forms (the unary sign applied to inf)
    for t in [b'$.a > -inf', b'$.a > -INF', b'$.a > -Inf', b'$.a > -iNf ', b'$.a > -1e999', b'$.a > -9223372036854775e808', b'$?(@.x == -inf)',
              b'$?(@.x == -inf)', b'$?( -inf < @.x )', b'$?(@.x == -inf && @.y != -INF || exists(@.z?(@ >= -inf)))', b'-inf == $.a', b'-inf==$.a',
              b'$.a == -inf && $.b == inf', b'$.a == -inf || $.b == -inf', b'$.a==-inf', b'$.a - -inf', b'$.a --inf', b'-inf - -inf', b'-inf * inf',
              b'-inf', b' -inf ', b'-INF', b'-Inf', b'- inf', b'--inf', b'-+inf', b'+-inf', b'+inf', b'inf', b'-inf.a', b'-inf .a',
              b'-infinity', b'-inf5', b'-infx', b'-in', b'-i', b'-inf == -inf', b'-inf == - inf', b'-inf == -infinity',
              b'$.a > -infinity', b'$.a > -INFINITY', b'$.a > -inf5', b'$.a > -infx', b'$.a > - inf', b'$.a > -\tinf', b'$.a > -nan', b'$.a > -NaN',
              b'$.a > +inf', b'$.a > +nan', b'$.a > --inf', b'$.a > -in', b'$.a > -i', b'$.a > -', b'$.a > -inf.b', b'$.a > -inf && ', b'$.a > (-inf)',
              b'$?(@.x == -infinity)', b'$?(@.x == - inf)', b'$?(-inf)', b'$?(exists(-inf))', b'$[-inf]', b'$[last-inf]', b'$.-inf', b'$."-inf"',
              b'$.a > inf', b'$.a > INF', b'$.a > infinity', b'$.a > 1e999', b'$.a > nan', b'$.a > NaN', b'$.a == "-inf"']:
        ctx.add('parse_json_path %s' % gen.hexarg(t), kind='neg-inf')
        ctx.add('reparse_json_path %s' % gen.hexarg(t), kind='neg-inf', meta=('reparse',))
    for want in ['Pbgt(p(R;D61)|vdfff0000000000000)', 'R;Fbeq(p(C;D78)|vdfff0000000000000)', 'Pbeq(vdfff0000000000000|p(R;D61))',
                 'Pband(beq(p(R;D61)|vdfff0000000000000)|beq(p(R;D62)|vd7ff0000000000000))', 'PAb-(p(R;D61)|vdfff0000000000000)',
                 'R;D61;Fbor(ble(vdfff0000000000000|p(C))|bne(p(C;D62)|vd7ff8000000000000))']:
        ctx.add('print_parse_json_path %s' % want, meta=('pp', want))
    # raw input: prefixes, single-byte mutations, soups
    alphabet = b'$@.:*[]()?!=<>&|+-,"\\ \t\nlasttoexistsnulltruefalse0123456789eE.u{}a'
    for t in r.sample(texts, min(len(texts), ctx.scale(250, 5000))):
        for i in range(len(t)):
            ctx.add('parse_json_path %s' % gen.hexarg(t[:i]), kind='prefix')
        for _ in range(4):
            i = r.randrange(len(t) + 1)
            c = r.random()
            b = bytes([r.choice(alphabet)]) if r.random() < 0.9 else bytes([r.randrange(256)])
            m = t[:i] + b + t[i:] if c < 0.4 else (t[:i] + t[i + 1:] if c < 0.7 else t[:i] + b + t[i + 1:])
            ctx.add('parse_json_path %s' % gen.hexarg(m), kind='mutation')
            ctx.add('reparse_json_path %s' % gen.hexarg(m), kind='mutation', meta=('reparse',))
    for _ in range(ctx.scale(3000, 100000)):
        n = r.randrange(1, 12)
        soup = gen.hexarg(bytes(r.choice(alphabet) for _ in range(n)))
        ctx.add('parse_json_path %s' % soup, kind='soup')
        ctx.add('reparse_json_path %s' % soup, kind='soup', meta=('reparse',))
    # escapes inside plain names, quoted names and string literals, every truncation
    for nm in common.escape_forms(ctx, ctx.scale(150, 4000)):
        for t in ('$.' + nm, '$."' + nm + '"', '$.a.' + nm + '[0]', '$?(@.a == "' + nm + '")', '$["' + nm + '"]', nm + '.b'):
            t = t.encode()
            ctx.add('parse_json_path %s' % gen.hexarg(t), kind='escape')
            for i in range(max(0, len(t) - 9), len(t)):
                ctx.add('parse_json_path %s' % gen.hexarg(t[:i]), kind='escape-prefix')
    for t in [b'$."abc', b'$["abc', b'$?(@.a == "abc', b'"', b'$."', b'$.a"', b'$."\\', b'$."\\u12', b'$."\\u{12', b'$?(@.a == 1e)', b'$?(@.a == .5e)']:
        ctx.add('parse_json_path %s' % gen.hexarg(t), kind='unterminated')
    # what PathGrammar.v names as extras, and the unrooted paths that are read as expressions (C09_unrooted_forms_read_as_expressions)
    for t in [b'5.e', b'5.ex', b'5.f', b'1e.a', b'1f.a', b'1e5.a', b'.5e', b'.5f', b'5.* .5', b'5.* .5[0]', b'5.*', b'', b'  ', b'exists(@.a)', b'exists.a',
              b'nan == 1', b'$ == NaN', b'$ == inf', b'$ == infinity', b'+5 == 5', b'$[+1]', b'$[-1]', b'$[last+1]', b'$[last - -1]', b'$[1to2]', b'$[lastto2]',
              b'$.a == 5.', b'$ == .5', b'$ == 007', b'$:"a"', b"$.'a'", b'-5', b'- 5', b'--5', b'-.5 ', b'$ . a', b'null.a', b'nullx.a', b'$?(@.a)',
              b'$ == -0', b'$ == 18446744073709551616', b'$ == -9223372036854775809', b'$.a\\u0041 == 1', b'$ [ 0 , LAST - 1 TO last ] . *']:
        ctx.add('parse_json_path %s' % gen.hexarg(t), kind='grammar-edge')
    # the texts of the soundness statements (Props/C09.v: C09_documented_rejections_are_outside_the_grammar, C09_more_rejections_..,
    # C09_grammar_is_ambiguous_on_unrooted_forms) and the places where an ordered choice of the parser decides: the integer
    # readers before the float reader, `inf` before `infinity`, `last - n` declining and `last` alone being read, the item after
    # a separator failing (the separator is then not consumed), predicate before rooted path before unrooted path
    for t in [b'$.[', b'$X', b'$.', b'$.prop.', b'$.prop+.', b'$..', b'$.prop..', b'$.foo bar', b'$[0, 1, 2 4]', b"$['1','2',]", b"$['1', ,'3']",
              b"$['aaa'}'bbb']", b'@ > 10', b'$[1,]', b'$[,1]', b'$[last - 99999999999]', b'$[last - 99999999999 to 1]', b'$ == infinityx', b'$ == infinity',
              b'$ == INFINITY', b'$ == infx', b'$ == nanx', b'$?(@.a)', b'$ == 1 &&', b'$ == 1 ||', b'$.a == (1)', b'$ == exists($.a)', b'exists($.a) == 1',
              b'$[1 to]', b'$[to 1]', b'$?()', b'$ == 1 2', b'( $.a == 1', b'( $.a == 1 )', b'(( $.a == 1 ))', b'$?(exists(5))', b'$?(exists($))',
              b'exists ( @ )', b'exists($ .a ? ( @ == 1 ) )', b'- $.a == 1', b'-$.a', b'- $.a', b' - $.a', b'+ 5', b'$ == $ == $', b'$ == 1 && $ == 2 || $ == 3 && $ == 4',
              b'$ == +9223372036854775807', b'$ == +9223372036854775808', b'$ == -9223372036854775808', b'$ == 18446744073709551615', b'$ == 18446744073709551615.',
              b'$ == 1.e2', b'$ == -.5e1', b'$ == +.5', b'$ == -.', b'$ == .', b'$ == 5e', b'$ == 5e+', b'$ == 00', b'$ == -00', b'$ == 1 .a', b'$ + 1', b'$.a % $.b',
              b'.a', b':a', b'a b', b' a  .b ', b'a.b ?(@ == 1)', b'a\u0041', b'[0]', b'?(@ == 1)', b'.*', b'$ $', b'$@', b'$?(@ == @)', b'$?(@ == $)', b'$ ?( $ == 1 ) ?( @ == 2 )',
              b'$[0 to 1 to 2]', b'$[last last]', b'$[last + ]', b'$[ last - 1 , last + 1 , +1 to -1 ]', b'$ == "a" && "b" == $', b'$ == null', b'$ == nullx',
              b'null == null', b'true', b'true == false', b'nan.a', b'inf.a', b'infinity.a', b'e.a', b'exists.a', b'exists', b'5.* .5', b'5 .* .5']:
        ctx.add('parse_json_path %s' % gen.hexarg(t), kind='grammar-sound')


def normalise_outcome(case, o):
    """the printed text of a path with a float literal is ryu's on one side and the placeholder on the other"""
    f = o.split(' ')
    while f and (f[-1].startswith('leaf=') or f[-1].startswith('anyf=')):
        f = f[:-1]
    o = ' '.join(f)
    if case.line.startswith('reparse_json_path'):
        # ok <structure> <structure after print + parse>: nothing printed is in the outcome.  With a float literal the model's
        # second parse read the placeholder text, not ryu's digits: only then is the second field left to the judge (which
        # requires parsed = reparsed of the implementation alone wherever only the floats keep the path out of the theorem's class)
        # (the non-finite literals are printed inf / -inf / NaN by both sides: with only those, everything is compared)
        if len(f) >= 3 and f[0] == 'ok' and has_finite_float(f[1]):
            return ' '.join(f[:2])
        return o
    if len(f) >= 3 and f[0] in ('ok', 'err') and has_finite_float(f[1]):
        return ' '.join(f[:2])
    if f[0] == 'err' and len(f) >= 3 and case.line.startswith('print_parse') and has_finite_float(case.line):
        return 'err'
    return o


def deep_probe(ctx):
    """the parser on path texts nested n levels deep (parentheses; exists(@?( ... )), each in its own process: the recursive-
    descent parser has no depth limit.  A death on a stack-overflow signal at or beyond the depth recorded with the open known
    finding is that finding; a panic, or a death on a shallower text, is a violation (same protocol as C20 part B)."""
    from .. import core
    known = {k['class']: k for k in core.load_known() if k.get('property') == 'C09' and k.get('status') == 'open' and k.get('class')}
    k = known.get('deep-recursion-path-parser')
    mins = (k or {}).get('min_depth_by_kind', {})
    for kind in ('paren', 'exists'):
        ns = [64, 256, 1000, 2000] + ([mins[kind] - 1] if kind in mins else []) + [20000, 100000]
        for n in sorted(set(ns)):
            try:
                o = core.run_one(core.HARNESS_BIN, 'd deep path_parse %d %s' % (n, kind), timeout=300)
            except Exception:
                o = 'timeout'
            ctx.count('deep_path_texts', '%s:%s' % (kind, o.split(' ')[0]))
            if o.startswith('ok') or o.startswith('err'):
                continue
            if k and o in core.STACK_OVERFLOW_DEATHS and n >= mins.get(kind, 1 << 62):
                ctx.known_hits['deep-recursion-path-parser'] = ctx.known_hits.get('deep-recursion-path-parser', 0) + 1
            else:
                ctx.violate('a nested path text brings the parser down' if o.startswith('abort') else 'a nested path text makes the parser panic',
                            case='deep path_parse %d %s' % (n, kind), observed=o)


def judge(ctx):
    impl = ctx.impl
    deep_probe(ctx)
    for c in ctx.cases:
        o = impl.get(c.id, 'missing')
        if o == 'panic' or o.startswith('abort'):
            ctx.violate('the path parser panics', case=c.line, text=repr(gen.unhexarg(c.line.split(' ')[1]))[:200] if c.line.startswith('parse_') else None, observed=o)
            continue
        m = c.meta
        if not m:
            continue
        if m[0] == 'parse':
            if not o.startswith('ok ') or o.split(' ')[1] != m[1]:
                ctx.violate('a documented form does not parse to the intended structure', case=c.line, text=repr(m[2]), expected=m[1], observed=o[:300])
        elif m[0] == 'pp':
            if not o.startswith('ok ') or o.split(' ')[1] != m[1]:
                ctx.violate('printing a path and parsing the printout does not give the same structure', case=c.line, expected=m[1], observed=o[:300])
        elif m[0] == 'reparse':
            # where the round-trip theorem applies (the model says leaf_path holds for the accepted path), the
            # implementation's own print-then-parse must give back the same structure
            mo = ctx.model.get(c.id, '')
            f = o.split(' ')
            if ' leaf=1' in mo:
                ctx.count('reparse', 'theorem-applies')
                if len(f) != 3 or f[0] != 'ok' or f[1] != f[2]:
                    ctx.violate('an accepted path in the class of the round-trip theorem does not print and parse back to itself',
                                case=c.line, text=repr(gen.unhexarg(c.line.split(' ')[1]))[:200], observed=o[:300], model=mo[:300])
            elif ' anyf=1' in mo:
                # only its float literals keep the path out of the theorem's class (the model prints a placeholder for them):
                # judged on the implementation alone -- ryu's digits must parse back to the same double, the rest as proved
                ctx.count('reparse', 'theorem-applies-but-for-floats: judged on the implementation')
                # (`-inf`, printed for a literal overflowing downwards, was not read back: finding negative-infinity-literal-not-reparsed,
                # fixed in the crate by e1187a7; paths whose only floats are inf / -inf / NaN are now leaf=1 above)
                if len(f) != 3 or f[0] != 'ok' or f[1] != f[2]:
                    ctx.violate('an accepted path with float literals (otherwise in the class of the round-trip theorem) does not print and parse back to itself',
                                case=c.line, text=repr(gen.unhexarg(c.line.split(' ')[1]))[:200], observed=o[:300], model=mo[:300])
            elif mo.startswith('ok '):
                ctx.count('reparse', 'outside-class')
        elif m[0] == 'doc':
            if not o.startswith('ok '):
                ctx.violate('a documented example is rejected', case=c.line, text=repr(m[1]), observed=o)
