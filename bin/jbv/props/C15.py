"""C15 — selection modes and path predicates are mutually consistent."""
from .. import gen
from . import common, longpaths, pyjsonpath

SPEC_THEOREM = 'Props/C15: first = head of all; array = [all]; mixed; exists iff non-empty; offsets delimit items; predicate paths'
TRUSTED = ['Coq 8.16.1 kernel', 'translator', 'extraction + OCaml driver', 'Rust harness', 'specification PathSem.v (select_t / build_values / build_array_items) and the offset-faithful selector SelWalk.v tied by correspondence',
           'independent Python decoder for the returned bytes']
ASSUMPTIONS = ['documents are canonical encodings of well-formed values']
RULE = 'the C08 stream evaluated in all four modes through the selector API and the convenience functions; the relations are checked on the implementation outputs; non-trivial = at least one item selected'


def split_items(data, offs):
    out, prev = [], 0
    for o in offs:
        out.append(data[prev:o])
        prev = o
    return out, prev


def parse_sel(o):
    """'ok <hex> <offs>' -> (bytes, [offsets]) or None"""
    if not o.startswith('ok '):
        return None
    parts = o[3:].split(' ')
    data = gen.unhexarg(parts[0])
    offs = [int(x) for x in parts[1].split(',')] if len(parts) > 1 and parts[1] else []
    return data, offs


def generate(ctx):
    r = ctx.rng
    ds = common.docs(ctx, ctx.scale(350, 15000), finite=False)
    ctx.trials = []
    def trial(v, p, is_pred):
        e = gen.hexarg(gen.enc(v))
        ids = {}
        for m in ('all', 'first', 'array', 'mixed'):
            ids[m] = ctx.add('select %s %s %s' % (e, p, m)).id
        ids['exists'] = ctx.add('sel_exists %s %s' % (e, p)).id
        ids['pm'] = ctx.add('sel_predicate_match %s %s' % (e, p)).id
        ids['g'] = ctx.add('get_by_path %s %s' % (e, p)).id
        ids['gf'] = ctx.add('get_by_path_first %s %s' % (e, p)).id
        ids['ga'] = ctx.add('get_by_path_array %s %s' % (e, p)).id
        ids['pe'] = ctx.add('path_exists %s %s' % (e, p)).id
        ids['pmatch'] = ctx.add('path_match %s %s' % (e, p)).id
        # the same selection appended to a buffer that already holds an earlier result: the offsets must delimit the
        # items in THAT buffer
        pre = gen.enc(r.choice(ds)) if r.random() < 0.3 else None
        if pre is not None:
            for m in ('all', 'array', 'mixed'):
                ids[m + '_pre'] = ctx.add('select@%s %s %s %s' % (pre.hex(), e, p, m)).id
        # a path may be written without its leading `$`: same items in every mode
        if p.startswith('R;') and r.random() < 0.3:
            for m in ('all', 'first', 'array', 'mixed'):
                ids[m + '_unrooted'] = ctx.add('select %s %s %s' % (e, p[2:], m)).id
            ids['pe_unrooted'] = ctx.add('path_exists %s %s' % (e, p[2:])).id
        # the convenience functions also accept the document as JSON TEXT: same answers (a seeded change gave `$` a fast path
        # that returned the text itself)
        if gen.is_finite(v) and gen.text_form(v) == v and (p == 'R' or r.random() < 0.5):
            t = gen.json_text(v, r)
            if t[:1] != b' ':
                for k, op in (('g', 'get_by_path'), ('gf', 'get_by_path_first'), ('ga', 'get_by_path_array'), ('pe', 'path_exists'), ('pmatch', 'path_match')):
                    ids[k + '_text'] = ctx.add('%s %s %s' % (op, gen.hexarg(t), p)).id
        ctx.trials.append((v, p, is_pred, ids, pre))

    for v in ds:
        for _ in range(3):
            ps = common.gen_path(ctx, v)
            trial(v, common.path_text(ps), ps[0][0] == 'P' and len(ps) == 1)
    # the root path alone, for every kind of root
    for v in [gen.text_form(x) for x in ds[::4] if gen.is_finite(x)] + common.scalar_roots():
        trial(v, 'R', False)
    # stand-alone predicates whose exists(...) starts from `@` -- at the top level `@` is the document itself, also when the
    # document is a scalar (the random predicates above are rooted at `$` only; a seeded change made path_match evaluate such a
    # predicate from a container position while the selector used the scalar position)
    C = ('C',)
    def cmpf(op, lit):
        return ('F', ('b', op, ('p', [C]), ('v', lit)))
    def ex(steps):
        return ('e', steps)
    preds = [ex([C]), ex([C, cmpf('gt', ('u', 1))]), ex([C, cmpf('eq', ('u', 5))]), ex([C, cmpf('eq', ('s', b'a'))]), ex([C, cmpf('ne', ('n',))]),
             ex([C, ('W',)]), ex([C, ('B',)]), ex([C, ('W',), cmpf('gt', ('u', 1))]), ex([C, ('D', b'a')]), ex([C, ('D', b'a'), cmpf('eq', ('u', 5))]),
             ('b', 'and', ex([C, cmpf('gt', ('u', 1))]), ex([('R',)])), ('b', 'or', ex([C, cmpf('lt', ('u', 1))]), ex([C, cmpf('gt', ('u', 1))]))]
    for v in common.scalar_roots() + [('a', [('u', 1), ('u', 2), ('u', 5)]), ('a', []), ('a', [('u', 5)]), ('o', [(b'a', ('u', 5))]), ('o', [])]:
        for e in preds:
            trial(v, common.path_text([('P', e)]), True)
    # a single member step on roots that are not objects -- in particular an ARRAY OF STRINGS holding the name: a member step
    # selects nothing there, so existence is false (a seeded fast path answered path_exists through exists_any_keys, which on an
    # array looks among the string elements)
    S = lambda b: ('s', b)
    for v in [('a', [S(b'a'), S(b'b')]), ('a', [S(b'a')]), ('a', [('a', [S(b'a')])]), S(b'a'), ('a', [S(b'b'), S(b'a'), ('o', [(b'a', ('u', 1))])]),
              ('o', [(b'a', ('u', 1))]), ('o', [(b'b', S(b'a'))]), ('a', [])]:
        for p in ('R;D61', 'R;K61', 'R;O61', 'R;D61;D61', 'R;B;D61', 'R;D62'):
            trial(v, p, False)
    # ONE Selector object reused for a sequence of calls and documents (exists, select, predicate_match, select on another
    # document, exists on it, select on the first again, twice): every answer must be what a fresh selector gives (a seeded
    # per-selector scratch queue kept the positions of an `exists` that returned true)
    ctx.reuse = []
    small = [v for v in ds if len(gen.enc(v)) <= 300]
    nested_self = ('o', [(b'a', ('o', [(b'a', ('u', 1))]))])
    fixed_r = [(nested_self, 'R;D61'), (nested_self, 'R'), (('a', [('u', 1), ('a', [('u', 2)])]), 'R;B'), (('a', [('a', [('a', [])])]), 'R;B'),
               (('u', 5), 'R'), (('o', [(b'a', ('u', 1))]), 'R;W'), (('a', [('u', 1), ('u', 2)]), 'R;B;Fbgt(p(C)|vu1)')]
    for v, p in fixed_r + [(v, common.path_text(common.gen_path(ctx, v))) for v in r.sample(small, min(len(small), ctx.scale(150, 3000)))] + \
            [(v, r.choice(['R', 'R;B', 'R;W', 'R;B;B'])) for v in r.sample(small, min(len(small), ctx.scale(80, 1500)))]:
        w = r.choice([v, r.choice(small)])
        e, we = gen.hexarg(gen.enc(v)), gen.hexarg(gen.enc(w))
        m = r.choice(['all', 'array', 'mixed', 'first'])
        singles = [ctx.add('sel_exists %s %s' % (e, p)).id, ctx.add('select %s %s %s' % (e, p, m)).id, ctx.add('sel_predicate_match %s %s' % (e, p)).id,
                   ctx.add('select %s %s %s' % (we, p, m)).id, ctx.add('sel_exists %s %s' % (we, p)).id]
        ctx.reuse.append((singles, ctx.add('sel_reuse %s %s %s %s' % (e, p, m, we), diff=False).id))
    # long chains of && / ||, deep nesting (no recursion budget in the model: the mode laws hold for them as well)
    ldocs = [v for v in ds if len(gen.enc(v)) <= 200][:40]
    for lab, p, is_pred in longpaths.paths(r, sizes=(64, 70, 300)):
        for v in r.sample(ldocs, 2) + [('a', [('u', 1), ('u', 2), ('u', 3)])]:
            trial(v, p, is_pred)


def judge(ctx):
    impl = ctx.impl
    for singles, rid in ctx.reuse:
        o = impl.get(rid, 'missing')
        one = [impl.get(i, 'missing') for i in singles]
        if o in ('panic', 'timeout', 'missing') or o.startswith('abort') or any(x in ('panic', 'timeout', 'missing') for x in one):
            continue    # the generic rule reports these
        want = [one[0], one[1], one[2], one[3], one[4], one[1], one[1]]
        ctx.count('selector_objects_reused_for_a_sequence_of_calls')
        if o.split(' | ') != want:
            ctx.violate('a Selector used for a sequence of calls answers differently from fresh selectors', case=ctx.cases[int(rid[1:]) - 1].line[:500],
                        expected=[x[:160] for x in want], observed=[x[:160] for x in o.split(' | ')])
    for v, p, is_pred, ids, pre in ctx.trials:
        o = {k: impl.get(i, 'missing') for k, i in ids.items()}
        case = {'doc': gen.vtext(v), 'path': p}
        if any(x == 'panic' or x.startswith('abort:') or x == 'timeout' for x in o.values()):
            continue   # reported by the generic rule of check.py: a panic / death on a valid document is a violation
        if o['all'].startswith('err'):
            if not all(o[m].startswith('err') for m in ('first', 'array', 'mixed')):
                ctx.violate('modes disagree on success/error', case=case, observed=o)
            continue
        for k in ('all', 'first', 'array', 'mixed', 'pe'):
            if k + '_unrooted' in o:
                ctx.count('paths_without_the_leading_root', k)
                if o[k + '_unrooted'] != o[k]:
                    ctx.violate('a path written without its leading `$` does not give what its `$` twin gives', case=case, mode=k,
                                observed={'rooted': o[k][:300], 'unrooted': o[k + '_unrooted'][:300]})
        for k in ('g', 'gf', 'ga', 'pe', 'pmatch'):
            if k + '_text' in o:
                ctx.count('convenience_functions_on_json_text', k)
                if o[k + '_text'] != o[k]:
                    ctx.violate('a convenience function answers differently for the JSON text of the document than for its encoding', case=case,
                                function=k, observed={'jsonb': o[k][:300], 'text': o[k + '_text'][:300]})
        sel = {m: parse_sel(o[m]) for m in ('all', 'first', 'array', 'mixed', 'g', 'gf', 'ga')}
        if any(x is None for x in sel.values()):
            ctx.violate('modes disagree on success/error', case=case, observed=o)
            continue
        if pre is not None:
            for m in ('all', 'array', 'mixed'):
                sp = parse_sel(o[m + '_pre'])
                d0, o0 = sel[m]
                if sp is None or sp[0] != pre + d0 or sp[1] != [x + len(pre) for x in o0]:
                    ctx.violate('selection into a buffer that already holds a result: data is not prefix ++ items or the offsets '
                                'do not delimit the items in that buffer', case=case, mode=m, prefix=pre.hex()[:64], observed=[o[m], o[m + '_pre'][:300]])
        # the all-mode items against the independent evaluator (props/pyjsonpath.py: documentation only, no model)
        try:
            oracle = [gen.enc(x) for x in pyjsonpath.select_all(v, pyjsonpath.parse_path_text(p))]
            ctx.count('oracle_judged')
        except pyjsonpath.Unjudged as u:
            oracle = None
            ctx.count('oracle_not_judged (the documentation does not define it)', str(u))
        if is_pred:
            want = sel['all'][0]
            if oracle is not None and [want] != oracle:
                ctx.violate('a predicate path does not yield the boolean its expression denotes (independent evaluator)', case=case,
                            expected=[x.hex() for x in oracle], observed=o['all'][:300])
            for m in ('first', 'array', 'mixed', 'g', 'gf', 'ga'):
                if sel[m][0] != want:
                    ctx.violate('a predicate path does not return the same single boolean in every mode', case=case, observed=o)
            if want not in (gen.enc(('b', True)), gen.enc(('b', False))):
                ctx.violate('a predicate path does not return one boolean document', case=case, observed=o)
            if o['exists'] != 'ok =true' or o['pe'] != 'ok =true':
                ctx.violate('existence of a predicate path is not true', case=case, observed=o)
            b = 'ok =true' if want == gen.enc(('b', True)) else 'ok =false'
            if o['pm'] != b or o['pmatch'] != b:
                ctx.violate('path_match differs from the boolean the predicate path selects', case=case, observed=o)
            continue
        data, offs = sel['all']
        items, end = split_items(data, offs)
        if end != len(data):
            ctx.violate('offsets do not delimit the returned data', case=case, observed=o)
            continue
        try:
            vals = [gen.dec(x) for x in items]
        except gen.DecodeError as ex:
            ctx.violate('a selected item is not a complete canonical JSONB document', case=case, observed=o['all'], why=str(ex))
            continue
        if oracle is not None and items != oracle:
            ctx.violate('the all-mode items are not the items the path denotes (independent evaluator written from the documentation)', case=case,
                        expected=[gen.vtext(gen.dec(x))[:120] for x in oracle][:8], observed=[gen.vtext(x)[:120] for x in vals][:8],
                        n_expected=len(oracle), n_observed=len(items))
        fd, fo = sel['first']
        if (fd, fo) != ((items[0], [len(items[0])]) if items else (b'', [])):
            ctx.violate('first-mode is not the first item of all-mode (or nothing)', case=case, observed=o)
        ad, ao = sel['array']
        if ad != gen.enc(('a', vals)) or ao != [len(ad)]:
            ctx.violate('array-mode is not one array holding exactly the all-mode items', case=case, observed=o)
        md = sel['mixed']
        if md != (sel['array'] if len(items) >= 2 else sel['all']):
            ctx.violate('mixed-mode is not array-mode for two or more items and all-mode otherwise', case=case, observed=o)
        ex = 'ok =true' if items else 'ok =false'
        if o['exists'] != ex or o['pe'] != ex:
            ctx.violate('existence differs from non-emptiness of all-mode', case=case, observed=o)
        if sel['g'] != md or sel['gf'] != sel['first'] or sel['ga'] != sel['array']:
            ctx.violate('a convenience function disagrees with the selector API', case=case, observed=o)
        if not o['pm'].startswith('err') or not o['pmatch'].startswith('err'):
            ctx.violate('path_match on a non-predicate path is not an error', case=case, observed=o)
