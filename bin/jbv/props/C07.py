"""C07 — any chain of operations keeps documents canonical and equal to the tree result."""
from .. import gen, core
from . import common

SPEC_THEOREM = 'Props/C07: every tree operation preserves well-formedness (invariant by induction over operation lists); canonical = enc of a wf value; byte chains (run_b over the *_w walkers) = tree chains, every register canonical'
TRUSTED = ['Coq 8.16.1 kernel', 'translator', 'extraction + OCaml driver', 'Rust harness', 'offset-faithful walker models (Iter.v, Builder.v, *Walk*.v) tied to the Rust functions by correspondence on valid and corrupt buffers; tree-level specifications TreeOps.v / SetOps.v / PathSem.v / Contain.v / CmpKey.v / Render.v / Serde.v; ChainWalk.v (byte-register chains)',
           'independent strict Python decoder (exact nested lengths, sorted unique keys, nothing trailing, re-encode identical)']
ASSUMPTIONS = ['starting documents are canonical encodings of well-formed values; sizes stay below 2^28 bytes / 2^24 elements']
RULE = 'random operation sequences (length <= 12 quick / 40 thorough) over a register file of documents; arguments are chosen from the current documents (real keys, real indices, sub-paths); at every step the implementation output is compared with the model and decoded by an independent strict decoder; non-trivial = a step that changed the document'


FIXED_FIRST_STEPS = [('R;I(x0)', 'first'), ('R;B', 'all'), ('R;I(l0)', 'all'), ('R;I(Sx0~l0)', 'first')]


def pick_op(ctx, regs, rnd=None):
    # deterministic opening for chains that start from a root array with exactly one scalar element: the first rounds select that
    # element in the single-value forms (a seeded fast path of the writer returned the array instead; the random choice of
    # register and operation reached it by luck only)
    if rnd is not None and rnd < len(FIXED_FIRST_STEPS):
        b0, v0 = regs[0]
        if v0[0] == 'a' and len(v0[1]) == 1 and v0[1][0][0] not in 'ao':
            return 'select %s %s %s' % (gen.hexarg(b0), FIXED_FIRST_STEPS[rnd][0], FIXED_FIRST_STEPS[rnd][1])
    """regs: list of (bytes, value). returns case line (op args) using register contents"""
    r = ctx.rng
    b, v = r.choice(regs)
    w, wv = r.choice(regs)
    e, we = gen.hexarg(b), gen.hexarg(w)
    ks = common.key_variants(ctx, v)
    ln = len(v[1]) if v[0] == 'a' else 1
    c = r.choice(['concat', 'delete_by_name', 'delete_by_index', 'delete_by_keypath', 'array_insert', 'array_distinct', 'array_intersection',
                  'array_except', 'object_insert', 'object_delete', 'object_pick', 'strip_nulls', 'build_array', 'build_object', 'get_by_index',
                  'get_by_name', 'get_by_keypath', 'object_keys', 'select_all', 'select_first', 'select_array', 'reencode', 'concat', 'array_insert', 'object_insert'])
    if c == 'concat':
        return 'concat %s %s' % (e, we)
    if c == 'delete_by_name':
        return 'delete_by_name %s %s' % (e, gen.hexarg(r.choice(ks)))
    if c == 'delete_by_index':
        return 'delete_by_index %s %d' % (e, r.randrange(-ln - 1, ln + 2))
    if c == 'delete_by_keypath':
        return 'delete_by_keypath %s %s' % (e, common.keypath_text(r.choice(common.keypaths_for(ctx, v, n=2))))
    if c == 'array_insert':
        return 'array_insert %s %d %s' % (e, r.randrange(-ln - 1, ln + 2), we)
    if c == 'array_distinct':
        return 'array_distinct %s' % e
    if c in ('array_intersection', 'array_except'):
        return '%s %s %s' % (c, e, we)
    if c == 'object_insert':
        return 'object_insert %s %s %s %d' % (e, gen.hexarg(r.choice(ks + [ctx.g.key()])), we, r.randrange(2))
    if c in ('object_delete', 'object_pick'):
        return '%s %s %s' % (c, e, gen.hexlist(r.sample(ks, min(len(ks), r.choice([0, 1, 2, 3])))))
    if c == 'strip_nulls':
        return 'strip_nulls %s' % e
    if c == 'build_array':
        return 'build_array %s' % gen.hexlist([x[0] for x in r.sample(regs, min(len(regs), r.choice([0, 1, 2, 3])))])
    if c == 'build_object':
        items = r.sample(regs, min(len(regs), r.choice([0, 1, 2, 3])))
        keys = [r.choice(ks + [ctx.g.key()]) for _ in items]
        return 'build_object %s %s' % (gen.hexlist(keys), gen.hexlist([x[0] for x in items]))
    if c == 'get_by_index':
        return 'get_by_index %s %d' % (e, r.randrange(0, ln + 1))
    if c == 'get_by_name':
        return 'get_by_name %s %s %d' % (e, gen.hexarg(r.choice(ks)), r.randrange(2))
    if c == 'get_by_keypath':
        return 'get_by_keypath %s %s' % (e, common.keypath_text(r.choice(common.keypaths_for(ctx, v, n=2))))
    if c == 'object_keys':
        return 'object_keys %s' % e
    if c.startswith('select_'):
        steps = [('R',)] + common.gen_steps(ctx, v, v, maxlen=3)
        return 'select %s %s %s' % (e, common.path_text(steps), c.split('_')[1])
    return 'reencode %s' % e


# positions of the register arguments of each step line (1-based fields after the op name); 'L' = a hex list of registers
REG_ARGS = {'concat': (1, 2), 'delete_by_name': (1,), 'delete_by_index': (1,), 'delete_by_keypath': (1,), 'array_insert': (1, 3),
            'array_distinct': (1,), 'array_intersection': (1, 2), 'array_except': (1, 2), 'object_insert': (1, 3), 'object_delete': (1,),
            'object_pick': (1,), 'strip_nulls': (1,), 'build_array': ('L1',), 'build_object': ('L2',), 'get_by_index': (1,),
            'get_by_name': (1,), 'get_by_keypath': (1,), 'object_keys': (1,), 'select': (1,), 'reencode': (1,)}


def chain_op(line, index):
    """the step line with its register arguments replaced by @<register index> (the form the model's `chain` op reads: run_b of
    ChainWalk.v); index: hex text of a document -> a register holding it"""
    f = line.split(' ')
    for pos in REG_ARGS[f[0]]:
        if isinstance(pos, str):
            k = int(pos[1:])
            f[k] = '_' if f[k] == '_' else ','.join('@%d' % index[x] for x in f[k].split(','))
        else:
            f[pos] = '@%d' % index[f[pos]]
    return ' '.join(f)


# the position (field after the op name) of the second document of the binary operations
TEXT_ARG = {'concat': 2, 'array_insert': 3, 'array_intersection': 2, 'array_except': 2, 'object_insert': 3}


# operations that write into a caller's buffer: in a chain the buffer may already hold the previous result
BUF_OPS = ('concat', 'delete_by_name', 'delete_by_index', 'delete_by_keypath', 'array_insert', 'array_distinct', 'array_intersection',
           'array_except', 'object_insert', 'object_delete', 'object_pick', 'strip_nulls', 'build_array', 'build_object', 'select')


def outputs_of(line, o, pre=b''):
    """documents contained in an 'ok' outcome of a step (possibly several for select all); None if the bytes the buffer held
    before the call (pre) are not there any more"""
    if not o.startswith('ok ') or o.startswith('ok ='):
        return []
    f = o[3:].split(' ')
    data = gen.unhexarg(f[0])
    if data[:len(pre)] != pre:
        return None
    data = data[len(pre):]
    if line.startswith('select'):
        offs = [int(x) - len(pre) for x in f[1].split(',')] if len(f) > 1 and f[1] else []
        out, prev = [], 0
        for x in offs:
            out.append(data[prev:x])
            prev = x
        return out
    return [data]


def generate(ctx):
    ctx.starts = common.docs(ctx, ctx.scale(250, 5000), finite=False, depth=3)
    for v in ctx.starts[:50]:
        ctx.add('reencode %s' % gen.hexarg(gen.enc(v)))


def judge(ctx):
    r = ctx.rng
    chains = [[(gen.enc(v), v), (gen.enc(w), w)] for v, w in zip(ctx.starts, reversed(ctx.starts))]
    rounds = ctx.scale(12, 40)
    total = changed = 0
    # the whole chain again, through run_b of ChainWalk.v (the definition the byte-chain theorems of Props/C07.v are about):
    # full register files (every document the implementation produced, in order), the operations with register indices
    full = [[d for d, _ in regs] for regs in chains]
    index = [{gen.hexarg(d): i for i, d in enumerate(f)} for f in full]
    chain_ops = [[] for _ in chains]
    clean = [True] * len(chains)
    for rnd in range(rounds):
        lines = []
        pres, texts = {}, {}
        for k, regs in enumerate(chains):
            op = pick_op(ctx, regs, rnd)
            # a chain collects its results in ONE buffer as often as in fresh ones: the step then appends to a buffer that holds
            # the previous result (the theorem is run_bp: any output prefix), and what it appends must be the same document
            name = op.split(' ', 1)[0]
            # the NEW argument of a step given as a JSON text literal while the current document is the JSONB result of the step
            # before (the dispatch on the argument forms is part of every operation): same result as with its encoding
            if name in TEXT_ARG and r.random() < 0.3:
                f = op.split(' ')
                by_hex = {gen.hexarg(d): v for d, v in regs}
                w = by_hex.get(f[TEXT_ARG[name]])
                if w is not None and gen.is_finite(w) and gen.text_form(w) == w:
                    t = gen.json_text(w, r)
                    if t[:1] != b' ':
                        texts[k] = (TEXT_ARG[name], f[TEXT_ARG[name]])
                        f[TEXT_ARG[name]] = gen.hexarg(t)
                        op = ' '.join(f)
            if name in BUF_OPS and len(regs[-1][0]) <= 4000 and r.random() < 0.4:
                pres[k] = regs[-1][0]
                op = '%s@%s %s' % (name, regs[-1][0].hex(), op.split(' ', 1)[1])
            lines.append('s%d %s' % (k, op))
        impl = core.run_cases(core.HARNESS_BIN, lines, 'C07-impl-%d' % rnd)
        model = core.run_cases(core.DRIVER_BIN, lines, 'C07-model-%d' % rnd)
        # a step without an outcome on either side is a failure of the machinery, never "both sides agree"
        core.require_outcomes(impl, ['s%d' % k for k in range(len(chains))], 'C07 round %d, implementation' % rnd)
        core.require_outcomes(model, ['s%d' % k for k in range(len(chains))], 'C07 round %d, model' % rnd)
        for k, regs in enumerate(chains):
            line = lines[k].split(' ', 1)[1]
            io, mo = impl.get('s%d' % k, 'missing'), model.get('s%d' % k, 'missing')
            total += 1
            if io == 'panic' or io.startswith('abort') or io == 'timeout':
                ctx.violate('an operation in a chain panics', case=line, step=rnd, observed=io)
                clean[k] = False
                continue
            if io != mo:
                ctx.violate('a chain step differs from the same step on the tree', case=line, step=rnd, expected_by_model=mo, observed=io)
                clean[k] = False
                continue
            if k in texts:
                ctx.count('steps_with_the_new_argument_as_json_text')
                f = line.split(' ')
                f[texts[k][0]] = texts[k][1]
                line = ' '.join(f)
            pre = pres.get(k, b'')
            if pre:
                ctx.count('steps_appending_to_a_buffer_that_holds_the_previous_result')
                line = line.split('@', 1)[0] + ' ' + line.split(' ', 1)[1]
            outs = outputs_of(line, io, pre)
            if outs is None:
                ctx.violate('a chain step changed the bytes its output buffer already held', case=lines[k][:600], step=rnd, observed=io[:600])
                clean[k] = False
                continue
            chain_ops[k].append(chain_op(line, index[k]))
            for d in outs:
                index[k].setdefault(gen.hexarg(d), len(full[k]))
                full[k].append(d)
                try:
                    v = gen.dec(d)
                except gen.DecodeError as ex:
                    ctx.violate('an intermediate result is not canonical JSONB', case=line, step=rnd, observed=io[:300], why=str(ex))
                    clean[k] = False
                    continue
                if len(d) < 4000:
                    if d != regs[0][0]:
                        changed += 1
                        ctx.nontrivial.add(('chain', d))
                    regs.append((d, v))
            if len(regs) > 6:
                del regs[0:len(regs) - 6]
        ctx.count('rounds', 'done')
    # lock step is done: replay every violation-free chain as ONE evaluation of run_b over byte registers in the model and
    # compare its final register file with the documents the implementation produced along the way
    lines, want = [], {}
    for k, ops in enumerate(chain_ops):
        if clean[k] and ops:
            lines.append('c%d chain %s %s' % (k, gen.hexlist(full[k][:2]), ' | '.join(ops)))
            want['c%d' % k] = 'ok ' + ','.join(gen.hexarg(d) for d in full[k])
    model = core.run_cases(core.DRIVER_BIN, lines, 'C07-chain')
    core.require_outcomes(model, [l.split(' ', 1)[0] for l in lines], 'C07 whole chains through run_b')
    whole = 0
    for line in lines:
        cid = line.split(' ', 1)[0]
        mo = model.get(cid, 'missing')
        if mo != want[cid]:
            ctx.violate('the registers of a whole chain differ from run_b over byte registers (ChainWalk.v)', case=line[:2000],
                        expected_by_model=mo[:600], observed=want[cid][:600])
        else:
            whole += 1
    ctx.stats['whole_chains_equal_to_run_b'] = whole
    ctx.stats['chain_steps'] = total
    ctx.stats['chain_steps_producing_new_documents'] = changed
