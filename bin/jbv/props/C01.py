"""C01 — binary encoding round-trips and is exactly the documented layout."""
from .. import gen
from . import sizes, common

SPEC_THEOREM = 'Codec: to_vec v = enc v (layout) and parse_jsonb (enc v) = Ok (normalise v)'
TRUSTED = ['Coq 8.16.1 kernel (coqc, full .vo build)', 'translator tools/translate_consts.py (tags, masks)',
           'extraction ExtrOcamlBasic + ocaml/driver', 'Rust harness /verif/harness',
           'independent Python encoder bin/jbv/gen.py written from the README (literal constants)']
ASSUMPTIONS = ['ser.rs / de.rs are modelled by hand in coq/Codec.v (buffer + back-patching; cursor decoder) and tied by correspondence',
               'sizes: payload < 2^28 bytes and count < 2^29 (wf_size); beyond that the entry word overflows its field (known finding)']
RULE = 'structured values: depth <= 6 at random plus a corpus of counts (100..1000 containers/elements in one document) and nesting 64..500, empty/singleton/wide containers, keys that are prefixes / case variants / multi-byte, numbers from width-boundary pools, NaN/inf; non-trivial = a container or a scalar with payload; distinct by value text'


def normalise(v):
    k = v[0]
    if k == 'i' and v[1] == 0:
        return ('u', 0)
    if k == 'd' and gen.f_is_nan(v[1]):
        return ('d', 0x7FF8000000000000)
    if k == 'a':
        return ('a', [normalise(x) for x in v[1]])
    if k == 'o':
        return ('o', [(kk, normalise(x)) for kk, x in v[1]])
    return v


def generate(ctx):
    g, r = ctx.g, ctx.rng
    vals = []
    # element counts around 2^16 and 2^24, where the count spills into the next header byte (2^24: into the byte that also holds
    # the container type -- the first-byte sniffing of functions.rs does not recognise such a document, which is the recorded
    # finding of C05 / C11, but both DECODERS must): implementation only, the list-based model cannot hold 16 million elements
    ctx.big_counts = [ctx.add('big_count_roundtrip %d' % n, diff=False) for n in ([65535, 65536, 65537, (1 << 24) - 1, 1 << 24] + ([(1 << 24) + 1] if ctx.tier == 'thorough' else []))]
    # corpus of shapes the tests never sample
    n = ('n',)
    vals += [n, ('b', True), ('b', False), ('s', b''), ('a', []), ('o', []), ('a', [('a', []), ('o', []), ('a', [('o', [])])]),
             ('a', [('s', b'a'), ('o', []), ('u', 10)]), ('o', [(b'', n), (b'a', ('a', [])), (b'ab', ('o', [(b'k', ('s', b'v'))]))]),
             ('o', [(b'a', ('u', 127)), (b'b', ('u', 128)), (b'c', ('i', -129)), (b'd', ('i', 32768)), (b'e', ('u', 1 << 32))]),
             ('a', [('a', [('a', [('a', [('a', [('u', 1)])])])])]), ('o', [(b'\xc3\xa9', ('s', 'é\U0001F600'.encode()))])]
    # the shared edge corpus of every other check (payload-free members, empty keys, single members, empty containers next to
    # siblings ...): a seeded decoder bound `9 bytes per member` was wrong only for an object whose keys are empty / one byte
    # long with null / boolean values at the very end of the document, e.g. {"":null}
    vals += common.docs(ctx, 0)
    vals += [('o', [(b'', n)]), ('o', [(b'', ('b', False)), (b'a', n), (b'b', ('b', True))]), ('a', [('u', 7), ('o', [(b'', n)])]),
             ('o', [(b'', ('s', b''))]), ('a', [('o', [(b'', n)])]), ('o', [(b'', ('o', [(b'', n)]))])]
    # counts and nesting the random trees never reach: many containers in one document (a decoder that keeps a counter
    # per container, a capacity hint, a depth guard ...), element counts around the byte-width boundaries of the header
    # count, and moderate nesting well below the stack limit
    e_a, e_o = ('a', []), ('o', [])
    key = lambda i: ('k%04d' % i).encode()
    for cnt in (100, 127, 128, 129, 130, 200, 255, 256, 257, 300, 1000):
        vals.append(('a', [e_a] * cnt))
        vals.append(('a', [e_o] * cnt))
        vals.append(('o', [(key(i), e_a if i % 2 else e_o) for i in range(cnt)]))
        vals.append(('a', [('o', [(b'a', e_a), (b'b', e_o), (b'c', ('u', i))]) for i in range(cnt // 3 + 1)]))
        vals.append(('a', [('s', b'x' * (i % 5)) for i in range(cnt)]))
        vals.append(('a', [('a', [('u', i)]) for i in range(cnt)]))
    vals.append(('a', [n] * 4097))       # larger counts make the list-based model quadratic (back-patching by index)
    for d in (64, 100, 127, 128, 129, 130, 200, 255, 256, 257, 300, 500):
        v1 = ('u', 7)
        v2 = ('s', b'leaf')
        v3 = e_a
        for i in range(d):
            v1 = ('a', [v1])
            v2 = ('o', [(b'k', v2)])
            v3 = ('a', [v3, e_o]) if i % 2 else ('o', [(b'x', v3)])
        vals += [v1, v2, v3]
    # strings and keys whose length needs the second / third length byte of the entry word (255, 256, 257, 4096, 65535, 65536
    # bytes; multi-byte text crossing 256), containers of 255 .. 1000 members of every kind (sizes.py; second review H2)
    vals += [v for _, v in sizes.string_docs() + sizes.container_docs()]
    for x in gen.INT_POOL:
        vals.append(('i', x))
        vals.append(('a', [('i', x), ('s', b'x')]))
    for x in gen.UINT_POOL:
        vals.append(('u', x))
        vals.append(('o', [(b'k', ('u', x))]))
    for x in gen.FLOAT_POOL + gen.SPECIAL_FLOATS:
        vals.append(('d', x))
    for _ in range(ctx.scale(1500, 80000)):
        vals.append(g.value(depth=r.choice([1, 2, 3, 4, 6]), finite=False))
    ctx.vals = vals
    for v in vals:
        t = gen.vtext(v)
        e = gen.enc(v)
        ctx.add('to_vec ' + t, meta=('enc', v))
        ctx.add('parse_jsonb ' + gen.hexarg(e), meta=('dec', v))
        ctx.add('from_slice ' + gen.hexarg(e), meta=('dec', v), diff=False)
        ctx.add('reencode ' + gen.hexarg(e), meta=('re', v), diff=False)
        if r.random() < 0.3:
            pre = bytes(r.randrange(256) for _ in range(r.choice([1, 3, 8, 40])))
            ctx.add('write_to_vec@%s %s' % (pre.hex(), t), meta=('pre', v, pre))
        ctx.count('nodes', gen.nodes(v) if gen.nodes(v) < 10 else '10+')
        ctx.count('depth', gen.vdepth(v))


def judge(ctx):
    impl = ctx.impl
    for c in ctx.big_counts:
        o = impl.get(c.id, 'missing')
        ctx.count('big_element_counts', c.line.split(' ')[-1])
        if o in ('panic', 'timeout', 'missing') or o.startswith('abort'):
            continue     # the generic rule reports these
        if not (o.startswith('ok ') and o.endswith('from_slice=true parse_jsonb=true')):
            ctx.violate('an array with this many elements does not survive encoding and decoding', case=c.line, observed=o)
    for c in ctx.cases:
        m = c.meta
        if not m:
            continue
        o = impl.get(c.id, 'missing')
        if m[0] == 'enc':
            want = 'ok ' + gen.hexarg(gen.enc(m[1]))
            if o != want:
                ctx.violate('to_vec is not the README layout', case=c.line, expected=want, observed=o)
        elif m[0] == 'dec':
            want = 'ok ' + gen.vtext(normalise(m[1]))
            if o != want:
                ctx.violate('decoding an encoding does not give the value back', case=c.line, expected=want, observed=o)
        elif m[0] == 're':
            want = 'ok ' + gen.hexarg(gen.enc(m[1]))
            if o != want:
                ctx.violate('re-encoding the decoded value does not reproduce the bytes', case=c.line, expected=want, observed=o)
        elif m[0] == 'pre':
            want = 'ok ' + (m[2] + gen.enc(m[1])).hex()
            if o != want:
                ctx.violate('write_to_vec does not append the layout to the existing buffer', case=c.line, expected=want, observed=o)
