"""C04 — compare is a total order matching value equality and the documented ranking."""
from fractions import Fraction
from .. import gen
from . import common, sizes
from .C12 import retype

SPEC_THEOREM = 'Props/C04: cmp_value is a total preorder with equivalence value_eq; compare_m = cmp_value under the generated level table'
TRUSTED = ['Coq 8.16.1 kernel', 'translator (level table, tags)', 'extraction + OCaml driver', 'Rust harness',
           'model Order.v: cmp_value (specification, literal ranking) and compare_m (view-level mirror of compare_*); byte offsets of compare_* tied by correspondence',
           'independent Python ranking oracle in this file']
ASSUMPTIONS = ['documents are canonical encodings of well-formed values; JSON texts are valid and do not start with a space']
RULE = 'pairs and triples built by mutation of a base document (change one leaf deep inside, re-type a number, drop the last element, swap siblings, shared long prefixes), in all four text/binary combinations for finite documents; non-trivial = outcome lt/gt or eq on non-identical bytes'

RANK = {'n': 7, 'a': 6, 'o': 5, 's': 4, 'i': 3, 'u': 3, 'd': 3}


def num_key(v):
    k, x = v
    if k in 'iu':
        return (1, Fraction(x))
    if gen.f_is_nan(x):
        return (3, 0)
    if gen.f_is_inf(x):
        return (0, 0) if x >> 63 else (2, 0)
    return (1, Fraction(gen.bits_to_float(x)))


def rank(v):
    if v[0] == 'b':
        return 2 if v[1] else 1
    return RANK[v[0]]


def py_cmp(a, b):
    ra, rb = rank(a), rank(b)
    if ra != rb:
        return -1 if ra < rb else 1
    k = a[0]
    if k in 'nb':
        return 0
    if k == 's':
        return (a[1] > b[1]) - (a[1] < b[1])
    if k in 'iud':
        x, y = num_key(a), num_key(b)
        return (x > y) - (x < y)
    if k == 'a':
        for x, y in zip(a[1], b[1]):
            c = py_cmp(x, y)
            if c:
                return c
        return (len(a[1]) > len(b[1])) - (len(a[1]) < len(b[1]))
    for (k1, x), (k2, y) in zip(a[1], b[1]):
        if k1 != k2:
            return -1 if k1 < k2 else 1
        c = py_cmp(x, y)
        if c:
            return c
    return (len(a[1]) > len(b[1])) - (len(a[1]) < len(b[1]))


def mutate(ctx, v, depth=0):
    r = ctx.rng
    k = v[0]
    c = r.random()
    if k == 'a' and v[1]:
        if c < 0.2:
            return ('a', v[1][:-1])
        if c < 0.3:
            return ('a', v[1] + [r.choice(v[1])])
        if c < 0.4 and len(v[1]) > 1:
            l = list(v[1])
            i = r.randrange(len(l) - 1)
            l[i], l[i + 1] = l[i + 1], l[i]
            return ('a', l)
        i = r.randrange(len(v[1]))
        return ('a', v[1][:i] + [mutate(ctx, v[1][i], depth + 1)] + v[1][i + 1:])
    if k == 'o' and v[1]:
        if c < 0.2:
            return ('o', v[1][:-1])
        if c < 0.3:
            d = dict(v[1])
            d[ctx.g.key()] = ctx.g.scalar(finite=False)
            return ('o', sorted(d.items()))
        i = r.randrange(len(v[1]))
        return ('o', v[1][:i] + [(v[1][i][0], mutate(ctx, v[1][i][1], depth + 1))] + v[1][i + 1:])
    if c < 0.4:
        return retype(ctx, v)
    if k in 'iu' and c < 0.7:
        z = v[1] + r.choice([-1, 1])
        return ('i', z) if gen.I64_MIN <= z <= gen.I64_MAX else v
    if k == 's' and c < 0.7:
        return ('s', v[1] + b'a') if r.random() < 0.5 else ('s', v[1].decode('utf-8')[:-1].encode('utf-8'))
    return ctx.g.scalar(finite=False)


NAMES = {-1: 'lt', 0: 'eq', 1: 'gt'}


def is_utf8(b):
    try:
        b.decode('utf-8')
        return True
    except UnicodeDecodeError:
        return False


def generate(ctx):
    r = ctx.rng
    ds = common.docs(ctx, ctx.scale(500, 20000), finite=False)
    ctx.trip = []
    # branches of compare reached only by text that does not parse (line coverage of /repo under the harness showed them
    # unexercised): an invalid text sorts below every document, two invalid texts compare bytewise; tie only
    bad = [b'nul', b'[1,', b'{"a"}', b'tru e', b'@', b'1 2', b'']
    good = [gen.enc(ds[0]), gen.json_text(ds[1]) if gen.is_finite(ds[1]) else b'[1]', b'7', gen.enc(('a', []))]
    for x in bad:
        for y in bad + good:
            if not x and not y:
                continue
            for l, rr in ((x, y), (y, x)):
                if l and rr:
                    ctx.add('compare %s %s' % (gen.hexarg(l), gen.hexarg(rr)), kind='invalid-text')
    for a in ds:
        b = mutate(ctx, a)
        c = mutate(ctx, b) if r.random() < 0.6 else r.choice(ds)
        if r.random() < 0.2:
            b = r.choice(ds)
        ea, eb, ec = [gen.hexarg(gen.enc(x)) for x in (a, b, c)]
        ids = {}
        for n, (x, y, p, q) in {'ab': (ea, eb, a, b), 'ba': (eb, ea, b, a), 'bc': (eb, ec, b, c), 'ac': (ea, ec, a, c), 'aa': (ea, ea, a, a)}.items():
            ids[n] = ctx.add('compare %s %s' % (x, y), meta=('cmp', p, q)).id
        ctx.trip.append((a, b, c, ids))
        # text / binary combinations (finite documents only)
        if gen.is_finite(a) and gen.is_finite(b) and r.random() < 0.5:
            ta, tb = gen.hexarg(gen.json_text(a, r)), gen.hexarg(gen.json_text(b, r))
            if not ta.startswith('20') and not tb.startswith('20'):
                for x, y in ((ta, tb), (ta, eb), (ea, tb)):
                    ctx.add('compare %s %s' % (x, y), meta=('cmp', gen.text_form(a) if x == ta else a, gen.text_form(b) if y == tb else b))
    # long strings / keys (255 .. 65536 bytes) and wide containers (255 .. 1000 members) against copies that differ at the very end
    # (sizes.py; second review H2); judged by py_cmp like every other pair.  compare(v, v) on the 1000-member object costs the model
    # 8 s, so the widest documents are only compared with their mutants
    for lab, v in sizes.string_docs() + sizes.container_docs():
        ev = gen.hexarg(gen.enc(v))
        if not lab.startswith(('obj1000', 'arr1000')):
            ctx.add('compare %s %s' % (ev, ev), meta=('cmp', v, v))
        for m in sizes.end_mutants(v)[:1 if lab.startswith(('obj1000', 'arr1000')) else 3]:
            if m[0] == 's' and not is_utf8(m[1]):
                continue
            em = gen.hexarg(gen.enc(m))
            ctx.add('compare %s %s' % (ev, em), meta=('cmp', v, m))
            ctx.add('compare %s %s' % (em, ev), meta=('cmp', m, v))
    # numbers of every width against each other: each pool float against its integer neighbours, and a sample of all pairs
    nums = [('i', x) for x in gen.INT_POOL] + [('u', x) for x in gen.UINT_POOL] + [('d', x) for x in gen.FLOAT_POOL + gen.SPECIAL_FLOATS]
    pairs = []
    for f in gen.FLOAT_POOL:
        x = gen.bits_to_float(f)
        if abs(x) < 2.0 ** 70:
            for d in (-1, 0, 1):
                z = int(x) + d
                if 0 <= z <= gen.U64_MAX:
                    pairs.append((('d', f), ('u', z)))
                if gen.I64_MIN <= z <= gen.I64_MAX:
                    pairs.append((('d', f), ('i', z)))
        for z in (gen.U64_MAX, gen.I64_MAX, gen.I64_MIN, 1 << 63):
            pairs.append((('d', f), ('u', z) if z >= 0 else ('i', z)))
    # deterministic: signed zeros in every representation and the special floats against each other, in all three shapes
    # (a seeded change ordered Float64(-0.0) below Float64(0.0); the random pairs reach that pair only by luck)
    zeros = [('d', gen.float_to_bits(0.0)), ('d', gen.float_to_bits(-0.0)), ('i', 0), ('u', 0)]
    specials = zeros + [('d', x) for x in gen.SPECIAL_FLOATS if ('d', x) not in zeros]
    pairs = [pq for x in specials for y in specials for pq in ((x, y),) * 3] + pairs
    for _ in range(ctx.scale(1500, 40000)):
        pairs.append((r.choice(nums), r.choice(nums)))
    for j, (x, y) in enumerate(pairs):
        if j % 3 == 1:
            x, y = ('a', [('s', b'p'), x]), ('a', [('s', b'p'), y])
        elif j % 3 == 2:
            x, y = ('o', [(b'k', x)]), ('o', [(b'k', y)])
        ex, ey = gen.hexarg(gen.enc(x)), gen.hexarg(gen.enc(y))
        ctx.add('compare %s %s' % (ex, ey), meta=('cmp', x, y))
        ctx.add('compare %s %s' % (ey, ex), meta=('cmp', y, x))
    # the byte walker on buffers that are NOT valid encodings (prefixes, one byte changed), against a valid partner and
    # against each other: C04 says nothing about them, but the offset-faithful model (CompareWalk.v) does, including
    # the errors and the panics of index expressions; this stream only feeds the correspondence tie
    small = [v for v in ds if len(gen.enc(v)) <= 100]
    for v in r.sample(small, min(len(small), ctx.scale(150, 4000))):
        e = gen.enc(v)
        w = r.choice(small)
        ew = gen.enc(mutate(ctx, v)) if r.random() < 0.6 else gen.enc(w)
        muts = [e[:i] for i in range(len(e))] if len(e) <= 32 else [e[:r.randrange(len(e))] for _ in range(10)]
        for _ in range(14):
            i = r.randrange(len(e))
            muts.append(e[:i] + bytes([r.choice([0, 1, 4, 0x10, 0x20, 0x30, 0x40, 0x50, 0x7f, 0x80, 0xff, e[i] ^ 1, e[i] ^ 0x10, (e[i] + 1) & 0xff])]) + e[i + 1:])
        for m in muts:
            if not m or m[0] not in (0x80, 0x40, 0x20):
                continue            # would be read as JSON text
            ctx.add('compare %s %s' % (gen.hexarg(m), gen.hexarg(ew)), kind='malformed')
            ctx.add('compare %s %s' % (gen.hexarg(ew), gen.hexarg(m)), kind='malformed')
            ctx.add('compare %s %s' % (gen.hexarg(m), gen.hexarg(m)), kind='malformed')
    # the seven cross-kind ranks, nested and at top level
    reps = [('b', False), ('b', True), ('u', 5), ('s', b'x'), ('o', [(b'k', ('n',))]), ('a', [('n',)]), ('n',)]
    for x in reps:
        for y in reps:
            ctx.add('compare %s %s' % (gen.hexarg(gen.enc(x)), gen.hexarg(gen.enc(y))), meta=('cmp', x, y))
            ctx.add('compare %s %s' % (gen.hexarg(gen.enc(('a', [x]))), gen.hexarg(gen.enc(('a', [y])))), meta=('cmp', ('a', [x]), ('a', [y])))
            ctx.add('compare %s %s' % (gen.hexarg(gen.enc(('o', [(b'k', x)]))), gen.hexarg(gen.enc(('o', [(b'k', y)])))),
                    meta=('cmp', ('o', [(b'k', x)]), ('o', [(b'k', y)])))


def judge(ctx):
    impl = ctx.impl
    for c in ctx.cases:
        if c.meta and c.meta[0] == 'cmp':
            o = impl.get(c.id, 'missing')
            want = 'ok =' + NAMES[py_cmp(c.meta[1], c.meta[2])]
            if o != want:
                ctx.violate('compare differs from the documented ranking / value order', case=c.line, expected=want, observed=o,
                            values=[gen.vtext(c.meta[1]), gen.vtext(c.meta[2])])
            ctx.count('outcome', o)
    opp = {'ok =lt': 'ok =gt', 'ok =gt': 'ok =lt', 'ok =eq': 'ok =eq'}
    for a, b, c, ids in ctx.trip:
        ab, ba, bc, ac, aa = [impl.get(ids[k], 'missing') for k in ('ab', 'ba', 'bc', 'ac', 'aa')]
        case = [gen.vtext(a), gen.vtext(b), gen.vtext(c)]
        if aa != 'ok =eq':
            ctx.violate('compare is not reflexive', case=case[:1], observed=aa)
        if ab in opp and opp[ab] != ba:
            ctx.violate('compare is not antisymmetric', case=case[:2], observed=[ab, ba])
        if ab == bc and ab in opp and ac != ab:
            ctx.violate('compare is not transitive', case=case, observed=[ab, bc, ac])
        if ab == 'ok =eq' and bc in opp and ac != bc:
            ctx.violate('compare: equal documents are not interchangeable', case=case, observed=[ab, bc, ac])
