"""C16 — key-path syntax parses to its meaning, prints back faithfully and never panics."""
from .. import gen
from . import common
from .C09 import safe_name, ws

SPEC_THEOREM = 'Props/C16: parse_key_paths is total (no Panic); rendered element lists parse to their elements; print/parse round trip'
TRUSTED = ['Coq 8.16.1 kernel', 'translator (raw_string delimiter set)', 'extraction + OCaml driver', 'Rust harness', 'model PathParse.v (key_paths over modelled nom combinators)']
ASSUMPTIONS = ['nom 7.1.3 combinators are modelled, not verified']
RULE = 'lists of key-path elements (signed integers, quoted names with escapes, plain names) rendered with every spacing variant; every prefix, single-byte mutations and byte soups as raw input; non-trivial = accepted input'


def quote_esc(ctx, b):
    r = ctx.rng
    out = '"'
    for ch in b.decode():
        if ch == '"':
            out += '\\"'
        elif ch == '\\':
            out += '\\\\'
        elif ch == '\n' and r.random() < 0.5:
            out += '\\n'
        elif ch == '\t' and r.random() < 0.5:
            out += '\\t'
        elif r.random() < 0.08 and ord(ch) < 0x10000 and not (0xD800 <= ord(ch) <= 0xDFFF):
            out += ('\\u%04x' % ord(ch)) if r.random() < 0.5 else ('\\u{%04X}' % ord(ch))
        else:
            out += ch
    return out + '"'


def generate(ctx):
    r = ctx.rng
    ctx.ws_kinds = True
    texts = []
    for _ in range(ctx.scale(2500, 100000)):
        n = r.choice([0, 1, 1, 2, 3, 4, 6])
        els = []
        for _ in range(n):
            c = r.random()
            if c < 0.35:
                els.append(('i', r.choice([0, 1, -1, 5, 10, -2147483648, 2147483647, 42, -7])))
            elif c < 0.7:
                els.append(('n', safe_name(ctx)))
            else:
                els.append(('q', r.choice([b'', b'a', b'a b', b'a,b', b'{x}', b'q"uote', b'back\\slash', b'tab\there', b'nl\nx', 'é日'.encode(), b'1', b'-1'])))
        want = common.keypath_text(els)
        parts = []
        for e in els:
            if e[0] == 'i':
                s = ('+' if e[1] > 0 and r.random() < 0.1 else '') + str(e[1])
            elif e[0] == 'n':
                s = e[1].decode()
            else:
                s = quote_esc(ctx, e[1])
            parts.append(ws(ctx) + s + ws(ctx))
        t = (ws(ctx) + '{' + (','.join(parts) if parts else ws(ctx)) + '}' + ws(ctx)).encode()
        texts.append(t)
        ctx.add('parse_key_paths %s' % gen.hexarg(t), meta=('parse', want, t))
        safe = all(e[0] != 'q' or not any(ch in e[1] for ch in b'"\\\n\t') for e in els)
        ctx.add('print_parse_key_paths %s' % want, meta=('pp', want, safe))
    alphabet = b'{}, "\\\t\n-+0123456789abcxyzu{}.:$'
    for t in r.sample(texts, min(len(texts), ctx.scale(300, 6000))):
        for i in range(len(t)):
            ctx.add('parse_key_paths %s' % gen.hexarg(t[:i]), kind='prefix')
        for _ in range(4):
            i = r.randrange(len(t) + 1)
            b = bytes([r.choice(alphabet)]) if r.random() < 0.9 else bytes([r.randrange(256)])
            c = r.random()
            m = t[:i] + b + t[i:] if c < 0.4 else (t[:i] + t[i + 1:] if c < 0.7 else t[:i] + b + t[i + 1:])
            ctx.add('parse_key_paths %s' % gen.hexarg(m), kind='mutation')
    for _ in range(ctx.scale(3000, 100000)):
        n = r.randrange(0, 10)
        ctx.add('parse_key_paths %s' % gen.hexarg(bytes(r.choice(alphabet) for _ in range(n))), kind='soup')
    # escapes inside plain and quoted names, every truncation (the scanners index ahead of the cursor)
    # surrogate pairs whose halves are spelled in the same or in different forms (4 digits / braced), alone and followed by one or
    # more bytes; lone halves in both forms (a seeded decoder reused the spelling of the first half for the second)
    hi, lo = ['\\uD83D', '\\u{D83D}', '\\ud83d', '\\u{d83D}'], ['\\uDE00', '\\u{DE00}', '\\ude00']
    pairs = [h + l + tail for h in hi for l in lo for tail in ('', 'a', 'ab', '\\u0041', '\\u{41}')] + hi + lo + [l + h for h in hi[:2] for l in lo[:2]] + \
            ['x' + h + l for h in hi[:2] for l in lo[:2]] + [h + 'x' + l for h in hi[:2] for l in lo[:2]] + [h + l + h + l for h in hi[:2] for l in lo[:2]]
    for nm in pairs + common.escape_forms(ctx, ctx.scale(150, 4000)):
        for t in ('{' + nm + '}', '{"' + nm + '"}', '{a, ' + nm + ' , 1}', '{' + nm):
            t = t.encode()
            ctx.add('parse_key_paths %s' % gen.hexarg(t), kind='escape')
            for i in range(max(0, len(t) - 9), len(t)):
                ctx.add('parse_key_paths %s' % gen.hexarg(t[:i]), kind='escape-prefix')
    for t in [b'{"a\\\\"}', b'{ "dir\\\\" , "x" , 2 }', b'{"\\\\"}', b'{"a\\\\\\\\"}', b'{"a\\\\\\""}', b'{a\\\\}', b'{a\\\\,b}', b'{"a\\\\","b\\\\"}', b'{"\\\\\\""}',
              b'{"abc}', b'{"', b'{"\\', b'{"\\u12', b'{a', b'a}', b'{', b'}', b'', b'{ }', b'{,}', b'{a,}', b'{1,2', b'{""}', b'{99999999999}', b'{-}', b'{+}', b'{1a}', b'{a b}',
              # what the grammar of KeyPathGrammar.v names as extras, and its edges
              b'{+1}', b'{ +007 , -0 }', b'{a\\u0041b}', b'{a\\u{0041}b}', b'{\\u0031}', b'{a\\"b}', b'{a\\/b}', b'{a\\.b}', b'{-a}', b'{+a}',
              b'{a\x00b}', b'{a\x0cb}', b' \t\r\n{ \n} \n', b'{a\\ud800}', b'{\\\\}', b'{\xff}', b'{2147483648}', b'{-2147483649}', b'{-2147483648}']:
        ctx.add('parse_key_paths %s' % gen.hexarg(t), kind='edge', meta=('edge', t))


def judge(ctx):
    impl = ctx.impl
    for c in ctx.cases:
        o = impl.get(c.id, 'missing')
        if o == 'panic' or o.startswith('abort'):
            ctx.violate('the key-path parser panics', case=c.line, observed=o)
            continue
        m = c.meta
        if not m:
            continue
        if m[0] == 'parse':
            if not o.startswith('ok ') or o.split(' ')[1] != m[1]:
                ctx.violate('a rendered key path does not parse to its elements', case=c.line, text=repr(m[2]), expected=m[1], observed=o[:300])
        elif m[0] == 'pp' and m[2]:
            if not o.startswith('ok ') or o.split(' ')[1] != m[1]:
                ctx.violate('printing a key path and parsing the printout does not give the same elements', case=c.line, expected=m[1], observed=o[:300])
        elif m[0] == 'edge':
            t = m[1]
            if t == b'{""}' and not o.startswith('ok q '):
                ctx.violate('the empty quoted name is not accepted as a quoted name', case=c.line, observed=o)
            if t == b'{99999999999}' and o.startswith('ok n'):
                ctx.violate('a digit-initial element outside the i32 range is accepted as a plain name', case=c.line, observed=o)
