"""common.py — shared generators for documents, keys, key paths, JSONPath ASTs."""
from .. import gen


def docs(ctx, n, finite=True, depth=4, plain=False):
    """a list of values with a hand-made corpus in front"""
    N = ('n',)
    base = [N, ('b', True), ('b', False), ('s', b''), ('s', b'abc'), ('u', 0), ('i', -1), ('u', 5), ('d', gen.float_to_bits(1.5)),
            ('a', []), ('o', []), ('a', [N]), ('a', [('u', 1), ('u', 2), ('u', 3)]),
            ('a', [('s', b'a'), ('a', []), ('o', []), ('a', [('o', [(b'k', N)])]), ('u', 300)]),
            ('o', [(b'a', ('u', 1))]), ('o', [(b'', N), (b'A', ('u', 1)), (b'a', ('u', 2)), (b'ab', ('a', [N, ('o', [])]))]),
            ('o', [(b'a', ('o', [(b'b', ('o', [(b'c', ('a', [('u', 1), N, ('s', b'x')]))]))])), (b'b', N)]),
            ('a', [('a', [('a', [('u', 1), ('u', 2)]), ('u', 3)]), ('o', [(b'k', ('a', [('u', 4)]))])]),
            ('o', [(b'k1', N), (b'k2', ('o', [(b'k1', N), (b'k3', ('a', [N, ('o', [(b'z', N)])]))]))]),
            ('a', [('s', b'a'), ('s', b'a'), ('u', 1), ('i', 1), ('d', gen.float_to_bits(1.0)), ('s', b'A')]),
            ('o', sorted([(b'Key', ('u', 1)), (b'key', ('u', 2)), (b'kEy', ('u', 3))])),
            ('o', sorted([('é'.encode(), ('s', 'ü'.encode())), ('日本'.encode(), ('a', []))]))]
    T, F, E = ('b', True), ('b', False), ('s', b'')
    one = ('u', 1)
    # shapes at the edges of the offset arithmetic: values with empty payloads only, an empty payload right before a
    # container, single elements, empty containers with siblings, non-ASCII keys below the top level, numbers at the
    # width boundaries, a last byte that is ASCII whitespace
    base += [('o', [(b'a', N)]), ('o', [(b'read', T), (b'write', F)]), ('o', [(b'', N)]), ('o', [(b'k', E)]),
             ('o', [(b'a', N), (b'b', E), (b'c', T)]), ('a', [T, F]), ('a', [E]), ('a', [N, T, E]),
             ('o', [(b'a', N), (b'b', ('o', [(b'k', one)]))]), ('a', [T, ('a', [('u', 10), ('u', 20)])]), ('a', [E, ('o', [(b'x', ('s', b'y'))])]),
             ('a', [('u', 7)]), ('a', [('s', b'x')]), ('a', [('a', [one])]), ('o', [(b'only', ('a', [N]))]),
             ('a', [('a', []), ('u', 7)]), ('o', [(b'a', ('a', [])), (b'b', ('s', b'x'))]), ('o', [(b'a', ('o', [])), (b'b', one)]),
             ('o', [(b'o', ('o', sorted([('é'.encode(), one), (b'z', ('a', [('o', sorted([('ü'.encode(), N), (b'y', one)]))]))])))]),
             ('a', [('a', [('o', [(b'a', N), (b'b', one)])]), ('u', 2)]), ('o', [(b'rows', ('a', [('a', [('o', [(b'z', N)])])]))]),
             ('a', [('u', 200), ('u', 255), ('u', 256), ('i', 200), ('i', 40000), ('i', -129), ('u', 65535), ('u', 65536)]),
             ('a', [one, ('u', 9)]), ('a', [('u', 10)]), ('u', 32), ('u', 8224), ('o', [(b'msg', ('s', b'done\n'))]), ('s', b'tab\t'),
             ('o', [(b'id', ('s', b'abcdef')), (b'n', one)]), ('a', [T, one]), ('a', [N, ('u', 2), N]),
             ('o', [(b'B', one), (b'a', ('u', 2))]), ('o', [(b'ID', one), (b'Name', ('u', 2)), (b'user_id', ('u', 3))])]
    out = list(base) + size_corpus()
    g = ctx.g
    for _ in range(n):
        r = ctx.rng.random()
        if r < 0.4:
            out.append(g.container(depth=ctx.rng.choice([1, 2, 3, depth]), finite=finite, plain=plain))
        elif r < 0.6:
            out.append(g.array(depth=3, finite=finite, plain=plain))
        elif r < 0.8:
            out.append(g.obj(depth=3, finite=finite, plain=plain))
        else:
            out.append(g.value(depth=depth, finite=finite, plain=plain))
    return out


def size_corpus():
    """wide and deep documents that the random trees never reach (a small fixed-size buffer, a u8 counter, a sort or hash
    threshold, a recursion guard all need sizes): arrays / objects of 17, 33, 64, 130, 300 members incl. late repeats of early
    elements and nested empty containers; nesting 17, 33, 64, 129, 130, 200 levels.

    These documents go through EVERY operation of every property that calls docs().  The sizes beyond them -- strings and keys of
    255 .. 65536 bytes, containers of 255 .. 1000 members -- are in sizes.py (big_corpus() below): the list-based model is quadratic
    to cubic there, so each property picks its own (document, operation) pairs from that corpus and a model budget per case."""
    N = ('n',)
    out = []
    key = lambda i: ('k%03d' % i).encode()
    for w in (17, 33, 64, 130, 300):
        nums = [('u', i) for i in range(w)]
        out.append(('a', nums + [('u', 0), ('u', w // 2), ('u', w - 1)]))                       # late repeats of early elements
        out.append(('a', [('s', key(i % 20)) for i in range(w)]))                               # many repeats
        out.append(('a', [('a', []) if i % 3 == 0 else ('o', []) if i % 3 == 1 else ('u', i) for i in range(w)]))
        out.append(('o', [(key(i), ('u', i) if i % 4 else ('a', [N, ('o', [])])) for i in range(w)]))
        out.append(('a', [('o', [(b'id', ('u', i)), (b'tags', ('a', [] if i % 2 == 0 else [('s', b'x')]))]) for i in range(w // 4 + 1)]))
    for d in (17, 33, 64, 129, 130, 200):
        a, o, m = ('u', 7), ('s', b'leaf'), ('a', [])
        for i in range(d):
            a = ('a', [a])
            o = ('o', [(b'k', o)])
            m = ('a', [m, ('o', [])]) if i % 2 else ('o', [(b'x', m)])
        out += [a, o, m]
    return out


def big_corpus():
    """(label, value) pairs of sizes.py: strings / keys of 255, 256, 257, 4096, 65535, 65536 bytes (array element, object value,
    first / last key, top-level scalar, multi-byte text crossing 256) and containers of 255, 256, 257, 1000 members"""
    from . import sizes
    return sizes.string_docs() + sizes.container_docs()


def keys_of(v):
    ks = []
    for x in gen.subvalues(v):
        if x[0] == 'o':
            ks += [k for k, _ in x[1]]
    return ks


def key_variants(ctx, v):
    """keys of the document, their case variants, proper prefixes, the empty key, a multi-byte key, a miss"""
    r = ctx.rng
    out = [b'', b'nokey', 'é'.encode()]
    top = [k for k, _ in v[1]] if v[0] == 'o' else []
    for k in top + keys_of(v)[:6]:
        out.append(k)
        try:
            s = k.decode()
            out.append(s.upper().encode())
            out.append(s.lower().encode())
            out.append(s.swapcase().encode())
            if len(s) > 1:
                out.append(s[:-1].encode())
            out.append((s + 'x').encode())
        except UnicodeDecodeError:
            pass
    # strings of an array are candidates for delete_by_name / exists
    if v[0] == 'a':
        out += [x[1] for x in v[1] if x[0] == 's'][:4]
    seen, res = set(), []
    for k in out:
        if k not in seen:
            seen.add(k)
            res.append(k)
    return res


def keypath_text(kp):
    if not kp:
        return '_'
    out = []
    for k in kp:
        if k[0] == 'i':
            out.append('i%d' % k[1])
        else:
            out.append(k[0] + k[1].hex())
    return ','.join(out)


def keypaths_for(ctx, v, n=6):
    """key paths built from the document's own structure (hits) and perturbed (misses), lengths 0..depth+1"""
    r = ctx.rng
    out = [[]]
    for _ in range(n):
        kp = []
        cur = v
        while True:
            if cur[0] == 'a':
                ln = len(cur[1])
                c = r.random()
                if ln and c < 0.6:
                    i = r.randrange(ln)
                    kp.append(('i', i if r.random() < 0.6 else i - ln))
                    cur = cur[1][i]
                else:
                    kp.append(('i', r.choice([ln, ln + 1, -ln - 1, -ln - 2, 0, -1, 2147483647, -2147483647])))
                    break
            elif cur[0] == 'o':
                if cur[1] and r.random() < 0.7:
                    k, x = r.choice(cur[1])
                    kp.append((r.choice('nq'), k))
                    cur = x
                else:
                    kp.append((r.choice('nq'), r.choice([b'', b'zz', b'a'])))
                    break
            else:
                if r.random() < 0.5:
                    kp.append(r.choice([('i', 0), ('n', b'a')]))   # one step past a scalar
                break
            if r.random() < 0.25:
                break
        out.append(kp)
    # wrong kind of step at the top
    out.append([('n', b'a')] if v[0] == 'a' else [('i', 0)])
    return out


# ------------------------------------------------------------------ JSONPath ASTs (python tuples) and their neutral text
def ix_text(ix):
    return ('x%d' % ix[1]) if ix[0] == 'x' else ('l%d' % ix[1])


def path_text(ps):
    return ';'.join(step_text(p) for p in ps)


def step_text(p):
    k = p[0]
    if k in 'RCWB':
        return k
    if k in 'DKO':
        return k + p[1].hex()
    if k == 'I':
        return 'I(' + ','.join(('S%s~%s' % (ix_text(a[1]), ix_text(a[2]))) if a[0] == 'S' else ix_text(a[1]) for a in p[1]) + ')'
    if k in 'FP':
        return k + expr_text(p[1])
    raise ValueError(p)


def expr_text(e):
    k = e[0]
    if k == 'p':
        return 'p(' + path_text(e[1]) + ')'
    if k == 'e':
        return 'e(' + path_text(e[1]) + ')'
    if k == 'v':
        v = e[1]
        if v[0] == 'n':
            return 'vn'
        if v[0] == 'b':
            return 'vt' if v[1] else 'vf'
        if v[0] == 's':
            return 'vs' + v[1].hex()
        return 'v' + gen.vtext(v)
    if k == 'b':
        return 'b%s(%s|%s)' % (e[1], expr_text(e[2]), expr_text(e[3]))
    if k == 'Ab':
        return 'Ab%s(%s|%s)' % (e[1], expr_text(e[2]), expr_text(e[3]))
    if k == 'Au':
        return 'Au%s(%s)' % (e[1], expr_text(e[2]))
    raise ValueError(e)


def gen_index(ctx, ln):
    r = ctx.rng
    c = r.random()
    if c < 0.5:
        return ('x', r.choice([0, 1, 2, ln - 1, ln, ln + 1, -1, 3]))
    return ('l', r.choice([0, -1, -2, 1, -ln, -ln - 1, 2, -3]))


def gen_steps(ctx, v, root, maxlen=4, allow_filter=True, depth=2, plain_names=False):
    """inner steps derived from v so that they hit, with occasional misses; returns list of steps"""
    r = ctx.rng
    steps = []
    cur = v
    for _ in range(r.randrange(0, maxlen + 1)):
        c = r.random()
        if cur is None:
            cur = ('n',)
        if cur[0] == 'o' and c < 0.55 and cur[1]:
            k, x = r.choice(cur[1])
            if r.random() < 0.1:
                k = b'miss'
                x = None
            steps.append((r.choice('DKO'), k))
            cur = x
        elif cur[0] == 'o' and c < 0.7:
            steps.append(('W',))
            cur = r.choice(cur[1])[1] if cur[1] else None
        elif cur[0] == 'a' and c < 0.4:
            steps.append(('B',))
            cur = r.choice(cur[1]) if cur[1] else None
        elif cur[0] == 'a' and c < 0.75:
            ln = len(cur[1])
            ixs = []
            for _ in range(r.choice([1, 1, 2, 3])):
                if r.random() < 0.3:
                    ixs.append(('S', gen_index(ctx, ln), gen_index(ctx, ln)))
                else:
                    ixs.append(('X', gen_index(ctx, ln)))
            steps.append(('I', ixs))
            cur = r.choice(cur[1]) if cur[1] else None
        elif c < 0.85:
            steps.append(r.choice([('B',), ('W',), ('D', b'a'), ('I', [('X', ('x', 0))])]))
            if steps[-1][0] != 'B':
                cur = None
        elif allow_filter and depth > 0:
            steps.append(('F', gen_expr(ctx, cur, root, depth - 1)))
        else:
            steps.append(('B',))
    return steps


def scalars_in(v):
    return [x for x in gen.subvalues(v) if x[0] in 'nbsiud'] if v else []


def gen_literal(ctx, near):
    r = ctx.rng
    sc = scalars_in(near)
    if sc and r.random() < 0.7:
        x = r.choice(sc)
        if x[0] in 'iu' and r.random() < 0.3:
            x = ('i', max(gen.I64_MIN, min(gen.I64_MAX, x[1] + r.choice([-1, 1]))))
        if x[0] == 'd' and (gen.f_is_nan(x[1]) or gen.f_is_inf(x[1])):
            x = ('u', 1)
        return ('v', x)
    return ('v', r.choice([('n',), ('b', True), ('b', False), ('u', 1), ('u', 2), ('i', -1), ('s', b'a'), ('s', b''),
                           ('d', gen.float_to_bits(1.5)), ('u', 100)]))


def gen_operand(ctx, cur, root):
    r = ctx.rng
    c = r.random()
    if c < 0.45:
        return ('p', [('C',)] + gen_steps(ctx, cur, root, maxlen=2, allow_filter=False))
    if c < 0.6:
        return ('p', [('R',)] + gen_steps(ctx, root, root, maxlen=2, allow_filter=False))
    return gen_literal(ctx, cur if cur else root)


def gen_expr(ctx, cur, root, depth=1):
    r = ctx.rng
    c = r.random()
    if depth > 0 and c < 0.25:
        return ('b', r.choice(['and', 'or']), gen_expr(ctx, cur, root, depth - 1), gen_expr(ctx, cur, root, depth - 1))
    if c < 0.4:
        return ('e', [r.choice([('C',), ('R',)])] + gen_steps(ctx, cur, root, maxlen=2, allow_filter=depth > 0, depth=depth))
    return ('b', r.choice(['eq', 'ne', 'lt', 'le', 'gt', 'ge']), gen_operand(ctx, cur, root), gen_operand(ctx, cur, root))


def gen_path(ctx, v):
    """a complete path for document v: ($ steps) or a stand-alone predicate"""
    r = ctx.rng
    if r.random() < 0.12:
        # predicate: operands may only start from the root
        def root_only(e):
            if e[0] == 'p':
                return ('p', [('R',)] + e[1][1:])
            if e[0] == 'b':
                return ('b', e[1], root_only(e[2]), root_only(e[3]))
            if e[0] == 'e':
                return ('e', [('R',)] + e[1][1:])
            return e
        return [('P', root_only(gen_expr(ctx, v, v, 1)))]
    return [('R',)] + gen_steps(ctx, v, v)


def escape_forms(ctx, n):
    """names with backslash escapes for the hand-written scanners (check_escaped): plain and quoted, 4-digit and
    braced unicode forms, simple escapes, cut short at every length"""
    r = ctx.rng
    out = surrogate_forms()
    hexd = '0123456789abcdefABCDEF'
    for _ in range(n):
        parts = []
        for _ in range(r.choice([1, 1, 2, 3])):
            c = r.random()
            if c < 0.3:
                parts.append('\\u' + ''.join(r.choice(hexd) for _ in range(r.choice([4, 4, 4, 3, 2, 5]))))
            elif c < 0.5:
                parts.append('\\u{' + ''.join(r.choice(hexd) for _ in range(r.choice([4, 4, 2, 5, 6]))) + r.choice(['}', '}', '']))
            elif c < 0.65:
                parts.append('\\' + r.choice('ntrbf/\\"ux0'))
            else:
                parts.append(r.choice(['a', 'b', 'xy', 'k1', '\u00e9', '_']))
        out.append(''.join(parts))
    return out


def scalar_roots():
    """one document of every scalar kind (documents whose root is not a container)"""
    return [('u', 5), ('u', 0), ('i', -1), ('u', 2), ('s', b'a'), ('s', b''), ('b', True), ('b', False), ('n',), ('d', gen.float_to_bits(1.5))]


def surrogate_forms():
    """surrogate pairs whose halves are spelled in the same or in different forms (4 digits / braced, either case), alone and
    followed by more text; lone halves; halves in the wrong order"""
    hi, lo = ['\\uD83D', '\\u{D83D}', '\\ud83d'], ['\\uDE00', '\\u{DE00}', '\\ude00']
    # every plane: the first and last high surrogate, the first one whose offset needs more than 16 bits after the shift (D840),
    # first / last low surrogate
    planes = [h + l for h in ('\\uD800', '\\uD83F', '\\uD840', '\\uD869', '\\uDBFF', '\\u{D840}', '\\u{DBFF}') for l in ('\\uDC00', '\\uDED6', '\\uDFFF', '\\u{DFFF}')]
    return planes + ['a' + x + 'b' for x in planes[8:12]] + [h + l + tail for h in hi for l in lo for tail in ('', 'a', '\\u0041')] + hi + lo + [l + h for h in hi[:2] for l in lo[:2]] + \
           ['x' + h + l for h in hi[:2] for l in lo[:2]] + [h + 'x' + l for h in hi[:2] for l in lo[:2]]
