"""C06 — editing functions produce exactly the document the edit denotes."""
from .. import gen
from . import common, treeoracle, sizes

SPEC_THEOREM = 'Props/C06: editor_m (enc inputs) = enc (editor_t inputs); editors preserve well-formedness; the byte editors as state functions over the caller buffer: f_st (enc v) args buf = (buf ++ enc result, Ok) or (buf, Err documented) (C06_errors_leave_the_buffer_unchanged), and on any input an error return leaves the buffer as it was (C06_errors_leave_the_buffer_unchanged_on_any_input)'
TRUSTED = ['Coq 8.16.1 kernel', 'translator', 'extraction + OCaml driver', 'Rust harness',
           'specification TreeOps.v (tree edits); every editor and builder is an offset-faithful byte walker (EditWalk.v, EditWalk2.v over Iter.v + Builder.v) with a refinement proof (C06_*_bytes) and tied to the Rust function by correspondence incl. corrupt buffers']
ASSUMPTIONS = ['inputs are canonical encodings of well-formed values']
RULE = 'all editors x positions -len-2..len+2 and i32 extremes, key sets (subset/superset/disjoint/empty), key paths into and past scalars, nulls at every depth, empty and singleton containers, container-into-container insertion, interleaved-key merges, wide containers (12..100 members, shared / overlapping / disjoint key sets); non-trivial = result differs from the input and is not an error'


def py_concat(a, b):
    if a[0] == 'o' and b[0] == 'o':
        d = dict(a[1])
        d.update(dict(b[1]))
        return ('o', sorted(d.items()))
    if a[0] == 'a' and b[0] == 'a':
        return ('a', a[1] + b[1])
    if b[0] == 'a':
        return ('a', [a] + b[1])
    if a[0] == 'a':
        return ('a', a[1] + [b])
    return ('a', [a, b])


def py_strip(v):
    if v[0] == 'a':
        return ('a', [py_strip(x) for x in v[1]])
    if v[0] == 'o':
        return ('o', [(k, py_strip(x)) for k, x in v[1] if x[0] != 'n'])
    return v


def wide_stream(ctx):
    """containers wider than the random trees get (sorting / hashing / small-vector code has size thresholds, e.g. 20
    for slice::sort_unstable): objects sharing all, some or none of their keys, and long arrays, through every editor"""
    r = ctx.rng
    key = lambda i: ('k%03d' % i).encode()
    def obj(idx, tag):
        return ('o', sorted((key(i), ('s', ('%s%d' % (tag, i)).encode()) if i % 3 else ('u', i * 7 + len(tag))) for i in idx))
    for w in (12, 20, 21, 22, 24, 33, 48, 64, 100):
        left = obj(range(w), 'L')
        rights = [obj(range(w), 'R'), obj(range(w // 2, w + w // 2), 'R'), obj(range(1, 2 * w, 2), 'R'), obj(range(w, 2 * w), 'R'),
                  obj(list(range(w))[::-1][:w // 2], 'R')]
        le = gen.hexarg(gen.enc(left))
        for rt in rights:
            re_ = gen.hexarg(gen.enc(rt))
            ctx.add('concat %s %s' % (le, re_), meta=('concat', left, rt))
            ctx.add('concat %s %s' % (re_, le), meta=('concat', rt, left))
        ks = [key(i) for i in range(0, 2 * w, 3)]
        ctx.add('object_delete %s %s' % (le, gen.hexlist(ks)), meta=('odel', left, set(ks)))
        ctx.add('object_pick %s %s' % (le, gen.hexlist(ks)), meta=('opick', left, set(ks)))
        for k in (key(0), key(w // 2), key(w - 1), key(w), b'a', b'z'):
            ctx.add('delete_by_name %s %s' % (le, gen.hexarg(k)), meta=('dbn', left, k))
            for upd in (0, 1):
                ctx.add('object_insert %s %s %s %d' % (le, gen.hexarg(k), gen.hexarg(gen.enc(('u', 1))), upd), meta=('oins', left, k, ('u', 1), upd))
        ctx.add('strip_nulls %s' % gen.hexarg(gen.enc(('o', [(key(i), ('n',) if i % 2 else ('a', [('n',), ('o', [(b'x', ('n',))])])) for i in range(w)]))))
        arr = ('a', [('u', i) if i % 2 else ('s', key(i)) for i in range(w)])
        ae = gen.hexarg(gen.enc(arr))
        ctx.add('concat %s %s' % (ae, ae), meta=('concat', arr, arr))
        ctx.add('concat %s %s' % (ae, le), meta=('concat', arr, left))
        for i in (0, 1, w // 2, w - 1, w, -1, -w, -w - 1):
            ctx.add('delete_by_index %s %d' % (ae, i), meta=('dbi', arr, i))
            ctx.add('array_insert %s %d %s' % (ae, i, le), meta=('ains', arr, i, left))
        ctx.add('build_array %s' % gen.hexlist([gen.enc(x) for x in arr[1]]))
        ctx.add('build_object %s %s' % (gen.hexlist([k for k, _ in left[1]][::-1]), gen.hexlist([gen.enc(x) for _, x in left[1]])))


def big_stream(ctx):
    """every editor at the first / middle / last position of containers of 255 .. 1000 members, and with strings / keys of
    255 .. 65536 bytes as the thing edited, inserted or stepped over (sizes.py; second review H2).  Every case carries the meta
    of an independent tree oracle.  The 1000-member object costs the model 4 .. 8 s per edit: it gets one case per editor."""
    small = ('o', [(b'new', ('s', b'v'))])
    se = gen.hexarg(gen.enc(small))
    for lab, v in sizes.string_docs() + sizes.container_docs():
        e = gen.hexarg(gen.enc(v))
        n = len(v[1]) if v[0] in 'ao' else 0
        costly = lab.startswith('obj1000')
        ctx.add('concat %s %s' % (e, se), meta=('concat', v, small))
        ctx.add('concat %s %s' % (se, e), meta=('concat', small, v))
        ctx.add('strip_nulls %s' % e, meta=('strip', v))
        if v[0] == 'a':
            for i in sizes.positions(n):
                ctx.add('delete_by_index %s %d' % (e, i), meta=('dbi', v, i))
                ctx.add('array_insert %s %d %s' % (e, i, se), meta=('ains', v, i, small))
                ctx.add('delete_by_keypath %s i%d' % (e, i), meta=('dkp', v, [('i', i)]))
            strs = [x[1] for x in v[1] if x[0] == 's']
            for k in ([strs[0], strs[-1], strs[-1] + b'x'] if strs else [b'nokey']):
                ctx.add('delete_by_name %s %s' % (e, gen.hexarg(k)), meta=('dbn', v, k))
            if n <= 300:
                ctx.add('concat %s %s' % (e, e), meta=('concat', v, v))
                ctx.add('build_array %s' % gen.hexlist([gen.enc(x) for x in v[1]]), meta=('barr', v[1]))
            for i, x in sizes.first_mid_last(v):
                if x[0] == 'o' and x[1]:
                    ctx.add('delete_by_keypath %s i%d,n%s' % (e, i, x[1][0][0].hex()), meta=('dkp', v, [('i', i), ('n', x[1][0][0])]))
        elif v[0] == 'o':
            fml = sizes.first_mid_last(v)
            for j, (i, (k, x)) in enumerate(fml if not costly else fml[-1:]):
                ctx.add('delete_by_name %s %s' % (e, gen.hexarg(k)), meta=('dbn', v, k))
                ctx.add('delete_by_keypath %s n%s' % (e, k.hex()), meta=('dkp', v, [('n', k)]))
                if not costly:
                    ctx.add('delete_by_name %s %s' % (e, gen.hexarg(k + b'x')), meta=('dbn', v, k + b'x'))
                for upd in ((0, 1) if not costly else (1,)):
                    ctx.add('object_insert %s %s %s %d' % (e, gen.hexarg(k), se, upd), meta=('oins', v, k, small, upd))
                    if not costly or j == 0:
                        ctx.add('object_insert %s %s %s %d' % (e, gen.hexarg(k + b'~'), se, upd), meta=('oins', v, k + b'~', small, upd))
            ks = set(k for _, (k, _) in fml) | set([b'nokey'])
            ctx.add('object_delete %s %s' % (e, gen.hexlist(sorted(ks))), meta=('odel', v, ks))
            ctx.add('object_pick %s %s' % (e, gen.hexlist(sorted(ks))), meta=('opick', v, ks))
            if not costly:
                ctx.add('object_insert %s 21 %s 0' % (e, se), meta=('oins', v, b'!', small, 0))          # before every key
                ctx.add('concat %s %s' % (e, gen.hexarg(gen.enc(('o', [(fml[-1][1][0], ('u', 7)), (b'~~', ('n',))])))),
                        meta=('concat', v, ('o', [(fml[-1][1][0], ('u', 7)), (b'~~', ('n',))])))
            if n <= 300:
                keys = [k for k, _ in v[1]]
                ctx.add('build_object %s %s' % (gen.hexlist(keys[::-1]), gen.hexlist([gen.enc(x) for _, x in v[1]][::-1])), meta=('bobj', keys[::-1], [x for _, x in v[1]][::-1]))
        # the big document as the thing inserted
        if lab.startswith(('str', 'key', 'mb')):
            host = ('o', [(b'a', ('u', 1)), (b'm', ('n',)), (b'z', ('u', 2))])
            he = gen.hexarg(gen.enc(host))
            ctx.add('object_insert %s 6d %s 1' % (he, e), meta=('oins', host, b'm', v, 1))
            ctx.add('object_insert %s 6e %s 0' % (he, e), meta=('oins', host, b'n', v, 0))
            arr = ('a', [('u', 1), ('s', b'x')])
            ctx.add('array_insert %s 1 %s' % (gen.hexarg(gen.enc(arr)), e), meta=('ains', arr, 1, v))
            ctx.add('build_array %s' % gen.hexlist([gen.enc(arr), gen.enc(v), gen.enc(host)]), meta=('barr', [arr, v, host]))
            if v[0] == 's' and len(v[1]) < 5000:
                ctx.add('build_object %s %s' % (gen.hexlist([b'k', v[1]]), gen.hexlist([gen.enc(v), gen.enc(arr)])), meta=('bobj', [b'k', v[1]], [v, arr]))
        ctx.count('big_documents', lab.split('-')[0].rstrip('0123456789'))


def text_forms(ctx, v, w, p):
    """concat with one or both documents given as JSON TEXT (the crate then works on parsed trees: a separate implementation of
    the same edit): the expected result is the concatenation of the trees the arguments denote"""
    r = ctx.rng
    if not (gen.is_finite(v) and gen.is_finite(w)) or r.random() >= p:
        return
    tv, tw = gen.json_text(v, r), gen.json_text(w, r)
    if tv[:1] == b' ' or tw[:1] == b' ':
        return
    fv, fw = gen.text_form(v), gen.text_form(w)
    e, we = gen.hexarg(gen.enc(v)), gen.hexarg(gen.enc(w))
    ctx.add('concat %s %s' % (gen.hexarg(tv), gen.hexarg(tw)), meta=('concat', fv, fw))
    ctx.add('concat %s %s' % (e, gen.hexarg(tw)), meta=('concat', v, fw))
    ctx.add('concat %s %s' % (gen.hexarg(tv), we), meta=('concat', fv, w))
    ctx.count('concat_with_a_json_text_argument')
    # the other two binary editors in the mixed forms (one document text, the other JSONB), against the tree oracle
    pos = r.randrange(-3, 4)
    for x, y, mx, my in ((gen.hexarg(tv), we, fv, w), (e, gen.hexarg(tw), v, fw), (gen.hexarg(tv), gen.hexarg(tw), fv, fw)):
        ctx.add('array_insert %s %d %s' % (x, pos, y), meta=('ains', mx, pos, my))
        if mx[0] == 'o':
            k = r.choice([kk for kk, _ in mx[1]] + [b'new']) if mx[1] else b'new'
            for upd in (0, 1):
                ctx.add('object_insert %s %s %s %d' % (x, gen.hexarg(k), y, upd), meta=('oins', mx, k, my, upd))


def text_stream(ctx):
    """deterministic: object pairs of different sizes with shared keys (first / middle / last, one / all), both orders, every
    text / JSONB combination -- a seeded `merge the smaller map into the larger` in the tree branch let the LEFT value win when
    the left object is the smaller one; arrays and scalars against them for the wrapping arms"""
    u = lambda n: ('u', n)
    small = [('o', [(b'b', u(1))]), ('o', [(b'a', u(1)), (b'z', ('s', b'l'))]), ('o', [(b'', ('n',))]), ('o', [])]
    large = [('o', [(b'a', u(10)), (b'b', u(20)), (b'c', u(30))]), ('o', [(b'', u(5)), (b'a', ('a', [u(1)])), (b'b', ('o', [])), (b'y', u(8)), (b'z', u(9))]),
             ('o', [(('k%02d' % i).encode(), u(i)) for i in range(12)] + [(b'z', u(99))])]
    other = [('a', [u(1), ('o', [(b'b', u(2))])]), ('a', []), u(7), ('s', b'x'), ('n',)]
    # strip_nulls on a DEEP document given as text (null-valued members at every level, 100 .. 260 levels): the tree walk of the
    # text branch must strip at every depth, as the byte walker does
    for d in (100, 127, 128, 129, 130, 200, 260):
        v = ('o', [(b'n', ('n',)), (b'v', u(1))])
        for i in range(d):
            v = ('o', [(b'k', v), (b'n', ('n',))]) if i % 2 else ('a', [v, ('n',)])
        ctx.add('strip_nulls %s' % gen.hexarg(gen.json_text(v)), meta=('strip', v))
        ctx.add('strip_nulls %s' % gen.hexarg(gen.enc(v)), meta=('strip', v))
    for a in small + large:
        for b in small + large + other:
            for x, y in ((a, b), (b, a)):
                text_forms(ctx, x, y, 2.0)


def generate(ctx):
    r = ctx.rng
    ds = common.docs(ctx, ctx.scale(300, 10000), finite=False)
    ctx.ds = ds
    wide_stream(ctx)
    big_stream(ctx)
    text_stream(ctx)
    for v in ds:
        e = gen.hexarg(gen.enc(v))
        w = r.choice(ds)
        we = gen.hexarg(gen.enc(w))
        ctx.add('concat %s %s' % (e, we), meta=('concat', v, w))
        text_forms(ctx, v, w, 0.25)
        ctx.add('strip_nulls %s' % e, meta=('strip', v))
        ln = len(v[1]) if v[0] == 'a' else 1
        if ln <= 40:
            idxs = list(range(-ln - 2, ln + 3))
        else:
            # a wide array: every position costs the model ~0.4 s; the boundary positions from both ends and a sample
            idxs = sorted(set(sizes.positions(ln) + [-ln - 2, -ln + 1, -2, ln + 1, ln + 2] + r.sample(range(-ln, ln), 12)))
        idxs += [2147483647, -2147483647, -2147483648] if r.random() < 0.3 else []
        for i in idxs:
            ctx.add('delete_by_index %s %d' % (e, i), meta=('dbi', v, i))
            if r.random() < 0.6:
                ctx.add('array_insert %s %d %s' % (e, i, we), meta=('ains', v, i, w))
        ks = common.key_variants(ctx, v)
        for k in ks[:6]:
            ctx.add('delete_by_name %s %s' % (e, gen.hexarg(k)), meta=('dbn', v, k))
            for upd in (0, 1):
                ctx.add('object_insert %s %s %s %d' % (e, gen.hexarg(k), we, upd), meta=('oins', v, k, w, upd))
        for _ in range(3):
            sub = r.sample(ks, min(len(ks), r.choice([0, 1, 2, 4])))
            ctx.add('object_delete %s %s' % (e, gen.hexlist(sub)), meta=('odel', v, set(sub)))
            ctx.add('object_pick %s %s' % (e, gen.hexlist(sub)), meta=('opick', v, set(sub)))
        for kp in common.keypaths_for(ctx, v, n=5):
            ctx.add('delete_by_keypath %s %s' % (e, common.keypath_text(kp)), meta=('dkp', v, kp))
        if r.random() < 0.5:
            items = [r.choice(ds) for _ in range(r.choice([0, 1, 2, 3, 5]))]
            ctx.add('build_array %s' % gen.hexlist([gen.enc(x) for x in items]), meta=('barr', items))
            keys = [ctx.g.key() for _ in items]
            if r.random() < 0.3 and keys:
                keys[-1] = keys[0]               # duplicate key: the last one wins
            ctx.add('build_object %s %s' % (gen.hexlist(keys), gen.hexlist([gen.enc(x) for x in items])), meta=('bobj', keys, items))
    generate_malformed(ctx)
    # documented error cases with a non-empty buffer: nothing may be appended
    pre = 'aabbcc'
    for v in ds[:60]:
        e = gen.hexarg(gen.enc(v))
        ctx.add('delete_by_index@%s %s 0' % (pre, e), meta=('err', v))
        ctx.add('delete_by_name@%s %s 61' % (pre, e), meta=('err', v))
        ctx.add('object_insert@%s %s 61 2000000000000000 0' % (pre, e), meta=('err', v))
        ctx.add('object_delete@%s %s 61' % (pre, e), meta=('err', v))
        ctx.add('object_pick@%s %s 61' % (pre, e), meta=('err', v))
        ctx.add('delete_by_keypath@%s %s i0' % (pre, e), meta=('err', v))
    edit2_malformed(ctx)          # edit2 block below


# ---- BEGIN edit2 (EditWalk2.v: object_insert / object_delete / object_pick / strip_nulls / delete_by_keypath) ----
# The byte walkers on buffers that are NOT valid encodings (prefixes, one byte changed).  C06 says nothing about them;
# the stream ties the offset-faithful models of EditWalk2.v (reads, slices, early returns, Err vs panic) to the code.
# The code allocates `ArrayBuilder::new(count)` / `VecDeque::with_capacity(count)` with counts read from the buffer, so
# a mutation never produces a large count on purpose: bytes are changed to 0..3 or to a tag byte only, and byte 1 of
# the document header is left alone (no `abort:` outcome was ever observed with these mutations).
EDIT2_TAG_BYTES = [0x80, 0x40, 0x20, 0x60, 0x00, 0x10, 0x30, 0x50]


def edit2_mutations(r, e):
    muts = [e[:i] for i in range(len(e))] if len(e) <= 48 else [e[:r.randrange(len(e))] for _ in range(14)]
    for _ in range(16):
        i = r.randrange(len(e))
        if i == 1:
            continue
        nb = r.choice([0, 1, 2, 3, e[i] ^ 1 if e[i] < 4 else 0] + EDIT2_TAG_BYTES) if i != 0 else r.choice([0x80, 0x40, 0x20, 0x00, 0x60])
        if nb != e[i]:
            muts.append(e[:i] + bytes([nb]) + e[i + 1:])
    return muts


def edit2_malformed(ctx):
    r = ctx.rng
    small = [v for v in ctx.ds if len(gen.enc(v)) <= 140]
    for v in r.sample(small, min(len(small), ctx.scale(140, 3000))):
        e = gen.enc(v)
        ks = common.key_variants(ctx, v)
        kps = common.keypaths_for(ctx, v, n=3)
        w = r.choice(small)
        we = gen.hexarg(gen.enc(w))
        for m in edit2_mutations(r, e):
            h = gen.hexarg(m)
            pre = r.choice(['', '', '', '@c0ffee'])            # a non-empty caller buffer now and then
            ctx.add('strip_nulls%s %s' % (pre, h), kind='malformed')
            ctx.add('delete_by_keypath%s %s %s' % (pre, h, common.keypath_text(r.choice(kps))), kind='malformed')
            sub = r.sample(ks, min(len(ks), r.choice([0, 1, 2])))
            ctx.add('%s %s %s' % (r.choice(['object_delete', 'object_pick']), h, gen.hexlist(sub)), kind='malformed')
            k = r.choice(ks)
            if r.random() < 0.7:
                ctx.add('object_insert %s %s %s %d' % (h, gen.hexarg(k), we, r.randrange(2)), kind='malformed')
            else:
                ctx.add('object_insert %s %s %s %d' % (we, gen.hexarg(k), h, r.randrange(2)), kind='malformed')

    # objects whose key run is not strictly sorted (duplicates, descending): the builders are ordered maps, the walkers
    # find positions by comparing keys, and delete_by_keypath shares one key-path queue between all levels
    N, one, two = ('n',), ('u', 1), ('u', 2)
    inner = ('o', [(b'x', one), (b'y', N)])
    arr = ('a', [one, inner, N])
    odd = [('o', [(b'a', one), (b'a', two)]), ('o', [(b'b', one), (b'a', two)]), ('o', [(b'a', inner), (b'a', arr)]),
           ('o', [(b'a', arr), (b'a', inner), (b'b', N)]), ('o', [(b'c', N), (b'a', arr), (b'b', inner), (b'a', N)]),
           ('a', [('o', [(b'k', inner), (b'k', arr)]), N]), ('o', [(b'k', ('o', [(b'x', arr), (b'x', inner)])), (b'k', one)]),
           ('o', [(b'b', N), (b'b', N), (b'a', N)]), ('o', [(b'a', ('a', [inner, inner])), (b'a', ('a', [arr, one]))])]
    okeys = [b'', b'a', b'aa', b'b', b'c', b'k', b'x', b'0']
    okps = [[('n', b'a')], [('n', b'a'), ('i', 0)], [('n', b'a'), ('i', 1), ('n', b'x')], [('n', b'a'), ('n', b'x')], [('n', b'k'), ('n', b'x')],
            [('n', b'k'), ('n', b'x'), ('i', -2), ('n', b'y')], [('i', 0), ('n', b'k'), ('n', b'y')], [('i', 0), ('n', b'k'), ('i', 1)],
            [('n', b'a'), ('i', -1)], [('n', b'a'), ('i', 0), ('n', b'x')], [('n', b'b')], [('n', b'a'), ('i', 1), ('i', 1), ('n', b'y')]]
    for v in odd:
        h = gen.hexarg(gen.enc(v))
        ctx.add('strip_nulls %s' % h, kind='malformed')
        for kp in okps:
            ctx.add('delete_by_keypath %s %s' % (h, common.keypath_text(kp)), kind='malformed')
        for k in okeys:
            for upd in (0, 1):
                ctx.add('object_insert %s %s %s %d' % (h, gen.hexarg(k), gen.hexarg(gen.enc(one)), upd), kind='malformed')
            ctx.add('object_delete %s %s' % (h, gen.hexlist([k])), kind='malformed')
            ctx.add('object_pick %s %s' % (h, gen.hexlist([k, b'b'])), kind='malformed')
# ---- END edit2 ----


def safe_mutations(r, e):
    """prefixes and one-byte mutations of an encoding that keep the top-level count small: the editors call
    ArrayBuilder::new(count) / VecDeque::with_capacity(count) with the count field of the header, so a count near 2^29
    makes the process allocate gigabytes or abort (no panic, no error: the harness process dies).  Byte 0 only takes
    values with the low five bits clear (type bits only), byte 1 (count bits 16..23) is never touched."""
    muts = [e[:i] for i in range(len(e))] if len(e) <= 40 else [e[:r.randrange(len(e))] for _ in range(12)]
    for _ in range(14):
        i = r.randrange(len(e))
        if i == 1:
            continue
        if i == 0:
            b = r.choice([0x80, 0x40, 0x20, 0x00, 0x60, 0xa0, 0xc0, 0xe0])
        else:
            b = r.choice([0, 1, 4, 0x10, 0x20, 0x40, 0x50, 0x7f, 0x80, 0xff, e[i] ^ 1, e[i] ^ 0x10, (e[i] + 1) & 0xff])
        muts.append(e[:i] + bytes([b]) + e[i + 1:])
    return muts


_CTX = [None]


def generate_malformed(ctx):
    # the byte editors on buffers that are NOT valid encodings: C06 says nothing about them, but the offset-faithful
    # models (EditWalk.v) do, including where an index expression panics and what an error return leaves in the buffer;
    # this stream only feeds the correspondence tie (the C06_*_bytes theorems are about the model the tie checks)
    r = ctx.rng
    _CTX[0] = ctx
    small = [v for v in ctx.ds if len(gen.enc(v)) <= 120]
    for v in r.sample(small, min(len(small), ctx.scale(120, 3000))):
        e = gen.enc(v)
        w = r.choice(small)
        we = gen.hexarg(gen.enc(w))
        ks = common.key_variants(ctx, v)
        for m in safe_mutations(r, e):
            h = gen.hexarg(m)
            pre = '@aabbcc' if r.random() < 0.3 else ''
            i = r.randrange(-3, 4)
            ctx.add('concat%s %s %s' % (pre, h, we), kind='malformed')
            ctx.add('concat%s %s %s' % (pre, we, h), kind='malformed')
            ctx.add('delete_by_name%s %s %s' % (pre, h, gen.hexarg(r.choice(ks))), kind='malformed')
            ctx.add('delete_by_index%s %s %d' % (pre, h, i), kind='malformed')
            ctx.add('array_insert%s %s %d %s' % (pre, h, i, we), kind='malformed')
            ctx.add('array_insert%s %s %d %s' % (pre, we, i, h), kind='malformed')
            if r.random() < 0.5:
                items = [gen.enc(w), m] if r.random() < 0.5 else [m, gen.enc(w), m]
                ctx.add('build_array%s %s' % (pre, gen.hexlist(items)), kind='malformed')
                keys = [ctx.g.key() for _ in items]
                ctx.add('build_object%s %s %s' % (pre, gen.hexlist(keys), gen.hexlist(items)), kind='malformed')


WRITE_AS_THEY_GO = ('build_array', 'build_object')   # an error return of these two leaves the header slot + entries (recorded)


def judge(ctx):
    for c in ctx.cases:
        o = ctx.impl.get(c.id, 'missing')
        # judged on the IMPLEMENTATION's output alone, valid and corrupt inputs alike, whatever the model says: an error
        # return of an editor leaves the caller's buffer (empty, or the @prefix of the case) exactly as it was
        name, _, pre = c.line.split(' ')[0].partition('@')
        if o.startswith('err ') and name not in WRITE_AS_THEY_GO:
            f = o.split(' ')
            left = gen.unhexarg(f[2]) if len(f) > 2 else None
            ctx.count('error_returns_checked_for_buffer', name)
            if left != bytes.fromhex(pre):
                ctx.violate('an error return left bytes appended to (or changed) the buffer', case=c.line, observed=o[:300])
        if c.kind == 'malformed':
            # beyond that, corrupt buffers only feed the model/implementation diff (a process death on one of them is an
            # outcome like any other since every case gets its own outcome: the model has to show the same)
            ctx.count('malformed_outcome', o.split(' ', 1)[0])
            continue
        m = c.meta
        if o == 'panic' or o.startswith('abort:') or o == 'timeout':
            continue          # reported by the generic rule of check.py (a valid input: violation)
        if o.startswith('ok ') and not c.line.split(' ')[0].count('@'):
            try:
                gen.dec(gen.unhexarg(o[3:]))
            except gen.DecodeError as ex:
                ctx.violate('editor output is not a canonical JSONB document', case=c.line, observed=o, why=str(ex))
        if not m:
            continue
        if m[0] == 'concat':
            want = 'ok ' + gen.hexarg(gen.enc(py_concat(m[1], m[2])))
            if o != want:
                ctx.violate('concat is not the concatenation on trees', case=c.line, expected=want, observed=o)
        elif m[0] == 'strip':
            want = 'ok ' + gen.hexarg(gen.enc(py_strip(m[1])))
            if o != want:
                ctx.violate('strip_nulls is not the recursive removal of null-valued object members', case=c.line, expected=want, observed=o)
        elif m[0] == 'dbi':
            v, i = m[1], m[2]
            if v[0] != 'a':
                want = 'err InvalidJsonType -'
            else:
                j = i + len(v[1]) if i < 0 else i
                l = v[1][:j] + v[1][j + 1:] if 0 <= j < len(v[1]) else v[1]
                want = 'ok ' + gen.hexarg(gen.enc(('a', l)))
            if o != want:
                ctx.violate('delete_by_index is not the deletion on the tree', case=c.line, expected=want, observed=o)
        elif m[0] == 'ains':
            v, i, w = m[1], m[2], m[3]
            items = v[1] if v[0] == 'a' else [v]
            j = i + len(items) if i < 0 else i
            j = max(0, min(len(items), j))
            want = 'ok ' + gen.hexarg(gen.enc(('a', items[:j] + [w] + items[j:])))
            if o != want:
                ctx.violate('array_insert is not positional insertion with clamping', case=c.line, expected=want, observed=o)
        elif m[0] == 'barr':
            want = 'ok ' + gen.hexarg(gen.enc(('a', m[1])))
            if o != want:
                ctx.violate('build_array is not the array of its parts', case=c.line, expected=want, observed=o)
        elif m[0] == 'bobj':
            d = {}
            for k, x in zip(m[1], m[2]):
                d[k] = x
            want = 'ok ' + gen.hexarg(gen.enc(('o', sorted(d.items()))))
            if o != want:
                ctx.violate('build_object is not the object of its parts (sorted, last duplicate wins)', case=c.line, expected=want, observed=o)
        elif m[0] in ('dbn', 'oins', 'odel', 'opick', 'dkp'):
            # cheap independent oracles on the tree (treeoracle.py: property text + doc comments, no model)
            want = {'dbn': lambda: treeoracle.delete_by_name(m[1], m[2]), 'oins': lambda: treeoracle.object_insert(m[1], m[2], m[3], m[4]),
                    'odel': lambda: treeoracle.object_delete(m[1], m[2]), 'opick': lambda: treeoracle.object_pick(m[1], m[2]),
                    'dkp': lambda: treeoracle.delete_by_keypath(m[1], m[2])}[m[0]]()
            name = {'dbn': 'delete_by_name', 'oins': 'object_insert', 'odel': 'object_delete', 'opick': 'object_pick', 'dkp': 'delete_by_keypath'}[m[0]]
            if want is None:
                ctx.count('tree_oracle_not_judged', name)
            else:
                ctx.count('tree_oracle_judged', name)
                if not treeoracle.agrees(want, o):
                    ctx.violate('%s is not the edit on the tree (independent oracle)' % name, case=c.line[:600], expected=want[:300], observed=o[:300])
        elif m[0] == 'err':
            if o.startswith('err') and not o.endswith(' aabbcc'):
                ctx.violate('an error return left bytes appended to the buffer', case=c.line, observed=o)
            if o.startswith('ok ') and not o[3:].startswith('aabbcc'):
                ctx.violate('the existing buffer content was not preserved', case=c.line, observed=o)
