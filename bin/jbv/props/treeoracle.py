"""treeoracle.py — cheap INDEPENDENT oracles on the tuple trees of gen.py for answers that were only checked against the model.

Each function is a few lines written from the property text (properties.jsonl) and the doc comment of the public function;
none looks at coq/ or at the Rust source.  A function returns the canonical outcome string the harness must print, or None
when the documentation does not decide the case (the caller counts those; the model diff still covers them)."""
from .. import gen
from .C04 import py_cmp

NOT_JUDGED = None


def ok_doc(v):
    return 'ok ' + gen.hexarg(gen.enc(v))


def opt_doc(v):
    return 'ok =none' if v is None else ok_doc(v)


def normalise(v):
    """the value a decoder gives back: integer zero is the unsigned zero, every NaN the canonical one"""
    k = v[0]
    if k == 'i' and v[1] == 0:
        return ('u', 0)
    if k == 'd' and gen.f_is_nan(v[1]):
        return ('d', 0x7FF8000000000000)
    return v


# ------------------------------------------------------------------------------------------------ C12
def contains(a, b, top=True):
    """PostgreSQL @> as the text of C12 states it"""
    if a[0] == 'o' and b[0] == 'o':
        da = dict(a[1])
        return all(k in da and contains(da[k], x, False) for k, x in b[1])
    if a[0] == 'a' and b[0] == 'a':
        return all(any(contains(y, x, False) for y in a[1] if (y[0] in 'ao') == (x[0] in 'ao')) for x in b[1])
    if a[0] in 'ao' or b[0] in 'ao':
        # a top-level array also contains a bare scalar equal to one of its elements; nothing else mixes kinds
        return top and a[0] == 'a' and b[0] not in 'ao' and any(y[0] not in 'ao' and py_cmp(y, b) == 0 for y in a[1])
    return py_cmp(a, b) == 0


# ------------------------------------------------------------------------------------------------ C05
def get_by_name(v, name, ignore_case):
    """exact match first, otherwise (mode on) the first key in key order that matches ignoring ASCII case"""
    if v[0] != 'o':
        return 'ok =none'
    d = dict(v[1])
    if name in d:
        return ok_doc(d[name])
    if ignore_case:
        for k, x in v[1]:
            if k.lower() == name.lower():          # bytes.lower(): ASCII letters only
                return ok_doc(x)
    return 'ok =none'


def get_by_keypath(v, kp):
    """index steps into arrays (negative counts from the end), name steps into objects; anything that does not resolve: none"""
    if not kp:
        return NOT_JUDGED                           # the empty path: whole document or nothing?  not documented
    cur = v
    for st in kp:
        if st[0] == 'i':
            if cur[0] != 'a':
                return NOT_JUDGED if cur[0] == 'o' else 'ok =none'      # an index step on an object is not documented
            i = st[1] + len(cur[1]) if st[1] < 0 else st[1]
            if not 0 <= i < len(cur[1]):
                return 'ok =none'
            cur = cur[1][i]
        else:
            if cur[0] != 'o':
                return NOT_JUDGED if cur[0] == 'a' else 'ok =none'      # a name step on an array is not documented
            d = dict(cur[1])
            if st[1] not in d:
                return 'ok =none'
            cur = d[st[1]]
    return ok_doc(cur)


TYPE_NAMES = {'n': 'null', 'b': 'boolean', 'i': 'number', 'u': 'number', 'd': 'number', 's': 'string', 'a': 'array', 'o': 'object'}


def num_text(v):
    return gen.vtext(normalise(v))


def scalar_op(op, v):
    """type_of, the is_* / as_* casts, object_keys / object_each / array_values / array_length; the to_* casts only where
    they coincide with as_* (the conversions from strings and booleans are left to the model)"""
    k = v[0]
    B = lambda b: 'ok =true' if b else 'ok =false'
    isnum = k in 'iud'
    if op == 'type_of':
        return 'ok =' + TYPE_NAMES[k]
    if op in ('is_null', 'as_null'):
        return B(k == 'n')
    if op == 'is_boolean':
        return B(k == 'b')
    if op == 'as_bool':
        return B(v[1]) if k == 'b' else 'ok =none'
    if op == 'to_bool':
        if k == 'b':
            return B(v[1])
        if k == 's' and v[1].lower() in (b'true', b'false'):
            return B(v[1].lower() == b'true')
        return NOT_JUDGED
    if op == 'is_number':
        return B(isnum)
    if op == 'as_number':
        return 'ok =' + num_text(v) if isnum else 'ok =none'
    if op in ('is_i64', 'as_i64', 'to_i64', 'is_u64', 'as_u64', 'to_u64'):
        if not isnum:
            return (B(False) if op[:2] == 'is' else 'ok =none') if op[:2] != 'to' else NOT_JUDGED
        if k == 'd':
            return NOT_JUDGED                     # "if possible" for a float is not spelled out
        lo, hi = (gen.I64_MIN, gen.I64_MAX) if op.endswith('i64') else (0, gen.U64_MAX)
        fits = lo <= v[1] <= hi
        if op[:2] == 'is':
            return B(fits)
        if op[:2] == 'to' and not fits:
            return NOT_JUDGED
        return 'ok =%d' % v[1] if fits else 'ok =none'
    if op in ('is_f64', 'as_f64', 'to_f64'):
        if not isnum:
            return (B(False) if op[:2] == 'is' else 'ok =none') if op[:2] != 'to' else NOT_JUDGED
        if k != 'd':
            if op == 'is_f64':
                return NOT_JUDGED                 # is an integer "a f64 number"?  not spelled out
            return 'ok =%016x' % gen.float_to_bits(float(v[1]))          # Python's int -> float is round-to-nearest-even
        return B(True) if op == 'is_f64' else 'ok =%016x' % normalise(v)[1]
    if op == 'is_string':
        return B(k == 's')
    if op == 'as_str':
        return 'ok ' + gen.hexarg(v[1]) if k == 's' else 'ok =none'
    if op == 'to_str':
        return 'ok ' + gen.hexarg(v[1]) if k == 's' else NOT_JUDGED
    if op == 'is_array':
        return B(k == 'a')
    if op == 'is_object':
        return B(k == 'o')
    if op == 'array_length':
        return 'ok =%d' % len(v[1]) if k == 'a' else 'ok =none'
    if op == 'object_keys':
        return ok_doc(('a', [('s', kk) for kk, _ in v[1]])) if k == 'o' else 'ok =none'
    if op == 'object_each':
        return 'ok [%s]' % '|'.join('%s:%s' % (kk.hex(), gen.hexarg(gen.enc(x))) for kk, x in v[1]) if k == 'o' else 'ok =none'
    if op == 'array_values':
        return 'ok [%s]' % '|'.join(gen.hexarg(gen.enc(x)) for x in v[1]) if k == 'a' else 'ok =none'
    return NOT_JUDGED


def exists_keys(v, keys, all_):
    """do all / any of the strings exist as top-level keys (object) or string elements (array)?"""
    if v[0] == 'o':
        have = set(k for k, _ in v[1])
    elif v[0] == 'a':
        have = set(x[1] for x in v[1] if x[0] == 's')
    else:
        return NOT_JUDGED                          # a scalar document: not documented
    hits = [k in have for k in keys]
    return 'ok =true' if (all(hits) if all_ else any(hits)) else 'ok =false'


def traverse_starts_with(v, needle):
    """is there a string in the document -- a string value or a member name, at any depth -- that starts with needle?"""
    for x in gen.subvalues(v):
        if x[0] == 's' and x[1].startswith(needle):
            return 'ok =true'
        if x[0] == 'o' and any(k.startswith(needle) for k, _ in x[1]):
            return 'ok =true'
    return 'ok =false'


# ------------------------------------------------------------------------------------------------ C06
def delete_by_name(v, name):
    if v[0] == 'o':
        return ok_doc(('o', [(k, x) for k, x in v[1] if k != name]))
    if v[0] == 'a':
        return ok_doc(('a', [x for x in v[1] if not (x[0] == 's' and x[1] == name)]))
    return 'err'                                  # a scalar: the documented error (prefix match)


def delete_by_keypath(v, kp):
    """the value at the path removed; a path that does not resolve leaves the document as it is"""
    if v[0] not in 'ao':
        return 'err'
    if not kp:
        return NOT_JUDGED

    def go(cur, kp):
        st = kp[0]
        if st[0] == 'i':
            if cur[0] != 'a':
                raise LookupError('index step on a non-array')
            i = st[1] + len(cur[1]) if st[1] < 0 else st[1]
            if not 0 <= i < len(cur[1]):
                return cur
            if len(kp) == 1:
                return ('a', cur[1][:i] + cur[1][i + 1:])
            if cur[1][i][0] not in 'ao':
                return cur
            return ('a', cur[1][:i] + [go(cur[1][i], kp[1:])] + cur[1][i + 1:])
        if cur[0] != 'o':
            raise LookupError('name step on a non-object')
        if st[1] not in dict(cur[1]):
            return cur
        if len(kp) == 1:
            return ('o', [(k, x) for k, x in cur[1] if k != st[1]])
        return ('o', [(k, (go(x, kp[1:]) if x[0] in 'ao' else x) if k == st[1] else x) for k, x in cur[1]])
    try:
        return ok_doc(go(v, kp))
    except LookupError:
        return NOT_JUDGED                          # a step of the wrong kind for the container it meets: not documented


def object_insert(v, key, new, update):
    if v[0] != 'o':
        return 'err'
    d = dict(v[1])
    if key in d and not update:
        return 'err'
    d[key] = new
    return ok_doc(('o', sorted(d.items())))


def object_delete(v, keys):
    return ok_doc(('o', [(k, x) for k, x in v[1] if k not in keys])) if v[0] == 'o' else 'err'


def object_pick(v, keys):
    return ok_doc(('o', [(k, x) for k, x in v[1] if k in keys])) if v[0] == 'o' else 'err'


def agrees(want, got):
    """want 'err' matches any error outcome; anything else must be equal"""
    return got.startswith('err') if want == 'err' else got == want
