"""C13 — array set functions implement multiset semantics over identical elements."""
from collections import Counter
from .. import gen
from . import common

SPEC_THEOREM = 'Props/C13: distinct keeps first occurrences and is idempotent; intersection/except partition the first list; overlap iff intersection non-empty'
TRUSTED = ['Coq 8.16.1 kernel', 'translator', 'extraction + OCaml driver', 'Rust harness', 'model SetOps.v (identity = identical entry word and payload)']
ASSUMPTIONS = ['inputs are canonical encodings (identity of elements = identity of encodings)']
RULE = 'pairs of arrays with >= 50% duplicates, equal/differing nested containers, scalar and object operands, empty arrays; binary/binary and, for finite documents, text/binary, binary/text and text/text arguments; non-trivial = non-empty result'


def ident(v):
    return gen.enc_item(v)


def items(v):
    return v[1] if v[0] == 'a' else [v]


def generate(ctx):
    r = ctx.rng
    pool = [('n',), ('b', True), ('u', 1), ('i', 1), ('d', gen.float_to_bits(1.0)), ('s', b'a'), ('s', b'A'), ('u', 0), ('i', 0),
            ('a', []), ('o', []), ('a', [('u', 1)]), ('a', [('i', 1)]), ('o', [(b'k', ('a', [('n',)]))]), ('o', [(b'k', ('a', [('b', False)]))]),
            ('d', gen.float_to_bits(-0.0)), ('d', 0), ('u', 300)]
    ctx.trials = []
    for _ in range(ctx.scale(1200, 50000)):
        c = r.random()
        base = pool + [ctx.g.value(depth=2, finite=False) for _ in range(3)]
        def arr():
            return ('a', [r.choice(base) for _ in range(r.choice([0, 1, 2, 3, 5, 8]))])
        a = arr() if c < 0.85 else r.choice(base)
        b = arr() if r.random() < 0.85 else r.choice(base)
        ea, eb = gen.hexarg(gen.enc(a)), gen.hexarg(gen.enc(b))
        ids = [ctx.add('array_distinct %s' % ea).id, ctx.add('array_intersection %s %s' % (ea, eb)).id,
               ctx.add('array_except %s %s' % (ea, eb)).id, ctx.add('array_overlap %s %s' % (ea, eb)).id]
        ctx.trials.append((a, b, ids))
        # the same functions with one or both arguments given as JSON text (the elements are then typed as the text parser types them)
        if r.random() < 0.3 and gen.is_finite(a) and gen.is_finite(b):
            ta, tb = gen.hexarg(gen.json_text(a, r)), gen.hexarg(gen.json_text(b, r))
            if not ta.startswith('20') and not tb.startswith('20'):
                fa, fb = gen.text_form(a), gen.text_form(b)
                for x, y, p, q in ((ta, eb, fa, b), (ea, tb, a, fb), (ta, tb, fa, fb)):
                    ids = [ctx.add('array_distinct %s' % x).id, ctx.add('array_intersection %s %s' % (x, y)).id,
                           ctx.add('array_except %s %s' % (x, y)).id, ctx.add('array_overlap %s %s' % (x, y)).id]
                    ctx.trials.append((p, q, ids))


def judge(ctx):
    impl = ctx.impl
    again = []
    for a, b, ids in ctx.trials:
        d, i, e, o = [impl.get(x, 'missing') for x in ids]
        case = [gen.vtext(a), gen.vtext(b)]
        try:
            dv = gen.dec(gen.unhexarg(d[3:])) if d.startswith('ok ') else None
            iv = gen.dec(gen.unhexarg(i[3:])) if i.startswith('ok ') else None
            ev = gen.dec(gen.unhexarg(e[3:])) if e.startswith('ok ') else None
        except gen.DecodeError as ex:
            ctx.violate('a set-function result is not a canonical JSONB array', case=case, observed=[d, i, e], why=str(ex))
            continue
        if dv is None or iv is None or ev is None or dv[0] != 'a' or iv[0] != 'a' or ev[0] != 'a':
            ctx.violate('a set function failed or did not return an array', case=case, observed=[d, i, e])
            continue
        la, lb = items(a), items(b)
        # distinct: first occurrences in order
        seen, want = set(), []
        for x in la:
            if ident(x) not in seen:
                seen.add(ident(x))
                want.append(x)
        if [ident(x) for x in dv[1]] != [ident(x) for x in want]:
            ctx.violate('distinct does not keep the first occurrence of each element in order', case=case, observed=d)
        # intersection / except: walk the first list against the multiset of the second
        cnt = Counter(ident(x) for x in lb)
        wi, we = [], []
        for x in la:
            if cnt[ident(x)] > 0:
                cnt[ident(x)] -= 1
                wi.append(x)
            else:
                we.append(x)
        if [ident(x) for x in iv[1]] != [ident(x) for x in wi]:
            ctx.violate('intersection is not the multiset intersection in first-list order', case=case, observed=i)
        if [ident(x) for x in ev[1]] != [ident(x) for x in we]:
            ctx.violate('except is not the rest of the first list', case=case, observed=e)
        if Counter(ident(x) for x in iv[1]) + Counter(ident(x) for x in ev[1]) != Counter(ident(x) for x in la):
            ctx.violate('intersection and except do not partition the first list', case=case, observed=[i, e])
        if (o == 'ok =true') != (len(iv[1]) > 0):
            ctx.violate('overlap differs from non-emptiness of the intersection', case=case, observed=[o, i])
        again.append((d, case))
    # idempotence of distinct on the implementation's own outputs
    from .. import core
    lines = ['d%d array_distinct %s' % (k, d[3:]) for k, (d, _) in enumerate(again)]
    out = core.run_cases(core.HARNESS_BIN, lines, 'C13-idem')
    for k, (d, case) in enumerate(again):
        if out.get('d%d' % k) != d:
            ctx.violate('distinct is not idempotent', case=case, observed=[d, out.get('d%d' % k)])
