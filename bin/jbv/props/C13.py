"""C13 — array set functions implement multiset semantics over identical elements."""
from collections import Counter
from .. import gen
from . import common, sizes

SPEC_THEOREM = 'Props/C13: distinct keeps first occurrences and is idempotent; intersection/except partition the first list; overlap iff intersection non-empty; C13_set_functions_bytes_*: the offset-faithful walkers of SetWalk.v return buf ++ enc (tree result) on encodings'
TRUSTED = ['Coq 8.16.1 kernel', 'translator', 'extraction + OCaml driver', 'Rust harness', 'model SetOps.v (identity = identical entry word and payload); SetWalk.v (offset-faithful array_*_jsonb, refinement proved on encodings, tied to the code by correspondence including corrupt buffers)']
ASSUMPTIONS = ['inputs are canonical encodings (identity of elements = identity of encodings)']
RULE = 'pairs of arrays with >= 50% duplicates, equal/differing nested containers, scalar and object operands, empty arrays; binary/binary and, for finite documents, text/binary, binary/text and text/text arguments; non-trivial = non-empty result'


def ident(v):
    return gen.enc_item(v)


def items(v):
    return v[1] if v[0] == 'a' else [v]


def generate(ctx):
    r = ctx.rng
    pool = [('n',), ('b', True), ('u', 1), ('i', 1), ('d', gen.float_to_bits(1.0)), ('s', b'a'), ('s', b'A'), ('u', 0), ('i', 0),
            ('a', []), ('o', []), ('a', [('u', 1)]), ('a', [('i', 1)]), ('o', [(b'k', ('a', [('n',)]))]), ('o', [(b'k', ('a', [('b', False)]))]),
            ('d', gen.float_to_bits(-0.0)), ('d', 0), ('u', 300)]
    ctx.trials = []
    # wide arrays (an ordered set that starts as a small vector, a hash threshold ...): 16..300 distinct elements with late
    # repeats of early ones, against long and short second lists
    for w in (15, 16, 17, 18, 32, 33, 64, 100, 300):
        firsts = [('u', i) if i % 3 else ('s', ('s%d' % i).encode()) for i in range(w)]
        a1 = ('a', firsts + [firsts[0], firsts[w // 2], firsts[-1], firsts[1]])
        a2 = ('a', firsts + firsts)
        a3 = ('a', [firsts[i % 7] for i in range(w)] + firsts)
        bs = [('a', firsts[::2]), ('a', firsts[::-1] + firsts[:3]), ('a', [firsts[0]] * (w + 2)), ('a', []), firsts[3]]
        for a in (a1, a2, a3):
            for b in bs:
                ea, eb = gen.hexarg(gen.enc(a)), gen.hexarg(gen.enc(b))
                ids = [ctx.add('array_distinct %s' % ea).id, ctx.add('array_intersection %s %s' % (ea, eb)).id,
                       ctx.add('array_except %s %s' % (ea, eb)).id, ctx.add('array_overlap %s %s' % (ea, eb)).id]
                ctx.trials.append((a, b, ids))
                ids = [ctx.add('array_distinct %s' % eb).id, ctx.add('array_intersection %s %s' % (eb, ea)).id,
                       ctx.add('array_except %s %s' % (eb, ea)).id, ctx.add('array_overlap %s %s' % (eb, ea)).id]
                ctx.trials.append((b, a, ids))
    # arrays of 255 .. 1000 elements (with repeats) against short lists made of their first / middle / last elements and against
    # themselves, and elements that are strings of 255 .. 65536 bytes differing only in the last byte (sizes.py; second review H2)
    for lab, v in sizes.container_docs():
        if v[0] != 'a':
            continue
        n = len(v[1])
        fml = [x for _, x in sizes.first_mid_last(v)]
        bs = [('a', fml), ('a', fml[::-1] + fml), ('a', [fml[-1]] * 3 + [('s', b'absent')]), ('a', []), fml[-1]] + ([v] if n <= 257 else [])
        for b in bs:
            ea, eb = gen.hexarg(gen.enc(v)), gen.hexarg(gen.enc(b))
            ids = [ctx.add('array_distinct %s' % ea).id, ctx.add('array_intersection %s %s' % (ea, eb)).id,
                   ctx.add('array_except %s %s' % (ea, eb)).id, ctx.add('array_overlap %s %s' % (ea, eb)).id]
            ctx.trials.append((v, b, ids))
            if b is not v:
                ids = [ctx.add('array_distinct %s' % eb).id, ctx.add('array_intersection %s %s' % (eb, ea)).id,
                       ctx.add('array_except %s %s' % (eb, ea)).id, ctx.add('array_overlap %s %s' % (eb, ea)).id]
                ctx.trials.append((b, v, ids))
    for n in sizes.STR_SIZES:
        s = ('s', sizes.text(n))
        s2, s3 = sizes.end_mutants(s)[:2]
        a = ('a', [s, ('u', 1), s2, s, s3, s2])
        for b in (('a', [s2, s2]), ('a', [s3, s]), ('a', [('s', s[1][:-1])]), s, a):
            ea, eb = gen.hexarg(gen.enc(a)), gen.hexarg(gen.enc(b))
            ids = [ctx.add('array_distinct %s' % ea).id, ctx.add('array_intersection %s %s' % (ea, eb)).id,
                   ctx.add('array_except %s %s' % (ea, eb)).id, ctx.add('array_overlap %s %s' % (ea, eb)).id]
            ctx.trials.append((a, b, ids))
    for _ in range(ctx.scale(1200, 50000)):
        c = r.random()
        base = pool + [ctx.g.value(depth=2, finite=False) for _ in range(3)]
        def arr():
            return ('a', [r.choice(base) for _ in range(r.choice([0, 1, 2, 3, 5, 8]))])
        a = arr() if c < 0.85 else r.choice(base)
        b = arr() if r.random() < 0.85 else r.choice(base)
        ea, eb = gen.hexarg(gen.enc(a)), gen.hexarg(gen.enc(b))
        ids = [ctx.add('array_distinct %s' % ea).id, ctx.add('array_intersection %s %s' % (ea, eb)).id,
               ctx.add('array_except %s %s' % (ea, eb)).id, ctx.add('array_overlap %s %s' % (ea, eb)).id]
        ctx.trials.append((a, b, ids))
        # the same functions with one or both arguments given as JSON text (the elements are then typed as the text parser types them)
        if r.random() < 0.3 and gen.is_finite(a) and gen.is_finite(b):
            ta, tb = gen.hexarg(gen.json_text(a, r)), gen.hexarg(gen.json_text(b, r))
            if not ta.startswith('20') and not tb.startswith('20'):
                fa, fb = gen.text_form(a), gen.text_form(b)
                for x, y, p, q in ((ta, eb, fa, b), (ea, tb, a, fb), (ta, tb, fa, fb)):
                    ids = [ctx.add('array_distinct %s' % x).id, ctx.add('array_intersection %s %s' % (x, y)).id,
                           ctx.add('array_except %s %s' % (x, y)).id, ctx.add('array_overlap %s %s' % (x, y)).id]
                    ctx.trials.append((p, q, ids))
    malformed(ctx)


def mutants(ctx, e, n=14):
    """prefixes and single-byte mutations of an encoding; header counts stay small (byte 0 only switches the container
    type, byte 1 is left alone) so that no Rust-side allocation is driven by a corrupted count"""
    r = ctx.rng
    out = [e[:i] for i in range(len(e))] if len(e) <= 24 else [e[:r.randrange(len(e))] for _ in range(8)]
    for _ in range(n):
        i = r.randrange(len(e))
        if i == 0:
            nb = r.choice([0x80, 0x40, 0x20, 0x00, 0x60])
        elif i == 1:
            continue
        else:
            nb = r.choice([0, 1, 2, 3, 4, 8, 0x10, 0x20, 0x30, 0x40, 0x50, 0x60, 0x7f, 0x80, 0xff, e[i] ^ 1, e[i] ^ 0x10, (e[i] + 1) & 0xff])
        out.append(e[:i] + bytes([nb]) + e[i + 1:])
    return out


def malformed(ctx):
    # the four walkers on buffers that are NOT valid encodings: C13 says nothing about them, the offset-faithful model
    # (SetWalk.v) does -- value, error or panic; this stream only feeds the correspondence tie
    r = ctx.rng
    small = [(a, b) for a, b, _ in ctx.trials if 8 <= len(gen.enc(a)) <= 80 and len(gen.enc(b)) <= 80]
    for a, b in r.sample(small, min(len(small), ctx.scale(120, 3000))):
        ea, eb = gen.enc(a), gen.enc(b)
        ha, hb = gen.hexarg(ea), gen.hexarg(eb)
        # a non-empty caller buffer now and then (@prefix): model and implementation both print the buffer as the call
        # left it, on Ok and on Err
        pre = lambda op: '@c0ffee' if op != 'array_overlap' and r.random() < 0.35 else ''
        for m in mutants(ctx, ea):
            h = gen.hexarg(m)
            ctx.add('array_distinct%s %s' % (pre('array_distinct'), h), kind='malformed')
            op = r.choice(['array_intersection', 'array_except', 'array_overlap'])
            ctx.add('%s%s %s %s' % (op, pre(op), h, hb), kind='malformed')
        for m in mutants(ctx, eb):
            h = gen.hexarg(m)
            for op in r.sample(['array_intersection', 'array_except', 'array_overlap'], 2):
                ctx.add('%s%s %s %s' % (op, pre(op), ha, h), kind='malformed')
        for _ in range(4):
            op = r.choice(['array_intersection', 'array_except', 'array_overlap'])
            ctx.add('%s %s %s' % (op, gen.hexarg(r.choice(mutants(ctx, ea, 6))), gen.hexarg(r.choice(mutants(ctx, eb, 6)))), kind='malformed')


def judge(ctx):
    impl = ctx.impl
    again = []
    # judged on the implementation's output alone (valid and corrupt inputs): an error return of a buffer-writing set
    # function leaves the caller's buffer (empty, or the @prefix of the case) exactly as it was
    for c in ctx.cases:
        o = impl.get(c.id, 'missing')
        name, _, pre = c.line.split(' ')[0].partition('@')
        if o.startswith('err ') and name in ('array_distinct', 'array_intersection', 'array_except'):
            f = o.split(' ')
            ctx.count('error_returns_checked_for_buffer', name)
            if len(f) < 3 or gen.unhexarg(f[2]) != bytes.fromhex(pre):
                ctx.violate('an error return left bytes appended to (or changed) the buffer', case=c.line, observed=o[:300])
    for a, b, ids in ctx.trials:
        d, i, e, o = [impl.get(x, 'missing') for x in ids]
        case = [gen.vtext(a), gen.vtext(b)]
        try:
            dv = gen.dec(gen.unhexarg(d[3:])) if d.startswith('ok ') else None
            iv = gen.dec(gen.unhexarg(i[3:])) if i.startswith('ok ') else None
            ev = gen.dec(gen.unhexarg(e[3:])) if e.startswith('ok ') else None
        except gen.DecodeError as ex:
            ctx.violate('a set-function result is not a canonical JSONB array', case=case, observed=[d, i, e], why=str(ex))
            continue
        if dv is None or iv is None or ev is None or dv[0] != 'a' or iv[0] != 'a' or ev[0] != 'a':
            ctx.violate('a set function failed or did not return an array', case=case, observed=[d, i, e])
            continue
        la, lb = items(a), items(b)
        # distinct: first occurrences in order
        seen, want = set(), []
        for x in la:
            if ident(x) not in seen:
                seen.add(ident(x))
                want.append(x)
        if [ident(x) for x in dv[1]] != [ident(x) for x in want]:
            ctx.violate('distinct does not keep the first occurrence of each element in order', case=case, observed=d)
        # intersection / except: walk the first list against the multiset of the second
        cnt = Counter(ident(x) for x in lb)
        wi, we = [], []
        for x in la:
            if cnt[ident(x)] > 0:
                cnt[ident(x)] -= 1
                wi.append(x)
            else:
                we.append(x)
        if [ident(x) for x in iv[1]] != [ident(x) for x in wi]:
            ctx.violate('intersection is not the multiset intersection in first-list order', case=case, observed=i)
        if [ident(x) for x in ev[1]] != [ident(x) for x in we]:
            ctx.violate('except is not the rest of the first list', case=case, observed=e)
        if Counter(ident(x) for x in iv[1]) + Counter(ident(x) for x in ev[1]) != Counter(ident(x) for x in la):
            ctx.violate('intersection and except do not partition the first list', case=case, observed=[i, e])
        if (o == 'ok =true') != (len(iv[1]) > 0):
            ctx.violate('overlap differs from non-emptiness of the intersection', case=case, observed=[o, i])
        again.append((d, case))
    # idempotence of distinct on the implementation's own outputs
    from .. import core
    lines = ['d%d array_distinct %s' % (k, d[3:]) for k, (d, _) in enumerate(again)]
    out = core.run_cases(core.HARNESS_BIN, lines, 'C13-idem')
    core.require_outcomes(out, ['d%d' % k for k in range(len(again))], 'C13 idempotence re-run')
    for k, (d, case) in enumerate(again):
        if out.get('d%d' % k) != d:
            ctx.violate('distinct is not idempotent', case=case, observed=[d, out.get('d%d' % k)])
