"""gen.py — generators (one PRNG), the neutral value text, and an encoder written from the README only.

Values are tuples: ('n',) ('b',bool) ('s',bytes) ('i',int) ('u',int) ('d',bits) ('a',[v]) ('o',[(key,v)]) with
object members strictly sorted by key bytes."""
import random, struct, sys
sys.setrecursionlimit(max(sys.getrecursionlimit(), 20000))   # values nested a few hundred deep are generated

# ---------------------------------------------------------------- README constants (literal, independent of /repo)
ARRAY_TAG, OBJECT_TAG, SCALAR_TAG = 0x80000000, 0x40000000, 0x20000000
J_NULL, J_STRING, J_NUMBER, J_FALSE, J_TRUE, J_CONTAINER = 0x00000000, 0x10000000, 0x20000000, 0x30000000, 0x40000000, 0x50000000
N_ZERO, N_NAN, N_INF, N_NEG_INF, N_INT, N_UINT, N_FLOAT = 0x00, 0x10, 0x20, 0x30, 0x40, 0x50, 0x60


def be32(x):
    return struct.pack('>I', x & 0xFFFFFFFF)


def f_is_nan(b):
    return (b >> 52) & 0x7FF == 0x7FF and (b & ((1 << 52) - 1)) != 0


def f_is_inf(b):
    return (b >> 52) & 0x7FF == 0x7FF and (b & ((1 << 52) - 1)) == 0


def enc_num(v):
    k, x = v
    if k == 'i':
        if x == 0:
            return bytes([N_ZERO])
        for w, fmt in ((1, '>b'), (2, '>h'), (4, '>i'), (8, '>q')):
            if -(1 << (8 * w - 1)) <= x < (1 << (8 * w - 1)):
                return bytes([N_INT]) + struct.pack(fmt, x)
    if k == 'u':
        if x == 0:
            return bytes([N_ZERO])
        for w, fmt in ((1, '>B'), (2, '>H'), (4, '>I'), (8, '>Q')):
            if x < (1 << (8 * w)):
                return bytes([N_UINT]) + struct.pack(fmt, x)
    if k == 'd':
        if f_is_nan(x):
            return bytes([N_NAN])
        if f_is_inf(x):
            return bytes([N_NEG_INF if x >> 63 else N_INF])
        return bytes([N_FLOAT]) + struct.pack('>Q', x)
    raise ValueError(v)


# the largest sizes among all values encoded so far (every generated document goes through enc): reported per property in the
# evidence (`stats.size_maxima`) so that "which sizes did this check reach" is a recorded fact (second review, H2)
SIZE_MAX = {'string_or_key_bytes': 0, 'container_members': 0, 'nesting': 0, 'document_bytes': 0}


def enc_item(v, _d=1):
    k = v[0]
    if k == 'n':
        return J_NULL, b''
    if k == 'b':
        return (J_TRUE if v[1] else J_FALSE), b''
    if k == 's':
        if len(v[1]) > SIZE_MAX['string_or_key_bytes']:
            SIZE_MAX['string_or_key_bytes'] = len(v[1])
        return J_STRING | len(v[1]), v[1]
    if k in 'iud':
        p = enc_num(v)
        return J_NUMBER | len(p), p
    if k == 'a':
        items = [enc_item(x, _d + 1) for x in v[1]]
        if len(items) > SIZE_MAX['container_members']:
            SIZE_MAX['container_members'] = len(items)
        if _d > SIZE_MAX['nesting']:
            SIZE_MAX['nesting'] = _d
        body = be32(ARRAY_TAG | len(items)) + b''.join(be32(j) for j, _ in items) + b''.join(p for _, p in items)
        return J_CONTAINER | len(body), body
    if k == 'o':
        items = [enc_item(x, _d + 1) for _, x in v[1]]
        if len(items) > SIZE_MAX['container_members']:
            SIZE_MAX['container_members'] = len(items)
        if _d > SIZE_MAX['nesting']:
            SIZE_MAX['nesting'] = _d
        for kk, _ in v[1]:
            if len(kk) > SIZE_MAX['string_or_key_bytes']:
                SIZE_MAX['string_or_key_bytes'] = len(kk)
        body = (be32(OBJECT_TAG | len(items)) + b''.join(be32(J_STRING | len(kk)) for kk, _ in v[1])
                + b''.join(be32(j) for j, _ in items) + b''.join(kk for kk, _ in v[1]) + b''.join(p for _, p in items))
        return J_CONTAINER | len(body), body
    raise ValueError(v)


def enc(v):
    j, p = enc_item(v)
    out = p if v[0] in 'ao' else be32(SCALAR_TAG) + be32(j) + p
    if len(out) > SIZE_MAX['document_bytes']:
        SIZE_MAX['document_bytes'] = len(out)
    return out


# ---------------------------------------------------------------- neutral value text
def hx(b):
    return b.hex()


def hexarg(b):
    return b.hex() if b else '-'


def hexlist(bs):
    return ','.join(hexarg(b) for b in bs) if bs else '_'


def vtext(v):
    k = v[0]
    if k == 'n':
        return 'n'
    if k == 'b':
        return 't' if v[1] else 'f'
    if k == 's':
        return 's' + hx(v[1])
    if k == 'i':
        return 'i%d' % v[1]
    if k == 'u':
        return 'u%d' % v[1]
    if k == 'd':
        return 'd%016x' % v[1]
    if k == 'a':
        return '[' + ','.join(vtext(x) for x in v[1]) + ']'
    if k == 'o':
        return '{' + ','.join(hx(kk) + ':' + vtext(x) for kk, x in v[1]) + '}'
    raise ValueError(v)


def parse_vtext(s):
    pos = [0]

    def peek():
        return s[pos[0]] if pos[0] < len(s) else ''

    def hexrun():
        st = pos[0]
        while pos[0] < len(s) and s[pos[0]] in '0123456789abcdef':
            pos[0] += 1
        return bytes.fromhex(s[st:pos[0]])

    def decrun():
        st = pos[0]
        if peek() == '-':
            pos[0] += 1
        while pos[0] < len(s) and s[pos[0]].isdigit():
            pos[0] += 1
        return int(s[st:pos[0]])

    def val():
        c = peek()
        pos[0] += 1
        if c == 'n':
            return ('n',)
        if c == 't':
            return ('b', True)
        if c == 'f':
            return ('b', False)
        if c == 'i':
            return ('i', decrun())
        if c == 'u':
            return ('u', decrun())
        if c == 'd':
            st = pos[0]
            pos[0] += 16
            return ('d', int(s[st:pos[0]], 16))
        if c == 's':
            return ('s', hexrun())
        if c == '[':
            out = []
            if peek() == ']':
                pos[0] += 1
                return ('a', out)
            while True:
                out.append(val())
                if peek() == ',':
                    pos[0] += 1
                else:
                    pos[0] += 1
                    return ('a', out)
        if c == '{':
            out = []
            if peek() == '}':
                pos[0] += 1
                return ('o', out)
            while True:
                k = hexrun()
                pos[0] += 1
                out.append((k, val()))
                if peek() == ',':
                    pos[0] += 1
                else:
                    pos[0] += 1
                    return ('o', out)
        raise ValueError('bad vtext %r at %d' % (s, pos[0]))

    return val()


# ---------------------------------------------------------------- JSON text of a finite value
def bits_to_float(b):
    return struct.unpack('>d', struct.pack('>Q', b))[0]


def float_to_bits(f):
    return struct.unpack('>Q', struct.pack('>d', f))[0]


def json_escape(b, rng=None):
    """JSON string literal (bytes) for UTF-8 bytes b; uses only standard escapes."""
    out = bytearray(b'"')
    s = b.decode('utf-8')
    for ch in s:
        o = ord(ch)
        if ch == '"':
            out += b'\\"'
        elif ch == '\\':
            out += b'\\\\'
        elif o < 0x20:
            short = {8: b'\\b', 9: b'\\t', 10: b'\\n', 12: b'\\f', 13: b'\\r'}
            if o in short and (rng is None or rng.random() < 0.7):
                out += short[o]
            else:
                out += b'\\u%04x' % o
        elif rng is not None and rng.random() < 0.05:
            if o < 0x10000:
                out += b'\\u%04X' % o
            else:
                o2 = o - 0x10000
                out += b'\\u%04x\\u%04x' % (0xD800 + (o2 >> 10), 0xDC00 + (o2 & 0x3FF))
        else:
            out += ch.encode('utf-8')
    out += b'"'
    return bytes(out)


def json_num(v, rng=None):
    k, x = v
    if k in 'iu':
        return b'%d' % x
    f = bits_to_float(x)
    r = repr(f)
    if r.endswith('.0') and rng is not None and rng.random() < 0.3 and abs(f) < 1e15:
        r = r  # keep the fraction: an integer-valued float must stay a float in text
    return r.encode()


def json_text(v, rng=None, ws=False):
    """Compact JSON text (bytes) denoting v. Requires finite numbers. ws: random insignificant whitespace."""
    def sp():
        if ws and rng is not None and rng.random() < 0.3:
            return rng.choice([b' ', b'\n', b'\t', b'\r', b'  '])
        return b''
    k = v[0]
    if k == 'n':
        return b'null'
    if k == 'b':
        return b'true' if v[1] else b'false'
    if k == 's':
        return json_escape(v[1], rng)
    if k in 'iud':
        return json_num(v, rng)
    if k == 'a':
        return b'[' + sp() + (b',' + sp()).join(json_text(x, rng, ws) + sp() for x in v[1]) + b']'
    if k == 'o':
        return b'{' + sp() + (b',' + sp()).join(json_escape(kk, rng) + sp() + b':' + sp() + json_text(x, rng, ws) + sp()
                                                for kk, x in v[1]) + b'}'
    raise ValueError(v)


def text_form(v):
    """what the text parser yields for the text of v: non-negative Int64 become UInt64 (and -0 stays Int64 0 -> UInt64 0?)"""
    k = v[0]
    if k == 'i' and v[1] >= 0:
        return ('u', v[1])
    if k == 'a':
        return ('a', [text_form(x) for x in v[1]])
    if k == 'o':
        return ('o', [(kk, text_form(x)) for kk, x in v[1]])
    return v


def is_finite(v):
    k = v[0]
    if k == 'd':
        return not (f_is_nan(v[1]) or f_is_inf(v[1]))
    if k == 'a':
        return all(is_finite(x) for x in v[1])
    if k == 'o':
        return all(is_finite(x) for _, x in v[1])
    return True


# ---------------------------------------------------------------- pools
I64_MIN, I64_MAX, U64_MAX = -(1 << 63), (1 << 63) - 1, (1 << 64) - 1
INT_POOL = sorted(set(
    [0, 1, -1, 2, 10, -10, 100, 255, 256, -255, -256, 3, -3, 4, -4, 5, -5]
    + [s * (1 << k) + d for k in (7, 8, 15, 16, 31, 32, 53, 62) for d in (-2, -1, 0, 1, 2) for s in (1, -1)]
    + [I64_MIN, I64_MIN + 1, I64_MAX, I64_MAX - 1]))
INT_POOL = [x for x in INT_POOL if I64_MIN <= x <= I64_MAX]
UINT_POOL = sorted(set(
    [0, 1, 2, 10, 100, 127, 128, 255, 256]
    + [(1 << k) + d for k in (7, 8, 15, 16, 31, 32, 53, 63, 64) for d in (-2, -1, 0, 1, 2)]
    + [(1 << 63) + 1024, (1 << 63) + 2048, (1 << 63) + 2049, (1 << 64) - 2048, (1 << 64) - 2049, 10 ** 19, 15 * 10 ** 18, 10 ** 19 + 1]))
UINT_POOL = [x for x in UINT_POOL if 0 <= x <= U64_MAX]
FLOAT_POOL = [float_to_bits(f) for f in
              [0.0, -0.0, 1.0, -1.0, 0.1, 0.5, 1.5, -2.5, 3.14, 100.0, 1e15, 1e16, 1e17, 1e21, 1e22, 1e23, 123456.789,
               2.0 ** 53, 2.0 ** 53 + 2, -(2.0 ** 53), 2.0 ** 63, 2.0 ** 64, -(2.0 ** 63), 9007199254740991.0,
               5e-324, 2.2250738585072014e-308, 2.225073858507201e-308, 1.7976931348623157e308, 1e-7, 1.5e-7, 1e300,
               7.91252914157506e-14, 8.675514674482229e-196, 127.0, 128.0, 255.0, 256.0, 65535.0, 4294967296.0,
               0.30000000000000004, 1e-5, 0.001, 12345678.0, 1e7, 123456789012345680.0,
               # between the signed and the unsigned 64-bit limits, and the neighbours of both
               # fractions next to small integers of either sign (an integer against the float that truncates to it)
               -3.5, -3.75, -0.25, -0.5, 0.25, 0.75, 2.5, 3.5, -4.5, 4.25, -2.0 ** 53 - 2, -1e-300,
               1e19, 1.5e19, 2.0 ** 63 + 2048, 2.0 ** 64 - 2048, 2.0 ** 63 - 1024, -(2.0 ** 63) - 2048, 2.0 ** 62, 2.0 ** 64 + 4096, 1e18]]
SPECIAL_FLOATS = [0x7FF8000000000000, 0x7FF0000000000000, 0xFFF0000000000000, 0x7FF0000000000001, 0xFFF8000000000000]

CODEPOINTS_SPECIAL = (list(range(0x00, 0x20)) + [0x22, 0x5C, 0x2F, 0x7F, 0x80, 0xFF, 0x100, 0x7FF, 0x800, 0x2028, 0x2029,
                                                 0xD7FF, 0xE000, 0xFFFD, 0xFFFF, 0x10000, 0x1F600, 0x10FFFF])
ASCII_LETTERS = [ord(c) for c in 'abcdefghijklmnopqrstuvwxyzABCDEFGHIJKLMNOPQRSTUVWXYZ0123456789_ -']


class Gen:
    def __init__(self, seed):
        self.rng = random.Random(seed)
        self.stats = {'nodes': {}, 'depth': {}, 'scalars': {}, 'numwidth': {}}

    # ---- scalars
    def codepoint(self, plain=False):
        r = self.rng
        if plain or r.random() < 0.75:
            return r.choice(ASCII_LETTERS)
        if r.random() < 0.6:
            return r.choice(CODEPOINTS_SPECIAL)
        c = r.randrange(0x20, 0x110000)
        while 0xD800 <= c <= 0xDFFF:
            c = r.randrange(0x20, 0x110000)
        return c

    def string(self, plain=False, maxlen=8):
        r = self.rng
        n = 0 if r.random() < 0.08 else r.randrange(1, maxlen + 1)
        if r.random() < 0.03:
            n = r.randrange(20, 60)
        return ''.join(chr(self.codepoint(plain)) for _ in range(n)).encode('utf-8')

    def key(self, plain=False):
        r = self.rng
        if r.random() < 0.5:
            return r.choice([b'a', b'b', b'k', b'ab', b'A', b'aB', b'abc', b'key', b'Key', b'KEY', b'', b'\xc3\xa9', b'k1', b'k2', b'z'])
        return self.string(plain, maxlen=5)

    def number(self, finite=True):
        r = self.rng
        c = r.random()
        if c < 0.2:
            return ('i', r.choice(INT_POOL))
        if c < 0.4:
            return ('u', r.choice(UINT_POOL))
        if c < 0.55:
            return ('d', r.choice(FLOAT_POOL))
        if c < 0.7:
            return ('u', r.randrange(0, 1000))
        if c < 0.8:
            return ('i', r.randrange(-1000, 1000))
        if c < 0.85:
            return ('i', r.randrange(I64_MIN, I64_MAX + 1))
        if c < 0.9:
            return ('u', r.randrange(0, U64_MAX + 1))
        if c < 0.93 and not finite:
            return ('d', r.choice(SPECIAL_FLOATS))
        b = r.getrandbits(64)
        if finite and (f_is_nan(b) or f_is_inf(b)):
            b &= ~(1 << 62)
        return ('d', b)

    def scalar(self, finite=True, plain=False):
        r = self.rng
        c = r.random()
        if c < 0.12:
            return ('n',)
        if c < 0.24:
            return ('b', r.random() < 0.5)
        if c < 0.55:
            return ('s', self.string(plain))
        return self.number(finite)

    # ---- trees
    def value(self, depth=4, finite=True, plain=False, width=6):
        r = self.rng
        if depth <= 0 or r.random() < 0.35:
            return self.scalar(finite, plain)
        if r.random() < 0.5:
            n = r.choice([0, 1, 1, 2, 2, 3, 3, 4, width])
            return ('a', [self.value(depth - 1, finite, plain, width) for _ in range(n)])
        n = r.choice([0, 1, 1, 2, 2, 3, 3, 4, width])
        d = {}
        for _ in range(n):
            d[self.key(plain)] = self.value(depth - 1, finite, plain, width)
        return ('o', sorted(d.items()))

    def container(self, depth=4, finite=True, plain=False, width=6):
        while True:
            v = self.value(depth, finite, plain, width)
            if v[0] in 'ao':
                return v

    def array(self, depth=3, finite=True, plain=False, width=6):
        r = self.rng
        n = r.choice([0, 1, 2, 3, 4, 5, width])
        return ('a', [self.value(depth - 1, finite, plain, width) for _ in range(n)])

    def obj(self, depth=3, finite=True, plain=False, width=6):
        r = self.rng
        n = r.choice([0, 1, 2, 3, 4, 5, width])
        d = {}
        for _ in range(n):
            d[self.key(plain)] = self.value(depth - 1, finite, plain, width)
        return ('o', sorted(d.items()))


def nodes(v):
    if v[0] == 'a':
        return 1 + sum(nodes(x) for x in v[1])
    if v[0] == 'o':
        return 1 + sum(nodes(x) for _, x in v[1])
    return 1


def vdepth(v):
    if v[0] == 'a':
        return 1 + max([vdepth(x) for x in v[1]] or [0])
    if v[0] == 'o':
        return 1 + max([vdepth(x) for _, x in v[1]] or [0])
    return 1


def subvalues(v):
    yield v
    if v[0] == 'a':
        for x in v[1]:
            yield from subvalues(x)
    elif v[0] == 'o':
        for _, x in v[1]:
            yield from subvalues(x)


def histogram(xs):
    h = {}
    for x in xs:
        h[str(x)] = h.get(str(x), 0) + 1
    return dict(sorted(h.items(), key=lambda kv: (len(kv[0]), kv[0])))


# ---------------------------------------------------------------- independent decoder (README layout) for direct checks
class DecodeError(Exception):
    pass


def dec_num(p):
    if not p:
        raise DecodeError('empty number')
    t, r = p[0], p[1:]
    if t == N_ZERO and not r:
        return ('u', 0)
    if t == N_NAN and not r:
        return ('d', 0x7FF8000000000000)
    if t == N_INF and not r:
        return ('d', 0x7FF0000000000000)
    if t == N_NEG_INF and not r:
        return ('d', 0xFFF0000000000000)
    if t == N_INT and len(r) in (1, 2, 4, 8):
        return ('i', int.from_bytes(r, 'big', signed=True))
    if t == N_UINT and len(r) in (1, 2, 4, 8):
        return ('u', int.from_bytes(r, 'big'))
    if t == N_FLOAT and len(r) == 8:
        return ('d', int.from_bytes(r, 'big'))
    raise DecodeError('bad number')


def dec_entry(j, payload):
    ty, ln = j & 0x70000000, j & 0x0FFFFFFF
    if len(payload) != ln:
        raise DecodeError('payload length')
    if ty == J_NULL:
        return ('n',)
    if ty == J_TRUE:
        return ('b', True)
    if ty == J_FALSE:
        return ('b', False)
    if ty == J_STRING:
        return ('s', bytes(payload))
    if ty == J_NUMBER:
        return dec_num(payload)
    if ty == J_CONTAINER:
        return dec_container(payload)
    raise DecodeError('entry type')


def dec_container(b):
    """strict: every nested length must be exact and nothing may trail"""
    if len(b) < 4:
        raise DecodeError('short')
    h = struct.unpack('>I', b[:4])[0]
    ty, n = h & 0xE0000000, h & 0x1FFFFFFF
    if ty == ARRAY_TAG:
        if len(b) < 4 + 4 * n:
            raise DecodeError('short entries')
        js = struct.unpack('>%dI' % n, b[4:4 + 4 * n])
        off = 4 + 4 * n
        out = []
        for j in js:
            ln = j & 0x0FFFFFFF
            out.append(dec_entry(j, b[off:off + ln]))
            off += ln
        if off != len(b):
            raise DecodeError('trailing bytes')
        return ('a', out)
    if ty == OBJECT_TAG:
        if len(b) < 4 + 8 * n:
            raise DecodeError('short entries')
        js = struct.unpack('>%dI' % (2 * n), b[4:4 + 8 * n])
        off = 4 + 8 * n
        keys = []
        for j in js[:n]:
            if j & 0x70000000 != J_STRING:
                raise DecodeError('key type')
            ln = j & 0x0FFFFFFF
            keys.append(bytes(b[off:off + ln]))
            off += ln
        out = []
        for k, j in zip(keys, js[n:]):
            ln = j & 0x0FFFFFFF
            out.append((k, dec_entry(j, b[off:off + ln])))
            off += ln
        if off != len(b):
            raise DecodeError('trailing bytes')
        if any(keys[i] >= keys[i + 1] for i in range(len(keys) - 1)):
            raise DecodeError('keys not sorted/unique')
        return ('o', out)
    raise DecodeError('header')


def dec(b):
    """canonical document -> value; raises DecodeError if the bytes are not a canonical JSONB document"""
    b = bytes(b)
    if len(b) < 4:
        raise DecodeError('short')
    h = struct.unpack('>I', b[:4])[0]
    if h == SCALAR_TAG:
        if len(b) < 8:
            raise DecodeError('short scalar')
        j = struct.unpack('>I', b[4:8])[0]
        if j & 0x70000000 == J_CONTAINER:
            raise DecodeError('container entry under scalar header')
        v = dec_entry(j, b[8:])
    else:
        v = dec_container(b)
    if enc(v) != b:
        raise DecodeError('not the canonical encoding of its value')
    return v


def unhexarg(s):
    return b'' if s == '-' else bytes.fromhex(s)
