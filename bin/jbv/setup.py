import sys
from . import core


def main():
    ok, msg = core.tie_translate()
    print('translator:', msg)
    if not ok:
        sys.exit(1)
    stale = core.tie_stale()
    if stale:
        # not a setup failure: the committed definitions are in place for these names, bin/check reports the tie broken for
        # the properties that depend on them
        print('translator: %d anchored name(s) could not be translated from %s and keep their committed definition: %s' % (
            len(stale), core.REPO, ' '.join(sorted(stale))))
    # the translator's own mutation self-test: a single-token change of an anchored source expression must change the output
    rc, out = core.sh([sys.executable, core.os.path.join(core.VERIF, 'tools', 'translate_consts.py'), '--repo', core.REPO, '--selftest'])
    print('translator self-test:', out.strip().split('\n')[-1])
    if rc != 0:
        print(out[-3000:])
        sys.exit(1)
    rc, out = core.coq_build()
    print(out[-3000:])
    if rc != 0:
        print('coq build failed')
        sys.exit(1)
    rc, out = core.ocaml_build()
    print(out[-2000:])
    if rc != 0:
        sys.exit(1)
    rc, out = core.harness_build()
    print(out[-2000:])
    if rc != 0:
        sys.exit(1)
    bad = core.hygiene()
    if bad:
        print('hygiene:', bad)
        sys.exit(1)
    print('setup ok')


if __name__ == '__main__':
    main()
