"""check.py — the per-property check driver (DESIGN.md §2.3)."""
import os, sys, time, json, re, importlib, hashlib
from . import core, gen


class Case:
    __slots__ = ('id', 'line', 'kind', 'meta', 'diff')

    def __init__(self, cid, line, kind='corr', meta=None, diff=True):
        self.id, self.line, self.kind, self.meta, self.diff = cid, line, kind, meta, diff


class Ctx:
    def __init__(self, pid, tier, seed):
        self.pid, self.tier, self.seed = pid, tier, seed
        self.g = gen.Gen(seed)
        self.rng = self.g.rng
        self.cases = []
        self.n = 0
        self.violations = []      # dicts: what, case(s), expected, observed, theorem
        self.known_hits = {}      # key -> count of generated cases inside an open known class
        self.stats = {}
        self.nontrivial = set()
        self.samples = []
        self.impl = {}
        self.model = {}
        self.quick = tier == 'quick'
        self.phase = {}           # wall seconds per phase (evidence: stats.phase_seconds)

    def add(self, op_and_args, kind='corr', meta=None, diff=True):
        self.n += 1
        cid = 'c%d' % self.n
        c = Case(cid, op_and_args, kind, meta, diff)
        self.cases.append(c)
        return c

    def scale(self, quick, thorough):
        return quick if self.quick else thorough

    def violate(self, what, **kw):
        d = {'what': what}
        d.update(kw)
        self.violations.append(d)

    def count(self, key, sub=None, n=1):
        if sub is None:
            self.stats[key] = self.stats.get(key, 0) + n
        else:
            d = self.stats.setdefault(key, {})
            d[str(sub)] = d.get(str(sub), 0) + n


def trivial_outcome(o):
    """an outcome that says nothing about the op (absent / empty / error), or that is no result at all (a panic, a dead or
    killed process, a case the machinery lost)"""
    return (o in ('ok =none', 'ok -', 'ok =false', 'err Other', 'ok [', 'ok []') or o.startswith('err ') or crash_outcome(o)
            or core.infra_outcome(o))


def crash_outcome(o):
    """the call did not return: a panic, a process death (abort:<signal>), or no end within the deadline"""
    return o == 'panic' or o.startswith('abort:') or o == 'timeout' or o == 'model-stack-overflow'


# kinds (set by the generators) whose input is OUTSIDE the precondition of the property: corrupt JSONB buffers handed to a byte
# walker ('malformed'), JSON text that does not parse handed to compare / convert_to_comparable ('invalid-text'), a key that is
# not UTF-8 against a text document ('text-keys').  On these a panic of the implementation is not by itself a violation (the
# model must show the same panic: the diff decides).  On EVERY other kind -- valid documents, and all inputs of the parsers and
# decoders, whose properties say "never panics" -- a panic / death / hang of the implementation is a violation whatever the model
# says.  A module may override with INVALID_INPUT_KINDS.
INVALID_INPUT_KINDS = frozenset(['malformed', 'invalid-text', 'text-keys'])


def infra_fail(msg):
    print('INFRA-ERROR: ' + msg)
    sys.exit(2)


def run_both(ctx, cases):
    lines = ['%s %s' % (c.id, c.line) for c in cases]
    t = time.time()
    impl = core.run_cases(core.HARNESS_BIN, lines, ctx.pid + '-impl')
    ctx.phase['run_implementation'] = round(time.time() - t, 1)
    need_model = [l for l, c in zip(lines, cases) if c.diff]
    t = time.time()
    model = core.run_cases(core.DRIVER_BIN, need_model, ctx.pid + '-model') if need_model else {}
    ctx.phase['run_model'] = round(time.time() - t, 1)
    return impl, model


def main(argv=None):
    argv = argv or sys.argv[1:]
    pid = argv[0]
    tier = 'quick'
    replay = None
    i = 1
    while i < len(argv):
        if argv[i] == '--tier':
            tier = argv[i + 1]
            i += 2
        elif argv[i] == '--replay':
            replay = argv[i + 1]
            i += 2
        else:
            i += 1
    tier = os.environ.get('VERIF_TIER', tier)
    if tier not in ('quick', 'thorough'):
        tier = 'quick'
    seed = int(os.environ.get('VERIF_SEED', '20261001'))
    t0 = time.time()
    mod = importlib.import_module('jbv.props.' + pid)
    ctx = Ctx(pid, tier, seed)
    broken = []   # broken obligations / ties: (kind, detail)

    # 1. tie (T)
    ok, msg = core.tie_translate()
    if not ok:
        broken.append(('translator', msg))       # no definition could be produced at all: every property is affected
    else:
        # anchors the translator could not translate keep their committed (baseline) definition, so everything still builds
        # and the search below runs against the last known-good model; the tie is reported broken only for the properties
        # whose Props file (transitive `From JB Require` closure) mentions one of those names
        stale = core.tie_stale()
        hits = core.stale_hits(pid, stale)
        if hits:
            broken.append(('translator', 'tie broken for %s: %s' % (pid, '; '.join(
                '%s (used in %s): %s' % (n, ', '.join(hits[n][:4]), stale[n]['error']) for n in sorted(hits)))))
            ctx.stats['translator_stale'] = sorted(hits)
        if stale:
            ctx.stats['translator_stale_all'] = sorted(stale)
            core.log('[%s] translator: stale names %s; this property depends on: %s' % (pid, ' '.join(sorted(stale)), ' '.join(sorted(hits)) or 'none'))
    # 2. proofs
    rc, out = core.coq_build()
    if rc != 0:
        m = re.findall(r'File "\./([^"]+)", line (\d+)[^\n]*\n(?:[^\n]*\n){0,6}?Error', out)
        core.log('[%s] coq build had failures: %s' % (pid, m[:5]))
    ps = core.props_status(pid)
    if not ps['ok']:
        broken.append(('proof', 'Props/%s.v does not check: %s %s%s%s' % (
            pid, ps.get('failed_at', ''), ps.get('bad_axioms', ''),
            (' theorems without a following Print Assumptions: %s' % ' '.join(ps['missing_print_assumptions'])) if ps.get('missing_print_assumptions') else '',
            (' %d Print Assumptions without an answer' % ps['print_assumptions_unanswered']) if ps.get('print_assumptions_unanswered') else '')))
    hy = core.hygiene()
    if hy:
        broken.append(('hygiene', '; '.join(hy[:5])))
    if tier == 'thorough' and ps['ok']:
        # the independent checker re-checks the make-built Props/<pid>.vo and everything it depends on
        crc, cout = core.sh('timeout 3000 coqchk -o -silent -Q %s JB JB.Props.%s' % (core.COQ, pid), cwd=core.COQ, timeout=3100)
        ctx.stats['coqchk'] = 'ok' if crc == 0 else 'rc=%d' % crc
        ctx.stats['coqchk_tail'] = cout[-600:]
        if crc != 0:
            broken.append(('coqchk', cout[-400:]))
    # 3. build both sides
    rc, out = core.ocaml_build()
    if rc != 0:
        print('INFRA-ERROR: model driver does not build\n' + out[-3000:])
        sys.exit(2)
    rc, out = core.harness_build()
    if rc != 0:
        print('INFRA-ERROR: harness does not build against /repo\n' + out[-3000:])
        sys.exit(2)

    # 4. known findings (open ones are replayed; fixed ones are just corpus)
    known = [k for k in core.load_known() if k['property'] == pid]
    open_known = [k for k in known if k['status'] == 'open']
    ctx.open_classes = set(k.get('class') for k in open_known if k.get('class'))
    known_lines = []

    # 5. corpus + generated cases
    if replay:
        rp = json.load(open(replay))
        for l in rp.get('cases', []):
            ctx.add(l, kind='replay')
    ctx.phase['build_and_proofs'] = round(time.time() - t0, 1)
    t1 = time.time()
    mod.generate(ctx)
    ctx.phase['generate'] = round(time.time() - t1, 1)
    # the sizes this check reaches (second review, H2): over every value the generator encoded, and the largest single argument
    # of a case line (hex: a buffer or a text)
    sm = dict(gen.SIZE_MAX)
    sm['largest_case_argument_bytes'] = max([len(a) // 2 for c in ctx.cases for f in c.line.split(' ')[1:] if len(f) > 64 for a in f.split(',')] or [0])
    sm.update(ctx.stats.get('size_maxima', {}))
    ctx.stats['size_maxima'] = sm
    impl, model = run_both(ctx, ctx.cases)
    ctx.impl, ctx.model = impl, model
    invalid_kinds = getattr(mod, 'INVALID_INPUT_KINDS', INVALID_INPUT_KINDS)

    # generic correspondence diff
    evals = 0
    crash_cases = set()
    for c in ctx.cases:
        io = impl.get(c.id, 'missing')
        evals += 1
        # a case without an outcome, or one the harness could not read, is a failure of the machinery: never agreement
        if core.infra_outcome(io):
            infra_fail('case %s %s -> implementation side: %r' % (c.id, c.line[:300], io))
        if c.diff:
            mo = model.get(c.id, 'missing')
            if core.infra_outcome(mo) or mo == 'timeout' or mo.startswith('abort:'):
                infra_fail('case %s %s -> model side: %r (impl %r)' % (c.id, c.line[:300], mo, io[:200]))
        # the generic rule (independent of the model and of the per-property judge): the implementation panics, dies or hangs
        # on an input that is not of an invalid-input kind
        if crash_outcome(io) and c.kind not in invalid_kinds:
            crash_cases.add(c.line)
            ctx.violate('the implementation panics, dies or does not return on an input that is not corrupt (kind=%s)' % c.kind,
                        case=c.line, kind=c.kind, observed=io, rule='generic: check.py')
        if crash_outcome(io):
            ctx.count('crash_outcomes_by_kind', '%s:%s' % (c.kind, io))
        if c.diff:
            if hasattr(mod, 'normalise_outcome'):
                io_n, mo_n = mod.normalise_outcome(c, io), mod.normalise_outcome(c, mo)
            else:
                io_n, mo_n = io, mo
            if io_n != mo_n:
                cls = mod.classify(ctx, c, io, mo) if hasattr(mod, 'classify') else None
                if cls and cls in ctx.open_classes:
                    ctx.known_hits[cls] = ctx.known_hits.get(cls, 0) + 1
                else:
                    ctx.violate('model and implementation disagree', case=c.line, kind=c.kind, expected_by_model=mo,
                                observed=io, theorem=getattr(mod, 'SPEC_THEOREM', None))
        if not trivial_outcome(io):
            ctx.nontrivial.add(hashlib.sha1(c.line.encode()).hexdigest())
        ctx.count('ops', c.line.split(' ', 1)[0].split('@')[0])
        ctx.count('outcome_class', io.split(' ', 1)[0])
    # property-specific direct checks on the implementation (the "search")
    if hasattr(mod, 'judge'):
        t1 = time.time()
        try:
            mod.judge(ctx)
        except core.InfraError as ex:
            infra_fail(str(ex))
        ctx.phase['judge'] = round(time.time() - t1, 1)
    ctx.stats['phase_seconds'] = ctx.phase
    ctx.stats['runner'] = dict(core.RUN_STATS)

    # 6. replay witnesses of open known findings
    # a witness that fails must fail THE WAY THE FINDING DOES (`known_observed`, a regex): a finding recorded as a stack-overflow
    # death that now shows as a panic, or a key collision that now shows as an error, is a different defect and is a violation
    for k in open_known:
        still = False
        for w in k.get('witness', []):
            o = core.run_one(core.HARNESS_BIN, 'w ' + w['case'])
            if core.infra_outcome(o):
                infra_fail('witness of known finding %s: %s -> %r' % (k['key'], w['case'][:200], o))
            if not re.fullmatch(w['property_requires'], o):
                still = True
                ko = w.get('known_observed')
                if ko is None:
                    ctx.violate('an open known finding has no `known_observed` pattern: its witness cannot be told from a new failure',
                                case=w['case'][:300], observed=o[:300], finding=k['key'])
                elif not re.fullmatch(ko, o):
                    ctx.violate('the witness of an open known finding fails in a DIFFERENT way than the finding records: ' + k['what_fails'],
                                case=w['case'][:300], expected='%s (what the property requires) or %s (the known finding)' % (w['property_requires'], ko),
                                observed=o[:300], finding=k['key'])
        if still:
            known_lines.append('KNOWN-FINDING: property=%s %s [%s]' % (pid, k['what_fails'], k['key']))
        else:
            known_lines.append('NOTE: known finding %s no longer reproduces on this tree' % k['key'])

    # 6b. witnesses of fixed findings run with the corpus: a failure is a violation like any other
    for k in known:
        if k['status'] != 'fixed':
            continue
        for w in k.get('witness', []):
            o = core.run_one(core.HARNESS_BIN, 'w ' + w['case'])
            if core.infra_outcome(o):
                infra_fail('witness of fixed finding %s: %s -> %r' % (k['key'], w['case'][:200], o))
            if not re.fullmatch(w['property_requires'], o):
                ctx.violate('a repaired defect is back: ' + k['what_fails'], case=w['case'], expected=w['property_requires'], observed=o, finding=k['key'])

    # 7. verdict
    nviol = len(ctx.violations)
    if ctx.violations:
        by = {}
        for v in ctx.violations:
            by[v['what'][:160]] = by.get(v['what'][:160], 0) + 1
        ctx.stats['violations_by_what'] = by          # the replay file keeps the first 20 only
    lines_out = []
    if ctx.violations:
        rp = core.write_replay(pid, 'violation', {
            'property': pid, 'seed': seed, 'tier': tier, 'violations': ctx.violations[:20],
            'cases': [v['case'] for v in ctx.violations[:20] if isinstance(v.get('case'), str)],
            'broken_obligations': broken})
        lines_out.append('VIOLATION property=%s replay=%s' % (pid, rp))
    elif broken:
        rp = core.write_replay(pid, 'unproved', {
            'property': pid, 'seed': seed, 'tier': tier, 'broken_obligations': broken,
            'note': 'a proof obligation or the tie to the source no longer checks; the search over %d cases found no '
                    'input on which the property itself fails' % evals, 'proof_log': ps.get('log', '')[-2000:]})
        lines_out.append('VIOLATION property=%s replay=%s no-failing-input-found' % (pid, rp))
        nviol = 1

    # 8. evidence
    wall = time.time() - t0
    samples = [c.line for c in ctx.cases[:3]] + [c.line for c in ctx.cases[len(ctx.cases) // 2: len(ctx.cases) // 2 + 2]]
    cov = {
        'obligations': ps['obligations'], 'discharged': ps['discharged'],
        'checker_cmd': 'make -C coq (coqc 8.16.1, full .vo) ; coqc -Q coq JB coq/Props/%s.v' % pid,
        'trusted_base': mod.TRUSTED if hasattr(mod, 'TRUSTED') else [],
        'theorems': ps['theorems'], 'axioms_reported': ps['axioms'],
        'evaluations': evals, 'distinct_nontrivial': len(ctx.nontrivial),
        'rule': getattr(mod, 'RULE', 'generated cases') + ' | counted: distinct case lines (op + arguments) whose implementation outcome is not none / empty / false / error / panic / abort / timeout',
        'samples': samples or ['(no cases)'],
        'broken_obligations': ['%s: %s' % b for b in broken],
        'known_class_hits': ctx.known_hits, 'stats': ctx.stats,
        'translator': msg,
    }
    core.write_evidence(pid, tier, seed, cov, wall, nviol, getattr(mod, 'ASSUMPTIONS', []))
    for l in known_lines:
        print(l)
    for l in lines_out:
        print(l)
    print('%s %s: %d cases, %d obligations (%d discharged), %d violations, %.1fs' % (
        pid, tier, evals, ps['obligations'], ps['discharged'], nviol, wall))
    sys.exit(1 if nviol else 0)


if __name__ == '__main__':
    main()
