"""core.py — build steps, running both sides, diffing, evidence, violations.  See DESIGN.md §2.3."""
import os, sys, json, subprocess, time, hashlib, fcntl, re, shutil

VERIF = os.path.dirname(os.path.dirname(os.path.dirname(os.path.abspath(__file__))))
REPO = os.environ.get('JB_REPO', '/repo')
WORK = os.path.join(VERIF, 'work')
COQ = os.path.join(VERIF, 'coq')
HARNESS_BIN = os.environ.get('JB_HARNESS_BIN') or os.path.join(WORK, 'harness-target', 'debug', 'jbh')   # override: coverage-instrumented build (tools/coverage.sh)
HARNESS_BIN_REL = os.path.join(WORK, 'harness-target', 'release', 'jbh')
DRIVER_BIN = os.path.join(WORK, 'ocaml', 'driver')
NCPU = min(16, os.cpu_count() or 4)

ENV = dict(os.environ)
ENV.update({'CARGO_NET_OFFLINE': 'true', 'RUSTFLAGS': '--cfg jsonb_verif', 'CARGO_TERM_COLOR': 'never'})


def log(*a):
    sys.stderr.write(' '.join(str(x) for x in a) + '\n')
    sys.stderr.flush()


class Lock:
    def __init__(self, name):
        os.makedirs(WORK, exist_ok=True)
        self.path = os.path.join(WORK, name + '.lock')

    def __enter__(self):
        self.f = open(self.path, 'w')
        fcntl.flock(self.f, fcntl.LOCK_EX)
        return self

    def __exit__(self, *a):
        fcntl.flock(self.f, fcntl.LOCK_UN)
        self.f.close()


def sh(cmd, cwd=None, timeout=3600, env=None):
    p = subprocess.run(cmd, shell=isinstance(cmd, str), cwd=cwd, stdout=subprocess.PIPE, stderr=subprocess.STDOUT,
                       timeout=timeout, env=env or ENV)
    return p.returncode, p.stdout.decode('utf-8', 'replace')


# ------------------------------------------------------------------------------------------ builds
def tie_translate():
    """Tie (T): regenerate gen/Constants.v from the working tree. Returns (ok, message).
    ok = the translator ran (exit 0).  It may still have left some names STALE (anchors it could not translate, for which it
    re-emitted the committed baseline definition): see tie_stale() / stale_hits()."""
    rc, out = sh([sys.executable, os.path.join(VERIF, 'tools', 'translate_consts.py'), '--repo', REPO, '--out',
                  os.path.join(COQ, 'gen', 'Constants.v')])
    return rc == 0, out.strip()


STALE_JSON = os.path.join(COQ, 'gen', 'stale.json')


def tie_stale():
    """names the last translator run could not translate: dict name -> {'error': .., 'search': [names to look for in coq/]}"""
    if not os.path.exists(STALE_JSON):
        return {}
    try:
        rep = json.load(open(STALE_JSON))
    except (OSError, ValueError):
        return {}
    out = {}
    for n, err in rep.get('stale', {}).items():
        out[n] = {'error': err, 'search': [n] + list(rep.get('affects', {}).get(n, []))}
    return out


_CLOSURE_CACHE = {}


def coq_imports(path):
    """JB modules a .v file requires: list of file paths (relative to coq/)"""
    try:
        txt = strip_coq_comments(open(os.path.join(COQ, path)).read())
    except OSError:
        return []
    files = [l.strip() for l in open(os.path.join(COQ, '_CoqProject')).read().split('\n') if l.strip().endswith('.v')]
    by_mod = {}
    for f in files:
        by_mod.setdefault(os.path.basename(f)[:-2], []).append(f)
        by_mod.setdefault(f[:-2].replace('/', '.'), []).append(f)
    out = []
    for m in re.finditer(r'\bFrom\s+JB\s+Require\b', txt):
        # the sentence ends at the first `.` that is followed by white space (module names may be dotted: Props.C01)
        e = re.compile(r'\.(?:\s|$)').search(txt, m.end())
        words = txt[m.end():e.start() if e else len(txt)].split()
        for mod in words:
            if mod in ('Import', 'Export'):
                continue
            for f in by_mod.get(mod, []):
                if f not in out:
                    out.append(f)
    return out


def props_closure(pid):
    """files (relative to coq/) in the transitive `From JB Require` closure of Props/<pid>.v, itself included.
    Cached in work/deps.json, keyed by the modification times of the files of the closure and of _CoqProject."""
    root = os.path.join('Props', pid + '.v')
    if pid in _CLOSURE_CACHE:
        return _CLOSURE_CACHE[pid]
    cache_p = os.path.join(WORK, 'deps.json')

    def stamp(files):
        return [[f, os.path.getmtime(os.path.join(COQ, f)) if os.path.exists(os.path.join(COQ, f)) else 0] for f in files + ['_CoqProject']]
    try:
        cache = json.load(open(cache_p))
    except (OSError, ValueError):
        cache = {}
    ent = cache.get(pid)
    if ent and ent.get('stamp') == stamp(ent.get('files', [])):
        _CLOSURE_CACHE[pid] = ent['files']
        return ent['files']
    seen, todo = [], [root]
    while todo:
        f = todo.pop()
        if f in seen:
            continue
        seen.append(f)
        todo.extend(coq_imports(f))
    seen.sort()
    cache[pid] = {'files': seen, 'stamp': stamp(seen)}
    try:
        os.makedirs(WORK, exist_ok=True)
        with open(cache_p, 'w') as fo:
            json.dump(cache, fo)
    except OSError:
        pass
    _CLOSURE_CACHE[pid] = seen
    return seen


def stale_hits(pid, stale):
    """which stale names does property pid depend on?  dict name -> [files of the import closure of Props/<pid>.v that mention it
    (or a name it affects; NAME_SAFE counts as NAME)].  The generated file itself is not searched."""
    hits = {}
    if not stale:
        return hits
    files = [f for f in props_closure(pid) if f != os.path.join('gen', 'Constants.v')]
    texts = {}
    for f in files:
        try:
            texts[f] = open(os.path.join(COQ, f)).read()
        except OSError:
            pass
    for n, info in stale.items():
        rx = re.compile(r'(?<![A-Za-z0-9_\'])(?:' + '|'.join(re.escape(x) for x in info['search']) + r')(?:_SAFE)?(?![A-Za-z0-9_\'])')
        where = [f for f, t in texts.items() if rx.search(t)]
        if where:
            hits[n] = where
    return hits


def coq_build(targets=None):
    """Full .vo build of the Coq project (make -k).  Returns (rc, output)."""
    with Lock('coq'):
        if not os.path.exists(os.path.join(COQ, 'Makefile')) or \
                os.path.getmtime(os.path.join(COQ, '_CoqProject')) > os.path.getmtime(os.path.join(COQ, 'Makefile')):
            rc, out = sh('coq_makefile -f _CoqProject -o Makefile', cwd=COQ)
            if rc != 0:
                return rc, out
        t = ' '.join(targets) if targets else ''
        rc, out = sh('timeout 3000 make -k -j%d %s' % (NCPU, t), cwd=COQ, timeout=3100)
        # extraction output lands in coq/: move it
        ex = os.path.join(COQ, 'extracted')
        os.makedirs(ex, exist_ok=True)
        for f in ('model.ml', 'model.mli'):
            src = os.path.join(COQ, f)
            if os.path.exists(src):
                shutil.move(src, os.path.join(ex, f))
        return rc, out


def ocaml_build():
    with Lock('ocaml'):
        src = [os.path.join(COQ, 'extracted', 'model.ml'), os.path.join(VERIF, 'ocaml', 'conv.ml'),
               os.path.join(VERIF, 'ocaml', 'ops.ml'), os.path.join(VERIF, 'ocaml', 'driver.ml')]
        for s in src:
            if not os.path.exists(s):
                return 1, 'missing ' + s
        if os.path.exists(DRIVER_BIN) and all(os.path.getmtime(s) <= os.path.getmtime(DRIVER_BIN) for s in src):
            return 0, 'up to date'
        return sh(['sh', os.path.join(VERIF, 'ocaml', 'build.sh')])


def harness_build(release=False):
    """cargo build of the harness against /repo's current working tree (always run: cargo decides)."""
    with Lock('cargo'):
        cmd = 'cargo build --offline' + (' --release' if release else '')
        return sh(cmd, cwd=os.path.join(VERIF, 'harness'), timeout=1800)


def hygiene():
    """No Admitted/admit/Axiom/... anywhere in the development. Returns list of offending lines."""
    bad = []
    pat = re.compile(r'\b(Admitted|admit|Axiom|Axioms|Parameter|Parameters|Conjecture|Admit Obligations|bypass_check)\b|Unset\s+Guard|Unset\s+Positivity|Unset\s+Universe|type-in-type|impredicative-set')
    for root, _, files in os.walk(COQ):
        for f in files:
            if f.endswith('.v'):
                p = os.path.join(root, f)
                txt = open(p).read()
                txt_nc = strip_coq_comments(txt)
                for i, line in enumerate(txt_nc.split('\n')):
                    if pat.search(line):
                        bad.append('%s:%d: %s' % (os.path.relpath(p, VERIF), i + 1, line.strip()))
    for f in ('_CoqProject',):
        txt = open(os.path.join(COQ, f)).read()
        if 'type-in-type' in txt or 'impredicative' in txt:
            bad.append('_CoqProject: forbidden flag')
    return bad


def strip_coq_comments(txt):
    out = []
    depth = 0
    i = 0
    while i < len(txt):
        if txt.startswith('(*', i):
            depth += 1
            i += 2
        elif txt.startswith('*)', i) and depth > 0:
            depth -= 1
            i += 2
        else:
            if depth == 0:
                out.append(txt[i])
            elif txt[i] == '\n':
                out.append('\n')
            i += 1
    return ''.join(out)


ALLOWED_AXIOMS = {
    # standard-library axioms that may appear (named in DESIGN §7); anything else is a broken obligation
    'ClassicalDedekindReals.sig_forall_dec', 'ClassicalDedekindReals.sig_not_dec',
    'FunctionalExtensionality.functional_extensionality_dep', 'Classical_Prop.classic',
}


def props_status(pid):
    """Compile Props/<pid>.v against the built tree, capturing Print Assumptions.
    Returns dict(obligations, discharged, theorems, axioms, ok, log)."""
    src = os.path.join(COQ, 'Props', pid + '.v')
    res = {'obligations': 0, 'discharged': 0, 'theorems': [], 'axioms': [], 'ok': False, 'log': ''}
    if not os.path.exists(src):
        res['log'] = 'no Props file'
        return res
    txt = strip_coq_comments(open(src).read())
    thms = re.findall(r'^\s*(?:Theorem|Lemma|Corollary|Fact|Remark|Proposition|Example)\s+([A-Za-z0-9_\']+)', txt, flags=re.M)
    res['theorems'] = thms
    res['obligations'] = len(thms)
    # every Theorem / Lemma / Corollary (an Example is a computed instance, not an obligation) must be FOLLOWED by a
    # `Print Assumptions <name>.` -- otherwise an axiom it depends on would go unseen
    missing = []
    for m in re.finditer(r'^\s*(Theorem|Lemma|Corollary|Fact|Remark|Proposition)\s+([A-Za-z0-9_\']+)', txt, flags=re.M):
        if not re.search(r'Print\s+Assumptions\s+' + re.escape(m.group(2)) + r'\s*\.(?:\s|$)', txt[m.end():]):
            missing.append(m.group(2))
    res['missing_print_assumptions'] = missing
    res['print_assumptions_requested'] = len(re.findall(r'Print\s+Assumptions\s+[A-Za-z0-9_\'\.]+?\s*\.(?:\s|$)', txt))
    outdir = os.path.join(WORK, 'props')
    os.makedirs(outdir, exist_ok=True)
    with Lock('coq'):
        rc, out = sh('timeout 900 coqc -Q . JB -o %s Props/%s.v' % (os.path.join(outdir, pid + '.vo'), pid), cwd=COQ,
                     timeout=1000)
    res['log'] = out[-4000:]
    if rc != 0:
        m = re.search(r'File "([^"]+)", line (\d+)', out)
        res['failed_at'] = m.group(0) if m else 'unknown'
        return res
    # Print Assumptions output: either "Closed under the global context" or "Axioms:" followed by names
    axioms = []
    for blk in re.split(r'\n(?=Closed under|Axioms:)', out):
        if blk.startswith('Axioms:'):
            for line in blk.split('\n')[1:]:
                # a name starts in column 0; a long type continues on indented lines ("name\n  : type")
                m = re.match(r'^([A-Za-z_][A-Za-z0-9_\.\']*)\s*(?::|$)', line)
                if m:
                    axioms.append(m.group(1))
    res['axioms'] = sorted(set(axioms))
    n_closed = len(re.findall(r'Closed under the global context', out)) + len(re.findall(r'^Axioms:', out, flags=re.M))
    res['print_assumptions'] = n_closed
    bad = [a for a in res['axioms'] if a not in ALLOWED_AXIOMS]
    res['bad_axioms'] = bad
    # every requested Print Assumptions must have produced an answer (an answer that went missing would hide an axiom)
    res['print_assumptions_unanswered'] = max(0, res['print_assumptions_requested'] - n_closed)
    res['discharged'] = len(thms) - len(missing) if not bad else 0
    res['ok'] = (not bad) and len(thms) > 0 and not missing and res['print_assumptions_unanswered'] == 0
    return res


# ------------------------------------------------------------------------------------------ running
class InfraError(Exception):
    """the check machinery itself failed (a case without an outcome, a harness that could not read its arguments, a model
    that did not finish): the check must FAIL loudly (INFRA-ERROR, exit 2), never count such a case as agreement"""


def _launch(binary, part, fn):
    with open(fn, 'w') as f:
        f.write('\n'.join(part))
        f.write('\n')
    # outcomes go to a file, not a pipe: with pipes the shards read later would block on a full pipe and the run would be serial
    fo = open(fn + '.out', 'wb')
    p = subprocess.Popen([binary, fn], stdout=fo, stderr=subprocess.DEVNULL)
    fo.close()
    return p


def _collect(fn):
    out = {}
    try:
        with open(fn + '.out', 'rb') as fo:
            data = fo.read()
    except OSError:
        data = b''
    for f in (fn + '.out', fn):
        try:
            os.unlink(f)
        except OSError:
            pass
    lines = data.decode('utf-8', 'replace').split('\n')
    # both binaries write and flush one whole line per outcome, so only the LAST line can be cut short by a death
    if lines and lines[-1] != '':
        lines = lines[:-1]
    for line in lines:
        if not line:
            continue
        i = line.find(' ')
        if i > 0:
            out[line[:i]] = line[i + 1:]
    return out


MAX_TIMEOUTS_PER_SHARD = 2
RUN_STATS = {'reruns': 0, 'deaths': 0, 'timeouts': 0}


def run_cases(binary, lines, tag, shards=None, timeout=1800):
    """Run a list of case lines through a binary, sharded.  Returns dict id -> outcome string; EVERY id gets an outcome.

    A shard whose process dies (abort, stack overflow, allocation failure) or is killed at the deadline has produced the
    outcomes of the cases before the fatal one (both binaries flush every line).  The first case without an outcome is the
    fatal one: it gets `abort:<signal or exit code>` (or `timeout`), and the REMAINING cases of the shard are run again in a
    fresh process, until every case of the shard has an outcome.  After MAX_TIMEOUTS_PER_SHARD deadline kills in one shard
    its remaining cases are all marked `timeout` (an explicit outcome that check.py refuses to take for agreement)."""
    d = os.path.join(WORK, 'cases')
    os.makedirs(d, exist_ok=True)
    shards = shards or (NCPU if len(lines) > 400 else 1)
    uid = '%s-%d' % (tag, os.getpid())
    res = {}
    # work items: (shard number, generation, lines, timeouts so far)
    todo = [(k, 0, lines[k::shards], 0) for k in range(shards) if lines[k::shards]]
    while todo:
        procs = []
        for k, g, part, nto in todo:
            fn = os.path.join(d, '%s-%d-%d.cases' % (uid, k, g))
            procs.append((_launch(binary, part, fn), fn, k, g, part, nto))
        todo = []
        deadline = time.time() + timeout
        for p, fn, k, g, part, nto in procs:
            timed_out = False
            try:
                p.wait(timeout=max(1, deadline - time.time()))
            except subprocess.TimeoutExpired:
                p.kill()
                p.wait()
                timed_out = True
            got = _collect(fn)
            res.update(got)
            rest = [c for c in part if c.split(' ', 1)[0] not in got]
            if not rest:
                continue
            if p.returncode == 0 and not timed_out:
                # the process ended normally and still skipped cases (empty / comment lines): they stay without an outcome
                continue
            first = rest[0].split(' ', 1)[0]
            if timed_out:
                RUN_STATS['timeouts'] += 1
                res[first] = 'timeout'
                nto += 1
                if nto >= MAX_TIMEOUTS_PER_SHARD:
                    for c in rest[1:]:
                        res[c.split(' ', 1)[0]] = 'timeout'
                    continue
            else:
                RUN_STATS['deaths'] += 1
                res[first] = 'abort:%s' % (-p.returncode if p.returncode < 0 else p.returncode)
            if rest[1:]:
                RUN_STATS['reruns'] += 1
                todo.append((k, g + 1, rest[1:], nto))
    return res


def require_outcomes(res, ids, what):
    """raise InfraError unless every id has a real outcome in res (dict id -> outcome)"""
    bad = [(i, res.get(i, 'missing')) for i in ids if infra_outcome(res.get(i, 'missing'))]
    if bad:
        raise InfraError('%s: %d case(s) without a usable outcome, e.g. %s -> %s' % (what, len(bad), bad[0][0], bad[0][1]))


def infra_outcome(o):
    """an outcome that says the machinery failed, not the code under test"""
    return o == 'missing' or o.startswith('harness-error') or o.startswith('unknown-op') or o.startswith('driver-failure')


# what a stack overflow looks like from outside: Rust's guard-page handler prints a message and aborts (SIGABRT = 6); without the
# handler the process takes the SIGSEGV (11).  Any other death (SIGKILL by the OOM killer, SIGILL, SIGBUS, a non-zero exit code such
# as 101 from a panic that escaped) is NOT taken for a stack overflow.
STACK_OVERFLOW_DEATHS = ('abort:6', 'abort:11')


def run_one(binary, line, timeout=120):
    """Run a single case in its own process; returns the outcome string ('abort:<sig>' if it dies)."""
    def limit():
        # a fixed 8 MiB main-thread stack, so that the depth at which recursion overflows does not depend on the caller's ulimit
        import resource
        try:
            resource.setrlimit(resource.RLIMIT_STACK, (8 << 20, resource.getrlimit(resource.RLIMIT_STACK)[1]))
        except (ValueError, OSError):
            pass
    p = subprocess.run([binary, '-'], input=(line + '\n').encode(), stdout=subprocess.PIPE, stderr=subprocess.PIPE,
                       timeout=timeout, preexec_fn=limit)
    out = p.stdout.decode('utf-8', 'replace').strip()
    if p.returncode != 0 or not out:
        return 'abort:%s' % (-p.returncode if p.returncode < 0 else p.returncode)
    return out.split(' ', 1)[1]


# ------------------------------------------------------------------------------------------ evidence
def write_evidence(pid, tier, seed, coverage, wall, violations, assumptions):
    os.makedirs(os.path.join(VERIF, 'evidence'), exist_ok=True)
    ev = {'property_id': pid, 'tier': tier, 'seed': seed, 'level': 'proof', 'coverage': coverage,
          'assumptions': assumptions, 'wall_s': round(wall, 2), 'violations': violations}
    with open(os.path.join(VERIF, 'evidence', pid + '.json'), 'w') as f:
        json.dump(ev, f, indent=1, sort_keys=True)
        f.write('\n')


def write_replay(pid, name, obj):
    d = os.path.join(VERIF, 'replays')
    os.makedirs(d, exist_ok=True)
    h = hashlib.sha1(json.dumps(obj, sort_keys=True).encode()).hexdigest()[:10]
    p = os.path.join(d, '%s-%s-%s.json' % (pid, name, h))
    with open(p, 'w') as f:
        json.dump(obj, f, indent=1, sort_keys=True)
        f.write('\n')
    return p


def load_known():
    p = os.path.join(VERIF, 'known_findings.json')
    if not os.path.exists(p):
        return []
    return json.load(open(p))['findings']
