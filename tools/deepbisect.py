#!/usr/bin/env python3
"""deepbisect.py — for each deep-recursion entry point, the smallest nesting depth at which the harness child dies
(8 MiB stack, the harness build of this tree).  Used once to set min_depth in known_findings.json; not run by checks."""
import sys, json, os
ROOT = os.path.dirname(os.path.dirname(os.path.abspath(__file__)))
sys.path.insert(0, os.path.join(ROOT, 'bin'))
from jbv import core
subs = sys.argv[1:] or ['parse', 'parse_drop', 'decode', 'encode', 'to_string', 'compare', 'comparable', 'contains', 'strip_nulls', 'to_serde_json', 'delete_by_keypath']
OUT = os.path.join(ROOT, 'findings', 'deep-first-crash.json')
res = json.load(open(OUT)) if sys.argv[1:] and os.path.exists(OUT) else {}      # named entry points: update those, keep the rest
for sub in subs:
    for kind in ('arr', 'obj'):
        def ok(n):
            o = core.run_one(core.HARNESS_BIN, 'd deep %s %d %s' % (sub, n, kind), timeout=600)
            return o.startswith('ok') or o.startswith('err')
        lo, hi = 100, 400000
        if ok(hi):
            res['%s/%s' % (sub, kind)] = None
            continue
        while hi - lo > max(8, lo // 200):
            mid = (lo + hi) // 2
            if ok(mid):
                lo = mid
            else:
                hi = mid
        res['%s/%s' % (sub, kind)] = hi
        print(sub, kind, 'first crash about', hi, flush=True)
json.dump(res, open(OUT, 'w'), indent=1)
