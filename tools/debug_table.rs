// prints the ranges [lo,hi] of code points >= 0x80 that `<str as Debug>::fmt` escapes as \u{..}
fn main() {
    let mut ranges: Vec<(u32, u32)> = vec![];
    let mut bad = 0;
    for cp in 0x80u32..=0x10FFFF {
        let c = match char::from_u32(cp) { Some(c) => c, None => continue };
        let s = c.to_string();
        let d = format!("{:?}", s);
        let plain = format!("\"{}\"", s);
        let esc = format!("\"\\u{{{:x}}}\"", cp);
        let e = if d == plain { false } else if d == esc { true } else { bad += 1; eprintln!("odd {:x} {}", cp, d); true };
        // context independence: after a letter, before a letter
        let d2 = format!("{:?}", format!("a{}b", s));
        let want2 = if e { format!("\"a\\u{{{:x}}}b\"", cp) } else { format!("\"a{}b\"", s) };
        if d2 != want2 { bad += 1; eprintln!("ctx {:x} {}", cp, d2); }
        if e {
            match ranges.last_mut() {
                Some(r) if r.1 + 1 == cp || (r.1 == 0xD7FF && cp == 0xE000) => r.1 = cp,
                _ => ranges.push((cp, cp)),
            }
        }
    }
    for (a, b) in &ranges { println!("{} {}", a, b); }
    eprintln!("ranges {} bad {}", ranges.len(), bad);
}
