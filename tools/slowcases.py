#!/usr/bin/env python3
"""slowcases.py <Cxx> [model|impl] [top N] — generate the quick cases of a property and time every case on one side
(one process per shard, a line at a time through stdin), to see which generated inputs the list-based model is slow on.
Not run by checks; used to choose the sizes of common.size_corpus() (second review, H2)."""
import sys, os, time, subprocess, threading
ROOT = os.path.dirname(os.path.dirname(os.path.abspath(__file__)))
sys.path.insert(0, os.path.join(ROOT, 'bin'))
from jbv import check, core
import importlib

pid = sys.argv[1]
side = sys.argv[2] if len(sys.argv) > 2 else 'model'
top = int(sys.argv[3]) if len(sys.argv) > 3 else 25
mod = importlib.import_module('jbv.props.' + pid)
ctx = check.Ctx(pid, 'quick', int(os.environ.get('VERIF_SEED', '20261001')))
ctx.open_classes = set()
mod.generate(ctx)
cases = [c for c in ctx.cases if side == 'impl' or c.diff]
binary = core.DRIVER_BIN if side == 'model' else core.HARNESS_BIN
N = 16
times = {}


def work(k):
    p = subprocess.Popen([binary, '-'], stdin=subprocess.PIPE, stdout=subprocess.PIPE, stderr=subprocess.DEVNULL)
    for c in cases[k::N]:
        t = time.time()
        p.stdin.write(('%s %s\n' % (c.id, c.line)).encode())
        p.stdin.flush()
        p.stdout.readline()
        times[c.id] = time.time() - t
    p.stdin.close()
    p.wait()


th = [threading.Thread(target=work, args=(k,)) for k in range(N)]
t0 = time.time()
[t.start() for t in th]
[t.join() for t in th]
print('%d cases, wall %.1fs, sum %.1fs' % (len(cases), time.time() - t0, sum(times.values())))
by = sorted(cases, key=lambda c: -times.get(c.id, 0))
for c in by[:top]:
    print('%7.2fs  %s  kind=%s  len=%d  %s' % (times[c.id], c.id, c.kind, len(c.line), c.line[:110]))
byop = {}
for c in cases:
    op = c.line.split(' ', 1)[0].split('@')[0]
    byop[op] = byop.get(op, 0) + times.get(c.id, 0)
print('by op:', ', '.join('%s %.1fs' % kv for kv in sorted(byop.items(), key=lambda kv: -kv[1])[:12]))
