#!/usr/bin/env python3
"""seedrun.py <seed> [check ids...] — re-run registered checks against a stored seeded change:
git -C /repo apply seeded/<seed>/patch.diff ; bin/check <ids> ; git -C /repo checkout -- .
Results are merged into seeded/<seed>/meta.json (checks_against_change, caught_by).  Exit 0 iff the seed's own
property check reports a violation."""
import sys, os, subprocess, json, re, time, shutil
seed = sys.argv[1]
dst = '/verif/seeded/%s' % seed
meta = json.load(open(os.path.join(dst, 'meta.json')))
ids = sys.argv[2:] or [meta['property']]

def sh(cmd, timeout=7200):
    p = subprocess.run(cmd, shell=True, stdout=subprocess.PIPE, stderr=subprocess.STDOUT, timeout=timeout)
    return p.returncode, p.stdout.decode('utf-8', 'replace')

ISO = os.environ.get('SEED_ISOLATED') == '1'     # see seedtest.py: copy of /verif + scratch worktree of /repo, /repo untouched
if ISO:
    SV, SR = '/tmp/seedverif' + os.environ.get('SEED_ISO_TAG', ''), '/tmp/seedrepo' + os.environ.get('SEED_ISO_TAG', '')
    if os.environ.get('SEED_NOSYNC') != '1':
        sh('mkdir -p %s && rsync -a --delete --exclude .git --exclude replays --exclude seeded /verif/ %s/' % (SV, SV))
        sh("sed -i 's|path = \"/repo\"|path = \"%s\"|' %s/harness/Cargo.toml" % (SR, SV))
    if not os.path.exists(SR):
        rc, o = sh('git -C /repo worktree add --detach %s HEAD' % SR)
        assert rc == 0, o
    rc, head = sh('git -C /repo rev-parse HEAD')
    rc, o = sh('git -C %s checkout -q --detach %s && git -C %s checkout -- . && git -C %s status --porcelain' % (SR, head.strip(), SR, SR))
    assert rc == 0 and o.strip() == '', 'seed repo dirty: ' + o
    RP, VD = SR, SV
    os.environ['JB_REPO'] = SR
else:
    RP, VD = '/repo', '/verif'
    rc, o = sh('git -C /repo status --porcelain')
    assert o.strip() == '', 'repo dirty: ' + o
if meta.get('obsolete_since'):
    print(seed, 'obsolete since', meta['obsolete_since'], '(see meta.json history)')
    sys.exit(0)
rc, o = sh('git -C %s apply %s' % (RP, os.path.join(dst, 'patch.diff')))
assert rc == 0, o
results = meta.get('checks_against_change', {})
try:
    for c in ids:
        t0 = time.time()
        rc, o = sh('cd %s && bin/check %s --tier quick 2>&1' % (VD, c))
        lines = [l for l in o.split('\n') if l.startswith('VIOLATION') or l.startswith('INFRA') or l.startswith(c + ' quick')]
        results[c] = {'rc': rc, 'lines': lines, 'wall_s': round(time.time() - t0, 1)}
        for l in lines:
            m = re.search(r'replay=(\S+)', l)
            if m and os.path.exists(m.group(1)):
                shutil.copy(m.group(1), os.path.join(dst, 'replay-%s.json' % c))
                break
        print(seed, c, rc, lines)
finally:
    sh('git -C %s checkout -- .' % RP)
meta['checks_against_change'] = results
meta['caught_by'] = sorted(c for c, r in results.items() if r['rc'] == 1)
json.dump(meta, open(os.path.join(dst, 'meta.json'), 'w'), indent=1)
sys.exit(0 if results.get(meta['property'], {}).get('rc') == 1 else 1)
