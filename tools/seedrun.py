#!/usr/bin/env python3
"""seedrun.py <seed> [check ids...] — re-run registered checks against a stored seeded change:
git -C /repo apply seeded/<seed>/patch.diff ; bin/check <ids> ; git -C /repo checkout -- .
Results are merged into seeded/<seed>/meta.json (checks_against_change, caught_by).  Exit 0 iff the seed's own
property check reports a violation."""
import sys, os, subprocess, json, re, time, shutil
seed = sys.argv[1]
dst = '/verif/seeded/%s' % seed
meta = json.load(open(os.path.join(dst, 'meta.json')))
ids = sys.argv[2:] or [meta['property']]

def sh(cmd, timeout=7200):
    p = subprocess.run(cmd, shell=True, stdout=subprocess.PIPE, stderr=subprocess.STDOUT, timeout=timeout)
    return p.returncode, p.stdout.decode('utf-8', 'replace')

rc, o = sh('git -C /repo status --porcelain')
assert o.strip() == '', 'repo dirty: ' + o
rc, o = sh('git -C /repo apply %s' % os.path.join(dst, 'patch.diff'))
assert rc == 0, o
results = meta.get('checks_against_change', {})
try:
    for c in ids:
        t0 = time.time()
        rc, o = sh('cd /verif && bin/check %s --tier quick 2>&1' % c)
        lines = [l for l in o.split('\n') if l.startswith('VIOLATION') or l.startswith('INFRA') or l.startswith(c + ' quick')]
        results[c] = {'rc': rc, 'lines': lines, 'wall_s': round(time.time() - t0, 1)}
        for l in lines:
            m = re.search(r'replay=(\S+)', l)
            if m and os.path.exists(m.group(1)):
                shutil.copy(m.group(1), os.path.join(dst, 'replay-%s.json' % c))
                break
        print(seed, c, rc, lines)
finally:
    sh('git -C /repo checkout -- .')
meta['checks_against_change'] = results
meta['caught_by'] = sorted(c for c, r in results.items() if r['rc'] == 1)
json.dump(meta, open(os.path.join(dst, 'meta.json'), 'w'), indent=1)
sys.exit(0 if results.get(meta['property'], {}).get('rc') == 1 else 1)
