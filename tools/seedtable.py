#!/usr/bin/env python3
"""seedtable.py — write seeded/README.md from the meta.json files."""
import json, glob, os
rows = []
for p in sorted(glob.glob('/verif/seeded/C*/meta.json')):
    m = json.load(open(p))
    sid = os.path.basename(os.path.dirname(p))
    res = m.get('checks_against_change', {})
    caught = [c for c, r in sorted(res.items()) if r['rc'] == 1]
    missed = [c for c, r in sorted(res.items()) if r['rc'] != 1]
    rows.append((sid, m, caught, missed))
out = ['# Seeded changes', '',
       'Each directory holds one change to b41sh/jsonb written by a fresh sub-agent that was given only the text of one',
       'property and a scratch worktree (nothing from /verif): `patch.diff`, the agent\'s demonstration `demo.rs`',
       '(an integration test that passes on the unchanged tree and fails with the patch), `meta.json` (what the change',
       'breaks, what it needs in order to manifest, what was run) and the replay file of the first violation each check',
       'reported. Every change was confirmed in its scratch worktree before it was kept: it compiles, the pinned suite',
       'fails only `functions::test_to_serde_json` (as it does on the unchanged tree), and the demonstration fails.',
       'None of them is committed in /repo. `tools/seedrun.py <seed> [ids]` re-runs the registered checks against one',
       '(apply to /repo, check, undo); with `SEED_ISOLATED=1` it works on an rsync copy of /verif whose harness and translator point at a',
       'scratch worktree of /repo carrying the patch, so /repo itself is untouched (how rounds 3 and 4 were run).', '',
       'Rounds: `Cxx-1`, `Cxx-2` round 1 (40); `Cxx-3` … `Cxx-5` round 2 (60); `Cxx-6`, `Cxx-7` round 3 (40); `Cxx-8`, `Cxx-9` rounds 4 and 5 (20 + 20, ten',
       'properties each); `Cxx-10`, `Cxx-11` rounds 6 and 7 (20 + 20); `Cxx-12`, `Cxx-13` rounds 8 and 9 (20 + 10) — 250 in all; what each round asked for and the first-run results are in DESIGN.md §10.1. `harmless/H01.diff` … `H14.diff` (+ `Hkk.json`)',
       'are NOT seeded defects: they are the fourteen behaviour-preserving refactorings of DESIGN.md §10.3 (no check may raise an alarm on',
       'them; re-run with `tools/harmless.sh`).', '',
       '| seed | breaks | change | needs to manifest | caught by | ran clean |', '|---|---|---|---|---|---|']
for sid, m, caught, missed in rows:
    def cell(s):
        return s.replace('|', '\\|').replace('\n', ' ')
    out.append('| %s | %s | %s | %s | %s | %s |' % (sid, m['property'], cell(m['summary']), cell(m['needs_to_manifest']),
                                                   ', '.join(caught) or '-', ', '.join(missed) or '-'))
out += ['', '## Checks strengthened because of a seeded change', '']
for sid, m, caught, missed in rows:
    if m.get('history'):
        out.append('* **%s** — %s' % (sid, m['history']))
out.append('')
open('/verif/seeded/README.md', 'w').write('\n'.join(out))
own = sum(1 for sid, m, c, _ in rows if m['property'] in c)
print(len(rows), 'seeds;', own, 'caught by the check of the property they target')
