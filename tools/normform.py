"""normform.py -- semantic comparison of translated expressions with the committed baseline (used by translate_consts.py).

AST (shared with translate_consts.ExprParser):
  ('lit', n) ('var', name) ('neg', a) ('not', a) ('bin', op, a, b) op in + - *   ('cmp', op, a, b) op in < <= > >= == !=
  ('and', a, b) ('or', a, b) ('if', c, a, b) ('cast', T, a) ('clamp', x, lo, hi)

Normal forms (equal normal forms => equal mathematical value for every valuation of the variables; for ty == 'N' the
variables range over the naturals, for 'Z' over the integers; casts are transparent -- their range obligations are compared
separately, see nf_safe):
  integer expression -> polynomial: sorted tuple of (monomial, coefficient); a monomial is a sorted tuple of atoms; an atom is
      a variable name or the printed normal form of an `if` (opaque).  Commutativity / associativity of + and *, constant
      folding and distribution are therefore built in.
  condition          -> ('T',) ('F',) ('le0', p) [p <= 0] ('eq0', p) ('ne0', p) ('and', sorted tuple) ('or', sorted tuple)
      ('ifb', c, a, b).  a < b is a - b + 1 <= 0 (integers), a >= b is b - a <= 0, !(..) is pushed inwards (De Morgan),
      conjuncts / disjuncts are flattened, de-duplicated and sorted; in N a comparison that holds (fails) for all naturals
      because every coefficient has the same sign is folded to T (F).
  if c {a} else {b}  -> oriented so that the smaller of c / not c (in print order) is the condition; equal branches collapse.
Nothing here is a decision procedure: unequal normal forms only mean "not recognised as equal", and then the new text is
emitted and the proofs decide.

parse_gallina / parse_definition / parse_safe read back exactly the Gallina subset the translator prints (the committed
coq/gen/Constants.v); anything else returns None (= no baseline to compare with, the new text is emitted).
"""
import re


class NFError(Exception):
    pass


# ------------------------------------------------------------------------------------------------ polynomials
def p_const(c):
    return {(): c} if c else {}


def p_var(a):
    return {(a,): 1}


def p_add(p, q, k=1):
    r = dict(p)
    for m, c in q.items():
        v = r.get(m, 0) + k * c
        if v:
            r[m] = v
        else:
            r.pop(m, None)
    return r


def p_mul(p, q):
    r = {}
    for m1, c1 in p.items():
        for m2, c2 in q.items():
            m = tuple(sorted(m1 + m2))
            v = r.get(m, 0) + c1 * c2
            if v:
                r[m] = v
            else:
                r.pop(m, None)
    return r


def p_key(p):
    return tuple(sorted(p.items()))


def p_is_const(p):
    return all(m == () for m in p)


# ------------------------------------------------------------------------------------------------ normal forms
def neg_b(b):
    t = b[0]
    if t == 'T':
        return ('F',)
    if t == 'F':
        return ('T',)
    if t == 'le0':      # not (p <= 0)  <=>  p >= 1  <=>  1 - p <= 0
        return ('le0', p_key(p_add(p_const(1), dict(b[1]), -1)))
    if t == 'eq0':
        return ('ne0', b[1])
    if t == 'ne0':
        return ('eq0', b[1])
    if t == 'and':
        return mk_junction('or', [neg_b(x) for x in b[1]])
    if t == 'or':
        return mk_junction('and', [neg_b(x) for x in b[1]])
    if t == 'ifb':
        return ('ifb', b[1], neg_b(b[2]), neg_b(b[3]))
    raise NFError('neg_b %r' % (b,))


def mk_junction(kind, xs):
    unit, zero = (('T',), ('F',)) if kind == 'and' else (('F',), ('T',))
    flat = []
    for x in xs:
        if x[0] == kind:
            flat.extend(x[1])
        else:
            flat.append(x)
    out = []
    for x in flat:
        if x == zero:
            return zero
        if x == unit or x in out:
            continue
        out.append(x)
    if not out:
        return unit
    if len(out) == 1:
        return out[0]
    return (kind, tuple(sorted(out, key=repr)))


def fold_sign(kind, p, ty):
    """constant / sign folding of p <= 0, p == 0, p != 0"""
    if p_is_const(p):
        c = p.get((), 0)
        return ('T',) if {'le0': c <= 0, 'eq0': c == 0, 'ne0': c != 0}[kind] else ('F',)
    if ty == 'N':
        c0 = p.get((), 0)
        rest = [c for m, c in p.items() if m != ()]
        if kind == 'le0':
            if all(c <= 0 for c in rest) and c0 <= 0:
                return ('T',)
            if all(c >= 0 for c in rest) and c0 >= 1:
                return ('F',)
        else:
            if (all(c >= 0 for c in rest) and c0 >= 1) or (all(c <= 0 for c in rest) and c0 <= -1):
                return ('F',) if kind == 'eq0' else ('T',)
    if kind in ('eq0', 'ne0'):
        # sign normalisation: the first monomial (in print order) gets a positive coefficient
        k = p_key(p)
        if k[0][1] < 0:
            p = {m: -c for m, c in p.items()}
    return (kind, p_key(p))


def nf_int(e, ty):
    """-> polynomial (dict)"""
    t = e[0]
    if t == 'lit':
        return p_const(e[1])
    if t == 'var':
        return p_var(e[1])
    if t == 'cast':
        return nf_int(e[2], ty)
    if t == 'neg':
        return p_add({}, nf_int(e[1], ty), -1)
    if t == 'bin':
        a, b = nf_int(e[2], ty), nf_int(e[3], ty)
        if e[1] == '+':
            return p_add(a, b)
        if e[1] == '-':
            return p_add(a, b, -1)
        if e[1] == '*':
            return p_mul(a, b)
        raise NFError('operator %r' % e[1])
    if t == 'clamp':
        x, lo, hi = e[1], e[2], e[3]
        return nf_int(('if', ('cmp', '<', x, lo), lo, ('if', ('cmp', '>', x, hi), hi, x)), ty)
    if t == 'if':
        c = nf_bool(e[1], ty)
        a, b = nf_int(e[2], ty), nf_int(e[3], ty)
        if c == ('T',):
            return a
        if c == ('F',):
            return b
        if p_key(a) == p_key(b):
            return a
        nc = neg_b(c)
        if repr(nc) < repr(c):
            c, a, b = nc, b, a
        return p_var(repr(('if', c, p_key(a), p_key(b))))
    raise NFError('not an integer expression: %r' % (t,))


def nf_bool(e, ty):
    t = e[0]
    if t == 'not':
        return neg_b(nf_bool(e[1], ty))
    if t in ('and', 'or'):
        return mk_junction(t, [nf_bool(e[1], ty), nf_bool(e[2], ty)])
    if t == 'cmp':
        op, a, b = e[1], nf_int(e[2], ty), nf_int(e[3], ty)
        if op in ('>', '>='):
            a, b, op = b, a, {'>': '<', '>=': '<='}[op]
        d = p_add(a, b, -1)
        if op == '<':
            return fold_sign('le0', p_add(d, p_const(1)), ty)
        if op == '<=':
            return fold_sign('le0', d, ty)
        if op == '==':
            return fold_sign('eq0', d, ty)
        if op == '!=':
            return fold_sign('ne0', d, ty)
        raise NFError('comparison %r' % op)
    if t == 'if':
        c, a, b = nf_bool(e[1], ty), nf_bool(e[2], ty), nf_bool(e[3], ty)
        if c == ('T',):
            return a
        if c == ('F',):
            return b
        if a == b:
            return a
        nc = neg_b(c)
        if repr(nc) < repr(c):
            c, a, b = nc, b, a
        return ('ifb', c, a, b)
    if t == 'blit':
        return ('T',) if e[1] else ('F',)
    raise NFError('not a condition: %r' % (t,))


def nf(e, kind, ty):
    """hashable normal form of an expression of the given kind ('int' / 'bool')"""
    return ('int', p_key(nf_int(e, ty))) if kind == 'int' else ('bool', nf_bool(e, ty))


def nf_safe(obs, ty):
    """normal form of a list of range obligations (pc, T, e): pc = list of (cond ast, polarity); T = machine type or 'assert'
    (then e is a condition that must hold).  Order and duplicates are irrelevant (it is a conjunction)."""
    out = set()
    for pc, T, e in obs:
        hyp = mk_junction('and', [nf_bool(c, ty) if pol else neg_b(nf_bool(c, ty)) for c, pol in pc])
        if hyp == ('F',):
            continue
        if T == 'assert':
            g = nf_bool(e, ty)
            if g == ('T',):
                continue
            out.add((hyp, T, g))
        else:
            out.add((hyp, T, p_key(nf_int(e, ty))))
    return frozenset(out)


def poly_to_ast(p, ty):
    """a printable AST of a polynomial whose atoms are plain variables (used when an increment is recovered from `x = x + e`)"""
    terms = []
    for m, c in sorted(p.items(), key=lambda mc: (len(mc[0]), mc[0])):
        for a in m:
            if not re.fullmatch(r'[A-Za-z_][A-Za-z0-9_.()]*', a):
                raise NFError('cannot print the opaque term %s' % a[:60])
        if c < 0 and ty == 'N':
            raise NFError('negative coefficient in an N expression')
        t = None
        if abs(c) != 1 or not m:
            t = ('lit', abs(c))
        for a in m:
            t = ('var', a) if t is None else ('bin', '*', t, ('var', a))
        terms.append((c < 0, t))
    if not terms:
        return ('lit', 0)
    e = None
    for negative, t in terms:
        if e is None:
            e = ('neg', t) if negative else t
        else:
            e = ('bin', '-' if negative else '+', e, t)
    return e


# ------------------------------------------------------------------------------------------------ reading Gallina back
G_TOKEN = re.compile(r'\s*(?:(?P<num>[0-9]+)|(?P<id>[A-Za-z_][A-Za-z0-9_\']*)|(?P<op><=\?|<\?|=\?|&&|\|\||%[A-Za-z]+|[-+*()]))')


def g_tokens(text):
    toks, i = [], 0
    text = text.strip()
    while i < len(text):
        m = G_TOKEN.match(text, i)
        if not m or m.end() == i:
            raise NFError('gallina: cannot read %r' % text[i:i + 20])
        if m.group('num') is not None:
            toks.append(('num', int(m.group('num'))))
        elif m.group('id') is not None:
            toks.append(('id', m.group('id')))
        elif not m.group('op').startswith('%'):       # scope annotations carry no meaning here
            toks.append(('op', m.group('op')))
        i = m.end()
    return toks


class GParser:
    """the subset printed by translate_consts.gallina (operands of && || and comparisons are parenthesised by the printer)"""

    def __init__(self, text):
        self.toks = g_tokens(text)
        self.i = 0

    def peek(self):
        return self.toks[self.i] if self.i < len(self.toks) else ('eof', None)

    def at(self, kind, *vals):
        t = self.peek()
        return t[0] == kind and (not vals or t[1] in vals)

    def take(self):
        t = self.peek()
        self.i += 1
        return t

    def expect(self, kind, val):
        if not self.at(kind, val):
            raise NFError('gallina: expected %r' % (val,))
        self.i += 1

    def parse(self):
        e = self.term()
        if self.peek()[0] != 'eof':
            raise NFError('gallina: trailing tokens')
        return e

    def term(self):
        if self.at('id', 'if'):
            self.take()
            c = self.term()
            self.expect('id', 'then')
            a = self.term()
            self.expect('id', 'else')
            b = self.term()
            return ('if', c, a, b)
        return self.p_or()

    def p_or(self):
        a = self.p_and()
        while self.at('op', '||'):
            self.take()
            a = ('or', a, self.p_and())
        return a

    def p_and(self):
        a = self.p_cmp()
        while self.at('op', '&&'):
            self.take()
            a = ('and', a, self.p_cmp())
        return a

    def p_cmp(self):
        a = self.p_add()
        if self.at('op', '<?', '<=?', '=?'):
            op = self.take()[1]
            b = self.p_add()
            return ('cmp', {'<?': '<', '<=?': '<=', '=?': '=='}[op], a, b)
        return a

    def p_add(self):
        a = self.p_mul()
        while self.at('op', '+', '-'):
            op = self.take()[1]
            a = ('bin', op, a, self.p_mul())
        return a

    def p_mul(self):
        a = self.p_un()
        while self.at('op', '*'):
            self.take()
            a = ('bin', '*', a, self.p_un())
        return a

    def p_un(self):
        if self.at('op', '-'):
            self.take()
            if self.at('num'):
                return ('lit', -self.take()[1])
            return ('neg', self.p_un())
        if self.at('id', 'negb'):
            self.take()
            return ('not', self.p_un())
        if self.at('num'):
            return ('lit', self.take()[1])
        if self.at('op', '('):
            self.take()
            e = self.term()
            self.expect('op', ')')
            return e
        if self.at('id') and self.peek()[1] not in ('if', 'then', 'else'):
            return ('var', self.take()[1])
        raise NFError('gallina: unexpected token %r' % (self.peek(),))


def parse_gallina(text):
    try:
        return GParser(text).parse()
    except NFError:
        return None


DEF_RE = re.compile(r'Definition (\w+)((?: \([^()]*\))*) : (\w+) := (.*)\.\s*$')


def parse_definition(line):
    """`Definition NAME (a b : Z) : T := body.` -> dict(name, binder [names], bty, rty, body) or None"""
    m = DEF_RE.match(line)
    if not m:
        return None
    names, bty = [], None
    for b in re.findall(r'\(([^()]*)\)', m.group(2)):
        vs, _, t = b.partition(':')
        names.extend(vs.split())
        bty = t.strip()
    return dict(name=m.group(1), binder=names, bty=bty, rty=m.group(3), body=m.group(4))


def split_top(text, sep):
    out, depth, i, last = [], 0, 0, 0
    while i < len(text):
        c = text[i]
        if c == '(':
            depth += 1
        elif c == ')':
            depth -= 1
        elif depth == 0 and text.startswith(sep, i):
            out.append(text[last:i])
            i += len(sep)
            last = i
            continue
        i += 1
    out.append(text[last:])
    return out


def strip_parens(s):
    s = s.strip()
    while s.startswith('(') and s.endswith(')'):
        depth = 0
        for k, c in enumerate(s):
            if c == '(':
                depth += 1
            elif c == ')':
                depth -= 1
                if depth == 0 and k < len(s) - 1:
                    return s
        s = s[1:-1].strip()
    return s


def parse_safe(body):
    """the Prop printed by translate_consts.safe_prop -> list of obligations (pc, T, e), or None"""
    body = body.strip()
    if body == 'True':
        return []
    obs = []
    for conj in split_top(body, ' /\\ '):
        parts = split_top(strip_parens(conj), ' -> ')
        pc = []
        for h in parts[:-1]:
            m = re.fullmatch(r'\((.*)\)%[A-Za-z]+ = (true|false)', h.strip())
            if not m:
                return None
            c = parse_gallina(m.group(1))
            if c is None:
                return None
            pc.append((c, m.group(2) == 'true'))
        g = parts[-1].strip()
        m = re.fullmatch(r'IN_(\w+) \((.*)\)%[A-Za-z]+', g)
        if m:
            e = parse_gallina(m.group(2))
            if e is None:
                return None
            obs.append((pc, m.group(1), e))
            continue
        m = re.fullmatch(r'\((.*)\)%[A-Za-z]+ = true', g)
        if m:
            e = parse_gallina(m.group(1))
            if e is None:
                return None
            obs.append((pc, 'assert', e))
            continue
        return None
    return obs
