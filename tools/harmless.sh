#!/bin/sh
# False-alarm test: each behaviour-preserving refactoring in seeded/harmless/ is applied to a scratch worktree of /repo
# (never to /repo itself), all 20 quick checks are run from an isolated copy of /verif, and NO alarm is expected.
# Usage: tools/harmless.sh [k ...]        (default: all twelve).  Scratch: /tmp/harmverif, /tmp/harmrepo (removed at the end).
V=$(cd "$(dirname "$0")/.." && pwd); SV=/tmp/harmverif; SR=/tmp/harmrepo
HEAD=$(git -C /repo rev-parse HEAD)
rsync -a --delete --exclude .git --exclude replays "$V"/ $SV/
git -C /repo worktree remove --force $SR 2>/dev/null; git -C /repo worktree add -q --detach $SR $HEAD || exit 2
sed -i "s|path = \"/repo\"|path = \"$SR\"|" $SV/harness/Cargo.toml
(cd $SV && JB_REPO=$SR bin/setup >/dev/null 2>&1)
ks="$*"; [ -z "$ks" ] && ks="01 02 03 04 05 06 07 08 09 10 11 12 13 14"
bad=0
for k in $ks; do
  git -C $SR checkout -q -- .
  git -C $SR apply "$V/seeded/harmless/H$k.diff" || { echo "H$k apply-failed"; bad=1; continue; }
  res=""
  for p in 01 02 03 04 05 06 07 08 09 10 11 12 13 14 15 16 17 18 19 20; do
    out=$(cd $SV && JB_REPO=$SR bin/check C$p --tier quick 2>&1); rc=$?
    if [ $rc != 0 ]; then res="$res C$p(rc=$rc,$(echo "$out" | grep -c '^VIOLATION')v)"; bad=1; fi
  done
  echo "H$k alarms:${res:- none}"
done
git -C /repo worktree remove --force $SR; rm -rf $SV
exit $bad
