#!/usr/bin/env python3
"""seedtest.py <PID> <k> [extra check ids...] — confirm a seeded change in its scratch worktree, then run the
registered checks against it in /repo (apply, check, undo) and store everything under /verif/seeded/<PID>-<k>/."""
import sys, os, subprocess, json, shutil, re, time
args = [a for a in sys.argv[1:] if not a.startswith('--')]
flags = [a for a in sys.argv[1:] if a.startswith('--')]
pid, k = args[0], args[1]
extra = args[2:]
CONFIRM = '--check-only' not in flags
CHECK = '--confirm-only' not in flags
ROOT = os.environ.get('SEED_ROOT', '/tmp/seed')
OFFSET = int(os.environ.get('SEED_OFFSET', '0'))
WT = '%s/%s' % (ROOT, pid)
OUT = '%s/%s-out' % (ROOT, pid)
patch = os.path.join(OUT, 'patch%s.diff' % k)
demo = os.path.join(OUT, 'demo%s.rs' % k)
meta = json.load(open(os.path.join(OUT, 'meta%s.json' % k)))
dst = '/verif/seeded/%s-%d' % (pid, int(k) + OFFSET)
os.makedirs(dst, exist_ok=True)

def sh(cmd, cwd=None, timeout=3600):
    p = subprocess.run(cmd, shell=True, cwd=cwd, stdout=subprocess.PIPE, stderr=subprocess.STDOUT, timeout=timeout)
    return p.returncode, p.stdout.decode('utf-8', 'replace')

def summary(out):
    return [l.strip() for l in out.split('\n') if l.startswith('test result')]

ran = []
# --- confirm in the scratch worktree
if not CONFIRM:
    prev = json.load(open(os.path.join(dst, 'meta.json')))
    confirmed, ran = prev['confirmed_in_scratch_worktree'], prev['ran']
if CONFIRM:
    sh('git checkout -- . && rm -f tests/seed_demo.rs', cwd=WT)
    shutil.copy(demo, os.path.join(WT, 'tests', 'seed_demo.rs'))
    rc0, o0 = sh('cargo test --offline --test seed_demo 2>&1', cwd=WT)
    ran.append({'cmd': 'unchanged: cargo test --offline --test seed_demo', 'rc': rc0, 'summary': summary(o0)})
    rc, o = sh('git apply %s' % patch, cwd=WT)
    assert rc == 0, o
    rcb, ob = sh('cargo build --offline 2>&1', cwd=WT)
    os.rename(os.path.join(WT, 'tests', 'seed_demo.rs'), '%s/%s-demo-hold.rs' % (ROOT, pid))
    rc1, o1 = sh('cargo test --offline --no-fail-fast 2>&1', cwd=WT)
    fails = re.findall(r'^test (\S+) \.\.\. FAILED', o1, flags=re.M)
    ran.append({'cmd': 'changed: cargo test --offline --no-fail-fast', 'rc': rc1, 'summary': summary(o1), 'failed_tests': fails})
    os.rename('%s/%s-demo-hold.rs' % (ROOT, pid), os.path.join(WT, 'tests', 'seed_demo.rs'))
    rc2, o2 = sh('cargo test --offline --test seed_demo 2>&1', cwd=WT)
    ran.append({'cmd': 'changed: cargo test --offline --test seed_demo', 'rc': rc2, 'summary': summary(o2)})
    sh('git checkout -- . && rm -f tests/seed_demo.rs', cwd=WT)
    confirmed = (rc0 == 0 and rcb == 0 and fails == ['functions::test_to_serde_json'] and rc2 != 0)
print('confirmed:', confirmed, [r['summary'] for r in ran])

# --- run our checks against the change
# default: in /repo itself (apply, check, undo).  SEED_ISOLATED=1: while other work uses /repo, the same checks run from
# a copy of /verif (/tmp/seedverif) whose harness and translator point at a scratch worktree of /repo (/tmp/seedrepo)
# that carries the change; /repo is not touched.
results = {}
ISO = os.environ.get('SEED_ISOLATED') == '1'
if confirmed and CHECK and ISO:
    SV, SR = '/tmp/seedverif' + os.environ.get('SEED_ISO_TAG', ''), '/tmp/seedrepo' + os.environ.get('SEED_ISO_TAG', '')
    sh('mkdir -p %s && rsync -a --delete --exclude .git --exclude replays --exclude seeded /verif/ %s/' % (SV, SV))
    if not os.path.exists(SR):
        rc, o = sh('git -C /repo worktree add --detach %s HEAD' % SR)
        assert rc == 0, o
    rc, head = sh('git -C /repo rev-parse HEAD')
    rc, o = sh('git -C %s checkout -q --detach %s && git -C %s checkout -- . && git -C %s status --porcelain' % (SR, head.strip(), SR, SR))
    assert rc == 0 and o.strip() == '', 'seed repo dirty: ' + o
    sh("sed -i 's|path = \"/repo\"|path = \"%s\"|' %s/harness/Cargo.toml" % (SR, SV))
    rc, o = sh('git -C %s apply %s' % (SR, patch))
    assert rc == 0, o
    env = dict(os.environ); env['JB_REPO'] = SR
    try:
        for c in [pid] + extra:
            t0 = time.time()
            p = subprocess.run('cd %s && bin/check %s --tier quick 2>&1' % (SV, c), shell=True, stdout=subprocess.PIPE,
                               stderr=subprocess.STDOUT, timeout=3600, env=env)
            rc, o = p.returncode, p.stdout.decode('utf-8', 'replace')
            lines = [l for l in o.split('\n') if l.startswith('VIOLATION') or l.startswith('INFRA') or l.startswith(c + ' quick')]
            results[c] = {'rc': rc, 'lines': lines, 'wall_s': round(time.time() - t0, 1), 'isolated': True}
            for l in lines:
                m = re.search(r'replay=(\S+)', l)
                if m and os.path.exists(m.group(1)):
                    shutil.copy(m.group(1), os.path.join(dst, 'replay-%s.json' % c))
                    break
            print(c, rc, lines)
    finally:
        sh('git -C %s checkout -- .' % SR)
elif confirmed and CHECK:
    rc, o = sh('git -C /repo status --porcelain')
    assert o.strip() == '', 'repo dirty: ' + o
    rc, o = sh('git -C /repo apply %s' % patch)
    assert rc == 0, o
    try:
        for c in [pid] + extra:
            t0 = time.time()
            rc, o = sh('cd /verif && bin/check %s --tier quick 2>&1' % c, timeout=3600)
            lines = [l for l in o.split('\n') if l.startswith('VIOLATION') or l.startswith('INFRA') or l.startswith(c + ' quick')]
            results[c] = {'rc': rc, 'lines': lines, 'wall_s': round(time.time() - t0, 1)}
            # keep the replay of the first violation next to the patch
            for l in lines:
                m = re.search(r'replay=(\S+)', l)
                if m and os.path.exists(m.group(1)):
                    shutil.copy(m.group(1), os.path.join(dst, 'replay-%s.json' % c))
                    break
            print(c, rc, lines)
    finally:
        sh('git -C /repo checkout -- .')
shutil.copy(patch, os.path.join(dst, 'patch.diff'))
shutil.copy(demo, os.path.join(dst, 'demo.rs'))
meta.update({'confirmed_in_scratch_worktree': confirmed, 'ran': ran, 'checks_against_change': results,
             'caught_by': [c for c, r in results.items() if r['rc'] == 1]})
json.dump(meta, open(os.path.join(dst, 'meta.json'), 'w'), indent=1)
