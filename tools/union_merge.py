#!/usr/bin/env python3
"""resolve git conflict markers in a file by keeping both sides (ours first, then theirs); for list-like files"""
import sys,re
for p in sys.argv[1:]:
    s=open(p).read()
    s=re.sub(r'<<<<<<< [^\n]*\n(.*?)=======\n(.*?)>>>>>>> [^\n]*\n', lambda m: m.group(1)+m.group(2), s, flags=re.S)
    open(p,'w').write(s)
