#!/usr/bin/env python3
"""Translator (tie T): regenerate coq/gen/Constants.v from /repo's *working tree*.

Extracts declarative data only (constants, tables, match-arm tables, byte sets, and the offset arithmetic of
iterator.rs / builder.rs as expressions); control flow is
hand-modelled and tied by the correspondence check.  Exits non-zero (message on stderr) when a
pattern is not found: the tie is then reported broken by bin/check.

Usage: translate_consts.py [--repo /repo] [--out file]   (prints to stdout when --out is absent)
"""
import re, sys, argparse, os


class TranslateError(Exception):
    pass


def strip_comments(src):
    src = re.sub(r'/\*.*?\*/', '', src, flags=re.S)
    return re.sub(r'//[^\n]*', '', src)


def parse_lit(lit):
    lit = lit.strip().replace('_', '')
    m = re.fullmatch(r"'\\x([0-9A-Fa-f]{2})'", lit)
    if m:
        return int(m.group(1), 16)
    m = re.fullmatch(r"'(.)'", lit)
    if m:
        return ord(m.group(1))
    m = re.fullmatch(r"b'(\\?.)'", lit)
    if m:
        return byte_lit(m.group(1))
    m = re.fullmatch(r'0x([0-9A-Fa-f]+)', lit)
    if m:
        return int(m.group(1), 16)
    m = re.fullmatch(r'[0-9]+', lit)
    if m:
        return int(lit)
    raise TranslateError('unrecognised literal: %r' % lit)


def byte_lit(s):
    esc = {'\\n': 10, '\\r': 13, '\\t': 9, '\\\\': 92, "\\'": 39, '\\"': 34, '\\0': 0}
    if s in esc:
        return esc[s]
    if len(s) == 1:
        return ord(s)
    raise TranslateError('unrecognised byte literal: %r' % s)


def consts(repo):
    src = strip_comments(open(os.path.join(repo, 'src/constants.rs')).read())
    out = {}
    for m in re.finditer(r'(?:pub(?:\(crate\))?\s+)?const\s+([A-Z0-9_]+)\s*:\s*(u8|u32|usize|char)\s*=\s*([^;]+);', src):
        out[m.group(1)] = parse_lit(m.group(3))
    need = ['ARRAY_PREFIX', 'OBJECT_PREFIX', 'SCALAR_PREFIX', 'ARRAY_CONTAINER_TAG', 'OBJECT_CONTAINER_TAG',
            'SCALAR_CONTAINER_TAG', 'CONTAINER_HEADER_TYPE_MASK', 'CONTAINER_HEADER_LEN_MASK', 'NULL_TAG',
            'STRING_TAG', 'NUMBER_TAG', 'FALSE_TAG', 'TRUE_TAG', 'CONTAINER_TAG', 'NUMBER_ZERO', 'NUMBER_NAN',
            'NUMBER_INF', 'NUMBER_NEG_INF', 'NUMBER_INT', 'NUMBER_UINT', 'NUMBER_FLOAT', 'JENTRY_TYPE_MASK',
            'JENTRY_OFF_LEN_MASK', 'UNICODE_LEN', 'BS', 'QU', 'SD', 'BB', 'FF', 'NN', 'RR', 'TT', 'NULL_LEVEL',
            'ARRAY_LEVEL', 'OBJECT_LEVEL', 'STRING_LEVEL', 'NUMBER_LEVEL', 'TRUE_LEVEL', 'FALSE_LEVEL',
            'INVALID_LEVEL']
    for n in need:
        if n not in out:
            raise TranslateError('constant %s not found in src/constants.rs' % n)
    return out


def hex_table(repo):
    src = strip_comments(open(os.path.join(repo, 'src/util.rs')).read())
    m = re.search(r'static\s+HEX\s*:\s*\[u8;\s*256\]\s*=\s*\{(.*?)\n\};', src, flags=re.S)
    if not m:
        raise TranslateError('HEX table not found in src/util.rs')
    body = m.group(1)
    mm = re.search(r'const\s+__\s*:\s*u8\s*=\s*([0-9]+)\s*;', body)
    if not mm:
        raise TranslateError('HEX filler constant not found')
    filler = int(mm.group(1))
    arr = re.search(r'\[(.*)\]', body, flags=re.S)
    if not arr:
        raise TranslateError('HEX array body not found')
    toks = [t.strip() for t in arr.group(1).split(',') if t.strip()]
    vals = [filler if t == '__' else int(t) for t in toks]
    if len(vals) != 256:
        raise TranslateError('HEX table has %d entries' % len(vals))
    return vals


def fn_body(src, name):
    m = re.search(r'fn\s+' + re.escape(name) + r'\b', src)
    if not m:
        raise TranslateError('function %s not found' % name)
    i = src.index('{', m.end())
    depth = 0
    j = i
    while j < len(src):
        if src[j] == '{':
            depth += 1
        elif src[j] == '}':
            depth -= 1
            if depth == 0:
                return src[i:j + 1]
        j += 1
    raise TranslateError('unbalanced braces in %s' % name)


def rust_str_bytes(s):
    """bytes of a Rust string literal body (between the quotes)"""
    out = []
    i = 0
    while i < len(s):
        if s[i] == '\\':
            c = s[i + 1]
            out.append({'\\': 92, '"': 34, 'n': 10, 'r': 13, 't': 9, '0': 0, "'": 39}.get(c, ord(c)))
            i += 2
        else:
            out.extend(s[i].encode('utf-8'))
            i += 1
    return out


def escape_table(repo):
    src = strip_comments_keep_strings(open(os.path.join(repo, 'src/functions.rs')).read())
    body = fn_body(src, 'escape_scalar_string')
    tbl = {}
    for m in re.finditer(r'(0x[0-9A-Fa-f]{1,2}(?:\s*\.\.=\s*0x[0-9A-Fa-f]{1,2})?(?:\s*\|\s*0x[0-9A-Fa-f]{1,2}(?:\s*\.\.=\s*0x[0-9A-Fa-f]{1,2})?)*)\s*=>\s*"((?:[^"\\]|\\.)*)"', body):
        for alt in m.group(1).split('|'):
            alt = alt.strip()
            if '..=' in alt:
                a, b = [int(x.strip(), 16) for x in alt.split('..=')]
                rng = range(a, b + 1)
            else:
                rng = [int(alt, 16)]
            for b in rng:
                tbl[b] = rust_str_bytes(m.group(2))
    # a generic arm producing \u00XX for the remaining control characters is recognised by its format string
    generic = None
    mg = re.search(r'(0x00\s*\.\.=\s*0x1[fF])\s*=>', body)
    if mg or re.search(r'\\\\u\{:04[xX]\}|\\\\u00', body):
        generic = 'u00XX'
    if not tbl:
        raise TranslateError('no escape arms found in escape_scalar_string')
    return tbl, generic, body


def strip_comments_keep_strings(src):
    # remove // comments that are not inside string literals (line-based heuristic good enough here)
    out = []
    for line in src.split('\n'):
        res = ''
        in_str = False
        i = 0
        while i < len(line):
            c = line[i]
            if in_str:
                res += c
                if c == '\\':
                    res += line[i + 1] if i + 1 < len(line) else ''
                    i += 1
                elif c == '"':
                    in_str = False
            else:
                if c == '"':
                    in_str = True
                    res += c
                elif line.startswith('//', i):
                    break
                elif c == "'" and i + 2 < len(line) and (line[i + 2] == "'" or (line[i + 1] == '\\' and i + 3 < len(line) and line[i + 3] == "'")):
                    k = 3 if line[i + 2] == "'" else 4
                    res += line[i:i + k]
                    i += k - 1
                else:
                    res += c
            i += 1
        out.append(res)
    return '\n'.join(out)


def level_table(repo, C):
    src = strip_comments(open(os.path.join(repo, 'src/functions.rs')).read())
    body = fn_body(src, 'jentry_compare_level')
    tbl = {}
    for m in re.finditer(r'([A-Z_]+_TAG)\s*=>\s*([A-Z_]+_LEVEL)', body):
        tbl[m.group(1)] = m.group(2)
    dm = re.search(r'_\s*=>\s*([A-Z_]+_LEVEL)', body)
    if not tbl or not dm:
        raise TranslateError('jentry_compare_level arms not found')
    return tbl, dm.group(1)


def is_jsonb_set(repo, C):
    src = strip_comments(open(os.path.join(repo, 'src/functions.rs')).read())
    body = fn_body(src, 'is_jsonb')
    m = re.search(r'matches!\(\s*\*?v\s*,\s*([A-Z_|\s]+)\)', body)
    if not m:
        raise TranslateError('is_jsonb byte set not found')
    names = [t.strip() for t in m.group(1).split('|')]
    return [C[n] for n in names]


def raw_string_delims(repo):
    src = strip_comments_keep_strings(open(os.path.join(repo, 'src/jsonpath/parser.rs')).read())
    body = fn_body(src, 'raw_string')
    # the arm that breaks out of the scanning loop: a |-separated list of byte literals followed by => { break
    m = re.search(r"((?:b'(?:\\.|[^'\\])'\s*\|?\s*)+)=>\s*\{\s*break", body)
    if not m:
        raise TranslateError('raw_string delimiter arm not found')
    lits = re.findall(r"b'((?:\\.|[^'\\]))'", m.group(1))
    return sorted(set(byte_lit(l) for l in lits))


# ---------------------------------------------------------------- offset arithmetic of iterator.rs / builder.rs
def arith(expr, names):
    """a Rust integer expression over +, *, parentheses, literals and the given names -> the same expression in Coq (N)"""
    e = expr.strip()
    for rust, coq in names.items():
        e = e.replace(rust, coq)
    e = re.sub(r'\s+', ' ', e)
    if not re.fullmatch(r'[0-9a-z_ +*()]+', e):
        raise TranslateError('unsupported offset expression: %r' % expr)
    for ident in re.findall(r'[a-z_]+', e):
        if ident not in names.values():
            raise TranslateError('unknown name %r in offset expression %r' % (ident, expr))
    return e


def block_after(src, header_re):
    m = re.search(header_re, src)
    if not m:
        raise TranslateError('block %s not found' % header_re)
    i = src.index('{', m.end() - 1)
    depth = 0
    for j in range(i, len(src)):
        if src[j] == '{':
            depth += 1
        elif src[j] == '}':
            depth -= 1
            if depth == 0:
                return src[i:j + 1]
    raise TranslateError('unbalanced braces after %s' % header_re)


def field(body, name):
    m = re.search(r'\b' + name + r'\s*:\s*([^,}]+)[,}]', body)
    if not m:
        raise TranslateError('field %s not found' % name)
    return m.group(1)


def step(body, name):
    m = re.search(r'self\.' + name + r'\s*\+=\s*([0-9]+)\s*;', body)
    if not m:
        raise TranslateError('increment of %s not found' % name)
    return int(m.group(1))


def offsets(repo):
    """initial offsets and entry-word strides of the three iterators; initial lengths / reserved sizes of the builders"""
    it = strip_comments(open(os.path.join(repo, 'src/iterator.rs')).read())
    L = {'length': 'length'}
    out = []
    a = fn_body(it, 'iterate_array')
    out.append(('ITER_ARR_JOFF', 'length', arith(field(a, 'jentry_offset'), L)))
    out.append(('ITER_ARR_VOFF', 'length', arith(field(a, 'val_offset'), L)))
    k = fn_body(it, 'iteate_object_keys')
    out.append(('ITER_KEYS_JOFF', 'length', arith(field(k, 'jentry_offset'), L)))
    out.append(('ITER_KEYS_KOFF', 'length', arith(field(k, 'key_offset'), L)))
    e = fn_body(it, 'iterate_object_entries')
    out.append(('ITER_ENT_JOFF', 'length', arith(field(e, 'jentry_offset'), L)))
    out.append(('ITER_ENT_KOFF', 'length', arith(field(e, 'key_offset'), L)))
    out.append(('ITER_ENT_VOFF', 'length', arith(field(e, 'val_offset'), L)))
    consts_ = []
    consts_.append(('ITER_ARR_JSTEP', step(block_after(it, r'impl<\'a>\s+Iterator\s+for\s+ArrayIterator<\'a>\s*\{'), 'jentry_offset')))
    consts_.append(('ITER_KEYS_JSTEP', step(block_after(it, r'impl<\'a>\s+Iterator\s+for\s+ObjectKeyIterator<\'a>\s*\{'), 'jentry_offset')))
    consts_.append(('ITER_ENT_JSTEP', step(block_after(it, r'impl<\'a>\s+Iterator\s+for\s+ObjectEntryIterator<\'a>\s*\{'), 'jentry_offset')))
    consts_.append(('ITER_FILL_JSTEP', step(fn_body(it, 'fill_keys'), 'jentry_offset')))
    bl = strip_comments(open(os.path.join(repo, 'src/builder.rs')).read())
    N_ = {'self.entries.len()': 'n', 'entries.len()': 'n'}
    ab = block_after(bl, r'impl<\'a>\s+ArrayBuilder<\'a>\s*\{')
    ob = block_after(bl, r'impl<\'a>\s+ObjectBuilder<\'a>\s*\{')
    for nm, body, var in (('ARR', fn_body(ab, 'build_into'), 'array_len'), ('OBJ', fn_body(ob, 'build_into'), 'object_len')):
        m = re.search(r'let\s+mut\s+' + var + r'\s*=\s*([^;]+);', body)
        r = re.search(r'reserve_jentries\(\s*buf\s*,\s*([^;]+?)\)\s*;', body)
        if not m or not r:
            raise TranslateError('builder %s: initial length / reserved size not found' % nm)
        out.append(('BLD_%s_LEN0' % nm, 'n', arith(m.group(1), N_)))
        out.append(('BLD_%s_RESERVE' % nm, 'n', arith(r.group(1), N_)))
    rj = fn_body(bl, 'replace_jentry')
    m = re.search(r'\*jentry_index\s*\+=\s*([0-9]+)\s*;', rj)
    if not m:
        raise TranslateError('replace_jentry stride not found')
    consts_.append(('BLD_JSTEP', int(m.group(1))))
    return out, consts_


def coq_list(xs):
    return '[' + '; '.join(str(x) for x in xs) + ']'


def generate(repo):
    C = consts(repo)
    hexv = hex_table(repo)
    esc, generic, _ = escape_table(repo)
    lvl, lvl_default = level_table(repo, C)
    jsonb_set = is_jsonb_set(repo, C)
    delims = raw_string_delims(repo)
    offs, offc = offsets(repo)
    L = []
    L.append('(* GENERATED by tools/translate_consts.py from the working tree of /repo. Do not edit. *)')
    L.append('From Coq Require Import NArith List.')
    L.append('Import ListNotations.')
    L.append('Open Scope N_scope.')
    L.append('')
    for k in sorted(C):
        L.append('Definition %s : N := %d.' % (k, C[k]))
    L.append('')
    L.append('(* util.rs HEX table: byte -> hex digit value (255 = not a hex digit) *)')
    L.append('Definition HEX_TABLE : list N := %s.' % coq_list(hexv))
    L.append('')
    L.append('(* functions.rs escape_scalar_string: byte -> replacement text *)')
    L.append('Definition ESCAPE_TABLE : list (N * list N) := [%s].' %
             '; '.join('(%d, %s)' % (b, coq_list(esc[b])) for b in sorted(esc)))
    L.append('Definition ESCAPE_GENERIC_CONTROL : bool := %s.' % ('true' if generic else 'false'))
    L.append('')
    L.append('(* functions.rs jentry_compare_level: entry tag -> level *)')
    L.append('Definition LEVEL_TABLE : list (N * N) := [%s].' %
             '; '.join('(%s, %s)' % (t, l) for t, l in sorted(lvl.items())))
    L.append('Definition LEVEL_DEFAULT : N := %s.' % lvl_default)
    L.append('')
    L.append('(* functions.rs is_jsonb: first-byte set *)')
    L.append('Definition IS_JSONB_BYTES : list N := %s.' % coq_list(jsonb_set))
    L.append('')
    L.append('(* jsonpath/parser.rs raw_string: delimiter byte set *)')
    L.append('Definition RAW_STRING_DELIMS : list N := %s.' % coq_list(delims))
    L.append('')
    L.append('(* iterator.rs / builder.rs: initial offsets, entry-word strides, initial lengths and reserved sizes, as written *)')
    for name, var, e in offs:
        L.append('Definition %s (%s : N) : N := %s.' % (name, var, e))
    for name, v in offc:
        L.append('Definition %s : N := %d.' % (name, v))
    L.append('')
    return '\n'.join(L)


def main():
    ap = argparse.ArgumentParser()
    ap.add_argument('--repo', default='/repo')
    ap.add_argument('--out')
    a = ap.parse_args()
    try:
        text = generate(a.repo)
    except (TranslateError, OSError, ValueError, KeyError) as e:
        sys.stderr.write('translate_consts: %s\n' % e)
        sys.exit(2)
    if a.out:
        old = None
        if os.path.exists(a.out):
            old = open(a.out).read()
        if old != text:
            os.makedirs(os.path.dirname(a.out), exist_ok=True)
            open(a.out, 'w').write(text)
            print('updated')
        else:
            print('unchanged')
    else:
        sys.stdout.write(text)


if __name__ == '__main__':
    main()
