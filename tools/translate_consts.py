#!/usr/bin/env python3
"""Translator (tie T): regenerate coq/gen/Constants.v from /repo's *working tree*.

Extracts declarative data (constants, tables, match-arm tables, byte sets), the offset arithmetic of iterator.rs / builder.rs
(table PLAIN_ROWS), and -- table ANCHORS below -- "anchored expressions": integer expressions and boolean conditions of
functions.rs, selector.rs and number.rs, translated Rust -> Gallina.  Control flow is hand-modelled and tied by the
correspondence check; the model functions CALL the generated definitions, so when a source expression changes the model changes
and the proofs over it (I32.v, OffsetTies.v, *Proofs.v, Props/*.v) are re-checked against what the code says now.  Never a guess.

What makes it tolerant to behaviour-preserving rewrites of the source (and what does not):
 1. RESOLUTION (class Resolver).  An identifier of an anchored expression that is not an operand of the row is replaced by what
    it denotes: a file-level / src/constants.rs `const`, or an immutable `let` of the enclosing fn that is the only binding of that
    name, in scope at the anchor, and whose inputs are not assigned in between (recursively, depth-limited).  Operands with a
    ROLE (`names` of the row) are recognised by their binding -- parameter position and type, the statement that binds them,
    or the place they are used -- not by their spelling.  Unresolvable or ambiguous: the row fails.
 2. LOCATION.  Patterns may mention roles (`{J}` = whatever identifier plays role J in this fn) and sub-expressions that may have
    been hoisted into a `let` (`hoist`); a row may list alternative locations / shapes of the same site (`alts`, `synth`);
    the increment of a variable is found as `x += e` or as `x = <resolves to x + e>` (kind 'step').
 3. NORMAL FORM (tools/normform.py).  The translated expression is compared semantically with the committed baseline
    (coq/gen/Constants.v at git HEAD of the framework; see find_baseline): integer expressions as polynomials, conditions in a
    canonical form, NAME_SAFE as a set of range obligations.  Equal: the BASELINE TEXT is emitted verbatim, nothing in coq/
    changes, nothing is rebuilt.  Different: the new text is emitted and the proofs decide.
 4. SCOPED ALARMS.  A row / table that still cannot be translated gets its baseline definition (everything keeps building, the
    model is the last known-good one) and its name is recorded as STALE: file stale.json next to --out (keys `stale`: name ->
    error, `affects`: name -> further generated names that rest on it, `equivalent`, `changed`), a line `stale: NAME ...` on
    stdout, exit status 0.  bin/check reports the tie broken only for the properties that depend on a stale name.
    Exit 2 (message on stderr) only when nothing can be produced: no baseline to fall back to, or src/constants.rs unreadable.
 Not tolerated (the row goes stale, by design): a site that moves to another fn, a changed control-flow shape that no `alts`
 entry describes, bindings through patterns / shadowing / `mut`, operators outside the expression language below.

Usage: translate_consts.py [--repo /repo] [--out file] [--baseline file|none] [--report file]
           (prints the text to stdout and the messages to stderr when --out is absent; `--baseline none` = strict mode:
            no comparison, no fallback, exit 2 at the first failure -- the behaviour before normal forms and stale names)
       translate_consts.py [--repo /repo] --selftest      (mutation self-test of the anchored expressions, see MUTATIONS)

ANCHORED EXPRESSIONS (rows of ANCHORS; the row format is documented above the table).  Generated name -> source site:
 G1 index arithmetic, Z-valued, each with NAME_SAFE : Prop = its range obligations in the machine type (proved in coq/I32.v,
    exported by coq/Props/C20.v); _T = JSON-text (Value) branch, _B = JSONB byte branch of the same function
   DBI_T_RESOLVE DBI_T_KEEP            functions.rs delete_by_index        `if index < 0 { len + index } else { index }`, `index >= 0 && index < len`
   DBI_B_RESOLVE DBI_B_SKIP            functions.rs delete_jsonb_by_index  same resolve, `index < 0 || index >= len`
   AI_NONARRAY_LEN AI_RESOLVE AI_CLAMP functions.rs array_insert_jsonb     `1`, `if pos < 0 { len + pos } else { pos }`, the clamp `.. as usize`
   GBK_T_REJECT GBK_T_INDEX            functions.rs get_by_keypath (1st)   `*idx > length || length + *idx < 0`, `if *idx >= 0 { .. } else { (length + *idx) as usize }`
   GBK_B_REJECT GBK_B_INDEX            functions.rs get_by_keypath (2nd)   the same two, byte branch
   DKP_T_RESOLVE DKP_T_SKIP            functions.rs delete_value_array_by_keypath
   DKP_B_RESOLVE DKP_B_SKIP            functions.rs delete_jsonb_array_by_keypath
   CI_LAST CI_INRANGE                  selector.rs convert_index           `length + *idx as i64 - 1`, `idx >= 0 && idx < length`
   CS_START_LAST CS_END_LAST CS_EMPTY CS_LO CS_HI   selector.rs convert_slice
   SBI_NONEMPTY (require only)         selector.rs select_by_indices       `if ty != ARRAY_CONTAINER_TAG || length == 0 { return Ok(()); }`
   + `require`: the declarations fixing the machine types (`index: i32`, `let len = .. as i32;`, `let length = length as i64;`)
 G2 offsets / strides / loop bounds of the read-only byte walkers, N-valued (usize)
   JBI_REJECT JBI_JOFF JBI_VOFF JBI_ADVANCE JBI_JSTEP        get_jentry_by_index
   JBN_JOFF JBN_VOFF JBN_KOFF JBN_JSTEP1 JBN_JSTEP2           get_jentry_by_name
   OKS_JOFF OKS_KOFF OKS_PREV_KOFF OKS_JSTEP                  object_keys
   OEA_OFF0 OEA_WORDS OEA_STEP                                object_each
   AVS_JOFF AVS_VOFF AVS_JSTEP                                array_values
   CPR_*                                                      compare (the literal offsets 4 / 8 of the top-level function)
   CMP_ARR_LSKIP .. CMP_OBJ_RSKIP                             compare_container (`&left[4..]`, `&right[4..]`)
   CMA_JOFF CMA_LVOFF CMA_RVOFF CMA_LEN CMA_JSTEP             compare_array
   CMO_LJOFF .. CMO_RKOFF CMO_LEN CMO_xJSTEP1/2               compare_object
   CVC_ARR_SKIP CVC_OBJ_SKIP                                  scalar_convert_to_comparable (`&value[4..]`)
   CVA_JOFF CVA_VOFF CVA_JSTEP / CVO_JOFF CVO_VOFF CVO_KOFF CVO_JSTEP1/2   array_ / object_convert_to_comparable
   CTS_SC_JOFF CTS_SC_VOFF CTS_ARR_JOFF CTS_ARR_VOFF CTS_OBJ_JOFF CTS_OBJ_KOFF CTS_OBJ_VOFF CTS_OBJ_JSTEP   container_to_string
   STS_JSTEP                                                  scalar_to_string
   SOV_OFF SAV_OFF SBN_OFF SBI_OFF BSA_RESERVE BSA_JSTEP      selector.rs select_object_values / select_array_values / select_by_name /
                                                              select_by_indices / build_scalar_array
   (coq/OffsetTies.v proves that all of them and ITER_* / BLD_* describe one layout)
 G3 width selection of Number::compact_encode
   CE_INT_ZERO CE_INT_FITS1..3 (Z)  CE_UINT_ZERO CE_UINT_FITS1..3 (N)   the range tests `*v >= i8::MIN.into() && *v <= i8::MAX.into()` ...
   CE_INT_W1..4 CE_UINT_W1..4 (nat)                                      bytes of the type written: `(*v as i8).to_be_bytes()` ..., `Int64(i64)`
   (used by int_width / uint_width / compact_encode of coq/Num.v; NumProofs.v: round trip and shortest form)
"""
import re, sys, argparse, os

sys.path.insert(0, os.path.dirname(os.path.abspath(__file__)))


class TranslateError(Exception):
    pass


def strip_comments(src):
    src = re.sub(r'/\*.*?\*/', '', src, flags=re.S)
    return re.sub(r'//[^\n]*', '', src)


def parse_lit(lit):
    lit = lit.strip().replace('_', '')
    m = re.fullmatch(r"'\\x([0-9A-Fa-f]{2})'", lit)
    if m:
        return int(m.group(1), 16)
    m = re.fullmatch(r"'(.)'", lit)
    if m:
        return ord(m.group(1))
    m = re.fullmatch(r"b'(\\?.)'", lit)
    if m:
        return byte_lit(m.group(1))
    m = re.fullmatch(r'0x([0-9A-Fa-f]+)', lit)
    if m:
        return int(m.group(1), 16)
    m = re.fullmatch(r'[0-9]+', lit)
    if m:
        return int(lit)
    raise TranslateError('unrecognised literal: %r' % lit)


def byte_lit(s):
    esc = {'\\n': 10, '\\r': 13, '\\t': 9, '\\\\': 92, "\\'": 39, '\\"': 34, '\\0': 0}
    if s in esc:
        return esc[s]
    if len(s) == 1:
        return ord(s)
    raise TranslateError('unrecognised byte literal: %r' % s)


CONSTS_NEEDED = ['ARRAY_PREFIX', 'OBJECT_PREFIX', 'SCALAR_PREFIX', 'ARRAY_CONTAINER_TAG', 'OBJECT_CONTAINER_TAG',
                 'SCALAR_CONTAINER_TAG', 'CONTAINER_HEADER_TYPE_MASK', 'CONTAINER_HEADER_LEN_MASK', 'NULL_TAG',
                 'STRING_TAG', 'NUMBER_TAG', 'FALSE_TAG', 'TRUE_TAG', 'CONTAINER_TAG', 'NUMBER_ZERO', 'NUMBER_NAN',
                 'NUMBER_INF', 'NUMBER_NEG_INF', 'NUMBER_INT', 'NUMBER_UINT', 'NUMBER_FLOAT', 'JENTRY_TYPE_MASK',
                 'JENTRY_OFF_LEN_MASK', 'UNICODE_LEN', 'BS', 'QU', 'SD', 'BB', 'FF', 'NN', 'RR', 'TT', 'NULL_LEVEL',
                 'ARRAY_LEVEL', 'OBJECT_LEVEL', 'STRING_LEVEL', 'NUMBER_LEVEL', 'TRUE_LEVEL', 'FALSE_LEVEL',
                 'INVALID_LEVEL']


def const_value(text, env):
    """the value of a constant initialiser: a literal, or constant arithmetic over literals and earlier constants
    (+ - * / % << >> | & ^, parentheses, `as <int type>` casts are dropped)"""
    text = re.sub(r'\bas\s+(?:u8|u16|u32|u64|usize|i32|i64|isize|char)\b', '', text).strip()
    try:
        return parse_lit(text)
    except TranslateError:
        pass
    toks = re.findall(r"b'\\?.'|'\\x[0-9A-Fa-f]{2}'|'.'|0x[0-9A-Fa-f_]+|[0-9][0-9_]*|[A-Z][A-Z0-9_]*|<<|>>|[-+*/%|&^()]", text)
    if ''.join(toks) != re.sub(r'\s+', '', text):
        raise TranslateError('unrecognised literal: %r' % text)
    pos = [0]
    prec = [('|',), ('^',), ('&',), ('<<', '>>'), ('+', '-'), ('*', '/', '%')]

    def atom():
        if pos[0] >= len(toks):
            raise TranslateError('unrecognised literal: %r' % text)
        t = toks[pos[0]]
        pos[0] += 1
        if t == '(':
            v = level(0)
            if pos[0] >= len(toks) or toks[pos[0]] != ')':
                raise TranslateError('unrecognised literal: %r' % text)
            pos[0] += 1
            return v
        if re.fullmatch(r'[A-Z][A-Z0-9_]*', t):
            if t not in env:
                raise TranslateError('unrecognised literal: %r (unknown constant %s)' % (text, t))
            return env[t]
        return parse_lit(t)

    def level(k):
        if k == len(prec):
            return atom()
        v = level(k + 1)
        while pos[0] < len(toks) and toks[pos[0]] in prec[k]:
            op = toks[pos[0]]
            pos[0] += 1
            w = level(k + 1)
            if op in ('/', '%') and w == 0:
                raise TranslateError('unrecognised literal: %r' % text)
            v = {'|': lambda: v | w, '^': lambda: v ^ w, '&': lambda: v & w, '<<': lambda: v << w, '>>': lambda: v >> w,
                 '+': lambda: v + w, '-': lambda: v - w, '*': lambda: v * w, '/': lambda: v // w, '%': lambda: v % w}[op]()
        return v

    v = level(0)
    if pos[0] != len(toks) or v < 0:
        raise TranslateError('unrecognised literal: %r' % text)
    return v


def consts(repo, strict=True):
    src = strip_comments(open(os.path.join(repo, 'src/constants.rs')).read())
    out = {}
    for m in re.finditer(r'(?:pub(?:\(crate\))?\s+)?const\s+([A-Z0-9_]+)\s*:\s*(u8|u32|usize|char)\s*=\s*([^;]+);', src):
        try:
            out[m.group(1)] = const_value(m.group(3), out)
        except TranslateError:
            # a constant the model does not use may be written in any way (`need` below still insists on the ones it uses)
            if m.group(1) in CONSTS_NEEDED:
                raise
    need = ['ARRAY_PREFIX', 'OBJECT_PREFIX', 'SCALAR_PREFIX', 'ARRAY_CONTAINER_TAG', 'OBJECT_CONTAINER_TAG',
            'SCALAR_CONTAINER_TAG', 'CONTAINER_HEADER_TYPE_MASK', 'CONTAINER_HEADER_LEN_MASK', 'NULL_TAG',
            'STRING_TAG', 'NUMBER_TAG', 'FALSE_TAG', 'TRUE_TAG', 'CONTAINER_TAG', 'NUMBER_ZERO', 'NUMBER_NAN',
            'NUMBER_INF', 'NUMBER_NEG_INF', 'NUMBER_INT', 'NUMBER_UINT', 'NUMBER_FLOAT', 'JENTRY_TYPE_MASK',
            'JENTRY_OFF_LEN_MASK', 'UNICODE_LEN', 'BS', 'QU', 'SD', 'BB', 'FF', 'NN', 'RR', 'TT', 'NULL_LEVEL',
            'ARRAY_LEVEL', 'OBJECT_LEVEL', 'STRING_LEVEL', 'NUMBER_LEVEL', 'TRUE_LEVEL', 'FALSE_LEVEL',
            'INVALID_LEVEL']
    for n in need:
        if n not in out and strict:
            raise TranslateError('constant %s not found in src/constants.rs' % n)
    return out


def hex_table(repo):
    src = strip_comments(open(os.path.join(repo, 'src/util.rs')).read())
    m = re.search(r'static\s+HEX\s*:\s*\[u8;\s*256\]\s*=\s*\{(.*?)\n\};', src, flags=re.S)
    if not m:
        raise TranslateError('HEX table not found in src/util.rs')
    body = m.group(1)
    mm = re.search(r'const\s+__\s*:\s*u8\s*=\s*([0-9]+)\s*;', body)
    if not mm:
        raise TranslateError('HEX filler constant not found')
    filler = int(mm.group(1))
    arr = re.search(r'\[(.*)\]', body, flags=re.S)
    if not arr:
        raise TranslateError('HEX array body not found')
    toks = [t.strip() for t in arr.group(1).split(',') if t.strip()]
    vals = [filler if t == '__' else int(t) for t in toks]
    if len(vals) != 256:
        raise TranslateError('HEX table has %d entries' % len(vals))
    return vals


def match_brace(src, i):
    """index just past the `}` matching the `{` at src[i]; string literals, char / byte literals are skipped"""
    depth = 0
    j = i
    n = len(src)
    while j < n:
        c = src[j]
        if c == '"':
            j += 1
            while j < n and src[j] != '"':
                j += 2 if src[j] == '\\' else 1
        elif c == "'":
            m = re.match(r"'(?:\\(?:x[0-9A-Fa-f]{2}|u\{[0-9A-Fa-f]+\}|.)|[^'\\])'", src[j:j + 12])
            if m:
                j += m.end() - 1
        elif c == '{':
            depth += 1
        elif c == '}':
            depth -= 1
            if depth == 0:
                return j + 1
        j += 1
    return -1


def fn_body(src, name):
    m = re.search(r'fn\s+' + re.escape(name) + r'\b', src)
    if not m:
        raise TranslateError('function %s not found' % name)
    i = src.index('{', m.end())
    j = match_brace(src, i)
    if j < 0:
        raise TranslateError('unbalanced braces in %s' % name)
    return src[i:j]


def fn_text(src, name):
    """signature + body of fn `name`"""
    m = re.search(r'fn\s+' + re.escape(name) + r'\b', src)
    if not m:
        raise TranslateError('function %s not found' % name)
    body = fn_body(src, name)
    return src[m.start():src.index('{', m.end())] + body


def rust_str_bytes(s):
    """bytes of a Rust string literal body (between the quotes)"""
    out = []
    i = 0
    while i < len(s):
        if s[i] == '\\':
            c = s[i + 1]
            out.append({'\\': 92, '"': 34, 'n': 10, 'r': 13, 't': 9, '0': 0, "'": 39}.get(c, ord(c)))
            i += 2
        else:
            out.extend(s[i].encode('utf-8'))
            i += 1
    return out


def escape_table(repo):
    src = strip_comments_keep_strings(open(os.path.join(repo, 'src/functions.rs')).read())
    body = fn_body(src, 'escape_scalar_string')
    tbl = {}
    for m in re.finditer(r'(0x[0-9A-Fa-f]{1,2}(?:\s*\.\.=\s*0x[0-9A-Fa-f]{1,2})?(?:\s*\|\s*0x[0-9A-Fa-f]{1,2}(?:\s*\.\.=\s*0x[0-9A-Fa-f]{1,2})?)*)\s*=>\s*"((?:[^"\\]|\\.)*)"', body):
        for alt in m.group(1).split('|'):
            alt = alt.strip()
            if '..=' in alt:
                a, b = [int(x.strip(), 16) for x in alt.split('..=')]
                rng = range(a, b + 1)
            else:
                rng = [int(alt, 16)]
            for b in rng:
                tbl[b] = rust_str_bytes(m.group(2))
    # a generic arm producing \u00XX for the remaining control characters is recognised by its format string
    generic = None
    mg = re.search(r'(0x00\s*\.\.=\s*0x1[fF])\s*=>', body)
    if mg or re.search(r'\\\\u\{:04[xX]\}|\\\\u00', body):
        generic = 'u00XX'
    if not tbl:
        raise TranslateError('no escape arms found in escape_scalar_string')
    return tbl, generic, body


def strip_comments_keep_strings(src):
    # remove // comments that are not inside string literals (line-based heuristic good enough here)
    out = []
    for line in src.split('\n'):
        res = ''
        in_str = False
        i = 0
        while i < len(line):
            c = line[i]
            if in_str:
                res += c
                if c == '\\':
                    res += line[i + 1] if i + 1 < len(line) else ''
                    i += 1
                elif c == '"':
                    in_str = False
            else:
                if c == '"':
                    in_str = True
                    res += c
                elif line.startswith('//', i):
                    break
                elif c == "'" and i + 2 < len(line) and (line[i + 2] == "'" or (line[i + 1] == '\\' and i + 3 < len(line) and line[i + 3] == "'")):
                    k = 3 if line[i + 2] == "'" else 4
                    res += line[i:i + k]
                    i += k - 1
                else:
                    res += c
            i += 1
        out.append(res)
    return '\n'.join(out)


def level_table(repo, C):
    src = strip_comments(open(os.path.join(repo, 'src/functions.rs')).read())
    body = fn_body(src, 'jentry_compare_level')
    tbl = {}
    for m in re.finditer(r'([A-Z_]+_TAG)\s*=>\s*([A-Z_]+_LEVEL)', body):
        tbl[m.group(1)] = m.group(2)
    dm = re.search(r'_\s*=>\s*([A-Z_]+_LEVEL)', body)
    if not tbl or not dm:
        raise TranslateError('jentry_compare_level arms not found')
    return tbl, dm.group(1)


def is_jsonb_set(repo, C):
    src = strip_comments(open(os.path.join(repo, 'src/functions.rs')).read())
    body = fn_body(src, 'is_jsonb')
    m = re.search(r'matches!\(\s*\*?v\s*,\s*([A-Z_|\s]+)\)', body)
    if not m:
        raise TranslateError('is_jsonb byte set not found')
    names = [t.strip() for t in m.group(1).split('|')]
    return [C[n] for n in names]


def raw_string_delims(repo):
    src = strip_comments_keep_strings(open(os.path.join(repo, 'src/jsonpath/parser.rs')).read())
    body = fn_body(src, 'raw_string')
    # the arm that breaks out of the scanning loop: a |-separated list of byte literals followed by => { break
    m = re.search(r"((?:b'(?:\\.|[^'\\])'\s*\|?\s*)+)=>\s*\{\s*break", body)
    if not m:
        raise TranslateError('raw_string delimiter arm not found')
    lits = re.findall(r"b'((?:\\.|[^'\\]))'", m.group(1))
    return sorted(set(byte_lit(l) for l in lits))


# ---------------------------------------------------------------- offset arithmetic of iterator.rs / builder.rs (rows, see ANCHORS)
def block_after(src, header_re):
    m = re.search(header_re, src)
    if not m:
        raise TranslateError('block %s not found' % header_re)
    i = src.index('{', m.end() - 1)
    j = match_brace(src, i)
    if j < 0:
        raise TranslateError('unbalanced braces after %s' % header_re)
    return src[i:j]


# ---------------------------------------------------------------- anchored expressions (generic, table-driven)
# Each row of ANCHORS ties ONE integer expression or boolean condition of the Rust source to ONE generated Coq definition.
#   name    Coq name of the generated definition
#   file    Rust file (relative to the repo)
#   fn      enclosing fn (its brace-balanced body is searched; `impl` = optional regex of the enclosing impl block header);
#           None = the whole file (type declarations)
#   pat     regex locating the statement / struct field / condition inside the fn body; group `e` captures the expression text
#   count   how many times `pat` must match in the fn body (default 1: a second copy appearing is also a broken tie)
#   occ     which of those matches this row is about (default 0)
#   params  ordered list of (Rust operand, Coq parameter): the variable renaming.  A Rust operand is an identifier, a dotted path,
#           or `path.len()`.  `*x` derefs are dropped before the lookup.  Every identifier of the expression must be listed.
#   ty      'Z' or 'N': the Coq type of the integer parameters / result (bool-valued conditions are detected and get `: bool`)
#   mach    the machine type the code computes the expression in (comment only: casts are dropped, the mathematical expression is
#           emitted; coq/I32.v proves separately that no intermediate value leaves that machine type)
#   require optional list of regexes that must also match in the fn (signature or body) (the declarations that fix the machine type of the operands,
#           e.g. `let len = arr.len() as i32;`): when one disappears the tie is broken
#   safe    True: also emit NAME_SAFE : Prop, the conjunction of the range obligations of evaluating the expression in `mach`:
#           one `IN_<mach> (a op b)` per + - * / unary minus and one `IN_<T> (a)` per `a as T`, each under the path condition
#           (branches of `if`, short-circuit of && and ||) under which the code evaluates it.  coq/I32.v proves them.
#   kind    'expr' (default) | 'width' (group `e` captures an integer type name, the definition is its size in bytes : nat)
#           | 'require' (no definition: only the `require` patterns are checked, a comment is emitted; used for a guard at a call
#           site that a proof in coq/ takes as hypothesis, e.g. select_by_indices returns before convert_slice when length == 0)
#           | 'step' (no `pat`: `var` = regex / role template of a variable; the anchor is the k-th assignment to it in the fn,
#           `var += e` gives e, `var = rhs` gives rhs - var after resolution (must not mention var); any other compound
#           assignment to it fails the row).  Written incr(var) in the table.
#   names   ordered dict role -> how to recognise the Rust identifier that plays it in this fn (function `discover`):
#           P(k, type regex, usual name) = the k-th parameter (self not counted) if it has that type (and no OTHER parameter
#           carries the usual name), or a regex with group `v` searched in signature + body: every match must capture the
#           same identifier (binding statement, e.g. _HDRLEN, or use, e.g. _USE_J).  A list = alternatives.  Roles already found
#           can be used as `{role}` in later regexes, in `pat`, `var`, `require`.  An operand of `params` that is a role name is
#           that identifier (recognised by binding), any other operand is taken literally (recognised by spelling).
#   hoist   dict key -> regex of a sub-expression: `{key}` in `pat` matches the expression written in place or any identifier
#           bound once, immutably, in the outermost block of the fn, before the anchor, to exactly that expression
#   alts    list of dicts overriding fields of the row: further shapes of the same site, tried in order after the row itself
#   synth   template of the expression to translate, `{group}` = named groups of `pat` (a site that says the same thing with
#           other syntax: `for _ in 0..index` for "while i < index", `i8::try_from(x)` is Ok for "i8::MIN <= x <= i8::MAX")
#   fmt     'plain' (PLAIN_ROWS): no comment line, no `%N`, parameter list `binder` emitted even when a parameter is unused
#   affects generated names that rest on a 'require' row (searched by bin/check when the row is stale)
# Supported Rust syntax: integer literals (dec / hex, `_`, type suffix), identifiers and paths, iN::MIN / iN::MAX / uN::MAX,
# + - * (binary), unary minus, parentheses, < <= > >= == !=, && || !, `if c { a } else if d { b } else { c }`, `as <int type>`
# and `.into()` (dropped, recorded), `*x` (dropped), `x.len()`, `a.min(b)`, `a.max(b)`, `x.clamp(lo, hi)` (the nested ifs of
# core::cmp::Ord::clamp, plus the obligation lo <= hi -- `assert!(min <= max)` -- in NAME_SAFE), paths to named constants
# (`crate::constants::X`, `Self::X`).  Anything else, a pattern that is not found, or found a different number of times than
# `count`: TranslateError = the row is stale (bin/check reports the tie broken for the properties that use it).  Never a guess.
# `a > b` is emitted as `b <? a` and `a >= b` as `b <=? a` (N has no gtb/geb; same shape as the rest of the model).
# In N, `-` is refused (N.sub truncates, usize does not).

INT_TYPES = {'i8': 8, 'i16': 16, 'i32': 32, 'i64': 64, 'i128': 128, 'u8': 8, 'u16': 16, 'u32': 32, 'u64': 64, 'u128': 128,
             'usize': 64, 'isize': 64}


def int_const(path):
    m = re.fullmatch(r'([iu])(8|16|32|64|128)::(MIN|MAX)', path)
    if not m:
        return None
    bits = int(m.group(2))
    if m.group(1) == 'i':
        return -(1 << (bits - 1)) if m.group(3) == 'MIN' else (1 << (bits - 1)) - 1
    return 0 if m.group(3) == 'MIN' else (1 << bits) - 1


TOKEN_RE = re.compile(r'\s*(?:(?P<num>0x[0-9A-Fa-f_]+|[0-9][0-9_]*)(?P<suf>(?:[iu](?:8|16|32|64|128|size))?)(?![A-Za-z0-9_])'
                      r'|(?P<id>[A-Za-z_][A-Za-z0-9_]*)'
                      r'|(?P<op>&&|\|\||<=|>=|==|!=|::|[-+*()<>!{}.,]))')


def tokenize(text):
    toks = []
    i = 0
    text = text.rstrip()
    while i < len(text):
        m = TOKEN_RE.match(text, i)
        if not m or m.end() == i:
            raise TranslateError('unsupported syntax at %r in expression %r' % (text[i:i + 12], text))
        if m.group('num') is not None:
            toks.append(('num', parse_lit(m.group('num')), m.group('suf')))
        elif m.group('id') is not None:
            toks.append(('id', m.group('id'), None))
        else:
            toks.append(('op', m.group('op'), None))
        i = m.end()
    return toks


class ExprParser:
    """Rust expression subset -> AST.  AST nodes: ('lit', n) ('var', rustname) ('neg', a) ('not', a) ('bin', op, a, b)
    ('cmp', op, a, b) ('and', a, b) ('or', a, b) ('if', c, a, b).  Casts and derefs are dropped (cast types collected)."""

    def __init__(self, text):
        self.text = text
        self.toks = tokenize(text)
        self.i = 0
        self.casts = []

    def err(self, what):
        raise TranslateError('%s in expression %r' % (what, self.text))

    def peek(self, k=0):
        return self.toks[self.i + k] if self.i + k < len(self.toks) else ('eof', None, None)

    def at_op(self, *ops):
        t = self.peek()
        return t[0] == 'op' and t[1] in ops

    def at_id(self, *ids):
        t = self.peek()
        return t[0] == 'id' and t[1] in ids

    def take(self):
        t = self.peek()
        self.i += 1
        return t

    def expect_op(self, op):
        if not self.at_op(op):
            self.err('expected %r at token %d' % (op, self.i))
        self.i += 1

    def parse(self):
        e = self.p_or()
        if self.peek()[0] != 'eof':
            self.err('trailing tokens %r' % (self.toks[self.i:],))
        return e

    def p_or(self):
        a = self.p_and()
        while self.at_op('||'):
            self.take()
            a = ('or', a, self.p_and())
        return a

    def p_and(self):
        a = self.p_cmp()
        while self.at_op('&&'):
            self.take()
            a = ('and', a, self.p_cmp())
        return a

    def p_cmp(self):
        a = self.p_add()
        if self.at_op('<', '<=', '>', '>=', '==', '!='):
            op = self.take()[1]
            b = self.p_add()
            if self.at_op('<', '<=', '>', '>=', '==', '!='):
                self.err('chained comparison')
            return ('cmp', op, a, b)
        return a

    def p_add(self):
        a = self.p_mul()
        while self.at_op('+', '-'):
            op = self.take()[1]
            a = ('bin', op, a, self.p_mul())
        return a

    def p_mul(self):
        a = self.p_cast()
        while self.at_op('*'):
            self.take()
            a = ('bin', '*', a, self.p_cast())
        return a

    def p_cast(self):
        a = self.p_unary()
        while self.at_id('as'):
            self.take()
            t = self.take()
            if t[0] != 'id' or t[1] not in INT_TYPES:
                self.err('cast to unsupported type %r' % (t[1],))
            self.casts.append(t[1])
            a = ('cast', t[1], a)
        return a

    def p_unary(self):
        if self.at_op('-'):
            self.take()
            return ('neg', self.p_unary())
        if self.at_op('!'):
            self.take()
            return ('not', self.p_unary())
        if self.at_op('*'):          # deref
            self.take()
            return self.p_unary()
        return self.p_postfix()

    def p_postfix(self):
        a = self.p_primary()
        while self.at_op('.'):
            t1, t2, t3 = self.peek(1), self.peek(2), self.peek(3)
            if t1[0] != 'id':
                self.err('unsupported postfix')
            call = t2 == ('op', '(', None) and t3 == ('op', ')', None)
            if call and t1[1] == 'into':
                self.i += 4
                self.casts.append('into')
            elif a[0] == 'var' and call and t1[1] == 'len':
                self.i += 4
                a = ('var', a[1] + '.len()')
            elif t1[1] in ('clamp', 'min', 'max') and t2 == ('op', '(', None):
                # Ord::clamp / min / max on integers: `x.clamp(lo, hi)` = assert!(lo <= hi); if x < lo { lo } else if x > hi { hi } else { x }
                self.i += 3
                args = [self.p_or()]
                while self.at_op(','):
                    self.take()
                    args.append(self.p_or())
                self.expect_op(')')
                if t1[1] == 'clamp' and len(args) == 2:
                    a = ('clamp', a, args[0], args[1])
                elif t1[1] == 'min' and len(args) == 1:
                    a = ('if', ('cmp', '<=', a, args[0]), a, args[0])
                elif t1[1] == 'max' and len(args) == 1:
                    a = ('if', ('cmp', '>=', a, args[0]), a, args[0])
                else:
                    self.err('unsupported call .%s with %d arguments' % (t1[1], len(args)))
            elif a[0] == 'var' and not call and t2 != ('op', '(', None):
                self.i += 2
                a = ('var', a[1] + '.' + t1[1])
            else:
                self.err('unsupported method call .%s' % t1[1])
        return a

    def p_primary(self):
        t = self.peek()
        if t[0] == 'num':
            self.take()
            if t[2]:
                self.casts.append(t[2])
            return ('lit', t[1])
        if t[0] == 'op' and t[1] == '(':
            self.take()
            e = self.p_or()
            self.expect_op(')')
            return e
        if t[0] == 'id' and t[1] == 'if':
            return self.p_if()
        if t[0] == 'id':
            if t[1] in ('as', 'else', 'let', 'match', 'return', 'mut', 'fn', 'loop', 'while', 'for', 'unsafe', 'true', 'false'):
                self.err('unsupported keyword %r' % t[1])
            self.take()
            name = t[1]
            while self.at_op('::'):
                self.take()
                n = self.take()
                if n[0] != 'id':
                    self.err('bad path')
                name += '::' + n[1]
            if '::' in name:
                c = int_const(name)
                if c is not None:
                    return ('lit', c)
                last = name.split('::')[-1]
                if re.fullmatch(r'[A-Z][A-Z0-9_]*', last) and not self.at_op('('):
                    return ('var', last)          # `crate::constants::X`, `Self::X`: a named constant, resolved like a bare X
                self.err('unsupported path %r' % name)
            if self.at_op('('):
                self.err('unsupported call %s(...)' % name)
            return ('var', name)
        self.err('unexpected token %r' % (t[1],))

    def p_if(self):
        self.take()
        c = self.p_or()
        self.expect_op('{')
        a = self.p_or()
        self.expect_op('}')
        if not self.at_id('else'):
            self.err('if without else')
        self.take()
        if self.at_id('if'):
            b = self.p_if()
        else:
            self.expect_op('{')
            b = self.p_or()
            self.expect_op('}')
        return ('if', c, a, b)


def expr_kind(e, text):
    """'int' or 'bool'; TranslateError on an ill-typed expression"""
    def bad():
        raise TranslateError('ill-typed expression %r' % text)
    t = e[0]
    if t in ('lit', 'var'):
        return 'int'
    if t == 'cast':
        return 'int' if expr_kind(e[2], text) == 'int' else bad()
    if t == 'neg':
        return 'int' if expr_kind(e[1], text) == 'int' else bad()
    if t == 'not':
        return 'bool' if expr_kind(e[1], text) == 'bool' else bad()
    if t == 'bin':
        return 'int' if expr_kind(e[2], text) == 'int' and expr_kind(e[3], text) == 'int' else bad()
    if t == 'cmp':
        return 'bool' if expr_kind(e[2], text) == 'int' and expr_kind(e[3], text) == 'int' else bad()
    if t in ('and', 'or'):
        return 'bool' if expr_kind(e[1], text) == 'bool' and expr_kind(e[2], text) == 'bool' else bad()
    if t == 'if':
        ka, kb = expr_kind(e[2], text), expr_kind(e[3], text)
        return ka if expr_kind(e[1], text) == 'bool' and ka == kb else bad()
    if t == 'clamp':
        return 'int' if all(expr_kind(x, text) == 'int' for x in e[1:]) else bad()
    bad()


def expr_vars(e, acc):
    if e[0] == 'var':
        acc.append(e[1])
    else:
        for x in e[1:]:
            if isinstance(x, tuple):
                expr_vars(x, acc)
    return acc


def gallina(e, names, ty, text):
    """print the AST; level: 0 atom, 40 mul, 50 add, 100 anything else (always parenthesised as an operand)"""
    def lvl(x):
        if x[0] == 'cast':
            return lvl(x[2])
        if x[0] == 'lit':
            return 0 if x[1] >= 0 else 100
        if x[0] == 'var':
            return 0
        if x[0] == 'bin':
            return 40 if x[1] == '*' else 50
        return 100          # if / clamp / conditions

    def paren(x, maxlvl):
        s = pr(x)
        return s if lvl(x) <= maxlvl else '(' + s + ')'

    def pr(x):
        t = x[0]
        if t == 'cast':
            return pr(x[2])
        if t == 'clamp':
            return pr(clamp_if(x))
        if t == 'lit':
            if x[1] < 0 and ty == 'N':
                raise TranslateError('negative constant in an N expression %r' % text)
            return str(x[1])
        if t == 'var':
            if x[1] not in names:
                raise TranslateError('unknown name %r in expression %r' % (x[1], text))
            return names[x[1]]
        if t == 'neg':
            if ty == 'N':
                raise TranslateError('unary minus in an N expression %r' % text)
            return '- ' + paren(x[1], 0)
        if t == 'not':
            return 'negb ' + paren(x[1], 0)
        if t == 'bin':
            if x[1] == '-' and ty == 'N':
                raise TranslateError('subtraction in an N expression %r' % text)
            me = lvl(x)
            return '%s %s %s' % (paren(x[2], me), x[1], paren(x[3], 40 if me == 50 else 0))
        if t == 'cmp':
            op, a, b = x[1], x[2], x[3]
            if op in ('>', '>='):
                a, b, op = b, a, {'>': '<', '>=': '<='}[op]
            if op == '!=':
                return 'negb (%s =? %s)' % (paren(a, 50), paren(b, 50))
            return '%s %s %s' % (paren(a, 50), {'<': '<?', '<=': '<=?', '==': '=?'}[op], paren(b, 50))
        if t in ('and', 'or'):
            return '%s %s %s' % (paren(x[1], 0), '&&' if t == 'and' else '||', paren(x[2], 0))
        if t == 'if':
            return 'if %s then %s else %s' % (pr(x[1]), paren(x[2], 50), pr(x[3]) if x[3][0] == 'if' else paren(x[3], 50))
        raise TranslateError('internal: node %r' % (t,))
    return pr(e)


def clamp_if(x):
    """the value of `x.clamp(lo, hi)` (core::cmp::Ord::clamp) as nested ifs"""
    return ('if', ('cmp', '<', x[1], x[2]), x[2], ('if', ('cmp', '>', x[1], x[3]), x[3], x[1]))


def obligations(e, pc, mach, out):
    """range obligations of evaluating e in machine type `mach` under the path condition pc (list of (cond ast, bool)):
    every + - * and unary minus yields a value that must lie in `mach`; every `as T` must be applied to a value in T (then the
    cast keeps the mathematical value).  `a || b` evaluates b only when a is false, `a && b` only when a is true, the branches
    of an `if` only under the condition / its negation."""
    t = e[0]
    if t in ('lit', 'var'):
        return out
    if t == 'cast':
        obligations(e[2], pc, mach, out)
        if e[2][0] != 'lit':
            out.append((pc, e[1], e[2]))
        return out
    if t == 'neg':
        obligations(e[1], pc, mach, out)
        if e[1][0] != 'lit':
            out.append((pc, mach, e))
        return out
    if t == 'not':
        return obligations(e[1], pc, mach, out)
    if t == 'bin':
        obligations(e[2], pc, mach, out)
        obligations(e[3], pc, mach, out)
        out.append((pc, mach, e))
        return out
    if t == 'cmp':
        obligations(e[2], pc, mach, out)
        return obligations(e[3], pc, mach, out)
    if t in ('and', 'or'):
        obligations(e[1], pc, mach, out)
        return obligations(e[2], pc + [(e[1], t == 'and')], mach, out)
    if t == 'if':
        obligations(e[1], pc, mach, out)
        obligations(e[2], pc + [(e[1], True)], mach, out)
        return obligations(e[3], pc + [(e[1], False)], mach, out)
    if t == 'clamp':        # the three operands are evaluated once; `assert!(lo <= hi)` panics otherwise
        for x in e[1:]:
            obligations(x, pc, mach, out)
        out.append((pc, 'assert', ('cmp', '<=', e[2], e[3])))
        return out
    raise TranslateError('internal: node %r' % (t,))


def safe_prop(ast, names, ty, mach, text):
    obs = obligations(ast, [], mach, [])
    if not obs:
        return 'True'
    parts = []
    for pc, T, e in obs:
        hyps = ''.join('(%s)%%%s = %s -> ' % (gallina(c, names, ty, text), ty, 'true' if b else 'false') for c, b in pc)
        if T == 'assert':
            parts.append('(%s(%s)%%%s = true)' % (hyps, gallina(e, names, ty, text), ty))
        else:
            parts.append('(%sIN_%s (%s)%%%s)' % (hyps, T, gallina(e, names, ty, text), ty))
    return ' /\\ '.join(parts)


def impl_body(src, header_re):
    return block_after(src, header_re)


_SRC_CACHE = {}


def rust_src(repo, rel):
    key = (repo, rel)
    if key not in _SRC_CACHE:
        _SRC_CACHE[key] = strip_comments_keep_strings(re.sub(r'/\*.*?\*/', '', open(os.path.join(repo, rel)).read(), flags=re.S))
    return _SRC_CACHE[key]


def cmt(text):
    """source text made safe inside a Coq comment"""
    return re.sub(r'\s+', ' ', text.strip()).replace('*)', '* )').replace('(*', '( *').replace('"', "''")


# ---------------------------------------------------------------- scopes: what an identifier of an anchored expression denotes
# RESOLUTION.  An identifier of an anchored expression that is not an operand of the row is resolved, never guessed:
#  (a) a `const NAME: <int type> = <expr>;` of the same file (exactly one), else of src/constants.rs -> its expression;
#  (b) an immutable `let NAME [: T] = <expr>;` of the enclosing fn that is the ONLY binding of NAME in that fn (no second
#      `let`, no pattern / closure / `for` / match-arm / parameter binding, never assigned, never `&mut`), lies before the
#      anchor and in a block that encloses it -> its expression, resolved at the position of the `let`; every variable the
#      expression finally depends on must not be assigned between that `let` and the anchor (nor anywhere in a loop that
#      encloses the anchor but not the `let`), so the value substituted is the value the code uses.  Depth-limited.
#  (c) an operand of the row that has a ROLE (`names`) is recognised by its binding, not by its spelling: a parameter by its
#      position and type, a local by the statement that binds it (`let X = (header & CONTAINER_HEADER_LEN_MASK) as usize;`)
#      or by the place it is used (`read_u32(value, X)`), see `names` in the row format.
# Everything else: TranslateError.
def scan_pairs(text):
    """matching braces of `text` (string / char literals skipped): dict open index -> close index"""
    stack, pairs = [], {}
    j, n = 0, len(text)
    while j < n:
        c = text[j]
        if c == '"':
            j += 1
            while j < n and text[j] != '"':
                j += 2 if text[j] == '\\' else 1
        elif c == "'":
            m = re.match(r"'(?:\\(?:x[0-9A-Fa-f]{2}|u\{[0-9A-Fa-f]+\}|.)|[^'\\])'", text[j:j + 12])
            if m:
                j += m.end() - 1
        elif c == '{':
            stack.append(j)
        elif c == '}' and stack:
            pairs[stack.pop()] = j
        j += 1
    return pairs


def split_commas(text):
    out, depth, last = [], 0, 0
    for i, c in enumerate(text):
        if c in '([{<':
            depth += 1
        elif c in ')]}>' and not (c == '>' and i > 0 and text[i - 1] == '-'):
            depth -= 1
        elif c == ',' and depth == 0:
            out.append(text[last:i])
            last = i + 1
    out.append(text[last:])
    return [x.strip() for x in out if x.strip()]


def parse_params(sig):
    """[(name, type)] of a fn signature, the `self` receiver excluded"""
    m = re.search(r'\bfn\s+\w+', sig)
    if not m:
        return []
    i, depth = m.end(), 0
    while i < len(sig) and not (sig[i] == '(' and depth == 0):
        if sig[i] == '<':
            depth += 1
        elif sig[i] == '>':
            depth -= 1
        i += 1
    if i >= len(sig):
        return []
    j, depth = i, 0
    while j < len(sig):
        if sig[j] == '(':
            depth += 1
        elif sig[j] == ')':
            depth -= 1
            if depth == 0:
                break
        j += 1
    out = []
    for p in split_commas(sig[i + 1:j]):
        if re.fullmatch(r"&?\s*(?:'\w+\s+)?(?:mut\s+)?self(?:\s*:.*)?", p, flags=re.S):
            continue
        pm = re.fullmatch(r'(?:mut\s+)?([A-Za-z_]\w*)\s*:\s*(.*)', p, flags=re.S)
        out.append((pm.group(1), re.sub(r'\s+', ' ', pm.group(2).strip())) if pm else ('?', p))
    return out


def fn_parts(src, name):
    """(signature, brace-balanced body) of fn `name`"""
    m = re.search(r'fn\s+' + re.escape(name) + r'\b', src)
    if not m:
        raise TranslateError('function %s not found' % name)
    i = src.index('{', m.end())
    j = match_brace(src, i)
    if j < 0:
        raise TranslateError('unbalanced braces in %s' % name)
    return src[m.start():i], src[i:j]


ASSIGN_OPS = r'(?:[-+*/%|&^]|<<|>>)?=(?![=>])'


class FnScope:
    """bindings of one fn: text = signature + body; positions are offsets into text"""

    def __init__(self, sig, body):
        self.sig, self.body = sig, body
        self.text = sig + body
        self.off = len(sig)
        self.pairs = scan_pairs(self.text)
        self.params = parse_params(sig)
        self.lets = []
        for m in re.finditer(r'\blet\s+(mut\s+)?([A-Za-z_]\w*)\s*(?::\s*([^=;]+?))?\s*=(?!=)', self.text):
            j, depth, n = m.end(), 0, len(self.text)
            while j < n:
                c = self.text[j]
                if c == '"':
                    j += 1
                    while j < n and self.text[j] != '"':
                        j += 2 if self.text[j] == '\\' else 1
                elif c in '([{':
                    depth += 1
                elif c in ')]}':
                    depth -= 1
                    if depth < 0:
                        break
                elif c == ';' and depth == 0:
                    break
                j += 1
            self.lets.append(dict(name=m.group(2), mut=bool(m.group(1)), rhs=self.text[m.end():j].strip(), start=m.start(), end=j + 1))
        self.loops = []
        for m in re.finditer(r'\b(?:for|while|loop)\b[^{};]*\{', self.text):
            o = m.end() - 1
            if o in self.pairs:
                self.loops.append((m.start(), self.pairs[o]))

    def lets_named(self, name):
        return [l for l in self.lets if l['name'] == name]

    def block_of(self, pos):
        best = (0, len(self.text))
        for o, c in self.pairs.items():
            if o < pos <= c and o > best[0]:
                best = (o, c)
        return best

    def arm_pattern(self, pos):
        """text of the match-arm pattern that ends at the `=>` at pos"""
        j, depth = pos - 1, 0
        while j >= 0:
            c = self.text[j]
            if c in ')]':
                depth += 1
            elif c in '([':
                depth -= 1
                if depth < 0:
                    break
            elif depth == 0 and c in '{};,':
                break
            j -= 1
        return self.text[j + 1:pos]

    def other_binders(self, name):
        """places other than a simple `let [mut] name [: T] =` that bind `name` (conservative: guards count too)"""
        w = re.compile(r'(?<![\w.])' + re.escape(name) + r'\b')
        t = self.text
        found = []
        for m in re.finditer(r'\blet\s+([^=;]*?)=(?!=)', t):
            if not re.fullmatch(r'\s*(?:mut\s+)?[A-Za-z_]\w*\s*(?::[^=;]*)?', m.group(1)) and w.search(m.group(1)):
                found.append('pattern `let %s`' % m.group(1).strip())
        for m in re.finditer(r'\bfor\s+(.*?)\s+in\b', t, flags=re.S):
            if w.search(m.group(1)):
                found.append('`for %s in`' % m.group(1).strip())
        for m in re.finditer(r'(?<!\|)\|([^|;{}()]*)\|(?!\|)', t):
            if w.search(m.group(1)):
                found.append('closure parameter / `|` expression')
        for m in re.finditer(r'=>', t):
            if w.search(self.arm_pattern(m.start())):
                found.append('match arm `%s =>`' % self.arm_pattern(m.start()).strip())
        if any(p == name for p, _ in self.params):
            found.append('fn parameter')
        return found

    def assignments(self, name, a, b):
        """assignments (plain or compound, through a deref or not) to `name` in text[a:b], the `let`s excluded"""
        out = []
        for m in re.finditer(r'(?<![\w.])\*?\s*' + re.escape(name) + r'\s*' + ASSIGN_OPS, self.text[a:b]):
            if not re.search(r'\blet\s+(?:mut\s+)?$', self.text[max(0, a + m.start() - 16):a + m.start()]):
                out.append(a + m.start())
        for m in re.finditer(r'&\s*mut\s+' + re.escape(name) + r'\b', self.text[a:b]):
            out.append(a + m.start())
        return out

    def stable_let(self, name, pos):
        ls = self.lets_named(name)
        if len(ls) != 1:
            raise TranslateError('`%s` is bound by %d `let`s in the fn' % (name, len(ls)))
        l = ls[0]
        if l['mut']:
            raise TranslateError('`%s` is `let mut`' % name)
        ob = self.other_binders(name)
        if ob:
            raise TranslateError('`%s` is also bound elsewhere (%s)' % (name, ob[0]))
        if self.assignments(name, 0, len(self.text)):
            raise TranslateError('`%s` is assigned or mutably borrowed' % name)
        blk = self.block_of(l['start'])
        if not (l['end'] <= pos and blk[0] < pos <= blk[1]):
            raise TranslateError('the `let %s` is not in scope at the anchor' % name)
        return l

    def check_unchanged(self, leaves, a, b):
        """the variables in `leaves` keep their value from position a (end of a `let`) to position b (the anchor)"""
        spans = [(a, b)] + [(lo, hi) for lo, hi in self.loops if lo < b <= hi and not (lo < a <= hi)]
        for leaf in leaves:
            root = leaf
            if leaf.endswith('.len()'):
                root = leaf[:-6]
                for lo, hi in spans:
                    for m in re.finditer(r'(?<![\w.])' + re.escape(root) + r'\b(?!\s*(?:\.len\(\)|\.iter\(\)|\.keys\(\)|\.values\(\)|\.is_empty\(\)|\[))', self.text[lo:hi]):
                        raise TranslateError('`%s` is used between the `let` and the anchor in a way that may change `%s`' % (root, leaf))
            for lo, hi in spans:
                if self.assignments(root, lo, hi):
                    raise TranslateError('`%s` is assigned between the `let` that uses it and the anchor' % root)


class ConstTable:
    """named integer constants: of the file itself, then of src/constants.rs"""
    RX = r'\bconst\s+%s\s*:\s*([\w:]+)\s*=\s*([^;]+);'

    def __init__(self, repo, rel):
        self.srcs = [(rel, rust_src(repo, rel))]
        if rel != 'src/constants.rs':
            self.srcs.append(('src/constants.rs', rust_src(repo, 'src/constants.rs')))

    def lookup(self, name, casts, notes, depth=0):
        if depth > 6:
            raise TranslateError('constant %s: definitions nested too deeply' % name)
        for rel, src in self.srcs:
            ms = re.findall(self.RX % re.escape(name), src)
            if len(ms) > 1:
                raise TranslateError('constant %s is defined %d times in %s' % (name, len(ms), rel))
            if len(ms) == 1:
                T, text = ms[0][0].split('::')[-1], re.sub(r'\s+', ' ', ms[0][1].strip())
                if T not in INT_TYPES:
                    raise TranslateError('constant %s has the non-integer type %s' % (name, T))
                p = ExprParser(text)
                ast = p.parse()
                casts.extend(p.casts)
                notes.append('const %s = %s' % (name, text))
                return self.subst(ast, casts, notes, depth)
        return None

    def subst(self, e, casts, notes, depth):
        if e[0] == 'var':
            r = self.lookup(e[1], casts, notes, depth + 1) if re.fullmatch(r'[A-Za-z_]\w*', e[1]) else None
            if r is None:
                raise TranslateError('unknown name %r in a constant definition' % e[1])
            return r
        return tuple(self.subst(x, casts, notes, depth) if isinstance(x, tuple) else x for x in e)


class Resolver:
    MAXDEPTH = 8

    def __init__(self, scope, ctab, rmap, literal, final):
        self.scope, self.ctab, self.rmap, self.literal, self.final = scope, ctab, rmap, literal, final
        self.casts, self.notes = [], []

    def res(self, e, pos, depth, leaves):
        if e[0] == 'lit':
            return e
        if e[0] == 'var':
            return self.var(e[1], pos, depth, leaves)
        return tuple(self.res(x, pos, depth, leaves) if isinstance(x, tuple) else x for x in e)

    def var(self, name, pos, depth, leaves):
        if name in self.rmap:
            leaves.add(name)
            return ('var', self.rmap[name])
        if name in self.literal:
            leaves.add(name)
            return ('var', name)
        if not re.fullmatch(r'[A-Za-z_]\w*', name):
            raise TranslateError('unknown operand %r' % name)
        if depth >= self.MAXDEPTH:
            raise TranslateError('bindings nested too deeply at %r' % name)
        if self.scope is not None and self.scope.lets_named(name):
            l = self.scope.stable_let(name, pos)
            try:
                p = ExprParser(re.sub(r'\s+', ' ', l['rhs']))
                ast = p.parse()
            except TranslateError as e:
                raise TranslateError('`%s` is not an operand of this row and its binding cannot be substituted (%s)' % (name, e))
            sub = set()
            r = self.res(ast, l['start'], depth + 1, sub)
            self.scope.check_unchanged(sub, l['end'], self.final)
            self.casts.extend(p.casts)
            self.notes.append('let %s = %s' % (name, re.sub(r'\s+', ' ', l['rhs'])))
            leaves |= sub
            return r
        if self.scope is not None and any(p == name for p, _ in self.scope.params):
            raise TranslateError('unknown name %r (a parameter of the fn that is not an operand of this row)' % name)
        c = self.ctab.lookup(name, self.casts, self.notes)
        if c is not None:
            return c
        raise TranslateError('unknown name %r' % name)


def fill(rx, found, hoists=None):
    for k, v in found.items():
        rx = rx.replace('{' + k + '}', re.escape(v))
    for k, v in (hoists or {}).items():
        rx = rx.replace('{' + k + '}', v)
    return rx


def discover(row, scope):
    """the Rust spelling of every role of the row: dict role -> identifier"""
    found = {}
    for key, spec in (row.get('names') or {}).items():
        errs = []
        for sp in (spec if isinstance(spec, list) else [spec]):
            try:
                if isinstance(sp, tuple):
                    _, idx, tyre, default = sp
                    ps = scope.params
                    if idx >= len(ps):
                        raise TranslateError('role %s: the fn has no parameter %d' % (key, idx))
                    nm, ty = ps[idx]
                    if not re.fullmatch(tyre, ty.replace(' ', '')):
                        raise TranslateError('role %s: parameter %d (`%s: %s`) does not have the expected type %s' % (key, idx, nm, ty, tyre))
                    if nm != default and any(p == default for p, _ in ps):
                        raise TranslateError('role %s: parameter %d is `%s` but another parameter is called `%s`' % (key, idx, nm, default))
                    found[key] = nm
                else:
                    vals = sorted(set(m.group('v') for m in re.finditer(fill(sp, found), scope.text)))
                    if len(vals) != 1:
                        raise TranslateError('role %s: %s (pattern %s)' % (key, 'binding not found' if not vals else 'ambiguous: ' + ', '.join(vals), sp))
                    found[key] = vals[0]
                break
            except TranslateError as e:
                errs.append(str(e))
        else:
            raise TranslateError('; '.join(errs))
    return found


_SCOPE_CACHE = {}


def row_scope(repo, row):
    key = (repo, row['file'], row.get('impl'), row.get('fn'))
    if key not in _SCOPE_CACHE:
        src = rust_src(repo, row['file'])
        if row.get('impl'):
            src = impl_body(src, row['impl'])
        _SCOPE_CACHE[key] = FnScope(*fn_parts(src, row['fn'])) if row.get('fn') else None
    return _SCOPE_CACHE[key]


def rename(e, names, text):
    if e[0] == 'var':
        if e[1] not in names:
            raise TranslateError('unknown name %r in expression %r' % (e[1], text))
        return ('var', names[e[1]])
    return tuple(rename(x, names, text) if isinstance(x, tuple) else x for x in e)


def anchored1(repo, row):
    """one ANCHORS row (one alternative) -> dict describing the generated definition"""
    name = row['name']
    scope = row_scope(repo, row)
    if scope is not None:
        body, whole, where = scope.body, scope.text, '%s fn %s' % (row['file'], row['fn'])
    else:
        body = whole = rust_src(repo, row['file'])
        where = row['file']
    found = discover(row, scope) if scope is not None else {}
    hoists, hoisted = {}, []
    for key, rx in (row.get('hoist') or {}).items():
        alts_ = [fill(rx, found)]
        for l in (scope.lets if scope is not None else []):
            if not l['mut'] and re.fullmatch(alts_[0], l['rhs']):
                try:
                    scope.stable_let(l['name'], len(whole) - 1)     # bound once, in the outermost block of the fn
                    alts_.append(re.escape(l['name']))
                    hoisted.append(l)
                except TranslateError:
                    pass
        hoists[key] = '(?:' + '|'.join(alts_) + ')'
    requires = []
    for rq in row.get('require', []):
        m = re.search(fill(rq, found, hoists), whole)
        if not m:
            raise TranslateError('%s: %s: required context not found (pattern %s)' % (name, where, rq))
        requires.append(cmt(m.group(0)))
    if row.get('kind') == 'require':
        return dict(name=name, kind='require', comment='(* %s: %s: the source contains %s *)' % (name, where, '; '.join('`%s`' % f for f in requires)), defs=[])
    count = row.get('count', 1)
    if row.get('kind') == 'step':
        var = fill(row['var'], found)
        ms = [m for m in re.finditer(r'(?<![\w.])\*?\s*(?P<x>' + var + r')\s*(?P<op>' + ASSIGN_OPS + r')\s*(?P<e>[^;]*);', body)
              if not re.search(r'\blet\s+(?:mut\s+)?$', body[max(0, m.start() - 16):m.start()])]
        patdesc = 'assignments to ' + var
    else:
        pat = fill(row['pat'], found, hoists)
        ms = list(re.finditer(pat, body))
        patdesc = 'pattern ' + pat
    if len(ms) != count:
        raise TranslateError('%s: %s: anchor found %d times, expected %d (%s)' % (name, where, len(ms), count, patdesc))
    m = ms[row.get('occ', 0)]
    for l in hoisted:
        if re.search(r'\b%s\b' % re.escape(l['name']), m.group(0)) and not l['end'] <= (scope.off + m.start()):
            raise TranslateError('%s: %s: `%s` is used before its `let`' % (name, where, l['name']))
    text = re.sub(r'\s+', ' ', m.group('e').strip())
    ty = row.get('ty', 'Z')
    if row.get('kind') == 'width':
        if text not in INT_TYPES or text in ('usize', 'isize'):
            raise TranslateError('%s: %s: %r is not a sized integer type' % (name, where, text))
        return dict(name=name, kind='width', comment='(* %s: `%s` *)' % (where, cmt(m.group(0))),
                    defs=['Definition %s : nat := %d%%nat.' % (name, INT_TYPES[text] // 8)])
    if row.get('synth'):
        text = row['synth']
        for g, v in m.groupdict().items():
            text = text.replace('{' + g + '}', re.sub(r'\s+', ' ', (v or '').strip()))
    try:
        p = ExprParser(text)
        ast = p.parse()
        keys = set((row.get('names') or {}).keys())
        ops = [o for o, _ in row['params']]
        rmap = dict((found[o], o) for o in ops if o in keys)
        literal = set(o for o in ops if o not in keys)
        selfname = None
        if row.get('kind') == 'step':
            if m.group('op') not in ('=', '+='):
                raise TranslateError('the variable is updated with `%s`' % m.group('op'))
            if m.group('op') == '=':
                selfname = m.group('x').strip()
                if selfname in rmap or selfname in literal:
                    raise TranslateError('the updated variable is an operand')
                rmap[selfname] = '\x00self'
        rs = Resolver(scope, ConstTable(repo, row['file']), rmap, literal,
                      (scope.off if scope is not None else 0) + (m.start() if row.get('kind') == 'step' else m.start('e')))
        ast = rs.res(ast, rs.final, 0, set())
        casts = p.casts + rs.casts
        if selfname is not None:
            import normform
            d = normform.p_add(normform.nf_int(ast, ty), normform.p_var('\x00self'), -1)
            if any('\x00self' in a for mono in d for a in mono):
                raise TranslateError('`%s = %s` is not `%s + <increment>`' % (selfname, text, selfname))
            ast = normform.poly_to_ast(d, ty)
        kind = expr_kind(ast, text)
        names = dict(row['params'])
        if 'binder' in row:
            seen = list(row['binder'])
        else:
            used = set(expr_vars(ast, []))
            for rust, _ in row['params']:
                if rust not in used:
                    raise TranslateError('operand %r no longer occurs in expression %r' % (found.get(rust, rust), text))
            seen = []
            for p_ in [c for _, c in row['params']]:
                if p_ not in seen:
                    seen.append(p_)
        cast = rename(ast, names, text)           # the AST over the Coq parameter names
        idn = dict((v, v) for v in names.values())
        body_ = gallina(cast, idn, ty, text)
        obs = obligations(cast, [], row['mach'], []) if row.get('safe') else None
        safe = safe_prop(cast, idn, ty, row['mach'], text) if row.get('safe') else None
    except TranslateError as e:
        raise TranslateError('%s: %s: %s' % (name, where, e))
    except Exception as e:      # normform errors
        raise TranslateError('%s: %s: %s' % (name, where, e))
    rty = 'bool' if kind == 'bool' else ty
    if row.get('fmt') == 'plain':
        binder = ' (%s : %s)' % (' '.join(seen), ty) if seen else ''
        return dict(name=name, kind='expr', comment=None, defs=['Definition %s%s : %s := %s.' % (name, binder, rty, body_)],
                    ekind=kind, ty=ty, ast=cast, binder=seen, rty=rty, obs=None, source=text, notes=rs.notes)
    binder = ' (%s : %s)' % (' '.join(seen), ty) if seen else ''
    note = 'computed in %s' % row['mach'] if row.get('mach') else ''
    if casts:
        note += ('; ' if note else '') + 'casts dropped: ' + ', '.join(casts)
    shown = cmt(text) if not row.get('synth') else cmt(m.group(0)) + ' read as ' + cmt(text)
    if rs.notes:
        shown += '` where `' + '`, `'.join(cmt(n) for n in rs.notes)
    defs = ['Definition %s%s : %s := (%s)%%%s.' % (name, binder, rty, body_, ty)]
    if safe is not None:
        defs.append('Definition %s_SAFE%s : Prop := %s.' % (name, binder, safe))
    return dict(name=name, kind='expr', comment='(* %s: `%s`%s *)' % (where, shown, (' -- ' + note) if note else ''), defs=defs,
                ekind=kind, ty=ty, ast=cast, binder=seen, rty=rty, obs=obs, source=text, notes=rs.notes)


def anchored(repo, row):
    """one ANCHORS row -> dict (see anchored1); the alternatives `alts` of the row are tried in order"""
    errs = []
    for alt in [{}] + list(row.get('alts', [])):
        r = dict(row)
        r.update(alt)
        try:
            return anchored1(repo, r)
        except TranslateError as e:
            errs.append(str(e))
    raise TranslateError(' || '.join(errs))


def letmut(var):
    return r'let\s+mut\s+' + var + r'\s*=\s*(?P<e>[^;]*);'


def nrow(name, file, fn, pat, params, **kw):
    """a row of usize arithmetic, emitted in N; pat = ('step', variable regex) for the increment of a variable"""
    d = dict(name=name, file=file, fn=fn, params=params, ty='N', mach='usize')
    if isinstance(pat, tuple):
        d.update(kind='step', var=pat[1])
    else:
        d['pat'] = pat
    d.update(kw)
    return d


def incr(var):
    """the amount a variable is advanced by: `var += e;`, or `var = <something that resolves to var + e>;`"""
    return ('step', var)


def P(idx, ty, default):
    """role of a fn parameter: position (the `self` receiver not counted), regex of its type (blanks removed), usual name"""
    return ('param', idx, ty, default)


# the entry count of a container: the local bound to `(<header> & CONTAINER_HEADER_LEN_MASK) as usize`
_HDRLEN = r'let\s+(?P<v>\w+)\s*=\s*\(\s*{header}\s*&\s*CONTAINER_HEADER_LEN_MASK\s*\)\s*as\s+usize\s*;'
_HL = {'length': _HDRLEN.replace('{header}', 'header')}
# roles recognised by USE: the variable every `read_u32(buf, X)` of the fn reads at, the third component of the result,
# the upper bound of the key slice
_USE_J = r'read_u32\(\s*\w+\s*,\s*(?P<v>\w+)\s*\)'
_USE_V = r'Some\(\(\s*\w+\s*,\s*\w+\s*,\s*(?P<v>\w+)\s*\)\)'
_USE_K = r'from_utf8_unchecked\(\s*&\w+\[\s*\w+\s*\.\.\s*(?P<v>\w+)\s*\]\s*\)'
_JBI = {'offset': P(1, 'usize', 'offset'), 'header': P(2, 'u32', 'header'), 'index': P(3, 'usize', 'index'), 'length': _HDRLEN,
        'J': _USE_J, 'V': _USE_V}
_JBN = {'offset': P(1, 'usize', 'offset'), 'header': P(2, 'u32', 'header'), 'length': _HDRLEN, 'J': _USE_J, 'V': _USE_V, 'K': _USE_K}
_CMPN = {'left_header': P(0, 'u32', 'left_header'), 'right_header': P(2, 'u32', 'right_header'),
         'left_length': _HDRLEN.replace('{header}', '{left_header}'), 'right_length': _HDRLEN.replace('{header}', '{right_header}')}
_CVN = {'length': P(1, 'usize', 'length')}
_CTS = {'offset': P(1, '&mutusize', 'offset'), 'length': _HDRLEN.replace('{header}', 'header')}
_SELN = {'root_offset': P(1, 'usize', 'root_offset'),
         'length': r'let\s*\(\s*\w+\s*,\s*\(\s*\w+\s*,\s*(?P<v>\w+)\s*\)\s*\)\s*=\s*decode_header\('}
_BSA = {'poses': P(1, '&mutVecDeque<Position>', 'poses'), 'data': P(2, '&mutVec<u8>', 'data'),
        'len': r'let\s+(?P<v>\w+)\s*=\s*{poses}\.len\(\)\s*;', 'J': r'let\s+mut\s+(?P<v>\w+)\s*=\s*{data}\.len\(\)\s*;'}

_O = [('offset', 'offset')]
_L = [('length', 'length')]
_OL = [('offset', 'offset'), ('length', 'length')]
_LR = [('left_length', 'left_length'), ('right_length', 'right_length')]
_RL = [('root_offset', 'root_offset'), ('length', 'length')]

NUM = 'src/number.rs'
_V = [('v', 'v')]
_CE_EQ = r'(?<!else\s)if\s+(?P<e>\*v\s*==[^{]*?)\s*\{'
_CE_GE = r'if\s+(?P<e>\*v\s*>=[^{]*?)\s*\{'
_CE_LE = r'if\s+(?P<e>\*v\s*<=[^{]*?)\s*\{'
_CE_W = r'\(\*v\s+as\s+(?P<e>\w+)\)\s*\.to_be_bytes\(\)'
# the same width selection written with the checked conversion: `if let Ok(n) = i8::try_from(*v) { .. n.to_be_bytes() .. }`.
# `T::try_from(x)` on integers is Ok exactly when T::MIN <= x <= T::MAX (core::convert::TryFrom between integer types), and then
# holds the value of `x as T`
_CE_TRY_I = dict(pat=r'if\s+let\s+Ok\(\s*\w+\s*\)\s*=\s*(?P<T>i(?:8|16|32))::try_from\(\s*(?P<e>\*v)\s*\)\s*\{', synth='{e} >= {T}::MIN.into() && {e} <= {T}::MAX.into()')
_CE_TRY_U = dict(pat=r'if\s+let\s+Ok\(\s*\w+\s*\)\s*=\s*(?P<T>u(?:8|16|32))::try_from\(\s*(?P<e>\*v)\s*\)\s*\{', synth='{e} >= {T}::MIN.into() && {e} <= {T}::MAX.into()')
_CE_TRY_W = dict(pat=r'if\s+let\s+Ok\(\s*(?P<n>\w+)\s*\)\s*=\s*(?P<e>[iu](?:8|16|32))::try_from\(\s*\*v\s*\)\s*\{\s*writer\.write_all\(\s*&(?P=n)\.to_be_bytes\(\)\s*\)')
FN = 'src/functions.rs'

SEL = 'src/jsonpath/selector.rs'
_IL = [('index', 'index'), ('len', 'len')]
_XL = [('idx', 'idx'), ('len', 'len')]
_XN = [('idx', 'idx'), ('length', 'length')]
_RESOLVE_INDEX = r'let\s+index\s*=\s*(?P<e>if\s+index\b[^;]*);'
_RESOLVE_IDX = r'let\s+idx\s*=\s*(?P<e>if\s+\*idx\s*<[^;]*);'
_GBK_REJECT = r'(?<!=\s)if\s+(?P<e>\*idx\b[^{]*?)\s*\{'      # an `if` statement (not `= if`) whose condition starts with *idx
_GBK_INDEX = r'let\s+idx\s*=\s*(?P<e>if\s+\*idx\s*>=[^;]*);'
_IF_INDEX = r'(?<!=\s)if\s+(?P<e>index\b[^{]*?)\s*\{'
_IF_IDX = r'(?<!=\s)if\s+(?P<e>idx\b[^{]*?)\s*\{'
_LAST = r'Index::LastIndex\(idx\)\s*=>\s*(?P<e>[^,]*),'

_LEN_ARR_I32 = r'let\s+len\s*=\s*arr\.len\(\)\s*as\s+i32\s*;'
_LEN_HDR_I32 = r'let\s+len\s*=\s*\(header\s*&\s*CONTAINER_HEADER_LEN_MASK\)\s*as\s+i32\s*;'
_RQ_DBI_T = [r'\bindex\s*:\s*i32\b', _LEN_ARR_I32]
_RQ_DBI_B = [r'\bindex\s*:\s*i32\b', _LEN_HDR_I32]
_RQ_AI = [r'\bpos\s*:\s*i32\b', r'\(header\s*&\s*CONTAINER_HEADER_LEN_MASK\)\s*as\s+i32\b']
_RQ_GBK = [r'let\s+length\s*=\s*arr\.len\(\)\s*as\s+i32\s*;', r'let\s+length\s*=\s*\(header\s*&\s*CONTAINER_HEADER_LEN_MASK\)\s*as\s+i32\s*;']
_RQ_SEL = [r'\blength\s*:\s*i32\b', r'let\s+length\s*=\s*length\s+as\s+i64\s*;']

ANCHORS = [
    # ---- G1: index arithmetic (C20 part A) -------------------------------------------------------------------------------
    # delete_by_index: text branch / byte branch
    dict(name='DBI_T_RESOLVE', file=FN, fn='delete_by_index', pat=_RESOLVE_INDEX, params=_IL, mach='i32', safe=True, require=_RQ_DBI_T),
    dict(name='DBI_T_KEEP', file=FN, fn='delete_by_index', pat=_IF_INDEX, params=_IL, mach='i32', safe=True, require=_RQ_DBI_T),
    dict(name='DBI_B_RESOLVE', file=FN, fn='delete_jsonb_by_index', pat=_RESOLVE_INDEX, params=_IL, mach='i32', safe=True, require=_RQ_DBI_B),
    dict(name='DBI_B_SKIP', file=FN, fn='delete_jsonb_by_index', pat=_IF_INDEX, params=_IL, mach='i32', safe=True, require=_RQ_DBI_B),
    # array_insert_jsonb (the text branch re-encodes and calls it: one site)
    dict(name='AI_NONARRAY_LEN', file=FN, fn='array_insert_jsonb',
         hoist={'TY': r'header\s*&\s*CONTAINER_HEADER_TYPE_MASK'},      # written in place, or hoisted into a `let`
         pat=r'let\s+len\s*=\s*if\s+{TY}\s*==\s*ARRAY_CONTAINER_TAG\s*\{\s*\(header\s*&\s*CONTAINER_HEADER_LEN_MASK\)\s*as\s+i32\s*\}\s*else\s*\{\s*(?P<e>[^}]*?)\s*\}\s*;',
         params=[], mach='i32', safe=True, require=_RQ_AI),
    # `idx` is bound twice: resolved against the length, then clamped into 0..=len (alternative location: 1st / 2nd `let idx`)
    dict(name='AI_RESOLVE', file=FN, fn='array_insert_jsonb', pat=r'let\s+idx\s*=\s*(?P<e>if\s+pos\b[^;]*);',
         params=[('pos', 'pos'), ('len', 'len')], mach='i32', safe=True, require=_RQ_AI,
         alts=[dict(pat=r'let\s+idx\s*=\s*(?P<e>[^;]*);', count=2, occ=0)]),
    dict(name='AI_CLAMP', file=FN, fn='array_insert_jsonb', pat=r'let\s+idx\s*=\s*(?P<e>if\s+idx\b[^;]*);', params=_XL, mach='i32', safe=True, require=_RQ_AI,
         alts=[dict(pat=r'let\s+idx\s*=\s*(?P<e>[^;]*);', count=2, occ=1)]),
    # get_by_keypath: occurrence 0 = Value (text) branch, occurrence 1 = byte branch
    dict(name='GBK_T_REJECT', file=FN, fn='get_by_keypath', pat=_GBK_REJECT, count=2, occ=0, params=_XN, mach='i32', safe=True, require=_RQ_GBK),
    dict(name='GBK_T_INDEX', file=FN, fn='get_by_keypath', pat=_GBK_INDEX, count=2, occ=0, params=_XN, mach='i32', safe=True, require=_RQ_GBK),
    dict(name='GBK_B_REJECT', file=FN, fn='get_by_keypath', pat=_GBK_REJECT, count=2, occ=1, params=_XN, mach='i32', safe=True, require=_RQ_GBK),
    dict(name='GBK_B_INDEX', file=FN, fn='get_by_keypath', pat=_GBK_INDEX, count=2, occ=1, params=_XN, mach='i32', safe=True, require=_RQ_GBK),
    # delete_by_keypath: Value (text) walker / byte walker
    dict(name='DKP_T_RESOLVE', file=FN, fn='delete_value_array_by_keypath', pat=_RESOLVE_IDX, params=_XL, mach='i32', safe=True, require=[_LEN_ARR_I32]),
    dict(name='DKP_T_SKIP', file=FN, fn='delete_value_array_by_keypath', pat=_IF_IDX, params=_XL, mach='i32', safe=True, require=[_LEN_ARR_I32]),
    dict(name='DKP_B_RESOLVE', file=FN, fn='delete_jsonb_array_by_keypath', pat=_RESOLVE_IDX, params=_XL, mach='i32', safe=True, require=[_LEN_HDR_I32]),
    dict(name='DKP_B_SKIP', file=FN, fn='delete_jsonb_array_by_keypath', pat=_IF_IDX, params=_XL, mach='i32', safe=True, require=[_LEN_HDR_I32]),
    # selector.rs convert_index / convert_slice
    dict(name='CI_LAST', file=SEL, fn='convert_index', pat=_LAST, params=_XN, mach='i64', safe=True, require=_RQ_SEL),
    dict(name='CI_INRANGE', file=SEL, fn='convert_index', pat=_IF_IDX, params=_XN, mach='i64', safe=True, require=_RQ_SEL),
    dict(name='CS_START_LAST', file=SEL, fn='convert_slice', pat=_LAST, count=2, occ=0, params=_XN, mach='i64', safe=True, require=_RQ_SEL),
    dict(name='CS_END_LAST', file=SEL, fn='convert_slice', pat=_LAST, count=2, occ=1, params=_XN, mach='i64', safe=True, require=_RQ_SEL),
    dict(name='CS_EMPTY', file=SEL, fn='convert_slice', pat=r'(?<!=\s)if\s+(?P<e>start\b[^{]*?)\s*\{',
         params=[('start', 'start'), ('end', 'stop'), ('length', 'length')], mach='i64', safe=True, require=_RQ_SEL),
    dict(name='SBI_NONEMPTY', kind='require', file=SEL, fn='select_by_indices', affects=['CS_EMPTY', 'CS_LO', 'CS_HI'],      # hypothesis 0 < length of I32.CS_bounds_safe
         require=[r'if\s+ty\s*!=\s*ARRAY_CONTAINER_TAG\s*\|\|\s*length\s*==\s*0\s*\{\s*return\s+Ok\(\(\)\)\s*;\s*\}']),
    dict(name='CS_LO', file=SEL, fn='convert_slice', pat=r'let\s+start\s*=\s*(?P<e>if\s+start\b[^;]*);', params=[('start', 'start')], mach='i64', safe=True, require=_RQ_SEL),
    dict(name='CS_HI', file=SEL, fn='convert_slice', pat=r'let\s+end\s*=\s*(?P<e>if\s+end\b[^;]*);',
         params=[('end', 'stop'), ('length', 'length')], mach='i64', safe=True, require=_RQ_SEL),
    # ---- G2: offsets of the read-only byte walkers (C05 C04 C14 C03 C08), usize arithmetic, type N ----------------------------
    # get_jentry_by_index
    nrow('JBI_REJECT', FN, 'get_jentry_by_index', r'(?<!=\s)if\s+(?P<e>{index}\b[^{]*?)\s*\{', [('index', 'index'), ('length', 'length')], names=_JBI),
    nrow('JBI_JOFF', FN, 'get_jentry_by_index', letmut('{J}'), _O, names=_JBI),
    nrow('JBI_VOFF', FN, 'get_jentry_by_index', letmut('{V}'), _OL, names=_JBI),
    # the entries in front of the requested one are skipped: `for i in 0..length { .. if i < index { advance; continue } return .. }`,
    # or the same loop written `for _ in 0..index { advance }` (its body runs exactly for the i with i < index)
    nrow('JBI_ADVANCE', FN, 'get_jentry_by_index', r'(?<!=\s)if\s+(?P<e>i\b[^{]*?)\s*\{', [('i', 'i'), ('index', 'index')], names=_JBI,
         alts=[dict(pat=r'for\s+_\s+in\s+0\s*\.\.\s*(?P<e>[^{]*?)\s*\{', synth='i < ({e})')]),
    nrow('JBI_JSTEP', FN, 'get_jentry_by_index', incr('{J}'), [], names=_JBI),
    # get_jentry_by_name
    nrow('JBN_JOFF', FN, 'get_jentry_by_name', letmut('{J}'), _O, names=_JBN),
    nrow('JBN_VOFF', FN, 'get_jentry_by_name', letmut('{V}'), _OL, names=_JBN),
    nrow('JBN_KOFF', FN, 'get_jentry_by_name', letmut('{K}'), _OL, names=_JBN),
    nrow('JBN_JSTEP1', FN, 'get_jentry_by_name', incr('{J}'), [], count=2, occ=0, names=_JBN),
    nrow('JBN_JSTEP2', FN, 'get_jentry_by_name', incr('{J}'), [], count=2, occ=1, names=_JBN),
    # object_keys
    nrow('OKS_JOFF', FN, 'object_keys', letmut('jentry_offset'), []),
    nrow('OKS_KOFF', FN, 'object_keys', letmut('key_offset'), _L, names=_HL),
    nrow('OKS_PREV_KOFF', FN, 'object_keys', letmut('prev_key_offset'), _L, names=_HL),
    nrow('OKS_JSTEP', FN, 'object_keys', incr('jentry_offset'), []),
    # object_each
    nrow('OEA_OFF0', FN, 'object_each', letmut('offset'), []),
    nrow('OEA_WORDS', FN, 'object_each', r'for\s+_\s+in\s+0\.\.(?P<e>[^{]*?)\s*\{', _L, names=_HL, count=3, occ=0),
    nrow('OEA_STEP', FN, 'object_each', r'\boffset\s*\+=\s*(?P<e>[0-9][^;]*);', []),
    # array_values
    nrow('AVS_JOFF', FN, 'array_values', letmut('jentry_offset'), []),
    nrow('AVS_VOFF', FN, 'array_values', letmut('val_offset'), _L, names=_HL),
    nrow('AVS_JSTEP', FN, 'array_values', incr('jentry_offset'), []),
    # compare_container -> compare_array / compare_object: the slices passed on skip the header
    nrow('CMP_ARR_LSKIP', FN, 'compare_container', r'compare_array\(\s*left_header\s*,\s*&left\[(?P<e>[^.\]]*)\.\.\]', []),
    nrow('CMP_ARR_RSKIP', FN, 'compare_container', r'compare_array\([^;)]*right_header\s*,\s*&right\[(?P<e>[^.\]]*)\.\.\]', []),
    nrow('CMP_OBJ_LSKIP', FN, 'compare_container', r'compare_object\(\s*left_header\s*,\s*&left\[(?P<e>[^.\]]*)\.\.\]', []),
    nrow('CMP_OBJ_RSKIP', FN, 'compare_container', r'compare_object\([^;)]*right_header\s*,\s*&right\[(?P<e>[^.\]]*)\.\.\]', []),
    # compare (top level): the same slices, and the entry word / payload of a scalar document
    nrow('CPR_ARR_LSKIP', FN, 'compare', r'compare_array\(\s*left_header\s*,\s*&left\[(?P<e>[^.\]]*)\.\.\]', []),
    nrow('CPR_ARR_RSKIP', FN, 'compare', r'compare_array\([^;)]*right_header\s*,\s*&right\[(?P<e>[^.\]]*)\.\.\]', []),
    nrow('CPR_OBJ_LSKIP', FN, 'compare', r'compare_object\(\s*left_header\s*,\s*&left\[(?P<e>[^.\]]*)\.\.\]', []),
    nrow('CPR_OBJ_RSKIP', FN, 'compare', r'compare_object\([^;)]*right_header\s*,\s*&right\[(?P<e>[^.\]]*)\.\.\]', []),
    nrow('CPR_SC_LSKIP', FN, 'compare', r'compare_scalar\(\s*&left_jentry\s*,\s*&left\[(?P<e>[^.\]]*)\.\.\]', []),
    nrow('CPR_SC_RSKIP', FN, 'compare', r'compare_scalar\([^;)]*&right_jentry\s*,\s*&right\[(?P<e>[^.\]]*)\.\.\]', []),
    nrow('CPR_SC_LJOFF', FN, 'compare', r'let\s+left_encoded\s*=\s*read_u32\(\s*left\s*,\s*(?P<e>[^)]*)\)', [], count=2, occ=0),
    nrow('CPR_SC_RJOFF', FN, 'compare', r'let\s+right_encoded\s*=\s*read_u32\(\s*right\s*,\s*(?P<e>[^)]*)\)', [], count=2, occ=0),
    nrow('CPR_MIX_LJOFF', FN, 'compare', r'let\s+left_encoded\s*=\s*read_u32\(\s*left\s*,\s*(?P<e>[^)]*)\)', [], count=2, occ=1),
    nrow('CPR_MIX_RJOFF', FN, 'compare', r'let\s+right_encoded\s*=\s*read_u32\(\s*right\s*,\s*(?P<e>[^)]*)\)', [], count=2, occ=1),
    # compare_array
    nrow('CMA_JOFF', FN, 'compare_array', letmut('jentry_offset'), []),
    nrow('CMA_LVOFF', FN, 'compare_array', letmut('left_val_offset'), [('left_length', 'left_length')], names=_CMPN),
    nrow('CMA_RVOFF', FN, 'compare_array', letmut('right_val_offset'), [('right_length', 'right_length')], names=_CMPN),
    nrow('CMA_LEN', FN, 'compare_array', r'let\s+length\s*=\s*(?P<e>if\b[^;]*);', _LR, names=_CMPN),
    nrow('CMA_JSTEP', FN, 'compare_array', incr('jentry_offset'), []),
    # compare_object
    nrow('CMO_LJOFF', FN, 'compare_object', letmut('left_jentry_offset'), []),
    nrow('CMO_RJOFF', FN, 'compare_object', letmut('right_jentry_offset'), []),
    nrow('CMO_LVOFF', FN, 'compare_object', letmut('left_val_offset'), [('left_length', 'left_length')], names=_CMPN),
    nrow('CMO_RVOFF', FN, 'compare_object', letmut('right_val_offset'), [('right_length', 'right_length')], names=_CMPN),
    nrow('CMO_LKOFF', FN, 'compare_object', letmut('left_key_offset'), [('left_length', 'left_length')], names=_CMPN),
    nrow('CMO_RKOFF', FN, 'compare_object', letmut('right_key_offset'), [('right_length', 'right_length')], names=_CMPN),
    nrow('CMO_LEN', FN, 'compare_object', r'let\s+length\s*=\s*(?P<e>if\b[^;]*);', _LR, names=_CMPN),
    nrow('CMO_LJSTEP1', FN, 'compare_object', incr('left_jentry_offset'), [], count=2, occ=0),
    nrow('CMO_LJSTEP2', FN, 'compare_object', incr('left_jentry_offset'), [], count=2, occ=1),
    nrow('CMO_RJSTEP1', FN, 'compare_object', incr('right_jentry_offset'), [], count=2, occ=0),
    nrow('CMO_RJSTEP2', FN, 'compare_object', incr('right_jentry_offset'), [], count=2, occ=1),
    # convert_to_comparable
    nrow('CVC_ARR_SKIP', FN, 'scalar_convert_to_comparable', r'array_convert_to_comparable\([^;]*&value\[(?P<e>[^.\]]*)\.\.\]', []),
    nrow('CVC_OBJ_SKIP', FN, 'scalar_convert_to_comparable', r'object_convert_to_comparable\([^;]*&value\[(?P<e>[^.\]]*)\.\.\]', []),
    nrow('CVA_JOFF', FN, 'array_convert_to_comparable', letmut('jentry_offset'), []),
    nrow('CVA_VOFF', FN, 'array_convert_to_comparable', letmut('val_offset'), _L, names=_CVN),
    nrow('CVA_JSTEP', FN, 'array_convert_to_comparable', incr('jentry_offset'), []),
    nrow('CVO_JOFF', FN, 'object_convert_to_comparable', letmut('jentry_offset'), []),
    nrow('CVO_VOFF', FN, 'object_convert_to_comparable', letmut('val_offset'), _L, names=_CVN),
    nrow('CVO_KOFF', FN, 'object_convert_to_comparable', letmut('key_offset'), _L, names=_CVN),
    nrow('CVO_JSTEP1', FN, 'object_convert_to_comparable', incr('jentry_offset'), [], count=2, occ=0),
    nrow('CVO_JSTEP2', FN, 'object_convert_to_comparable', incr('jentry_offset'), [], count=2, occ=1),
    # container_to_string / scalar_to_string (occurrences: scalar, array, object arm)
    nrow('CTS_SC_JOFF', FN, 'container_to_string', letmut('jentry_offset'), _O, names=_CTS, count=3, occ=0),
    nrow('CTS_SC_VOFF', FN, 'container_to_string', letmut('value_offset'), _O, names=_CTS, count=3, occ=0),
    nrow('CTS_ARR_JOFF', FN, 'container_to_string', letmut('jentry_offset'), _O, names=_CTS, count=3, occ=1),
    nrow('CTS_ARR_VOFF', FN, 'container_to_string', letmut('value_offset'), _OL, names=_CTS, count=3, occ=1),
    nrow('CTS_OBJ_JOFF', FN, 'container_to_string', letmut('jentry_offset'), _O, names=_CTS, count=3, occ=2),
    nrow('CTS_OBJ_KOFF', FN, 'container_to_string', letmut('key_offset'), _OL, names=_CTS),
    nrow('CTS_OBJ_VOFF', FN, 'container_to_string', letmut('value_offset'), [('key_offset', 'key_offset')], count=3, occ=2),
    nrow('CTS_OBJ_JSTEP', FN, 'container_to_string', incr('jentry_offset'), []),
    nrow('STS_JSTEP', FN, 'scalar_to_string', incr('{J}'), [], names={'J': P(1, '&mutusize', 'jentry_offset')}),
    # selector.rs
    nrow('SOV_OFF', SEL, 'select_object_values', letmut('offset'), _RL, names=_SELN),
    nrow('SAV_OFF', SEL, 'select_array_values', letmut('offset'), _RL, names=_SELN),
    nrow('SBN_OFF', SEL, 'select_by_name', letmut('offset'), _RL, names=_SELN),
    nrow('SBI_OFF', SEL, 'select_by_indices', letmut('offset'), _RL, names=_SELN),
    nrow('BSA_RESERVE', SEL, 'build_scalar_array', r'{data}\.resize\(\s*(?P<e>[^,]*),\s*0\s*\)\s*;', [('J', 'jentry_offset'), ('len', 'len')], names=_BSA),
    nrow('BSA_JSTEP', SEL, 'build_scalar_array', incr('{J}'), [], names=_BSA),
    # ---- G3: width selection of Number::compact_encode (C01 C18) ----------------------------------------------------------------
    dict(name='CE_INT_ZERO', file=NUM, fn='compact_encode', pat=_CE_EQ, count=2, occ=0, params=_V, ty='Z', mach='i64'),
    dict(name='CE_INT_FITS1', file=NUM, fn='compact_encode', pat=_CE_GE, count=3, occ=0, params=_V, ty='Z', mach='i64', alts=[_CE_TRY_I]),
    dict(name='CE_INT_FITS2', file=NUM, fn='compact_encode', pat=_CE_GE, count=3, occ=1, params=_V, ty='Z', mach='i64', alts=[_CE_TRY_I]),
    dict(name='CE_INT_FITS3', file=NUM, fn='compact_encode', pat=_CE_GE, count=3, occ=2, params=_V, ty='Z', mach='i64', alts=[_CE_TRY_I]),
    dict(name='CE_UINT_ZERO', file=NUM, fn='compact_encode', pat=_CE_EQ, count=2, occ=1, params=_V, ty='N', mach='u64'),
    dict(name='CE_UINT_FITS1', file=NUM, fn='compact_encode', pat=_CE_LE, count=3, occ=0, params=_V, ty='N', mach='u64', alts=[_CE_TRY_U]),
    dict(name='CE_UINT_FITS2', file=NUM, fn='compact_encode', pat=_CE_LE, count=3, occ=1, params=_V, ty='N', mach='u64', alts=[_CE_TRY_U]),
    dict(name='CE_UINT_FITS3', file=NUM, fn='compact_encode', pat=_CE_LE, count=3, occ=2, params=_V, ty='N', mach='u64', alts=[_CE_TRY_U]),
    # the widths written: `(*v as iN).to_be_bytes()` in the three narrow branches, the variant's own type in the last one
    dict(name='CE_INT_W1', kind='width', file=NUM, fn='compact_encode', pat=_CE_W, count=6, occ=0, alts=[_CE_TRY_W]),
    dict(name='CE_INT_W2', kind='width', file=NUM, fn='compact_encode', pat=_CE_W, count=6, occ=1, alts=[_CE_TRY_W]),
    dict(name='CE_INT_W3', kind='width', file=NUM, fn='compact_encode', pat=_CE_W, count=6, occ=2, alts=[_CE_TRY_W]),
    dict(name='CE_INT_W4', kind='width', file=NUM, fn=None, pat=r'enum\s+Number\s*\{\s*Int64\((?P<e>\w+)\)\s*,'),
    dict(name='CE_UINT_W1', kind='width', file=NUM, fn='compact_encode', pat=_CE_W, count=6, occ=3, alts=[_CE_TRY_W]),
    dict(name='CE_UINT_W2', kind='width', file=NUM, fn='compact_encode', pat=_CE_W, count=6, occ=4, alts=[_CE_TRY_W]),
    dict(name='CE_UINT_W3', kind='width', file=NUM, fn='compact_encode', pat=_CE_W, count=6, occ=5, alts=[_CE_TRY_W]),
    dict(name='CE_UINT_W4', kind='width', file=NUM, fn=None, pat=r'enum\s+Number\s*\{[^}]*?\bUInt64\((?P<e>\w+)\)\s*,'),
    dict(name='CE_WIDE_BRANCHES', kind='require', file=NUM, fn='compact_encode', affects=['CE_INT_W4', 'CE_UINT_W4'],      # the last branch writes the variant's own type
         require=[r'\}\s*else\s*\{\s*writer\.write_all\(&v\.to_be_bytes\(\)\)\?;\s*Ok\(9\)\s*\}\s*\}\s*Self::UInt64',
                  r'\}\s*else\s*\{\s*writer\.write_all\(&v\.to_be_bytes\(\)\)\?;\s*Ok\(9\)\s*\}\s*\}\s*Self::Float64']),
]


IT = 'src/iterator.rs'
BL = 'src/builder.rs'
_ITN = {'header': P(1, 'u32', 'header'), 'length': _HDRLEN}
_BLN = [('self.entries.len()', 'n'), ('entries.len()', 'n')]
_IMPL_AB = r"impl<'a>\s+ArrayBuilder<'a>\s*\{"
_IMPL_OB = r"impl<'a>\s+ObjectBuilder<'a>\s*\{"


def fieldpat(name):
    """the value given to a field in the struct literal a constructor fn returns"""
    return r'\b' + name + r'\s*:\s*(?P<e>[^,}]+)[,}]'


def prow(name, file, fn, pat, params, binder, **kw):
    return nrow(name, file, fn, pat, params, fmt='plain', binder=binder, **kw)


# iterator.rs / builder.rs: initial offsets of the three iterators (as functions of the entry count), initial lengths and reserved
# sizes of the two builders (as functions of the number of entries), entry-word strides.  Same row format as ANCHORS; emitted
# without `%N` and with a fixed parameter list (coq/Iter.v, coq/Builder.v, coq/OffsetTies.v use them)
PLAIN_ROWS = [
    prow('ITER_ARR_JOFF', IT, 'iterate_array', fieldpat('jentry_offset'), _L, ['length'], names=_ITN),
    prow('ITER_ARR_VOFF', IT, 'iterate_array', fieldpat('val_offset'), _L, ['length'], names=_ITN),
    prow('ITER_KEYS_JOFF', IT, 'iteate_object_keys', fieldpat('jentry_offset'), _L, ['length'], names=_ITN),
    prow('ITER_KEYS_KOFF', IT, 'iteate_object_keys', fieldpat('key_offset'), _L, ['length'], names=_ITN),
    prow('ITER_ENT_JOFF', IT, 'iterate_object_entries', fieldpat('jentry_offset'), _L, ['length'], names=_ITN),
    prow('ITER_ENT_KOFF', IT, 'iterate_object_entries', fieldpat('key_offset'), _L, ['length'], names=_ITN),
    prow('ITER_ENT_VOFF', IT, 'iterate_object_entries', fieldpat('val_offset'), _L, ['length'], names=_ITN),
    prow('BLD_ARR_LEN0', BL, 'build_into', letmut('array_len'), _BLN, ['n'], impl=_IMPL_AB),
    prow('BLD_ARR_RESERVE', BL, 'build_into', r'reserve_jentries\(\s*buf\s*,\s*(?P<e>[^;]+?)\)\s*;', _BLN, ['n'], impl=_IMPL_AB),
    prow('BLD_OBJ_LEN0', BL, 'build_into', letmut('object_len'), _BLN, ['n'], impl=_IMPL_OB),
    prow('BLD_OBJ_RESERVE', BL, 'build_into', r'reserve_jentries\(\s*buf\s*,\s*(?P<e>[^;]+?)\)\s*;', _BLN, ['n'], impl=_IMPL_OB),
    prow('ITER_ARR_JSTEP', IT, 'next', incr(r'self\.jentry_offset'), [], [], impl=r"impl<'a>\s+Iterator\s+for\s+ArrayIterator<'a>\s*\{"),
    prow('ITER_KEYS_JSTEP', IT, 'next', incr(r'self\.jentry_offset'), [], [], impl=r"impl<'a>\s+Iterator\s+for\s+ObjectKeyIterator<'a>\s*\{"),
    prow('ITER_ENT_JSTEP', IT, 'next', incr(r'self\.jentry_offset'), [], [], impl=r"impl<'a>\s+Iterator\s+for\s+ObjectEntryIterator<'a>\s*\{"),
    prow('ITER_FILL_JSTEP', IT, 'fill_keys', incr(r'self\.jentry_offset'), [], []),
    prow('BLD_JSTEP', BL, 'replace_jentry', incr('{J}'), [], [], names={'J': P(2, '&mutusize', 'jentry_index')}),
]


def coq_list(xs):
    return '[' + '; '.join(str(x) for x in xs) + ']'


# ---------------------------------------------------------------- baseline: the committed Constants.v, normal forms, stale names
# NORMAL FORM.  Every generated expression is compared SEMANTICALLY (tools/normform.py: polynomial normal form of integer
# expressions, canonical form of conditions, set of range obligations for NAME_SAFE) with the definition of the same name in
# the baseline = coq/gen/Constants.v as committed (the text the proofs were last checked against).  Equal normal form, same
# parameters and type: the BASELINE TEXT is emitted verbatim (comment included), so a mere re-ordering / hoisting / renaming
# in the source changes nothing in coq/ and no proof is re-run.  Otherwise the new text is emitted and the proofs decide.
# SCOPED ALARMS.  A row (or table) that cannot be translated does not stop the run when a baseline is available: the baseline
# definition is emitted for it (the Coq build, the extracted model, the correspondence check keep working against the last
# known-good model), and the name and the error are recorded as STALE (coq/gen/stale.json, line `stale: NAME ...` on stdout).
# bin/check reports the tie broken only for properties whose Props file depends on a stale name.
class Baseline:
    def __init__(self, text):
        self.text = text
        self.lines = text.split('\n')
        self.idx = {}
        for i, l in enumerate(self.lines):
            m = re.match(r'Definition (\w+)\b', l)
            if m:
                self.idx[m.group(1)] = i

    def has(self, name):
        return name in self.idx

    def defline(self, name):
        return self.lines[self.idx[name]] if name in self.idx else None

    def comment(self, name):
        """the comment line of an anchored definition (the line above it)"""
        i = self.idx.get(name)
        if i and self.lines[i - 1].startswith('(*'):
            return self.lines[i - 1]
        return None

    def require_comment(self, name):
        for l in self.lines:
            if l.startswith('(* %s: ' % name):
                return l
        return None

    def const_names(self):
        """names of the first section (constants of src/constants.rs)"""
        out = []
        for l in self.lines[4:]:
            if l.startswith('(*'):
                break
            m = re.match(r'Definition (\w+) : N := ([0-9]+)\.$', l)
            if m:
                out.append(m.group(1))
        return out


def same_meaning(res, base, which):
    """does definition number `which` (0 = the expression, 1 = NAME_SAFE) of a translated row mean what the baseline line means?"""
    import normform
    line = base.defline(res['name'] + ('_SAFE' if which else ''))
    if line is None:
        return False
    if line == res['defs'][which]:
        return True
    d = normform.parse_definition(line)
    if d is None or d['binder'] != res['binder'] or (d['binder'] and d['bty'] != res['ty']):
        return False
    try:
        if which == 1:
            bobs = normform.parse_safe(d['body'])
            return d['rty'] == 'Prop' and bobs is not None and normform.nf_safe(bobs, res['ty']) == normform.nf_safe(res['obs'], res['ty'])
        if d['rty'] != res['rty']:
            return False
        bast = normform.parse_gallina(d['body'])
        return bast is not None and normform.nf(bast, res['ekind'], res['ty']) == normform.nf(res['ast'], res['ekind'], res['ty'])
    except normform.NFError:
        return False


def emit_row(res, base, rep):
    """lines of one translated row, the baseline text where it means the same"""
    name = res['name']
    new = ([res['comment']] if res['comment'] else []) + res['defs']
    if base is None:
        return new
    if res['kind'] == 'require':
        bc = base.require_comment(name)
        return [bc] if bc else new
    if res['kind'] == 'width':
        if base.defline(name) == res['defs'][0]:
            return ([base.comment(name)] if base.comment(name) else []) + res['defs']
        rep['changed'].append(name)
        return new
    same = [same_meaning(res, base, k) for k in range(len(res['defs']))]
    if all(same):
        old = [base.defline(name)] + ([base.defline(name + '_SAFE')] if len(res['defs']) > 1 else [])
        bc = base.comment(name) if res['comment'] else None
        block = ([bc] if bc else ([res['comment']] if res['comment'] else [])) + old
        if block != new:
            rep['equivalent'][name] = res.get('source', '')
        return block
    rep['changed'].append(name)
    out = [res['comment']] if res['comment'] else []
    for k, d in enumerate(res['defs']):
        out.append(base.defline(name + ('_SAFE' if k else '')) if same[k] else d)
    return out


def stale_row(row, base, rep, err):
    """a row that cannot be translated: the baseline block, the name recorded as stale"""
    name = row['name']
    if base is None:
        raise TranslateError(err)
    if row.get('kind') == 'require':
        bc = base.require_comment(name)
        if bc is None:
            raise TranslateError(err)
        rep['stale'][name] = err
        rep['affects'][name] = list(row.get('affects', []))
        return [bc]
    if not base.has(name) or (row.get('safe') and not base.has(name + '_SAFE')):
        raise TranslateError(err + ' (and the baseline has no definition %s to fall back to)' % name)
    rep['stale'][name] = err
    rep['affects'][name] = list(row.get('affects', []))
    out = []
    if row.get('fmt') != 'plain' and base.comment(name):
        out.append(base.comment(name))
    out.append(base.defline(name))
    if row.get('safe'):
        out.append(base.defline(name + '_SAFE'))
    return out


def rows_out(repo, rows, base, rep):
    L = []
    for row in rows:
        try:
            L.extend(emit_row(anchored(repo, row), base, rep))
        except TranslateError as e:
            L.extend(stale_row(row, base, rep, str(e)))
    return L


def table(names, fn, base, rep):
    """a declarative table: fn() -> lines; when it cannot be read, the baseline definitions of `names`, recorded as stale"""
    try:
        return fn()
    except (TranslateError, OSError, ValueError, KeyError, IndexError) as e:
        if base is None or not all(base.has(n) for n in names):
            raise TranslateError(str(e))
        for n in names:
            rep['stale'][n] = str(e)
        return [base.defline(n) for n in names]


def new_report():
    return {'stale': {}, 'affects': {}, 'equivalent': {}, 'changed': []}


def generate(repo, base=None, rep=None):
    """the text of Constants.v.  base = Baseline or None (None: strict, every failure is a TranslateError);
    rep (see new_report) receives the stale / equivalent / changed names"""
    rep = rep if rep is not None else new_report()
    _SCOPE_CACHE.clear()
    try:
        C = consts(repo, strict=base is None)
    except (OSError, ValueError) as e:
        raise TranslateError(str(e))
    if base is not None:
        for k in base.const_names():
            if k not in C:
                v = int(re.match(r'Definition \w+ : N := ([0-9]+)\.$', base.defline(k)).group(1))
                C[k] = v
                rep['stale'][k] = 'constant %s not found in src/constants.rs' % k
    L = []
    L.append('(* GENERATED by tools/translate_consts.py from the working tree of /repo. Do not edit. *)')
    L.append('From Coq Require Import NArith ZArith Bool List.')
    L.append('Import ListNotations.')
    L.append('Open Scope N_scope.')
    L.append('')
    for k in sorted(C):
        L.append('Definition %s : N := %d.' % (k, C[k]))
    L.append('')
    L.append('(* util.rs HEX table: byte -> hex digit value (255 = not a hex digit) *)')
    L.extend(table(['HEX_TABLE'], lambda: ['Definition HEX_TABLE : list N := %s.' % coq_list(hex_table(repo))], base, rep))
    L.append('')
    L.append('(* functions.rs escape_scalar_string: byte -> replacement text *)')

    def esc_lines():
        esc, generic, _ = escape_table(repo)
        return ['Definition ESCAPE_TABLE : list (N * list N) := [%s].' % '; '.join('(%d, %s)' % (b, coq_list(esc[b])) for b in sorted(esc)),
                'Definition ESCAPE_GENERIC_CONTROL : bool := %s.' % ('true' if generic else 'false')]
    L.extend(table(['ESCAPE_TABLE', 'ESCAPE_GENERIC_CONTROL'], esc_lines, base, rep))
    L.append('')
    L.append('(* functions.rs jentry_compare_level: entry tag -> level *)')

    def lvl_lines():
        lvl, lvl_default = level_table(repo, C)
        for t, l in list(lvl.items()) + [(lvl_default, lvl_default)]:
            if t not in C or l not in C:
                raise TranslateError('jentry_compare_level uses the unknown constant %s / %s' % (t, l))
        return ['Definition LEVEL_TABLE : list (N * N) := [%s].' % '; '.join('(%s, %s)' % (t, l) for t, l in sorted(lvl.items())),
                'Definition LEVEL_DEFAULT : N := %s.' % lvl_default]
    L.extend(table(['LEVEL_TABLE', 'LEVEL_DEFAULT'], lvl_lines, base, rep))
    L.append('')
    L.append('(* functions.rs is_jsonb: first-byte set *)')
    L.extend(table(['IS_JSONB_BYTES'], lambda: ['Definition IS_JSONB_BYTES : list N := %s.' % coq_list(is_jsonb_set(repo, C))], base, rep))
    L.append('')
    L.append('(* jsonpath/parser.rs raw_string: delimiter byte set *)')
    L.extend(table(['RAW_STRING_DELIMS'], lambda: ['Definition RAW_STRING_DELIMS : list N := %s.' % coq_list(raw_string_delims(repo))], base, rep))
    L.append('')
    L.append('(* iterator.rs / builder.rs: initial offsets, entry-word strides, initial lengths and reserved sizes, as written *)')
    L.extend(rows_out(repo, PLAIN_ROWS, base, rep))
    L.append('')
    L.append('(* value ranges of the machine integer types *)')
    for T in ('i8', 'i16', 'i32', 'i64', 'u8', 'u16', 'u32', 'u64', 'usize'):
        bits = INT_TYPES[T]
        lo, hi = (-(1 << (bits - 1)), (1 << (bits - 1)) - 1) if T[0] == 'i' else (0, (1 << bits) - 1)
        L.append('Definition IN_%s (z : Z) : Prop := (%s <= z <= %d)%%Z.' % (T, lo, hi))
    L.append('(* anchored expressions (table ANCHORS of the translator): integer expressions and conditions, as written in the source *)')
    L.extend(rows_out(repo, ANCHORS, base, rep))
    L.append('')
    return '\n'.join(L)


# ---------------------------------------------------------------- self-test: single-token mutations of the sources
# (file, fn the text must lie in (None = anywhere), old text, new text, occurrence inside that fn).  For every mutation the translator,
# run on a mutated COPY of the sources, must either exit with TranslateError or produce a different Constants.v: then the
# proofs are re-checked against the mutated formula.  "Same output" = the mutation went unnoticed = the self-test fails.
MUTATIONS = [
    # G1
    (FN, 'delete_by_index', 'if index < 0 { len + index }', 'if index <= 0 { len + index }', 0),
    (FN, 'delete_by_index', 'index >= 0 && index < len', 'index >= 0 && index <= len', 0),
    (FN, 'delete_jsonb_by_index', 'index >= len', 'index > len', 0),
    (FN, 'delete_jsonb_by_index', 'len + index', 'len - index', 0),
    (FN, 'delete_jsonb_by_index', 'as i32', 'as i64', 0),
    (FN, 'array_insert_jsonb', 'len + pos', 'len + pos + 1', 0),
    (FN, 'array_insert_jsonb', 'idx > len', 'idx >= len', 0),
    (FN, 'array_insert_jsonb', '        1\n', '        0\n', 0),
    (FN, 'get_by_keypath', '*idx > length', '*idx >= length', 0),
    (FN, 'get_by_keypath', '*idx > length', '*idx >= length', 1),
    (FN, 'get_by_keypath', 'length + *idx < 0', 'length + *idx <= 0', 1),
    (FN, 'get_by_keypath', '(length + *idx) as usize', '(length - *idx) as usize', 1),
    (FN, 'get_by_keypath', 'if *idx > length || length + *idx < 0 {', 'if *idx > length {', 0),
    (FN, 'delete_value_array_by_keypath', 'idx >= len', 'idx > len', 0),
    (FN, 'delete_jsonb_array_by_keypath', 'if *idx < 0 { len + *idx }', 'if *idx < 0 { len + *idx - 1 }', 0),
    (FN, 'delete_jsonb_array_by_keypath', 'idx < 0 || idx >= len', 'idx >= len', 0),
    (SEL, 'convert_index', 'length + *idx as i64 - 1', 'length + *idx as i64', 0),
    (SEL, 'convert_index', 'idx < length', 'idx <= length', 0),
    (SEL, 'convert_index', 'let length = length as i64;', 'let length = length as i32;', 0),
    (SEL, 'convert_slice', 'length + *idx as i64 - 1', 'length + *idx as i64 - 2', 1),
    (SEL, 'convert_slice', 'start >= length', 'start > length', 0),
    (SEL, 'convert_slice', '(length - 1) as usize', 'length as usize', 0),
    (SEL, 'convert_slice', 'if start < 0 { 0 }', 'if start < 0 { 1 }', 0),
    (SEL, 'select_by_indices', '|| length == 0', '', 0),
    # G2
    (FN, 'get_jentry_by_index', 'offset + 4 * length + 4', 'offset + 4 * length + 8', 0),
    (FN, 'get_jentry_by_index', 'let mut jentry_offset = offset + 4;', 'let mut jentry_offset = offset + 8;', 0),
    (FN, 'get_jentry_by_index', 'index >= length', 'index > length', 0),
    (FN, 'get_jentry_by_index', 'if i < index', 'if i <= index', 0),
    (FN, 'get_jentry_by_index', 'jentry_offset += 4;', 'jentry_offset += 8;', 0),
    (FN, 'get_jentry_by_name', 'offset + 8 * length + 4', 'offset + 4 * length + 4', 0),
    (FN, 'get_jentry_by_name', 'offset + 8 * length + 4', 'offset + 8 * length', 1),
    (FN, 'get_jentry_by_name', 'jentry_offset += 4;', 'jentry_offset += 2;', 1),
    (FN, 'object_keys', 'let mut prev_key_offset = 8 * length + 4;', 'let mut prev_key_offset = 8 * length;', 0),
    (FN, 'object_keys', 'let mut jentry_offset = 4;', 'let mut jentry_offset = 0;', 0),
    (FN, 'object_each', '0..length * 2', '0..length', 0),
    (FN, 'object_each', 'offset += 4;', 'offset += 8;', 0),
    (FN, 'array_values', '4 * length + 4', '4 * length', 0),
    (FN, 'compare_container', '&left[4..], right_header', '&left[8..], right_header', 0),
    (FN, 'compare', '&right[8..]', '&right[4..]', 0),
    (FN, 'compare_array', 'let mut right_val_offset = 4 * right_length;', 'let mut right_val_offset = 4 * left_length;', 0),
    (FN, 'compare_array', 'left_length <= right_length', 'left_length >= right_length', 0),
    (FN, 'compare_object', 'let mut left_key_offset = 8 * left_length;', 'let mut left_key_offset = 4 * left_length;', 0),
    (FN, 'compare_object', 'right_jentry_offset += 4;', 'right_jentry_offset += 8;', 1),
    (FN, 'scalar_convert_to_comparable', '&value[4..]', '&value[0..]', 1),
    (FN, 'array_convert_to_comparable', '4 * length', '8 * length', 0),
    (FN, 'object_convert_to_comparable', 'let mut key_offset = 8 * length;', 'let mut key_offset = 8 * length + 4;', 0),
    (FN, 'container_to_string', '4 + *offset + 4 * length', '4 + *offset + 8 * length', 0),
    (FN, 'container_to_string', 'let mut value_offset = 8 + *offset;', 'let mut value_offset = 4 + *offset;', 0),
    (FN, 'container_to_string', 'let mut value_offset = key_offset;', 'let mut value_offset = key_offset + 4;', 0),
    (FN, 'scalar_to_string', '*jentry_offset += 4;', '*jentry_offset += 8;', 0),
    (SEL, 'select_object_values', 'root_offset + 4 + length * 8', 'root_offset + 4 + length * 4', 0),
    (SEL, 'select_array_values', 'root_offset + 4 + length * 4', 'root_offset + length * 4', 0),
    (SEL, 'select_by_name', 'root_offset + 4 + length * 8', 'root_offset + 8 + length * 8', 0),
    (SEL, 'select_by_indices', 'root_offset + 4 + length * 4', 'root_offset + 4 + length * 8', 0),
    (SEL, 'build_scalar_array', 'jentry_offset + 4 * len', 'jentry_offset + 8 * len', 0),
    # G3
    (NUM, 'compact_encode', '*v <= i8::MAX.into()', '*v < i8::MAX.into()', 0),
    (NUM, 'compact_encode', '*v >= i16::MIN.into()', '*v >= i8::MIN.into()', 0),
    (NUM, 'compact_encode', '*v <= i32::MAX.into()', '*v <= u32::MAX.into()', 0),
    (NUM, 'compact_encode', '*v <= u8::MAX.into()', '*v <= i8::MAX.into()', 0),
    (NUM, 'compact_encode', '*v <= u16::MAX.into()', '*v < u16::MAX.into()', 0),
    (NUM, 'compact_encode', '(*v as i16)', '(*v as i32)', 0),
    (NUM, 'compact_encode', '(*v as u32)', '(*v as u16)', 0),
    (NUM, 'compact_encode', '*v == 0', '*v == 1', 1),
    (NUM, None, 'Int64(i64),', 'Int64(i32),', 0),
]


def fn_span(src, name):
    m = re.search(r'fn\s+' + re.escape(name) + r'\b', src)
    if not m:
        raise TranslateError('selftest: function %s not found' % name)
    j = match_brace(src, src.index('{', m.end()))
    if j < 0:
        raise TranslateError('selftest: unbalanced braces in %s' % name)
    return m.start(), j


def mutate(src, fn, old, new, occ):
    a, b = fn_span(src, fn) if fn else (0, len(src))
    pos = a - 1
    for _ in range(occ + 1):
        pos = src.find(old, pos + 1, b)
        if pos < 0:
            raise TranslateError('selftest: %r (occurrence %d) not found in fn %s' % (old, occ, fn))
    return src[:pos] + new + src[pos + len(old):]


def selftest(repo, verbose=True):
    """returns the number of unnoticed mutations (0 = pass).  The unmutated tree is translated strictly (no baseline: every
    failure is an error) and its output is the baseline of the mutated runs, exactly the situation of bin/check after a
    source change: a mutation is noticed when a definition changes (the proofs are re-run against it) or a name goes stale
    (the properties that depend on it report the tie broken).  Baseline text re-emitted for an equal normal form = unnoticed."""
    import tempfile, shutil
    base = generate(repo)
    B = Baseline(base)
    unnoticed = 0
    skipped = 0
    for k, (rel, fn, old, new, occ) in enumerate(MUTATIONS):
        tmp = tempfile.mkdtemp(prefix='jbmut')
        try:
            shutil.copytree(os.path.join(repo, 'src'), os.path.join(tmp, 'src'))
            path = os.path.join(tmp, rel)
            src = strip_comments_keep_strings(re.sub(r'/\*.*?\*/', '', open(path).read(), flags=re.S))   # as the translator reads it
            try:
                open(path, 'w').write(mutate(src, fn, old.replace('\\n', '\n'), new.replace('\\n', '\n'), occ))
            except TranslateError as e:
                skipped += 1
                if verbose:
                    print('mutation %2d  %s fn %s: %r: SKIPPED, the source text to mutate is not there (%s)' % (k, os.path.basename(rel), fn, old, e))
                continue
            _SRC_CACHE.clear()
            try:
                rep = new_report()
                out = generate(tmp, B, rep)
                if rep['stale']:
                    verdict = 'stale (%s): %s' % (', '.join(sorted(rep['stale'])), str(sorted(rep['stale'].items())[0][1])[:90])
                elif out != base:
                    changed = [l.split()[1] for l in out.split('\n') if l.startswith('Definition') and l not in base]
                    verdict = 'definitions differ' + (' (%s)' % ', '.join(changed) if changed else ' (comment only)')
                else:
                    verdict = 'UNNOTICED'
            except TranslateError as e:
                verdict = 'tie broken (exit 2): %s' % str(e)[:110]
            if verdict == 'UNNOTICED':
                unnoticed += 1
            if verbose:
                print('mutation %2d  %s fn %s: %r -> %r [#%d]: %s' % (k, os.path.basename(rel), fn, old, new, occ, verdict))
        finally:
            shutil.rmtree(tmp, ignore_errors=True)
            _SRC_CACHE.clear()
    print('selftest: %d mutations, %d unnoticed, %d skipped' % (len(MUTATIONS), unnoticed, skipped))
    return unnoticed


VERIF = os.path.dirname(os.path.dirname(os.path.abspath(__file__)))


def find_baseline(explicit, out):
    """(text, where from) of the baseline, or (None, reason).  Order: --baseline FILE; `git show HEAD:coq/gen/Constants.v` of
    the verif repository; work/constants_baseline.v, a snapshot taken on first use of the existing output file (for copies of the
    framework without .git, e.g. the isolated copies of tools/seedrun.py)."""
    import subprocess
    if explicit:
        if explicit == 'none':
            return None, 'disabled'
        return open(explicit).read(), explicit
    try:
        p = subprocess.run(['git', '-C', VERIF, 'show', 'HEAD:coq/gen/Constants.v'], stdout=subprocess.PIPE, stderr=subprocess.DEVNULL, timeout=30)
        if p.returncode == 0 and p.stdout:
            top = subprocess.run(['git', '-C', VERIF, 'rev-parse', '--show-toplevel'], stdout=subprocess.PIPE, stderr=subprocess.DEVNULL, timeout=30)
            if top.returncode == 0 and os.path.realpath(top.stdout.decode().strip()) == os.path.realpath(VERIF):
                return p.stdout.decode(), 'git HEAD'
    except (OSError, subprocess.SubprocessError):
        pass
    snap = os.path.join(VERIF, 'work', 'constants_baseline.v')
    if os.path.exists(snap):
        return open(snap).read(), snap
    cur = out or os.path.join(VERIF, 'coq', 'gen', 'Constants.v')
    if os.path.exists(cur):
        text = open(cur).read()
        try:
            os.makedirs(os.path.dirname(snap), exist_ok=True)
            open(snap, 'w').write(text)
        except OSError:
            pass
        return text, cur + ' (snapshot taken)'
    return None, 'no baseline found'


def main():
    ap = argparse.ArgumentParser()
    ap.add_argument('--repo', default='/repo')
    ap.add_argument('--out')
    ap.add_argument('--baseline', help="file to compare with / fall back to (default: the committed coq/gen/Constants.v); 'none' = strict mode, exit 2 on the first failure")
    ap.add_argument('--report', help='where to write the stale / equivalent / changed names (default: stale.json next to --out)')
    ap.add_argument('--selftest', action='store_true', help='apply MUTATIONS to a copy of the sources; every one must change the output or break the tie')
    a = ap.parse_args()
    if a.selftest:
        try:
            sys.exit(1 if selftest(a.repo) else 0)
        except (TranslateError, OSError, ValueError, KeyError) as e:
            sys.stderr.write('translate_consts: %s\n' % e)
            sys.exit(2)
    rep = new_report()
    try:
        btext, bfrom = find_baseline(a.baseline, a.out)
        text = generate(a.repo, Baseline(btext) if btext else None, rep)
    except (TranslateError, OSError, ValueError, KeyError) as e:
        sys.stderr.write('translate_consts: %s\n' % e)
        sys.exit(2)
    rep['baseline'] = bfrom
    report = a.report or (os.path.join(os.path.dirname(a.out), 'stale.json') if a.out else None)
    if report:
        import json
        if rep['stale'] or rep['equivalent'] or rep['changed']:
            with open(report, 'w') as f:
                json.dump(rep, f, indent=1, sort_keys=True)
                f.write('\n')
        elif os.path.exists(report):
            os.unlink(report)
    if a.out:
        old = None
        if os.path.exists(a.out):
            old = open(a.out).read()
        if old != text:
            os.makedirs(os.path.dirname(a.out), exist_ok=True)
            open(a.out, 'w').write(text)
            print('updated')
        else:
            print('unchanged')
    else:
        sys.stdout.write(text)
    msg = sys.stdout if a.out else sys.stderr
    if rep['equivalent']:
        msg.write('equivalent (source text differs, same normal form, baseline text kept): %s\n' % ' '.join(sorted(rep['equivalent'])))
    if rep['changed']:
        msg.write('changed (new definition emitted, the proofs decide): %s\n' % ' '.join(rep['changed']))
    if rep['stale']:
        for n in sorted(rep['stale']):
            msg.write('cannot translate %s (baseline definition kept): %s\n' % (n, rep['stale'][n]))
        msg.write('stale: %s\n' % ' '.join(sorted(rep['stale'])))


if __name__ == '__main__':
    main()
