#!/usr/bin/env python3
"""Translator (tie T): regenerate coq/gen/Constants.v from /repo's *working tree*.

Extracts declarative data (constants, tables, match-arm tables, byte sets), the offset arithmetic of iterator.rs / builder.rs,
and -- table ANCHORS below -- "anchored expressions": integer expressions and boolean conditions of functions.rs, selector.rs
and number.rs, translated Rust -> Gallina.  Control flow is hand-modelled and tied by the correspondence check; the model
functions CALL the generated definitions, so when a source expression changes the model changes and the proofs over it
(I32.v, OffsetTies.v, *Proofs.v, Props/*.v) are re-checked against what the code says now.
Exits 2 (message on stderr) when a pattern is not found / found a different number of times / uses unsupported syntax:
the tie is then reported broken by bin/check.  Never a guess.

Usage: translate_consts.py [--repo /repo] [--out file]   (prints to stdout when --out is absent)
       translate_consts.py [--repo /repo] --selftest      (mutation self-test of the anchored expressions, see MUTATIONS)

ANCHORED EXPRESSIONS (rows of ANCHORS; the row format is documented above the table).  Generated name -> source site:
 G1 index arithmetic, Z-valued, each with NAME_SAFE : Prop = its range obligations in the machine type (proved in coq/I32.v,
    exported by coq/Props/C20.v); _T = JSON-text (Value) branch, _B = JSONB byte branch of the same function
   DBI_T_RESOLVE DBI_T_KEEP            functions.rs delete_by_index        `if index < 0 { len + index } else { index }`, `index >= 0 && index < len`
   DBI_B_RESOLVE DBI_B_SKIP            functions.rs delete_jsonb_by_index  same resolve, `index < 0 || index >= len`
   AI_NONARRAY_LEN AI_RESOLVE AI_CLAMP functions.rs array_insert_jsonb     `1`, `if pos < 0 { len + pos } else { pos }`, the clamp `.. as usize`
   GBK_T_REJECT GBK_T_INDEX            functions.rs get_by_keypath (1st)   `*idx > length || length + *idx < 0`, `if *idx >= 0 { .. } else { (length + *idx) as usize }`
   GBK_B_REJECT GBK_B_INDEX            functions.rs get_by_keypath (2nd)   the same two, byte branch
   DKP_T_RESOLVE DKP_T_SKIP            functions.rs delete_value_array_by_keypath
   DKP_B_RESOLVE DKP_B_SKIP            functions.rs delete_jsonb_array_by_keypath
   CI_LAST CI_INRANGE                  selector.rs convert_index           `length + *idx as i64 - 1`, `idx >= 0 && idx < length`
   CS_START_LAST CS_END_LAST CS_EMPTY CS_LO CS_HI   selector.rs convert_slice
   SBI_NONEMPTY (require only)         selector.rs select_by_indices       `if ty != ARRAY_CONTAINER_TAG || length == 0 { return Ok(()); }`
   + `require`: the declarations fixing the machine types (`index: i32`, `let len = .. as i32;`, `let length = length as i64;`)
 G2 offsets / strides / loop bounds of the read-only byte walkers, N-valued (usize)
   JBI_REJECT JBI_JOFF JBI_VOFF JBI_ADVANCE JBI_JSTEP        get_jentry_by_index
   JBN_JOFF JBN_VOFF JBN_KOFF JBN_JSTEP1 JBN_JSTEP2           get_jentry_by_name
   OKS_JOFF OKS_KOFF OKS_PREV_KOFF OKS_JSTEP                  object_keys
   OEA_OFF0 OEA_WORDS OEA_STEP                                object_each
   AVS_JOFF AVS_VOFF AVS_JSTEP                                array_values
   CPR_*                                                      compare (the literal offsets 4 / 8 of the top-level function)
   CMP_ARR_LSKIP .. CMP_OBJ_RSKIP                             compare_container (`&left[4..]`, `&right[4..]`)
   CMA_JOFF CMA_LVOFF CMA_RVOFF CMA_LEN CMA_JSTEP             compare_array
   CMO_LJOFF .. CMO_RKOFF CMO_LEN CMO_xJSTEP1/2               compare_object
   CVC_ARR_SKIP CVC_OBJ_SKIP                                  scalar_convert_to_comparable (`&value[4..]`)
   CVA_JOFF CVA_VOFF CVA_JSTEP / CVO_JOFF CVO_VOFF CVO_KOFF CVO_JSTEP1/2   array_ / object_convert_to_comparable
   CTS_SC_JOFF CTS_SC_VOFF CTS_ARR_JOFF CTS_ARR_VOFF CTS_OBJ_JOFF CTS_OBJ_KOFF CTS_OBJ_VOFF CTS_OBJ_JSTEP   container_to_string
   STS_JSTEP                                                  scalar_to_string
   SOV_OFF SAV_OFF SBN_OFF SBI_OFF BSA_RESERVE BSA_JSTEP      selector.rs select_object_values / select_array_values / select_by_name /
                                                              select_by_indices / build_scalar_array
   (coq/OffsetTies.v proves that all of them and ITER_* / BLD_* describe one layout)
 G3 width selection of Number::compact_encode
   CE_INT_ZERO CE_INT_FITS1..3 (Z)  CE_UINT_ZERO CE_UINT_FITS1..3 (N)   the range tests `*v >= i8::MIN.into() && *v <= i8::MAX.into()` ...
   CE_INT_W1..4 CE_UINT_W1..4 (nat)                                      bytes of the type written: `(*v as i8).to_be_bytes()` ..., `Int64(i64)`
   (used by int_width / uint_width / compact_encode of coq/Num.v; NumProofs.v: round trip and shortest form)
"""
import re, sys, argparse, os


class TranslateError(Exception):
    pass


def strip_comments(src):
    src = re.sub(r'/\*.*?\*/', '', src, flags=re.S)
    return re.sub(r'//[^\n]*', '', src)


def parse_lit(lit):
    lit = lit.strip().replace('_', '')
    m = re.fullmatch(r"'\\x([0-9A-Fa-f]{2})'", lit)
    if m:
        return int(m.group(1), 16)
    m = re.fullmatch(r"'(.)'", lit)
    if m:
        return ord(m.group(1))
    m = re.fullmatch(r"b'(\\?.)'", lit)
    if m:
        return byte_lit(m.group(1))
    m = re.fullmatch(r'0x([0-9A-Fa-f]+)', lit)
    if m:
        return int(m.group(1), 16)
    m = re.fullmatch(r'[0-9]+', lit)
    if m:
        return int(lit)
    raise TranslateError('unrecognised literal: %r' % lit)


def byte_lit(s):
    esc = {'\\n': 10, '\\r': 13, '\\t': 9, '\\\\': 92, "\\'": 39, '\\"': 34, '\\0': 0}
    if s in esc:
        return esc[s]
    if len(s) == 1:
        return ord(s)
    raise TranslateError('unrecognised byte literal: %r' % s)


def consts(repo):
    src = strip_comments(open(os.path.join(repo, 'src/constants.rs')).read())
    out = {}
    for m in re.finditer(r'(?:pub(?:\(crate\))?\s+)?const\s+([A-Z0-9_]+)\s*:\s*(u8|u32|usize|char)\s*=\s*([^;]+);', src):
        out[m.group(1)] = parse_lit(m.group(3))
    need = ['ARRAY_PREFIX', 'OBJECT_PREFIX', 'SCALAR_PREFIX', 'ARRAY_CONTAINER_TAG', 'OBJECT_CONTAINER_TAG',
            'SCALAR_CONTAINER_TAG', 'CONTAINER_HEADER_TYPE_MASK', 'CONTAINER_HEADER_LEN_MASK', 'NULL_TAG',
            'STRING_TAG', 'NUMBER_TAG', 'FALSE_TAG', 'TRUE_TAG', 'CONTAINER_TAG', 'NUMBER_ZERO', 'NUMBER_NAN',
            'NUMBER_INF', 'NUMBER_NEG_INF', 'NUMBER_INT', 'NUMBER_UINT', 'NUMBER_FLOAT', 'JENTRY_TYPE_MASK',
            'JENTRY_OFF_LEN_MASK', 'UNICODE_LEN', 'BS', 'QU', 'SD', 'BB', 'FF', 'NN', 'RR', 'TT', 'NULL_LEVEL',
            'ARRAY_LEVEL', 'OBJECT_LEVEL', 'STRING_LEVEL', 'NUMBER_LEVEL', 'TRUE_LEVEL', 'FALSE_LEVEL',
            'INVALID_LEVEL']
    for n in need:
        if n not in out:
            raise TranslateError('constant %s not found in src/constants.rs' % n)
    return out


def hex_table(repo):
    src = strip_comments(open(os.path.join(repo, 'src/util.rs')).read())
    m = re.search(r'static\s+HEX\s*:\s*\[u8;\s*256\]\s*=\s*\{(.*?)\n\};', src, flags=re.S)
    if not m:
        raise TranslateError('HEX table not found in src/util.rs')
    body = m.group(1)
    mm = re.search(r'const\s+__\s*:\s*u8\s*=\s*([0-9]+)\s*;', body)
    if not mm:
        raise TranslateError('HEX filler constant not found')
    filler = int(mm.group(1))
    arr = re.search(r'\[(.*)\]', body, flags=re.S)
    if not arr:
        raise TranslateError('HEX array body not found')
    toks = [t.strip() for t in arr.group(1).split(',') if t.strip()]
    vals = [filler if t == '__' else int(t) for t in toks]
    if len(vals) != 256:
        raise TranslateError('HEX table has %d entries' % len(vals))
    return vals


def match_brace(src, i):
    """index just past the `}` matching the `{` at src[i]; string literals, char / byte literals are skipped"""
    depth = 0
    j = i
    n = len(src)
    while j < n:
        c = src[j]
        if c == '"':
            j += 1
            while j < n and src[j] != '"':
                j += 2 if src[j] == '\\' else 1
        elif c == "'":
            m = re.match(r"'(?:\\(?:x[0-9A-Fa-f]{2}|u\{[0-9A-Fa-f]+\}|.)|[^'\\])'", src[j:j + 12])
            if m:
                j += m.end() - 1
        elif c == '{':
            depth += 1
        elif c == '}':
            depth -= 1
            if depth == 0:
                return j + 1
        j += 1
    return -1


def fn_body(src, name):
    m = re.search(r'fn\s+' + re.escape(name) + r'\b', src)
    if not m:
        raise TranslateError('function %s not found' % name)
    i = src.index('{', m.end())
    j = match_brace(src, i)
    if j < 0:
        raise TranslateError('unbalanced braces in %s' % name)
    return src[i:j]


def fn_text(src, name):
    """signature + body of fn `name`"""
    m = re.search(r'fn\s+' + re.escape(name) + r'\b', src)
    if not m:
        raise TranslateError('function %s not found' % name)
    body = fn_body(src, name)
    return src[m.start():src.index('{', m.end())] + body


def rust_str_bytes(s):
    """bytes of a Rust string literal body (between the quotes)"""
    out = []
    i = 0
    while i < len(s):
        if s[i] == '\\':
            c = s[i + 1]
            out.append({'\\': 92, '"': 34, 'n': 10, 'r': 13, 't': 9, '0': 0, "'": 39}.get(c, ord(c)))
            i += 2
        else:
            out.extend(s[i].encode('utf-8'))
            i += 1
    return out


def escape_table(repo):
    src = strip_comments_keep_strings(open(os.path.join(repo, 'src/functions.rs')).read())
    body = fn_body(src, 'escape_scalar_string')
    tbl = {}
    for m in re.finditer(r'(0x[0-9A-Fa-f]{1,2}(?:\s*\.\.=\s*0x[0-9A-Fa-f]{1,2})?(?:\s*\|\s*0x[0-9A-Fa-f]{1,2}(?:\s*\.\.=\s*0x[0-9A-Fa-f]{1,2})?)*)\s*=>\s*"((?:[^"\\]|\\.)*)"', body):
        for alt in m.group(1).split('|'):
            alt = alt.strip()
            if '..=' in alt:
                a, b = [int(x.strip(), 16) for x in alt.split('..=')]
                rng = range(a, b + 1)
            else:
                rng = [int(alt, 16)]
            for b in rng:
                tbl[b] = rust_str_bytes(m.group(2))
    # a generic arm producing \u00XX for the remaining control characters is recognised by its format string
    generic = None
    mg = re.search(r'(0x00\s*\.\.=\s*0x1[fF])\s*=>', body)
    if mg or re.search(r'\\\\u\{:04[xX]\}|\\\\u00', body):
        generic = 'u00XX'
    if not tbl:
        raise TranslateError('no escape arms found in escape_scalar_string')
    return tbl, generic, body


def strip_comments_keep_strings(src):
    # remove // comments that are not inside string literals (line-based heuristic good enough here)
    out = []
    for line in src.split('\n'):
        res = ''
        in_str = False
        i = 0
        while i < len(line):
            c = line[i]
            if in_str:
                res += c
                if c == '\\':
                    res += line[i + 1] if i + 1 < len(line) else ''
                    i += 1
                elif c == '"':
                    in_str = False
            else:
                if c == '"':
                    in_str = True
                    res += c
                elif line.startswith('//', i):
                    break
                elif c == "'" and i + 2 < len(line) and (line[i + 2] == "'" or (line[i + 1] == '\\' and i + 3 < len(line) and line[i + 3] == "'")):
                    k = 3 if line[i + 2] == "'" else 4
                    res += line[i:i + k]
                    i += k - 1
                else:
                    res += c
            i += 1
        out.append(res)
    return '\n'.join(out)


def level_table(repo, C):
    src = strip_comments(open(os.path.join(repo, 'src/functions.rs')).read())
    body = fn_body(src, 'jentry_compare_level')
    tbl = {}
    for m in re.finditer(r'([A-Z_]+_TAG)\s*=>\s*([A-Z_]+_LEVEL)', body):
        tbl[m.group(1)] = m.group(2)
    dm = re.search(r'_\s*=>\s*([A-Z_]+_LEVEL)', body)
    if not tbl or not dm:
        raise TranslateError('jentry_compare_level arms not found')
    return tbl, dm.group(1)


def is_jsonb_set(repo, C):
    src = strip_comments(open(os.path.join(repo, 'src/functions.rs')).read())
    body = fn_body(src, 'is_jsonb')
    m = re.search(r'matches!\(\s*\*?v\s*,\s*([A-Z_|\s]+)\)', body)
    if not m:
        raise TranslateError('is_jsonb byte set not found')
    names = [t.strip() for t in m.group(1).split('|')]
    return [C[n] for n in names]


def raw_string_delims(repo):
    src = strip_comments_keep_strings(open(os.path.join(repo, 'src/jsonpath/parser.rs')).read())
    body = fn_body(src, 'raw_string')
    # the arm that breaks out of the scanning loop: a |-separated list of byte literals followed by => { break
    m = re.search(r"((?:b'(?:\\.|[^'\\])'\s*\|?\s*)+)=>\s*\{\s*break", body)
    if not m:
        raise TranslateError('raw_string delimiter arm not found')
    lits = re.findall(r"b'((?:\\.|[^'\\]))'", m.group(1))
    return sorted(set(byte_lit(l) for l in lits))


# ---------------------------------------------------------------- offset arithmetic of iterator.rs / builder.rs
def arith(expr, names):
    """a Rust integer expression over +, *, parentheses, literals and the given names -> the same expression in Coq (N)"""
    e = expr.strip()
    for rust, coq in names.items():
        e = e.replace(rust, coq)
    e = re.sub(r'\s+', ' ', e)
    if not re.fullmatch(r'[0-9a-z_ +*()]+', e):
        raise TranslateError('unsupported offset expression: %r' % expr)
    for ident in re.findall(r'[a-z_]+', e):
        if ident not in names.values():
            raise TranslateError('unknown name %r in offset expression %r' % (ident, expr))
    return e


def block_after(src, header_re):
    m = re.search(header_re, src)
    if not m:
        raise TranslateError('block %s not found' % header_re)
    i = src.index('{', m.end() - 1)
    j = match_brace(src, i)
    if j < 0:
        raise TranslateError('unbalanced braces after %s' % header_re)
    return src[i:j]


def field(body, name):
    m = re.search(r'\b' + name + r'\s*:\s*([^,}]+)[,}]', body)
    if not m:
        raise TranslateError('field %s not found' % name)
    return m.group(1)


def step(body, name):
    m = re.search(r'self\.' + name + r'\s*\+=\s*([0-9]+)\s*;', body)
    if not m:
        raise TranslateError('increment of %s not found' % name)
    return int(m.group(1))


def offsets(repo):
    """initial offsets and entry-word strides of the three iterators; initial lengths / reserved sizes of the builders"""
    it = strip_comments(open(os.path.join(repo, 'src/iterator.rs')).read())
    L = {'length': 'length'}
    out = []
    a = fn_body(it, 'iterate_array')
    out.append(('ITER_ARR_JOFF', 'length', arith(field(a, 'jentry_offset'), L)))
    out.append(('ITER_ARR_VOFF', 'length', arith(field(a, 'val_offset'), L)))
    k = fn_body(it, 'iteate_object_keys')
    out.append(('ITER_KEYS_JOFF', 'length', arith(field(k, 'jentry_offset'), L)))
    out.append(('ITER_KEYS_KOFF', 'length', arith(field(k, 'key_offset'), L)))
    e = fn_body(it, 'iterate_object_entries')
    out.append(('ITER_ENT_JOFF', 'length', arith(field(e, 'jentry_offset'), L)))
    out.append(('ITER_ENT_KOFF', 'length', arith(field(e, 'key_offset'), L)))
    out.append(('ITER_ENT_VOFF', 'length', arith(field(e, 'val_offset'), L)))
    consts_ = []
    consts_.append(('ITER_ARR_JSTEP', step(block_after(it, r'impl<\'a>\s+Iterator\s+for\s+ArrayIterator<\'a>\s*\{'), 'jentry_offset')))
    consts_.append(('ITER_KEYS_JSTEP', step(block_after(it, r'impl<\'a>\s+Iterator\s+for\s+ObjectKeyIterator<\'a>\s*\{'), 'jentry_offset')))
    consts_.append(('ITER_ENT_JSTEP', step(block_after(it, r'impl<\'a>\s+Iterator\s+for\s+ObjectEntryIterator<\'a>\s*\{'), 'jentry_offset')))
    consts_.append(('ITER_FILL_JSTEP', step(fn_body(it, 'fill_keys'), 'jentry_offset')))
    bl = strip_comments(open(os.path.join(repo, 'src/builder.rs')).read())
    N_ = {'self.entries.len()': 'n', 'entries.len()': 'n'}
    ab = block_after(bl, r'impl<\'a>\s+ArrayBuilder<\'a>\s*\{')
    ob = block_after(bl, r'impl<\'a>\s+ObjectBuilder<\'a>\s*\{')
    for nm, body, var in (('ARR', fn_body(ab, 'build_into'), 'array_len'), ('OBJ', fn_body(ob, 'build_into'), 'object_len')):
        m = re.search(r'let\s+mut\s+' + var + r'\s*=\s*([^;]+);', body)
        r = re.search(r'reserve_jentries\(\s*buf\s*,\s*([^;]+?)\)\s*;', body)
        if not m or not r:
            raise TranslateError('builder %s: initial length / reserved size not found' % nm)
        out.append(('BLD_%s_LEN0' % nm, 'n', arith(m.group(1), N_)))
        out.append(('BLD_%s_RESERVE' % nm, 'n', arith(r.group(1), N_)))
    rj = fn_body(bl, 'replace_jentry')
    m = re.search(r'\*jentry_index\s*\+=\s*([0-9]+)\s*;', rj)
    if not m:
        raise TranslateError('replace_jentry stride not found')
    consts_.append(('BLD_JSTEP', int(m.group(1))))
    return out, consts_


# ---------------------------------------------------------------- anchored expressions (generic, table-driven)
# Each row of ANCHORS ties ONE integer expression or boolean condition of the Rust source to ONE generated Coq definition.
#   name    Coq name of the generated definition
#   file    Rust file (relative to the repo)
#   fn      enclosing fn (its brace-balanced body is searched; `impl` = optional regex of the enclosing impl block header);
#           None = the whole file (type declarations)
#   pat     regex locating the statement / struct field / condition inside the fn body; group `e` captures the expression text
#   count   how many times `pat` must match in the fn body (default 1: a second copy appearing is also a broken tie)
#   occ     which of those matches this row is about (default 0)
#   params  ordered list of (Rust operand, Coq parameter): the variable renaming.  A Rust operand is an identifier, a dotted path,
#           or `path.len()`.  `*x` derefs are dropped before the lookup.  Every identifier of the expression must be listed.
#   ty      'Z' or 'N': the Coq type of the integer parameters / result (bool-valued conditions are detected and get `: bool`)
#   mach    the machine type the code computes the expression in (comment only: casts are dropped, the mathematical expression is
#           emitted; coq/I32.v proves separately that no intermediate value leaves that machine type)
#   require optional list of regexes that must also match in the fn (signature or body) (the declarations that fix the machine type of the operands,
#           e.g. `let len = arr.len() as i32;`): when one disappears the tie is broken
#   safe    True: also emit NAME_SAFE : Prop, the conjunction of the range obligations of evaluating the expression in `mach`:
#           one `IN_<mach> (a op b)` per + - * / unary minus and one `IN_<T> (a)` per `a as T`, each under the path condition
#           (branches of `if`, short-circuit of && and ||) under which the code evaluates it.  coq/I32.v proves them.
#   kind    'expr' (default) | 'width' (group `e` captures an integer type name, the definition is its size in bytes : nat)
#           | 'require' (no definition: only the `require` patterns are checked, a comment is emitted; used for a guard at a call
#           site that a proof in coq/ takes as hypothesis, e.g. select_by_indices returns before convert_slice when length == 0)
# Supported Rust syntax: integer literals (dec / hex, `_`, type suffix), identifiers and paths, iN::MIN / iN::MAX / uN::MAX,
# + - * (binary), unary minus, parentheses, < <= > >= == !=, && || !, `if c { a } else if d { b } else { c }`, `as <int type>`
# and `.into()` (dropped, recorded), `*x` (dropped), `x.len()`.  Anything else, a pattern that is not found, or found a
# different number of times than `count`: TranslateError (exit 2, bin/check reports the tie broken).  Never a guess.
# `a > b` is emitted as `b <? a` and `a >= b` as `b <=? a` (N has no gtb/geb; same shape as the rest of the model).
# In N, `-` is refused (N.sub truncates, usize does not).

INT_TYPES = {'i8': 8, 'i16': 16, 'i32': 32, 'i64': 64, 'i128': 128, 'u8': 8, 'u16': 16, 'u32': 32, 'u64': 64, 'u128': 128,
             'usize': 64, 'isize': 64}


def int_const(path):
    m = re.fullmatch(r'([iu])(8|16|32|64|128)::(MIN|MAX)', path)
    if not m:
        return None
    bits = int(m.group(2))
    if m.group(1) == 'i':
        return -(1 << (bits - 1)) if m.group(3) == 'MIN' else (1 << (bits - 1)) - 1
    return 0 if m.group(3) == 'MIN' else (1 << bits) - 1


TOKEN_RE = re.compile(r'\s*(?:(?P<num>0x[0-9A-Fa-f_]+|[0-9][0-9_]*)(?P<suf>(?:[iu](?:8|16|32|64|128|size))?)(?![A-Za-z0-9_])'
                      r'|(?P<id>[A-Za-z_][A-Za-z0-9_]*)'
                      r'|(?P<op>&&|\|\||<=|>=|==|!=|::|[-+*()<>!{}.]))')


def tokenize(text):
    toks = []
    i = 0
    text = text.rstrip()
    while i < len(text):
        m = TOKEN_RE.match(text, i)
        if not m or m.end() == i:
            raise TranslateError('unsupported syntax at %r in expression %r' % (text[i:i + 12], text))
        if m.group('num') is not None:
            toks.append(('num', parse_lit(m.group('num')), m.group('suf')))
        elif m.group('id') is not None:
            toks.append(('id', m.group('id'), None))
        else:
            toks.append(('op', m.group('op'), None))
        i = m.end()
    return toks


class ExprParser:
    """Rust expression subset -> AST.  AST nodes: ('lit', n) ('var', rustname) ('neg', a) ('not', a) ('bin', op, a, b)
    ('cmp', op, a, b) ('and', a, b) ('or', a, b) ('if', c, a, b).  Casts and derefs are dropped (cast types collected)."""

    def __init__(self, text):
        self.text = text
        self.toks = tokenize(text)
        self.i = 0
        self.casts = []

    def err(self, what):
        raise TranslateError('%s in expression %r' % (what, self.text))

    def peek(self, k=0):
        return self.toks[self.i + k] if self.i + k < len(self.toks) else ('eof', None, None)

    def at_op(self, *ops):
        t = self.peek()
        return t[0] == 'op' and t[1] in ops

    def at_id(self, *ids):
        t = self.peek()
        return t[0] == 'id' and t[1] in ids

    def take(self):
        t = self.peek()
        self.i += 1
        return t

    def expect_op(self, op):
        if not self.at_op(op):
            self.err('expected %r at token %d' % (op, self.i))
        self.i += 1

    def parse(self):
        e = self.p_or()
        if self.peek()[0] != 'eof':
            self.err('trailing tokens %r' % (self.toks[self.i:],))
        return e

    def p_or(self):
        a = self.p_and()
        while self.at_op('||'):
            self.take()
            a = ('or', a, self.p_and())
        return a

    def p_and(self):
        a = self.p_cmp()
        while self.at_op('&&'):
            self.take()
            a = ('and', a, self.p_cmp())
        return a

    def p_cmp(self):
        a = self.p_add()
        if self.at_op('<', '<=', '>', '>=', '==', '!='):
            op = self.take()[1]
            b = self.p_add()
            if self.at_op('<', '<=', '>', '>=', '==', '!='):
                self.err('chained comparison')
            return ('cmp', op, a, b)
        return a

    def p_add(self):
        a = self.p_mul()
        while self.at_op('+', '-'):
            op = self.take()[1]
            a = ('bin', op, a, self.p_mul())
        return a

    def p_mul(self):
        a = self.p_cast()
        while self.at_op('*'):
            self.take()
            a = ('bin', '*', a, self.p_cast())
        return a

    def p_cast(self):
        a = self.p_unary()
        while self.at_id('as'):
            self.take()
            t = self.take()
            if t[0] != 'id' or t[1] not in INT_TYPES:
                self.err('cast to unsupported type %r' % (t[1],))
            self.casts.append(t[1])
            a = ('cast', t[1], a)
        return a

    def p_unary(self):
        if self.at_op('-'):
            self.take()
            return ('neg', self.p_unary())
        if self.at_op('!'):
            self.take()
            return ('not', self.p_unary())
        if self.at_op('*'):          # deref
            self.take()
            return self.p_unary()
        return self.p_postfix()

    def p_postfix(self):
        a = self.p_primary()
        while self.at_op('.'):
            t1, t2, t3 = self.peek(1), self.peek(2), self.peek(3)
            if t1[0] != 'id':
                self.err('unsupported postfix')
            call = t2 == ('op', '(', None) and t3 == ('op', ')', None)
            if call and t1[1] == 'into':
                self.i += 4
                self.casts.append('into')
            elif a[0] == 'var' and call and t1[1] == 'len':
                self.i += 4
                a = ('var', a[1] + '.len()')
            elif a[0] == 'var' and not call and t2 != ('op', '(', None):
                self.i += 2
                a = ('var', a[1] + '.' + t1[1])
            else:
                self.err('unsupported method call .%s' % t1[1])
        return a

    def p_primary(self):
        t = self.peek()
        if t[0] == 'num':
            self.take()
            if t[2]:
                self.casts.append(t[2])
            return ('lit', t[1])
        if t[0] == 'op' and t[1] == '(':
            self.take()
            e = self.p_or()
            self.expect_op(')')
            return e
        if t[0] == 'id' and t[1] == 'if':
            return self.p_if()
        if t[0] == 'id':
            if t[1] in ('as', 'else', 'let', 'match', 'return', 'mut', 'fn', 'loop', 'while', 'for', 'unsafe', 'true', 'false'):
                self.err('unsupported keyword %r' % t[1])
            self.take()
            name = t[1]
            while self.at_op('::'):
                self.take()
                n = self.take()
                if n[0] != 'id':
                    self.err('bad path')
                name += '::' + n[1]
            if '::' in name:
                c = int_const(name)
                if c is None:
                    self.err('unsupported path %r' % name)
                return ('lit', c)
            if self.at_op('('):
                self.err('unsupported call %s(...)' % name)
            return ('var', name)
        self.err('unexpected token %r' % (t[1],))

    def p_if(self):
        self.take()
        c = self.p_or()
        self.expect_op('{')
        a = self.p_or()
        self.expect_op('}')
        if not self.at_id('else'):
            self.err('if without else')
        self.take()
        if self.at_id('if'):
            b = self.p_if()
        else:
            self.expect_op('{')
            b = self.p_or()
            self.expect_op('}')
        return ('if', c, a, b)


def expr_kind(e, text):
    """'int' or 'bool'; TranslateError on an ill-typed expression"""
    def bad():
        raise TranslateError('ill-typed expression %r' % text)
    t = e[0]
    if t in ('lit', 'var'):
        return 'int'
    if t == 'cast':
        return 'int' if expr_kind(e[2], text) == 'int' else bad()
    if t == 'neg':
        return 'int' if expr_kind(e[1], text) == 'int' else bad()
    if t == 'not':
        return 'bool' if expr_kind(e[1], text) == 'bool' else bad()
    if t == 'bin':
        return 'int' if expr_kind(e[2], text) == 'int' and expr_kind(e[3], text) == 'int' else bad()
    if t == 'cmp':
        return 'bool' if expr_kind(e[2], text) == 'int' and expr_kind(e[3], text) == 'int' else bad()
    if t in ('and', 'or'):
        return 'bool' if expr_kind(e[1], text) == 'bool' and expr_kind(e[2], text) == 'bool' else bad()
    if t == 'if':
        ka, kb = expr_kind(e[2], text), expr_kind(e[3], text)
        return ka if expr_kind(e[1], text) == 'bool' and ka == kb else bad()
    bad()


def expr_vars(e, acc):
    if e[0] == 'var':
        acc.append(e[1])
    else:
        for x in e[1:]:
            if isinstance(x, tuple):
                expr_vars(x, acc)
    return acc


def gallina(e, names, ty, text):
    """print the AST; level: 0 atom, 40 mul, 50 add, 100 anything else (always parenthesised as an operand)"""
    def lvl(x):
        if x[0] == 'cast':
            return lvl(x[2])
        if x[0] == 'lit':
            return 0 if x[1] >= 0 else 100
        if x[0] == 'var':
            return 0
        if x[0] == 'bin':
            return 40 if x[1] == '*' else 50
        return 100

    def paren(x, maxlvl):
        s = pr(x)
        return s if lvl(x) <= maxlvl else '(' + s + ')'

    def pr(x):
        t = x[0]
        if t == 'cast':
            return pr(x[2])
        if t == 'lit':
            if x[1] < 0 and ty == 'N':
                raise TranslateError('negative constant in an N expression %r' % text)
            return str(x[1])
        if t == 'var':
            if x[1] not in names:
                raise TranslateError('unknown name %r in expression %r' % (x[1], text))
            return names[x[1]]
        if t == 'neg':
            if ty == 'N':
                raise TranslateError('unary minus in an N expression %r' % text)
            return '- ' + paren(x[1], 0)
        if t == 'not':
            return 'negb ' + paren(x[1], 0)
        if t == 'bin':
            if x[1] == '-' and ty == 'N':
                raise TranslateError('subtraction in an N expression %r' % text)
            me = lvl(x)
            return '%s %s %s' % (paren(x[2], me), x[1], paren(x[3], 40 if me == 50 else 0))
        if t == 'cmp':
            op, a, b = x[1], x[2], x[3]
            if op in ('>', '>='):
                a, b, op = b, a, {'>': '<', '>=': '<='}[op]
            if op == '!=':
                return 'negb (%s =? %s)' % (paren(a, 50), paren(b, 50))
            return '%s %s %s' % (paren(a, 50), {'<': '<?', '<=': '<=?', '==': '=?'}[op], paren(b, 50))
        if t in ('and', 'or'):
            return '%s %s %s' % (paren(x[1], 0), '&&' if t == 'and' else '||', paren(x[2], 0))
        if t == 'if':
            return 'if %s then %s else %s' % (pr(x[1]), paren(x[2], 50), pr(x[3]) if x[3][0] == 'if' else paren(x[3], 50))
        raise TranslateError('internal: node %r' % (t,))
    return pr(e)


def obligations(e, pc, mach, out):
    """range obligations of evaluating e in machine type `mach` under the path condition pc (list of (cond ast, bool)):
    every + - * and unary minus yields a value that must lie in `mach`; every `as T` must be applied to a value in T (then the
    cast keeps the mathematical value).  `a || b` evaluates b only when a is false, `a && b` only when a is true, the branches
    of an `if` only under the condition / its negation."""
    t = e[0]
    if t in ('lit', 'var'):
        return out
    if t == 'cast':
        obligations(e[2], pc, mach, out)
        if e[2][0] != 'lit':
            out.append((pc, e[1], e[2]))
        return out
    if t == 'neg':
        obligations(e[1], pc, mach, out)
        if e[1][0] != 'lit':
            out.append((pc, mach, e))
        return out
    if t == 'not':
        return obligations(e[1], pc, mach, out)
    if t == 'bin':
        obligations(e[2], pc, mach, out)
        obligations(e[3], pc, mach, out)
        out.append((pc, mach, e))
        return out
    if t == 'cmp':
        obligations(e[2], pc, mach, out)
        return obligations(e[3], pc, mach, out)
    if t in ('and', 'or'):
        obligations(e[1], pc, mach, out)
        return obligations(e[2], pc + [(e[1], t == 'and')], mach, out)
    if t == 'if':
        obligations(e[1], pc, mach, out)
        obligations(e[2], pc + [(e[1], True)], mach, out)
        return obligations(e[3], pc + [(e[1], False)], mach, out)
    raise TranslateError('internal: node %r' % (t,))


def safe_prop(ast, names, ty, mach, text):
    obs = obligations(ast, [], mach, [])
    if not obs:
        return 'True'
    parts = []
    for pc, T, e in obs:
        hyps = ''.join('(%s)%%%s = %s -> ' % (gallina(c, names, ty, text), ty, 'true' if b else 'false') for c, b in pc)
        parts.append('(%sIN_%s (%s)%%%s)' % (hyps, T, gallina(e, names, ty, text), ty))
    return ' /\\ '.join(parts)


def translate_expr(text, params, ty, mach=None):
    """Rust expression text -> (kind, Gallina body, cast types seen[, range obligations as a Prop when mach is given])"""
    p = ExprParser(text)
    ast = p.parse()
    kind = expr_kind(ast, text)
    names = dict(params)
    used = set(expr_vars(ast, []))
    for rust, _ in params:
        if rust not in used:
            raise TranslateError('operand %r no longer occurs in expression %r' % (rust, text))
    if mach:
        return kind, gallina(ast, names, ty, text), p.casts, safe_prop(ast, names, ty, mach, text)
    return kind, gallina(ast, names, ty, text), p.casts


def impl_body(src, header_re):
    return block_after(src, header_re)


_SRC_CACHE = {}


def rust_src(repo, rel):
    key = (repo, rel)
    if key not in _SRC_CACHE:
        _SRC_CACHE[key] = strip_comments_keep_strings(re.sub(r'/\*.*?\*/', '', open(os.path.join(repo, rel)).read(), flags=re.S))
    return _SRC_CACHE[key]


def cmt(text):
    """source text made safe inside a Coq comment"""
    return re.sub(r'\s+', ' ', text.strip()).replace('*)', '* )').replace('(*', '( *').replace('"', "''")


def anchored(repo, row):
    """one ANCHORS row -> list of Coq lines (comment + definition)"""
    src = rust_src(repo, row['file'])
    if row.get('impl'):
        src = impl_body(src, row['impl'])
    if row.get('fn'):
        body = fn_body(src, row['fn'])
        whole = fn_text(src, row['fn'])
        where = '%s fn %s' % (row['file'], row['fn'])
    else:
        body = whole = src
        where = row['file']
    if row.get('kind') == 'require':
        found = []
        for rq in row['require']:
            m = re.search(rq, whole)
            if not m:
                raise TranslateError('%s: %s: required context not found (pattern %s)' % (row['name'], where, rq))
            found.append(cmt(m.group(0)))
        return ['(* %s: %s: the source contains %s *)' % (row['name'], where, '; '.join('`%s`' % f for f in found))]
    ms = list(re.finditer(row['pat'], body))
    count = row.get('count', 1)
    if len(ms) != count:
        raise TranslateError('%s: %s: anchor found %d times, expected %d (pattern %s)' % (row['name'], where, len(ms), count, row['pat']))
    m = ms[row.get('occ', 0)]
    text = re.sub(r'\s+', ' ', m.group('e').strip())
    ty = row.get('ty', 'Z')
    if row.get('kind') == 'width':
        if text not in INT_TYPES or text in ('usize', 'isize'):
            raise TranslateError('%s: %s: %r is not a sized integer type' % (row['name'], where, text))
        return ['(* %s: `%s` *)' % (where, cmt(m.group(0))),
                'Definition %s : nat := %d%%nat.' % (row['name'], INT_TYPES[text] // 8)]
    try:
        safe = None
        if row.get('safe'):
            kind, body_, casts, safe = translate_expr(text, row['params'], ty, row['mach'])
        else:
            kind, body_, casts = translate_expr(text, row['params'], ty)
    except TranslateError as e:
        raise TranslateError('%s: %s: %s' % (row['name'], where, e))
    seen = []
    for p_ in [c for _, c in row['params']]:
        if p_ not in seen:
            seen.append(p_)
    binder = ' (%s : %s)' % (' '.join(seen), ty) if seen else ''
    note = 'computed in %s' % row['mach'] if row.get('mach') else ''
    if casts:
        note += ('; ' if note else '') + 'casts dropped: ' + ', '.join(casts)
    for rq in row.get('require', []):
        if not re.search(rq, whole):
            raise TranslateError('%s: %s: required context not found (pattern %s)' % (row['name'], where, rq))
    out = ['(* %s: `%s`%s *)' % (where, cmt(text), (' -- ' + note) if note else ''),
           'Definition %s%s : %s := (%s)%%%s.' % (row['name'], binder, 'bool' if kind == 'bool' else ty, body_, ty)]
    if safe is not None:
        out.append('Definition %s_SAFE%s : Prop := %s.' % (row['name'], binder, safe))
    return out



def letmut(var):
    return r'let\s+mut\s+' + var + r'\s*=\s*(?P<e>[^;]*);'


def incr(var):
    return r'(?<![\w*])' + var + r'\s*\+=\s*(?P<e>[^;]*);'


def nrow(name, file, fn, pat, params, **kw):
    """a row of usize arithmetic, emitted in N"""
    d = dict(name=name, file=file, fn=fn, pat=pat, params=params, ty='N', mach='usize')
    d.update(kw)
    return d


_O = [('offset', 'offset')]
_L = [('length', 'length')]
_OL = [('offset', 'offset'), ('length', 'length')]
_LR = [('left_length', 'left_length'), ('right_length', 'right_length')]
_RL = [('root_offset', 'root_offset'), ('length', 'length')]

NUM = 'src/number.rs'
_V = [('v', 'v')]
_CE_EQ = r'(?<!else\s)if\s+(?P<e>\*v\s*==[^{]*?)\s*\{'
_CE_GE = r'if\s+(?P<e>\*v\s*>=[^{]*?)\s*\{'
_CE_LE = r'if\s+(?P<e>\*v\s*<=[^{]*?)\s*\{'
_CE_W = r'\(\*v\s+as\s+(?P<e>\w+)\)\s*\.to_be_bytes\(\)'
FN = 'src/functions.rs'

SEL = 'src/jsonpath/selector.rs'
_IL = [('index', 'index'), ('len', 'len')]
_XL = [('idx', 'idx'), ('len', 'len')]
_XN = [('idx', 'idx'), ('length', 'length')]
_RESOLVE_INDEX = r'let\s+index\s*=\s*(?P<e>if\s+index\b[^;]*);'
_RESOLVE_IDX = r'let\s+idx\s*=\s*(?P<e>if\s+\*idx\s*<[^;]*);'
_GBK_REJECT = r'(?<!=\s)if\s+(?P<e>\*idx\b[^{]*?)\s*\{'      # an `if` statement (not `= if`) whose condition starts with *idx
_GBK_INDEX = r'let\s+idx\s*=\s*(?P<e>if\s+\*idx\s*>=[^;]*);'
_IF_INDEX = r'(?<!=\s)if\s+(?P<e>index\b[^{]*?)\s*\{'
_IF_IDX = r'(?<!=\s)if\s+(?P<e>idx\b[^{]*?)\s*\{'
_LAST = r'Index::LastIndex\(idx\)\s*=>\s*(?P<e>[^,]*),'

_LEN_ARR_I32 = r'let\s+len\s*=\s*arr\.len\(\)\s*as\s+i32\s*;'
_LEN_HDR_I32 = r'let\s+len\s*=\s*\(header\s*&\s*CONTAINER_HEADER_LEN_MASK\)\s*as\s+i32\s*;'
_RQ_DBI_T = [r'\bindex\s*:\s*i32\b', _LEN_ARR_I32]
_RQ_DBI_B = [r'\bindex\s*:\s*i32\b', _LEN_HDR_I32]
_RQ_AI = [r'\bpos\s*:\s*i32\b', r'\(header\s*&\s*CONTAINER_HEADER_LEN_MASK\)\s*as\s+i32\b']
_RQ_GBK = [r'let\s+length\s*=\s*arr\.len\(\)\s*as\s+i32\s*;', r'let\s+length\s*=\s*\(header\s*&\s*CONTAINER_HEADER_LEN_MASK\)\s*as\s+i32\s*;']
_RQ_SEL = [r'\blength\s*:\s*i32\b', r'let\s+length\s*=\s*length\s+as\s+i64\s*;']

ANCHORS = [
    # ---- G1: index arithmetic (C20 part A) -------------------------------------------------------------------------------
    # delete_by_index: text branch / byte branch
    dict(name='DBI_T_RESOLVE', file=FN, fn='delete_by_index', pat=_RESOLVE_INDEX, params=_IL, mach='i32', safe=True, require=_RQ_DBI_T),
    dict(name='DBI_T_KEEP', file=FN, fn='delete_by_index', pat=_IF_INDEX, params=_IL, mach='i32', safe=True, require=_RQ_DBI_T),
    dict(name='DBI_B_RESOLVE', file=FN, fn='delete_jsonb_by_index', pat=_RESOLVE_INDEX, params=_IL, mach='i32', safe=True, require=_RQ_DBI_B),
    dict(name='DBI_B_SKIP', file=FN, fn='delete_jsonb_by_index', pat=_IF_INDEX, params=_IL, mach='i32', safe=True, require=_RQ_DBI_B),
    # array_insert_jsonb (the text branch re-encodes and calls it: one site)
    dict(name='AI_NONARRAY_LEN', file=FN, fn='array_insert_jsonb',
         pat=r'let\s+len\s*=\s*if\s+header\s*&\s*CONTAINER_HEADER_TYPE_MASK\s*==\s*ARRAY_CONTAINER_TAG\s*\{\s*\(header\s*&\s*CONTAINER_HEADER_LEN_MASK\)\s*as\s+i32\s*\}\s*else\s*\{\s*(?P<e>[^}]*?)\s*\}\s*;',
         params=[], mach='i32', safe=True, require=_RQ_AI),
    dict(name='AI_RESOLVE', file=FN, fn='array_insert_jsonb', pat=r'let\s+idx\s*=\s*(?P<e>if\s+pos\b[^;]*);',
         params=[('pos', 'pos'), ('len', 'len')], mach='i32', safe=True, require=_RQ_AI),
    dict(name='AI_CLAMP', file=FN, fn='array_insert_jsonb', pat=r'let\s+idx\s*=\s*(?P<e>if\s+idx\b[^;]*);', params=_XL, mach='i32', safe=True, require=_RQ_AI),
    # get_by_keypath: occurrence 0 = Value (text) branch, occurrence 1 = byte branch
    dict(name='GBK_T_REJECT', file=FN, fn='get_by_keypath', pat=_GBK_REJECT, count=2, occ=0, params=_XN, mach='i32', safe=True, require=_RQ_GBK),
    dict(name='GBK_T_INDEX', file=FN, fn='get_by_keypath', pat=_GBK_INDEX, count=2, occ=0, params=_XN, mach='i32', safe=True, require=_RQ_GBK),
    dict(name='GBK_B_REJECT', file=FN, fn='get_by_keypath', pat=_GBK_REJECT, count=2, occ=1, params=_XN, mach='i32', safe=True, require=_RQ_GBK),
    dict(name='GBK_B_INDEX', file=FN, fn='get_by_keypath', pat=_GBK_INDEX, count=2, occ=1, params=_XN, mach='i32', safe=True, require=_RQ_GBK),
    # delete_by_keypath: Value (text) walker / byte walker
    dict(name='DKP_T_RESOLVE', file=FN, fn='delete_value_array_by_keypath', pat=_RESOLVE_IDX, params=_XL, mach='i32', safe=True, require=[_LEN_ARR_I32]),
    dict(name='DKP_T_SKIP', file=FN, fn='delete_value_array_by_keypath', pat=_IF_IDX, params=_XL, mach='i32', safe=True, require=[_LEN_ARR_I32]),
    dict(name='DKP_B_RESOLVE', file=FN, fn='delete_jsonb_array_by_keypath', pat=_RESOLVE_IDX, params=_XL, mach='i32', safe=True, require=[_LEN_HDR_I32]),
    dict(name='DKP_B_SKIP', file=FN, fn='delete_jsonb_array_by_keypath', pat=_IF_IDX, params=_XL, mach='i32', safe=True, require=[_LEN_HDR_I32]),
    # selector.rs convert_index / convert_slice
    dict(name='CI_LAST', file=SEL, fn='convert_index', pat=_LAST, params=_XN, mach='i64', safe=True, require=_RQ_SEL),
    dict(name='CI_INRANGE', file=SEL, fn='convert_index', pat=_IF_IDX, params=_XN, mach='i64', safe=True, require=_RQ_SEL),
    dict(name='CS_START_LAST', file=SEL, fn='convert_slice', pat=_LAST, count=2, occ=0, params=_XN, mach='i64', safe=True, require=_RQ_SEL),
    dict(name='CS_END_LAST', file=SEL, fn='convert_slice', pat=_LAST, count=2, occ=1, params=_XN, mach='i64', safe=True, require=_RQ_SEL),
    dict(name='CS_EMPTY', file=SEL, fn='convert_slice', pat=r'(?<!=\s)if\s+(?P<e>start\b[^{]*?)\s*\{',
         params=[('start', 'start'), ('end', 'stop'), ('length', 'length')], mach='i64', safe=True, require=_RQ_SEL),
    dict(name='SBI_NONEMPTY', kind='require', file=SEL, fn='select_by_indices',      # hypothesis 0 < length of I32.CS_bounds_safe
         require=[r'if\s+ty\s*!=\s*ARRAY_CONTAINER_TAG\s*\|\|\s*length\s*==\s*0\s*\{\s*return\s+Ok\(\(\)\)\s*;\s*\}']),
    dict(name='CS_LO', file=SEL, fn='convert_slice', pat=r'let\s+start\s*=\s*(?P<e>if\s+start\b[^;]*);', params=[('start', 'start')], mach='i64', safe=True, require=_RQ_SEL),
    dict(name='CS_HI', file=SEL, fn='convert_slice', pat=r'let\s+end\s*=\s*(?P<e>if\s+end\b[^;]*);',
         params=[('end', 'stop'), ('length', 'length')], mach='i64', safe=True, require=_RQ_SEL),
    # ---- G2: offsets of the read-only byte walkers (C05 C04 C14 C03 C08), usize arithmetic, type N ----------------------------
    # get_jentry_by_index
    nrow('JBI_REJECT', FN, 'get_jentry_by_index', _IF_INDEX, [('index', 'index'), ('length', 'length')]),
    nrow('JBI_JOFF', FN, 'get_jentry_by_index', letmut('jentry_offset'), _O),
    nrow('JBI_VOFF', FN, 'get_jentry_by_index', letmut('val_offset'), _OL),
    nrow('JBI_ADVANCE', FN, 'get_jentry_by_index', r'(?<!=\s)if\s+(?P<e>i\b[^{]*?)\s*\{', [('i', 'i'), ('index', 'index')]),
    nrow('JBI_JSTEP', FN, 'get_jentry_by_index', incr('jentry_offset'), []),
    # get_jentry_by_name
    nrow('JBN_JOFF', FN, 'get_jentry_by_name', letmut('jentry_offset'), _O),
    nrow('JBN_VOFF', FN, 'get_jentry_by_name', letmut('val_offset'), _OL),
    nrow('JBN_KOFF', FN, 'get_jentry_by_name', letmut('key_offset'), _OL),
    nrow('JBN_JSTEP1', FN, 'get_jentry_by_name', incr('jentry_offset'), [], count=2, occ=0),
    nrow('JBN_JSTEP2', FN, 'get_jentry_by_name', incr('jentry_offset'), [], count=2, occ=1),
    # object_keys
    nrow('OKS_JOFF', FN, 'object_keys', letmut('jentry_offset'), []),
    nrow('OKS_KOFF', FN, 'object_keys', letmut('key_offset'), _L),
    nrow('OKS_PREV_KOFF', FN, 'object_keys', letmut('prev_key_offset'), _L),
    nrow('OKS_JSTEP', FN, 'object_keys', incr('jentry_offset'), []),
    # object_each
    nrow('OEA_OFF0', FN, 'object_each', letmut('offset'), []),
    nrow('OEA_WORDS', FN, 'object_each', r'for\s+_\s+in\s+0\.\.(?P<e>[^{]*?)\s*\{', _L, count=3, occ=0),
    nrow('OEA_STEP', FN, 'object_each', r'\boffset\s*\+=\s*(?P<e>[0-9][^;]*);', []),
    # array_values
    nrow('AVS_JOFF', FN, 'array_values', letmut('jentry_offset'), []),
    nrow('AVS_VOFF', FN, 'array_values', letmut('val_offset'), _L),
    nrow('AVS_JSTEP', FN, 'array_values', incr('jentry_offset'), []),
    # compare_container -> compare_array / compare_object: the slices passed on skip the header
    nrow('CMP_ARR_LSKIP', FN, 'compare_container', r'compare_array\(\s*left_header\s*,\s*&left\[(?P<e>[^.\]]*)\.\.\]', []),
    nrow('CMP_ARR_RSKIP', FN, 'compare_container', r'compare_array\([^;)]*right_header\s*,\s*&right\[(?P<e>[^.\]]*)\.\.\]', []),
    nrow('CMP_OBJ_LSKIP', FN, 'compare_container', r'compare_object\(\s*left_header\s*,\s*&left\[(?P<e>[^.\]]*)\.\.\]', []),
    nrow('CMP_OBJ_RSKIP', FN, 'compare_container', r'compare_object\([^;)]*right_header\s*,\s*&right\[(?P<e>[^.\]]*)\.\.\]', []),
    # compare (top level): the same slices, and the entry word / payload of a scalar document
    nrow('CPR_ARR_LSKIP', FN, 'compare', r'compare_array\(\s*left_header\s*,\s*&left\[(?P<e>[^.\]]*)\.\.\]', []),
    nrow('CPR_ARR_RSKIP', FN, 'compare', r'compare_array\([^;)]*right_header\s*,\s*&right\[(?P<e>[^.\]]*)\.\.\]', []),
    nrow('CPR_OBJ_LSKIP', FN, 'compare', r'compare_object\(\s*left_header\s*,\s*&left\[(?P<e>[^.\]]*)\.\.\]', []),
    nrow('CPR_OBJ_RSKIP', FN, 'compare', r'compare_object\([^;)]*right_header\s*,\s*&right\[(?P<e>[^.\]]*)\.\.\]', []),
    nrow('CPR_SC_LSKIP', FN, 'compare', r'compare_scalar\(\s*&left_jentry\s*,\s*&left\[(?P<e>[^.\]]*)\.\.\]', []),
    nrow('CPR_SC_RSKIP', FN, 'compare', r'compare_scalar\([^;)]*&right_jentry\s*,\s*&right\[(?P<e>[^.\]]*)\.\.\]', []),
    nrow('CPR_SC_LJOFF', FN, 'compare', r'let\s+left_encoded\s*=\s*read_u32\(\s*left\s*,\s*(?P<e>[^)]*)\)', [], count=2, occ=0),
    nrow('CPR_SC_RJOFF', FN, 'compare', r'let\s+right_encoded\s*=\s*read_u32\(\s*right\s*,\s*(?P<e>[^)]*)\)', [], count=2, occ=0),
    nrow('CPR_MIX_LJOFF', FN, 'compare', r'let\s+left_encoded\s*=\s*read_u32\(\s*left\s*,\s*(?P<e>[^)]*)\)', [], count=2, occ=1),
    nrow('CPR_MIX_RJOFF', FN, 'compare', r'let\s+right_encoded\s*=\s*read_u32\(\s*right\s*,\s*(?P<e>[^)]*)\)', [], count=2, occ=1),
    # compare_array
    nrow('CMA_JOFF', FN, 'compare_array', letmut('jentry_offset'), []),
    nrow('CMA_LVOFF', FN, 'compare_array', letmut('left_val_offset'), [('left_length', 'left_length')]),
    nrow('CMA_RVOFF', FN, 'compare_array', letmut('right_val_offset'), [('right_length', 'right_length')]),
    nrow('CMA_LEN', FN, 'compare_array', r'let\s+length\s*=\s*(?P<e>if\b[^;]*);', _LR),
    nrow('CMA_JSTEP', FN, 'compare_array', incr('jentry_offset'), []),
    # compare_object
    nrow('CMO_LJOFF', FN, 'compare_object', letmut('left_jentry_offset'), []),
    nrow('CMO_RJOFF', FN, 'compare_object', letmut('right_jentry_offset'), []),
    nrow('CMO_LVOFF', FN, 'compare_object', letmut('left_val_offset'), [('left_length', 'left_length')]),
    nrow('CMO_RVOFF', FN, 'compare_object', letmut('right_val_offset'), [('right_length', 'right_length')]),
    nrow('CMO_LKOFF', FN, 'compare_object', letmut('left_key_offset'), [('left_length', 'left_length')]),
    nrow('CMO_RKOFF', FN, 'compare_object', letmut('right_key_offset'), [('right_length', 'right_length')]),
    nrow('CMO_LEN', FN, 'compare_object', r'let\s+length\s*=\s*(?P<e>if\b[^;]*);', _LR),
    nrow('CMO_LJSTEP1', FN, 'compare_object', incr('left_jentry_offset'), [], count=2, occ=0),
    nrow('CMO_LJSTEP2', FN, 'compare_object', incr('left_jentry_offset'), [], count=2, occ=1),
    nrow('CMO_RJSTEP1', FN, 'compare_object', incr('right_jentry_offset'), [], count=2, occ=0),
    nrow('CMO_RJSTEP2', FN, 'compare_object', incr('right_jentry_offset'), [], count=2, occ=1),
    # convert_to_comparable
    nrow('CVC_ARR_SKIP', FN, 'scalar_convert_to_comparable', r'array_convert_to_comparable\([^;]*&value\[(?P<e>[^.\]]*)\.\.\]', []),
    nrow('CVC_OBJ_SKIP', FN, 'scalar_convert_to_comparable', r'object_convert_to_comparable\([^;]*&value\[(?P<e>[^.\]]*)\.\.\]', []),
    nrow('CVA_JOFF', FN, 'array_convert_to_comparable', letmut('jentry_offset'), []),
    nrow('CVA_VOFF', FN, 'array_convert_to_comparable', letmut('val_offset'), _L),
    nrow('CVA_JSTEP', FN, 'array_convert_to_comparable', incr('jentry_offset'), []),
    nrow('CVO_JOFF', FN, 'object_convert_to_comparable', letmut('jentry_offset'), []),
    nrow('CVO_VOFF', FN, 'object_convert_to_comparable', letmut('val_offset'), _L),
    nrow('CVO_KOFF', FN, 'object_convert_to_comparable', letmut('key_offset'), _L),
    nrow('CVO_JSTEP1', FN, 'object_convert_to_comparable', incr('jentry_offset'), [], count=2, occ=0),
    nrow('CVO_JSTEP2', FN, 'object_convert_to_comparable', incr('jentry_offset'), [], count=2, occ=1),
    # container_to_string / scalar_to_string (occurrences: scalar, array, object arm)
    nrow('CTS_SC_JOFF', FN, 'container_to_string', letmut('jentry_offset'), _O, count=3, occ=0),
    nrow('CTS_SC_VOFF', FN, 'container_to_string', letmut('value_offset'), _O, count=3, occ=0),
    nrow('CTS_ARR_JOFF', FN, 'container_to_string', letmut('jentry_offset'), _O, count=3, occ=1),
    nrow('CTS_ARR_VOFF', FN, 'container_to_string', letmut('value_offset'), _OL, count=3, occ=1),
    nrow('CTS_OBJ_JOFF', FN, 'container_to_string', letmut('jentry_offset'), _O, count=3, occ=2),
    nrow('CTS_OBJ_KOFF', FN, 'container_to_string', letmut('key_offset'), _OL),
    nrow('CTS_OBJ_VOFF', FN, 'container_to_string', letmut('value_offset'), [('key_offset', 'key_offset')], count=3, occ=2),
    nrow('CTS_OBJ_JSTEP', FN, 'container_to_string', incr('jentry_offset'), []),
    nrow('STS_JSTEP', FN, 'scalar_to_string', r'\*jentry_offset\s*\+=\s*(?P<e>[^;]*);', []),
    # selector.rs
    nrow('SOV_OFF', SEL, 'select_object_values', letmut('offset'), _RL),
    nrow('SAV_OFF', SEL, 'select_array_values', letmut('offset'), _RL),
    nrow('SBN_OFF', SEL, 'select_by_name', letmut('offset'), _RL),
    nrow('SBI_OFF', SEL, 'select_by_indices', letmut('offset'), _RL),
    nrow('BSA_RESERVE', SEL, 'build_scalar_array', r'data\.resize\(\s*(?P<e>[^,]*),\s*0\s*\)\s*;', [('jentry_offset', 'jentry_offset'), ('len', 'len')]),
    nrow('BSA_JSTEP', SEL, 'build_scalar_array', incr('jentry_offset'), []),
    # ---- G3: width selection of Number::compact_encode (C01 C18) ----------------------------------------------------------------
    dict(name='CE_INT_ZERO', file=NUM, fn='compact_encode', pat=_CE_EQ, count=2, occ=0, params=_V, ty='Z', mach='i64'),
    dict(name='CE_INT_FITS1', file=NUM, fn='compact_encode', pat=_CE_GE, count=3, occ=0, params=_V, ty='Z', mach='i64'),
    dict(name='CE_INT_FITS2', file=NUM, fn='compact_encode', pat=_CE_GE, count=3, occ=1, params=_V, ty='Z', mach='i64'),
    dict(name='CE_INT_FITS3', file=NUM, fn='compact_encode', pat=_CE_GE, count=3, occ=2, params=_V, ty='Z', mach='i64'),
    dict(name='CE_UINT_ZERO', file=NUM, fn='compact_encode', pat=_CE_EQ, count=2, occ=1, params=_V, ty='N', mach='u64'),
    dict(name='CE_UINT_FITS1', file=NUM, fn='compact_encode', pat=_CE_LE, count=3, occ=0, params=_V, ty='N', mach='u64'),
    dict(name='CE_UINT_FITS2', file=NUM, fn='compact_encode', pat=_CE_LE, count=3, occ=1, params=_V, ty='N', mach='u64'),
    dict(name='CE_UINT_FITS3', file=NUM, fn='compact_encode', pat=_CE_LE, count=3, occ=2, params=_V, ty='N', mach='u64'),
    # the widths written: `(*v as iN).to_be_bytes()` in the three narrow branches, the variant's own type in the last one
    dict(name='CE_INT_W1', kind='width', file=NUM, fn='compact_encode', pat=_CE_W, count=6, occ=0),
    dict(name='CE_INT_W2', kind='width', file=NUM, fn='compact_encode', pat=_CE_W, count=6, occ=1),
    dict(name='CE_INT_W3', kind='width', file=NUM, fn='compact_encode', pat=_CE_W, count=6, occ=2),
    dict(name='CE_INT_W4', kind='width', file=NUM, fn=None, pat=r'enum\s+Number\s*\{\s*Int64\((?P<e>\w+)\)\s*,'),
    dict(name='CE_UINT_W1', kind='width', file=NUM, fn='compact_encode', pat=_CE_W, count=6, occ=3),
    dict(name='CE_UINT_W2', kind='width', file=NUM, fn='compact_encode', pat=_CE_W, count=6, occ=4),
    dict(name='CE_UINT_W3', kind='width', file=NUM, fn='compact_encode', pat=_CE_W, count=6, occ=5),
    dict(name='CE_UINT_W4', kind='width', file=NUM, fn=None, pat=r'enum\s+Number\s*\{[^}]*?\bUInt64\((?P<e>\w+)\)\s*,'),
    dict(name='CE_WIDE_BRANCHES', kind='require', file=NUM, fn='compact_encode',      # the last branch writes the variant's own type
         require=[r'\}\s*else\s*\{\s*writer\.write_all\(&v\.to_be_bytes\(\)\)\?;\s*Ok\(9\)\s*\}\s*\}\s*Self::UInt64',
                  r'\}\s*else\s*\{\s*writer\.write_all\(&v\.to_be_bytes\(\)\)\?;\s*Ok\(9\)\s*\}\s*\}\s*Self::Float64']),
]


def anchors(repo):
    L = []
    for row in ANCHORS:
        L.extend(anchored(repo, row))
    return L


def coq_list(xs):
    return '[' + '; '.join(str(x) for x in xs) + ']'


def generate(repo):
    C = consts(repo)
    hexv = hex_table(repo)
    esc, generic, _ = escape_table(repo)
    lvl, lvl_default = level_table(repo, C)
    jsonb_set = is_jsonb_set(repo, C)
    delims = raw_string_delims(repo)
    offs, offc = offsets(repo)
    anch = anchors(repo)
    L = []
    L.append('(* GENERATED by tools/translate_consts.py from the working tree of /repo. Do not edit. *)')
    L.append('From Coq Require Import NArith ZArith Bool List.')
    L.append('Import ListNotations.')
    L.append('Open Scope N_scope.')
    L.append('')
    for k in sorted(C):
        L.append('Definition %s : N := %d.' % (k, C[k]))
    L.append('')
    L.append('(* util.rs HEX table: byte -> hex digit value (255 = not a hex digit) *)')
    L.append('Definition HEX_TABLE : list N := %s.' % coq_list(hexv))
    L.append('')
    L.append('(* functions.rs escape_scalar_string: byte -> replacement text *)')
    L.append('Definition ESCAPE_TABLE : list (N * list N) := [%s].' %
             '; '.join('(%d, %s)' % (b, coq_list(esc[b])) for b in sorted(esc)))
    L.append('Definition ESCAPE_GENERIC_CONTROL : bool := %s.' % ('true' if generic else 'false'))
    L.append('')
    L.append('(* functions.rs jentry_compare_level: entry tag -> level *)')
    L.append('Definition LEVEL_TABLE : list (N * N) := [%s].' %
             '; '.join('(%s, %s)' % (t, l) for t, l in sorted(lvl.items())))
    L.append('Definition LEVEL_DEFAULT : N := %s.' % lvl_default)
    L.append('')
    L.append('(* functions.rs is_jsonb: first-byte set *)')
    L.append('Definition IS_JSONB_BYTES : list N := %s.' % coq_list(jsonb_set))
    L.append('')
    L.append('(* jsonpath/parser.rs raw_string: delimiter byte set *)')
    L.append('Definition RAW_STRING_DELIMS : list N := %s.' % coq_list(delims))
    L.append('')
    L.append('(* iterator.rs / builder.rs: initial offsets, entry-word strides, initial lengths and reserved sizes, as written *)')
    for name, var, e in offs:
        L.append('Definition %s (%s : N) : N := %s.' % (name, var, e))
    for name, v in offc:
        L.append('Definition %s : N := %d.' % (name, v))
    L.append('')
    L.append('(* value ranges of the machine integer types *)')
    for T in ('i8', 'i16', 'i32', 'i64', 'u8', 'u16', 'u32', 'u64', 'usize'):
        bits = INT_TYPES[T]
        lo, hi = (-(1 << (bits - 1)), (1 << (bits - 1)) - 1) if T[0] == 'i' else (0, (1 << bits) - 1)
        L.append('Definition IN_%s (z : Z) : Prop := (%s <= z <= %d)%%Z.' % (T, lo, hi))
    L.append('(* anchored expressions (table ANCHORS of the translator): integer expressions and conditions, as written in the source *)')
    L.extend(anch)
    L.append('')
    return '\n'.join(L)


# ---------------------------------------------------------------- self-test: single-token mutations of the sources
# (file, fn the text must lie in (None = anywhere), old text, new text, occurrence inside that fn).  For every mutation the translator,
# run on a mutated COPY of the sources, must either exit with TranslateError or produce a different Constants.v: then the
# proofs are re-checked against the mutated formula.  "Same output" = the mutation went unnoticed = the self-test fails.
MUTATIONS = [
    # G1
    (FN, 'delete_by_index', 'if index < 0 { len + index }', 'if index <= 0 { len + index }', 0),
    (FN, 'delete_by_index', 'index >= 0 && index < len', 'index >= 0 && index <= len', 0),
    (FN, 'delete_jsonb_by_index', 'index >= len', 'index > len', 0),
    (FN, 'delete_jsonb_by_index', 'len + index', 'len - index', 0),
    (FN, 'delete_jsonb_by_index', 'as i32', 'as i64', 0),
    (FN, 'array_insert_jsonb', 'len + pos', 'len + pos + 1', 0),
    (FN, 'array_insert_jsonb', 'idx > len', 'idx >= len', 0),
    (FN, 'array_insert_jsonb', '        1\n', '        0\n', 0),
    (FN, 'get_by_keypath', '*idx > length', '*idx >= length', 0),
    (FN, 'get_by_keypath', '*idx > length', '*idx >= length', 1),
    (FN, 'get_by_keypath', 'length + *idx < 0', 'length + *idx <= 0', 1),
    (FN, 'get_by_keypath', '(length + *idx) as usize', '(length - *idx) as usize', 1),
    (FN, 'get_by_keypath', 'if *idx > length || length + *idx < 0 {', 'if *idx > length {', 0),
    (FN, 'delete_value_array_by_keypath', 'idx >= len', 'idx > len', 0),
    (FN, 'delete_jsonb_array_by_keypath', 'if *idx < 0 { len + *idx }', 'if *idx < 0 { len + *idx - 1 }', 0),
    (FN, 'delete_jsonb_array_by_keypath', 'idx < 0 || idx >= len', 'idx >= len', 0),
    (SEL, 'convert_index', 'length + *idx as i64 - 1', 'length + *idx as i64', 0),
    (SEL, 'convert_index', 'idx < length', 'idx <= length', 0),
    (SEL, 'convert_index', 'let length = length as i64;', 'let length = length as i32;', 0),
    (SEL, 'convert_slice', 'length + *idx as i64 - 1', 'length + *idx as i64 - 2', 1),
    (SEL, 'convert_slice', 'start >= length', 'start > length', 0),
    (SEL, 'convert_slice', '(length - 1) as usize', 'length as usize', 0),
    (SEL, 'convert_slice', 'if start < 0 { 0 }', 'if start < 0 { 1 }', 0),
    (SEL, 'select_by_indices', '|| length == 0', '', 0),
    # G2
    (FN, 'get_jentry_by_index', 'offset + 4 * length + 4', 'offset + 4 * length + 8', 0),
    (FN, 'get_jentry_by_index', 'let mut jentry_offset = offset + 4;', 'let mut jentry_offset = offset + 8;', 0),
    (FN, 'get_jentry_by_index', 'index >= length', 'index > length', 0),
    (FN, 'get_jentry_by_index', 'if i < index', 'if i <= index', 0),
    (FN, 'get_jentry_by_index', 'jentry_offset += 4;', 'jentry_offset += 8;', 0),
    (FN, 'get_jentry_by_name', 'offset + 8 * length + 4', 'offset + 4 * length + 4', 0),
    (FN, 'get_jentry_by_name', 'offset + 8 * length + 4', 'offset + 8 * length', 1),
    (FN, 'get_jentry_by_name', 'jentry_offset += 4;', 'jentry_offset += 2;', 1),
    (FN, 'object_keys', 'let mut prev_key_offset = 8 * length + 4;', 'let mut prev_key_offset = 8 * length;', 0),
    (FN, 'object_keys', 'let mut jentry_offset = 4;', 'let mut jentry_offset = 0;', 0),
    (FN, 'object_each', '0..length * 2', '0..length', 0),
    (FN, 'object_each', 'offset += 4;', 'offset += 8;', 0),
    (FN, 'array_values', '4 * length + 4', '4 * length', 0),
    (FN, 'compare_container', '&left[4..], right_header', '&left[8..], right_header', 0),
    (FN, 'compare', '&right[8..]', '&right[4..]', 0),
    (FN, 'compare_array', 'let mut right_val_offset = 4 * right_length;', 'let mut right_val_offset = 4 * left_length;', 0),
    (FN, 'compare_array', 'left_length <= right_length', 'left_length >= right_length', 0),
    (FN, 'compare_object', 'let mut left_key_offset = 8 * left_length;', 'let mut left_key_offset = 4 * left_length;', 0),
    (FN, 'compare_object', 'right_jentry_offset += 4;', 'right_jentry_offset += 8;', 1),
    (FN, 'scalar_convert_to_comparable', '&value[4..]', '&value[0..]', 1),
    (FN, 'array_convert_to_comparable', '4 * length', '8 * length', 0),
    (FN, 'object_convert_to_comparable', 'let mut key_offset = 8 * length;', 'let mut key_offset = 8 * length + 4;', 0),
    (FN, 'container_to_string', '4 + *offset + 4 * length', '4 + *offset + 8 * length', 0),
    (FN, 'container_to_string', 'let mut value_offset = 8 + *offset;', 'let mut value_offset = 4 + *offset;', 0),
    (FN, 'container_to_string', 'let mut value_offset = key_offset;', 'let mut value_offset = key_offset + 4;', 0),
    (FN, 'scalar_to_string', '*jentry_offset += 4;', '*jentry_offset += 8;', 0),
    (SEL, 'select_object_values', 'root_offset + 4 + length * 8', 'root_offset + 4 + length * 4', 0),
    (SEL, 'select_array_values', 'root_offset + 4 + length * 4', 'root_offset + length * 4', 0),
    (SEL, 'select_by_name', 'root_offset + 4 + length * 8', 'root_offset + 8 + length * 8', 0),
    (SEL, 'select_by_indices', 'root_offset + 4 + length * 4', 'root_offset + 4 + length * 8', 0),
    (SEL, 'build_scalar_array', 'jentry_offset + 4 * len', 'jentry_offset + 8 * len', 0),
    # G3
    (NUM, 'compact_encode', '*v <= i8::MAX.into()', '*v < i8::MAX.into()', 0),
    (NUM, 'compact_encode', '*v >= i16::MIN.into()', '*v >= i8::MIN.into()', 0),
    (NUM, 'compact_encode', '*v <= i32::MAX.into()', '*v <= u32::MAX.into()', 0),
    (NUM, 'compact_encode', '*v <= u8::MAX.into()', '*v <= i8::MAX.into()', 0),
    (NUM, 'compact_encode', '*v <= u16::MAX.into()', '*v < u16::MAX.into()', 0),
    (NUM, 'compact_encode', '(*v as i16)', '(*v as i32)', 0),
    (NUM, 'compact_encode', '(*v as u32)', '(*v as u16)', 0),
    (NUM, 'compact_encode', '*v == 0', '*v == 1', 1),
    (NUM, None, 'Int64(i64),', 'Int64(i32),', 0),
]


def fn_span(src, name):
    m = re.search(r'fn\s+' + re.escape(name) + r'\b', src)
    if not m:
        raise TranslateError('selftest: function %s not found' % name)
    j = match_brace(src, src.index('{', m.end()))
    if j < 0:
        raise TranslateError('selftest: unbalanced braces in %s' % name)
    return m.start(), j


def mutate(src, fn, old, new, occ):
    a, b = fn_span(src, fn) if fn else (0, len(src))
    pos = a - 1
    for _ in range(occ + 1):
        pos = src.find(old, pos + 1, b)
        if pos < 0:
            raise TranslateError('selftest: %r (occurrence %d) not found in fn %s' % (old, occ, fn))
    return src[:pos] + new + src[pos + len(old):]


def selftest(repo, verbose=True):
    """returns the number of unnoticed mutations (0 = pass)"""
    import tempfile, shutil
    base = generate(repo)
    unnoticed = 0
    skipped = 0
    for k, (rel, fn, old, new, occ) in enumerate(MUTATIONS):
        tmp = tempfile.mkdtemp(prefix='jbmut')
        try:
            shutil.copytree(os.path.join(repo, 'src'), os.path.join(tmp, 'src'))
            path = os.path.join(tmp, rel)
            src = strip_comments_keep_strings(re.sub(r'/\*.*?\*/', '', open(path).read(), flags=re.S))   # as the translator reads it
            try:
                open(path, 'w').write(mutate(src, fn, old.replace('\\n', '\n'), new.replace('\\n', '\n'), occ))
            except TranslateError as e:
                skipped += 1
                if verbose:
                    print('mutation %2d  %s fn %s: %r: SKIPPED, the source text to mutate is not there (%s)' % (k, os.path.basename(rel), fn, old, e))
                continue
            _SRC_CACHE.clear()
            try:
                out = generate(tmp)
                verdict = 'definitions differ' if out != base else 'UNNOTICED'
                if out != base:
                    changed = [l.split()[1] for l in out.split('\n') if l.startswith('Definition') and l not in base]
                    verdict += ' (%s)' % ', '.join(changed) if changed else ' (comment only)'
            except TranslateError as e:
                verdict = 'tie broken (exit 2): %s' % str(e)[:110]
            if verdict == 'UNNOTICED':
                unnoticed += 1
            if verbose:
                print('mutation %2d  %s fn %s: %r -> %r [#%d]: %s' % (k, os.path.basename(rel), fn, old, new, occ, verdict))
        finally:
            shutil.rmtree(tmp, ignore_errors=True)
            _SRC_CACHE.clear()
    print('selftest: %d mutations, %d unnoticed, %d skipped' % (len(MUTATIONS), unnoticed, skipped))
    return unnoticed


def main():
    ap = argparse.ArgumentParser()
    ap.add_argument('--repo', default='/repo')
    ap.add_argument('--out')
    ap.add_argument('--selftest', action='store_true', help='apply MUTATIONS to a copy of the sources; every one must change the output or break the tie')
    a = ap.parse_args()
    if a.selftest:
        try:
            sys.exit(1 if selftest(a.repo) else 0)
        except (TranslateError, OSError, ValueError, KeyError) as e:
            sys.stderr.write('translate_consts: %s\n' % e)
            sys.exit(2)
    try:
        text = generate(a.repo)
    except (TranslateError, OSError, ValueError, KeyError) as e:
        sys.stderr.write('translate_consts: %s\n' % e)
        sys.exit(2)
    if a.out:
        old = None
        if os.path.exists(a.out):
            old = open(a.out).read()
        if old != text:
            os.makedirs(os.path.dirname(a.out), exist_ok=True)
            open(a.out, 'w').write(text)
            print('updated')
        else:
            print('unchanged')
    else:
        sys.stdout.write(text)


if __name__ == '__main__':
    main()
