#!/usr/bin/env python3
import json,sys,os,glob
pid=sys.argv[1]
fs=sorted(glob.glob('/verif/replays/%s-violation-*.json'%pid),key=os.path.getmtime)
d=json.load(open(fs[-1]))
kinds={}
for v in d['violations']:
    kinds.setdefault(v['what'],[]).append(v)
for k,vs in kinds.items():
    print('##',k,len(vs))
    for v in vs[:int(sys.argv[2]) if len(sys.argv)>2 else 3]:
        print('   case:',str(v.get('case'))[:300]); print('   exp :',str(v.get('expected',v.get('expected_by_model')))[:200]); print('   obs :',str(v.get('observed'))[:200])
