#!/usr/bin/env python3
"""Regenerate MANIFEST.json from the table below (kept in one place so it stays valid)."""
import json, os
V = os.path.dirname(os.path.dirname(os.path.abspath(__file__)))
props = [json.loads(l) for l in open(os.path.join(V, 'properties.jsonl'))]
CLAIMS = json.load(open(os.path.join(V, 'tools', 'claims.json')))
checks, na = [], []
for p in props:
    pid = p['id']
    c = CLAIMS.get(pid)
    if not c or c.get('na'):
        na.append({'property_id': pid, 'reason': (c or {}).get('na', 'check not built yet in this session; see DESIGN.md §4')})
        continue
    checks.append({
        'property_id': pid,
        'quick_cmd': 'bin/check %s --tier quick' % pid,
        'thorough_cmd': 'bin/check %s --tier thorough' % pid,
        'evidence_file': 'evidence/%s.json' % pid,
        'replay_cmd_template': 'bin/check %s --replay {path}' % pid,
        'engine': 'rocq-proof+correspondence',
        'level_claimed': {'category': 'proof', 'text': c['text'], 'design_ref': c.get('design_ref', 'DESIGN.md §4 ' + pid)},
        'level_note': c['note'],
        'technique': c['technique'],
    })
m = {
    'version': 1,
    'setup_cmd': 'bin/setup',
    'hooks': {'guard': 'jsonb_verif', 'enable': 'RUSTFLAGS="--cfg jsonb_verif" (set by the harness build); no hook is needed: every observation point is public API',
              'baseline_off_cmd': 'cd /repo && cargo test --workspace --no-fail-fast --offline', 'source_commits': [], 'add_only': True},
    'engines': [{'name': 'rocq-proof+correspondence', 'path': 'coq/ ocaml/ harness/ bin/',
                 'serves_properties': [c['property_id'] for c in checks],
                 'kind_free_text': 'Coq 8.16.1 development (model + theorems), translator for constants, extracted model vs real crate differential, direct property search on the implementation'}],
    'checks': checks,
    'not_applicable': na,
    'notes': 'See DESIGN.md. fix: commits in /repo are listed in known_findings.json (status fixed).',
}
json.dump(m, open(os.path.join(V, 'MANIFEST.json'), 'w'), indent=1)
print('checks:', len(checks), 'not_applicable:', len(na))
