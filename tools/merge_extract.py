#!/usr/bin/env python3
"""merge_extract.py <branch> — rebuild coq/Extract.v as the union of HEAD's and <branch>'s imports and extraction names"""
import sys, subprocess, re
br = sys.argv[1]
def get(rev):
    return subprocess.run(['git', 'show', '%s:coq/Extract.v' % rev], stdout=subprocess.PIPE, check=True).stdout.decode()
def parts(s):
    head = s[:s.index('Extraction Language OCaml.')]
    mods = []
    for m in re.finditer(r'From JB Require Import([^.]*)\.', head):
        mods += m.group(1).split()
    names = s[s.index('Extraction "model.ml"') + len('Extraction "model.ml"'):].rsplit('.', 1)[0].split()
    return mods, names
m1, n1 = parts(get('HEAD')); m2, n2 = parts(get(br))
mods = m1 + [m for m in m2 if m not in m1]
names = n1 + [n for n in n2 if n not in n1]
base = ['Constants', 'Bytes', 'Utf8', 'Num', 'Value', 'Codec', 'Decimal', 'JsonText', 'Order', 'TreeOps', 'Contain', 'SetOps', 'CmpKey',
        'Render', 'Serde', 'Path', 'PathSem', 'PathParse', 'Dispatch', 'Walk', 'CompareWalk', 'ComparableWalk']
out = ['(* Extract.v — extraction of the executable model to OCaml (ExtrOcamlBasic only; numbers stay the',
       '   extracted inductives). *)', 'Require Extraction.', 'Require Import ExtrOcamlBasic.',
       'From JB Require Import ' + ' '.join(base[:13]), '  ' + ' '.join(base[13:]) + '.']
for m in mods:
    if m not in base:
        out.append('From JB Require Import %s.' % m)
out += ['Extraction Language OCaml.', 'Extraction "model.ml"']
line = ' '
for n in names:
    if len(line) + len(n) > 118:
        out.append(line); line = ' '
    line += ' ' + n
out.append(line + '.')
open('coq/Extract.v', 'w').write('\n'.join(out) + '\n')
