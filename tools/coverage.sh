#!/bin/sh
# coverage.sh — line coverage of /repo/src under the harness while all 20 quick checks run (how much of the crate the
# correspondence streams reach).  Needs the nightly toolchain's llvm-tools (installed in this sandbox).  Not part of any check.
set -e
V=$(cd "$(dirname "$0")/.." && pwd)
B=$(rustc +nightly --print sysroot)/lib/rustlib/x86_64-unknown-linux-gnu/bin
T=${COV_TMP:-/tmp/jbcov}
rm -rf "$T"; mkdir -p "$T/prof"
(cd "$V/harness" && CARGO_NET_OFFLINE=true RUSTFLAGS="-C instrument-coverage --cfg jsonb_verif" CARGO_TARGET_DIR="$T/target" cargo +nightly build --offline >/dev/null 2>&1)
export JB_HARNESS_BIN="$T/target/debug/jbh" LLVM_PROFILE_FILE="$T/prof/p-%p-%8m.profraw"
for p in 01 02 03 04 05 06 07 08 09 10 11 12 13 14 15 16 17 18 19 20; do "$V/bin/check" C$p >/dev/null 2>&1 || true; done
unset JB_HARNESS_BIN LLVM_PROFILE_FILE
"$B/llvm-profdata" merge -sparse "$T"/prof/*.profraw -o "$T/all.profdata"
"$B/llvm-cov" report "$T/target/debug/jbh" -instr-profile="$T/all.profdata" --ignore-filename-regex='(registry|rustc|harness|rustup)' | cut -c1-20,128-
echo "(C20's deep-recursion outcomes differ under the instrumented nightly build: re-run bin/check C20 afterwards to refresh its evidence)"
rm -rf "$T"
