// jbh — runs the real crate (linked from /repo's working tree) on a case file and prints one canonical
// outcome line per case.  Format: DESIGN.md Appendix B.  Usage: jbh <casefile>  (or stdin with "-")
use jsonb::jsonpath::{
    ArithmeticFunc, ArrayIndex, BinaryArithmeticOperator, BinaryOperator, Expr, FilterFunc, Index, JsonPath,
    Mode, Path, PathValue, Selector, UnaryArithmeticOperator,
};
use jsonb::keypath::KeyPath;
use jsonb::{Error, Number, Value};
use std::borrow::Cow;
use std::collections::{BTreeMap, BTreeSet};
use std::io::{BufRead, Write};
use std::panic::{catch_unwind, AssertUnwindSafe};

// ---------------------------------------------------------------------------------------- helpers
fn unhex(s: &str) -> Vec<u8> {
    if s == "-" {
        return vec![];
    }
    let b = s.as_bytes();
    let mut out = Vec::with_capacity(b.len() / 2);
    let mut i = 0;
    while i + 1 < b.len() {
        out.push((hv(b[i]) << 4) | hv(b[i + 1]));
        i += 2;
    }
    out
}
fn hv(c: u8) -> u8 {
    match c {
        b'0'..=b'9' => c - b'0',
        b'a'..=b'f' => c - b'a' + 10,
        b'A'..=b'F' => c - b'A' + 10,
        _ => 0,
    }
}
fn hex(b: &[u8]) -> String {
    if b.is_empty() {
        return "-".to_string();
    }
    let mut s = String::with_capacity(b.len() * 2);
    for x in b {
        s.push_str(&format!("{:02x}", x));
    }
    s
}
fn hexlist(s: &str) -> Vec<Vec<u8>> {
    if s == "_" {
        return vec![];
    }
    s.split(',').map(unhex).collect()
}
fn ustr(b: &[u8]) -> &str {
    // keys and names are handed to the crate as &str; the generators only produce valid UTF-8 here
    std::str::from_utf8(b).expect("harness: name is not UTF-8")
}

fn err_kind(e: &Error) -> &'static str {
    match e {
        Error::InvalidJsonType => "InvalidJsonType",
        Error::InvalidObject => "InvalidObject",
        Error::ObjectDuplicateKey => "ObjectDuplicateKey",
        Error::InvalidJsonPathPredicate => "InvalidJsonPathPredicate",
        _ => "Other",
    }
}

// ------------------------------------------------------------------------------- neutral value text
struct P<'a> {
    s: &'a [u8],
    i: usize,
}
impl<'a> P<'a> {
    fn peek(&self) -> u8 {
        if self.i < self.s.len() {
            self.s[self.i]
        } else {
            0
        }
    }
    fn eat(&mut self, c: u8) {
        assert!(self.peek() == c, "harness parse: expected {} at {}", c as char, self.i);
        self.i += 1;
    }
    fn hexrun(&mut self) -> Vec<u8> {
        let st = self.i;
        while self.i < self.s.len() && (self.s[self.i].is_ascii_digit() || (b'a'..=b'f').contains(&self.s[self.i])) {
            self.i += 1;
        }
        unhex(std::str::from_utf8(&self.s[st..self.i]).unwrap())
    }
    fn decrun(&mut self) -> String {
        let st = self.i;
        if self.peek() == b'-' {
            self.i += 1;
        }
        while self.i < self.s.len() && self.s[self.i].is_ascii_digit() {
            self.i += 1;
        }
        std::str::from_utf8(&self.s[st..self.i]).unwrap().to_string()
    }
    fn num(&mut self) -> Number {
        let c = self.peek();
        self.i += 1;
        match c {
            b'i' => Number::Int64(self.decrun().parse().unwrap()),
            b'u' => Number::UInt64(self.decrun().parse().unwrap()),
            b'd' => {
                let h = self.hexrun();
                let mut a = [0u8; 8];
                a.copy_from_slice(&h);
                Number::Float64(f64::from_bits(u64::from_be_bytes(a)))
            }
            _ => panic!("harness parse: bad number"),
        }
    }
    fn value(&mut self) -> Value<'static> {
        match self.peek() {
            b'n' => {
                self.i += 1;
                Value::Null
            }
            b't' => {
                self.i += 1;
                Value::Bool(true)
            }
            b'f' => {
                self.i += 1;
                Value::Bool(false)
            }
            b'i' | b'u' | b'd' => Value::Number(self.num()),
            b's' => {
                self.i += 1;
                let h = self.hexrun();
                Value::String(Cow::Owned(String::from_utf8(h).expect("harness: string not UTF-8")))
            }
            b'[' => {
                self.i += 1;
                let mut v = vec![];
                if self.peek() == b']' {
                    self.i += 1;
                    return Value::Array(v);
                }
                loop {
                    v.push(self.value());
                    if self.peek() == b',' {
                        self.i += 1;
                    } else {
                        self.eat(b']');
                        break;
                    }
                }
                Value::Array(v)
            }
            b'{' => {
                self.i += 1;
                let mut m = BTreeMap::new();
                if self.peek() == b'}' {
                    self.i += 1;
                    return Value::Object(m);
                }
                loop {
                    let k = self.hexrun();
                    self.eat(b':');
                    let v = self.value();
                    m.insert(String::from_utf8(k).expect("harness: key not UTF-8"), v);
                    if self.peek() == b',' {
                        self.i += 1;
                    } else {
                        self.eat(b'}');
                        break;
                    }
                }
                Value::Object(m)
            }
            c => panic!("harness parse: bad value char {}", c as char),
        }
    }
}
fn parse_val(s: &str) -> Value<'static> {
    let mut p = P { s: s.as_bytes(), i: 0 };
    p.value()
}
fn parse_num(s: &str) -> Number {
    let mut p = P { s: s.as_bytes(), i: 0 };
    p.num()
}
fn show_num(n: &Number, out: &mut String) {
    match n {
        Number::Int64(v) => out.push_str(&format!("i{}", v)),
        Number::UInt64(v) => out.push_str(&format!("u{}", v)),
        Number::Float64(v) => out.push_str(&format!("d{:016x}", v.to_bits())),
    }
}
fn hexs(b: &[u8]) -> String {
    // hex without the "-" convention (inside value text an empty run is empty)
    let mut s = String::with_capacity(b.len() * 2);
    for x in b {
        s.push_str(&format!("{:02x}", x));
    }
    s
}
fn show_val(v: &Value, out: &mut String) {
    match v {
        Value::Null => out.push('n'),
        Value::Bool(true) => out.push('t'),
        Value::Bool(false) => out.push('f'),
        Value::Number(n) => show_num(n, out),
        Value::String(s) => {
            out.push('s');
            out.push_str(&hexs(s.as_bytes()));
        }
        Value::Array(a) => {
            out.push('[');
            for (i, x) in a.iter().enumerate() {
                if i > 0 {
                    out.push(',');
                }
                show_val(x, out);
            }
            out.push(']');
        }
        Value::Object(o) => {
            out.push('{');
            for (i, (k, x)) in o.iter().enumerate() {
                if i > 0 {
                    out.push(',');
                }
                out.push_str(&hexs(k.as_bytes()));
                out.push(':');
                show_val(x, out);
            }
            out.push('}');
        }
    }
}
fn sv(v: &Value) -> String {
    let mut s = String::new();
    show_val(v, &mut s);
    s
}

// ------------------------------------------------------------------------------- serde_json dump
fn show_serde(v: &serde_json::Value, out: &mut String) {
    match v {
        serde_json::Value::Null => out.push('n'),
        serde_json::Value::Bool(true) => out.push('t'),
        serde_json::Value::Bool(false) => out.push('f'),
        serde_json::Value::Number(n) => {
            if n.is_u64() {
                out.push_str(&format!("u{}", n.as_u64().unwrap()));
            } else if n.is_i64() {
                out.push_str(&format!("i{}", n.as_i64().unwrap()));
            } else {
                out.push_str(&format!("d{:016x}", n.as_f64().unwrap().to_bits()));
            }
        }
        serde_json::Value::String(s) => {
            out.push('s');
            out.push_str(&hexs(s.as_bytes()));
        }
        serde_json::Value::Array(a) => {
            out.push('[');
            for (i, x) in a.iter().enumerate() {
                if i > 0 {
                    out.push(',');
                }
                show_serde(x, out);
            }
            out.push(']');
        }
        serde_json::Value::Object(o) => {
            // order-insensitive equality of serde_json maps: print in key order
            let mut ks: Vec<&String> = o.keys().collect();
            ks.sort();
            out.push('{');
            for (i, k) in ks.iter().enumerate() {
                if i > 0 {
                    out.push(',');
                }
                out.push_str(&hexs(k.as_bytes()));
                out.push(':');
                show_serde(&o[*k], out);
            }
            out.push('}');
        }
    }
}
fn parse_serde(p: &mut P) -> serde_json::Value {
    match p.peek() {
        b'n' => {
            p.i += 1;
            serde_json::Value::Null
        }
        b't' => {
            p.i += 1;
            serde_json::Value::Bool(true)
        }
        b'f' => {
            p.i += 1;
            serde_json::Value::Bool(false)
        }
        b'i' | b'u' | b'd' => match p.num() {
            Number::Int64(v) => serde_json::Value::Number(v.into()),
            Number::UInt64(v) => serde_json::Value::Number(v.into()),
            Number::Float64(v) => serde_json::Value::Number(serde_json::Number::from_f64(v).expect("finite")),
        },
        b's' => {
            p.i += 1;
            serde_json::Value::String(String::from_utf8(p.hexrun()).unwrap())
        }
        b'[' => {
            p.i += 1;
            let mut v = vec![];
            if p.peek() == b']' {
                p.i += 1;
                return serde_json::Value::Array(v);
            }
            loop {
                v.push(parse_serde(p));
                if p.peek() == b',' {
                    p.i += 1;
                } else {
                    p.eat(b']');
                    break;
                }
            }
            serde_json::Value::Array(v)
        }
        b'{' => {
            p.i += 1;
            let mut m = serde_json::Map::new();
            if p.peek() == b'}' {
                p.i += 1;
                return serde_json::Value::Object(m);
            }
            loop {
                let k = p.hexrun();
                p.eat(b':');
                let v = parse_serde(p);
                m.insert(String::from_utf8(k).unwrap(), v);
                if p.peek() == b',' {
                    p.i += 1;
                } else {
                    p.eat(b'}');
                    break;
                }
            }
            serde_json::Value::Object(m)
        }
        c => panic!("harness parse: bad serde char {}", c as char),
    }
}

// ------------------------------------------------------------------------------- key paths, JSONPath AST
fn parse_keypaths(s: &str) -> Vec<KeyPath<'static>> {
    if s == "_" {
        return vec![];
    }
    s.split(',')
        .map(|e| {
            let (c, r) = e.split_at(1);
            match c {
                "i" => KeyPath::Index(r.parse().unwrap()),
                "n" => KeyPath::Name(Cow::Owned(String::from_utf8(unhex_raw(r)).unwrap())),
                "q" => KeyPath::QuotedName(Cow::Owned(String::from_utf8(unhex_raw(r)).unwrap())),
                _ => panic!("harness parse: keypath"),
            }
        })
        .collect()
}
fn show_keypaths(ks: &[KeyPath]) -> String {
    let s = ks
        .iter()
        .map(|k| match k {
            KeyPath::Index(i) => format!("i{}", i),
            KeyPath::Name(n) => format!("n{}", hexs(n.as_bytes())),
            KeyPath::QuotedName(n) => format!("q{}", hexs(n.as_bytes())),
        })
        .collect::<Vec<_>>()
        .join(",");
    if s.is_empty() {
        "_".to_string()
    } else {
        s
    }
}
fn unhex_raw(s: &str) -> Vec<u8> {
    if s.is_empty() {
        vec![]
    } else {
        unhex(s)
    }
}

impl<'a> P<'a> {
    fn cowstr(&mut self) -> Cow<'static, str> {
        Cow::Owned(String::from_utf8(self.hexrun()).expect("harness: name not UTF-8"))
    }
    fn int(&mut self) -> i32 {
        self.decrun().parse().unwrap()
    }
    fn index(&mut self) -> Index {
        let c = self.peek();
        self.i += 1;
        match c {
            b'x' => Index::Index(self.int()),
            b'l' => Index::LastIndex(self.int()),
            _ => panic!("harness parse: index"),
        }
    }
    fn pathlist(&mut self) -> Vec<Path<'static>> {
        let mut v = vec![];
        loop {
            v.push(self.path());
            if self.peek() == b';' {
                self.i += 1;
            } else {
                break;
            }
        }
        v
    }
    fn path(&mut self) -> Path<'static> {
        let c = self.peek();
        self.i += 1;
        match c {
            b'R' => Path::Root,
            b'C' => Path::Current,
            b'W' => Path::DotWildcard,
            b'B' => Path::BracketWildcard,
            b'D' => Path::DotField(self.cowstr()),
            b'K' => Path::ColonField(self.cowstr()),
            b'O' => Path::ObjectField(self.cowstr()),
            b'I' => {
                self.eat(b'(');
                let mut v = vec![];
                loop {
                    if self.peek() == b'S' {
                        self.i += 1;
                        let a = self.index();
                        self.eat(b'~');
                        let b = self.index();
                        v.push(ArrayIndex::Slice((a, b)));
                    } else {
                        v.push(ArrayIndex::Index(self.index()));
                    }
                    if self.peek() == b',' {
                        self.i += 1;
                    } else {
                        self.eat(b')');
                        break;
                    }
                }
                Path::ArrayIndices(v)
            }
            b'F' => Path::FilterExpr(Box::new(self.expr())),
            b'P' => Path::Predicate(Box::new(self.expr())),
            _ => panic!("harness parse: path {}", c as char),
        }
    }
    fn expr(&mut self) -> Expr<'static> {
        let c = self.peek();
        self.i += 1;
        match c {
            b'p' => {
                self.eat(b'(');
                let v = self.pathlist();
                self.eat(b')');
                Expr::Paths(v)
            }
            b'e' => {
                self.eat(b'(');
                let v = self.pathlist();
                self.eat(b')');
                Expr::FilterFunc(FilterFunc::Exists(v))
            }
            b'v' => {
                let k = self.peek();
                let pv = match k {
                    b'n' => {
                        self.i += 1;
                        PathValue::Null
                    }
                    b't' => {
                        self.i += 1;
                        PathValue::Boolean(true)
                    }
                    b'f' => {
                        self.i += 1;
                        PathValue::Boolean(false)
                    }
                    b's' => {
                        self.i += 1;
                        PathValue::String(self.cowstr())
                    }
                    _ => PathValue::Number(self.num()),
                };
                Expr::Value(Box::new(pv))
            }
            b'b' => {
                let st = self.i;
                while self.peek() != b'(' {
                    self.i += 1;
                }
                let op = match &self.s[st..self.i] {
                    b"and" => BinaryOperator::And,
                    b"or" => BinaryOperator::Or,
                    b"eq" => BinaryOperator::Eq,
                    b"ne" => BinaryOperator::NotEq,
                    b"lt" => BinaryOperator::Lt,
                    b"le" => BinaryOperator::Lte,
                    b"gt" => BinaryOperator::Gt,
                    b"ge" => BinaryOperator::Gte,
                    _ => panic!("harness parse: op"),
                };
                self.eat(b'(');
                let l = self.expr();
                self.eat(b'|');
                let r = self.expr();
                self.eat(b')');
                Expr::BinaryOp { op, left: Box::new(l), right: Box::new(r) }
            }
            b'A' => {
                // arithmetic: Ab<op>(e|e) or Au<op>(e), op in + - * / %
                let k = self.peek();
                self.i += 1;
                let o = self.peek();
                self.i += 1;
                self.eat(b'(');
                if k == b'b' {
                    let l = self.expr();
                    self.eat(b'|');
                    let r = self.expr();
                    self.eat(b')');
                    let op = match o {
                        b'+' => BinaryArithmeticOperator::Add,
                        b'-' => BinaryArithmeticOperator::Subtract,
                        b'*' => BinaryArithmeticOperator::Multiply,
                        b'/' => BinaryArithmeticOperator::Divide,
                        _ => BinaryArithmeticOperator::Modulus,
                    };
                    Expr::ArithmeticFunc(ArithmeticFunc::Binary { op, left: Box::new(l), right: Box::new(r) })
                } else {
                    let e = self.expr();
                    self.eat(b')');
                    let op = if o == b'+' { UnaryArithmeticOperator::Add } else { UnaryArithmeticOperator::Subtract };
                    Expr::ArithmeticFunc(ArithmeticFunc::Unary { op, operand: Box::new(e) })
                }
            }
            _ => panic!("harness parse: expr {}", c as char),
        }
    }
}
fn parse_jsonpath(s: &str) -> JsonPath<'static> {
    let mut p = P { s: s.as_bytes(), i: 0 };
    let paths = p.pathlist();
    assert!(p.i == s.len(), "harness parse: trailing path text");
    JsonPath { paths }
}

fn show_index(ix: &Index, out: &mut String) {
    match ix {
        Index::Index(i) => out.push_str(&format!("x{}", i)),
        Index::LastIndex(i) => out.push_str(&format!("l{}", i)),
    }
}
fn show_paths(ps: &[Path], out: &mut String) {
    for (i, p) in ps.iter().enumerate() {
        if i > 0 {
            out.push(';');
        }
        show_path(p, out);
    }
}
fn show_path(p: &Path, out: &mut String) {
    match p {
        Path::Root => out.push('R'),
        Path::Current => out.push('C'),
        Path::DotWildcard => out.push('W'),
        Path::BracketWildcard => out.push('B'),
        Path::DotField(s) => {
            out.push('D');
            out.push_str(&hexs(s.as_bytes()))
        }
        Path::ColonField(s) => {
            out.push('K');
            out.push_str(&hexs(s.as_bytes()))
        }
        Path::ObjectField(s) => {
            out.push('O');
            out.push_str(&hexs(s.as_bytes()))
        }
        Path::ArrayIndices(v) => {
            out.push_str("I(");
            for (i, a) in v.iter().enumerate() {
                if i > 0 {
                    out.push(',');
                }
                match a {
                    ArrayIndex::Index(ix) => show_index(ix, out),
                    ArrayIndex::Slice((a, b)) => {
                        out.push('S');
                        show_index(a, out);
                        out.push('~');
                        show_index(b, out);
                    }
                }
            }
            out.push(')');
        }
        Path::ArithmeticExpr(e) => {
            out.push('X');
            show_expr(e, out)
        }
        Path::FilterExpr(e) => {
            out.push('F');
            show_expr(e, out)
        }
        Path::Predicate(e) => {
            out.push('P');
            show_expr(e, out)
        }
    }
}
fn show_expr(e: &Expr, out: &mut String) {
    match e {
        Expr::Paths(ps) => {
            out.push_str("p(");
            show_paths(ps, out);
            out.push(')');
        }
        Expr::Value(v) => {
            out.push('v');
            match &**v {
                PathValue::Null => out.push('n'),
                PathValue::Boolean(true) => out.push('t'),
                PathValue::Boolean(false) => out.push('f'),
                PathValue::Number(n) => show_num(n, out),
                PathValue::String(s) => {
                    out.push('s');
                    out.push_str(&hexs(s.as_bytes()))
                }
            }
        }
        Expr::BinaryOp { op, left, right } => {
            out.push('b');
            out.push_str(match op {
                BinaryOperator::And => "and",
                BinaryOperator::Or => "or",
                BinaryOperator::Eq => "eq",
                BinaryOperator::NotEq => "ne",
                BinaryOperator::Lt => "lt",
                BinaryOperator::Lte => "le",
                BinaryOperator::Gt => "gt",
                BinaryOperator::Gte => "ge",
            });
            out.push('(');
            show_expr(left, out);
            out.push('|');
            show_expr(right, out);
            out.push(')');
        }
        Expr::ArithmeticFunc(ArithmeticFunc::Unary { op, operand }) => {
            out.push_str("Au");
            out.push(match op {
                UnaryArithmeticOperator::Add => '+',
                UnaryArithmeticOperator::Subtract => '-',
            });
            out.push('(');
            show_expr(operand, out);
            out.push(')');
        }
        Expr::ArithmeticFunc(ArithmeticFunc::Binary { op, left, right }) => {
            out.push_str("Ab");
            out.push(match op {
                BinaryArithmeticOperator::Add => '+',
                BinaryArithmeticOperator::Subtract => '-',
                BinaryArithmeticOperator::Multiply => '*',
                BinaryArithmeticOperator::Divide => '/',
                BinaryArithmeticOperator::Modulus => '%',
            });
            out.push('(');
            show_expr(left, out);
            out.push('|');
            show_expr(right, out);
            out.push(')');
        }
        Expr::FilterFunc(FilterFunc::Exists(ps)) => {
            out.push_str("e(");
            show_paths(ps, out);
            out.push(')');
        }
    }
}

// ------------------------------------------------------------------------ text canonicalisation
// Replace every float token (a number token containing '.', 'e' or 'E', outside string literals) by
// F<16 hex digits of the double it denotes, computed by std's correctly-rounded parser>; a token that is
// not an RFC 8259 number is left as it is (so it cannot match the model).  Everything else is untouched.
fn rfc_number(t: &[u8]) -> bool {
    let mut i = 0;
    if i < t.len() && t[i] == b'-' {
        i += 1;
    }
    if i >= t.len() {
        return false;
    }
    if t[i] == b'0' {
        i += 1;
    } else if (b'1'..=b'9').contains(&t[i]) {
        while i < t.len() && t[i].is_ascii_digit() {
            i += 1;
        }
    } else {
        return false;
    }
    if i < t.len() && t[i] == b'.' {
        i += 1;
        let st = i;
        while i < t.len() && t[i].is_ascii_digit() {
            i += 1;
        }
        if i == st {
            return false;
        }
    }
    if i < t.len() && (t[i] == b'e' || t[i] == b'E') {
        i += 1;
        if i < t.len() && (t[i] == b'+' || t[i] == b'-') {
            i += 1;
        }
        let st = i;
        while i < t.len() && t[i].is_ascii_digit() {
            i += 1;
        }
        if i == st {
            return false;
        }
    }
    i == t.len()
}
fn canon_text(s: &[u8]) -> Vec<u8> {
    let mut out = Vec::with_capacity(s.len());
    let mut i = 0;
    while i < s.len() {
        let c = s[i];
        if c == b'"' {
            out.push(c);
            i += 1;
            while i < s.len() {
                let d = s[i];
                out.push(d);
                i += 1;
                if d == b'\\' && i < s.len() {
                    out.push(s[i]);
                    i += 1;
                } else if d == b'"' {
                    break;
                }
            }
        } else if c == b'-' || c.is_ascii_digit() {
            let st = i;
            while i < s.len() && (s[i].is_ascii_digit() || matches!(s[i], b'-' | b'+' | b'.' | b'e' | b'E')) {
                i += 1;
            }
            let tok = &s[st..i];
            let is_float = tok.iter().any(|x| matches!(x, b'.' | b'e' | b'E'));
            if is_float && rfc_number(tok) {
                let f: f64 = std::str::from_utf8(tok).unwrap().parse().unwrap();
                out.extend_from_slice(format!("F{:016x}", f.to_bits()).as_bytes());
            } else {
                out.extend_from_slice(tok);
            }
        } else {
            out.push(c);
            i += 1;
        }
    }
    out
}

// --------------------------------------------------------------------------------------- dispatch
fn bufres(r: Result<(), Error>, buf: &[u8]) -> String {
    // the whole buffer is printed: the caller (C17) checks prefix preservation, error => buffer too
    match r {
        Ok(()) => format!("ok {}", hex(buf)),
        Err(e) => format!("err {} {}", err_kind(&e), hex(buf)),
    }
}
fn ord(o: std::cmp::Ordering) -> &'static str {
    match o {
        std::cmp::Ordering::Less => "lt",
        std::cmp::Ordering::Equal => "eq",
        std::cmp::Ordering::Greater => "gt",
    }
}
fn mode_of(s: &str) -> Mode {
    match s {
        "first" => Mode::First,
        "array" => Mode::Array,
        "all" => Mode::All,
        _ => Mode::Mixed,
    }
}
fn offs(o: &[u64]) -> String {
    o.iter().map(|x| x.to_string()).collect::<Vec<_>>().join(",")
}

fn run(op_full: &str, a: &[&str]) -> String {
    // an op may carry a buffer prefix: op@<hex>
    let (op, prefix) = match op_full.split_once('@') {
        Some((o, p)) => (o, unhex(p)),
        None => (op_full, vec![]),
    };
    let mut buf: Vec<u8> = prefix.clone();
    match op {
        // ---- C01 / C18 codec
        "to_vec" => format!("ok {}", hex(&parse_val(a[0]).to_vec())),
        "write_to_vec" => {
            parse_val(a[0]).write_to_vec(&mut buf);
            format!("ok {}", hex(&buf))
        }
        "from_slice" => match jsonb::from_slice(&unhex(a[0])) {
            Ok(v) => format!("ok {}", sv(&v)),
            Err(_) => "err Other".into(),
        },
        "parse_jsonb" => match jsonb::parse_jsonb(&unhex(a[0])) {
            Ok(v) => format!("ok {}", sv(&v)),
            Err(_) => "err Other".into(),
        },
        // an array of <n> nulls / booleans built through the Value API, encoded and decoded again by BOTH decoders: for counts the
        // list-based model cannot hold (2^24 and beyond: the count no longer fits the three low header bytes). Implementation only.
        "big_count_roundtrip" => {
            let n: usize = a[0].parse().unwrap();
            let v = Value::Array((0..n).map(|i| if i % 3 == 0 { Value::Null } else { Value::Bool(i % 3 == 1) }).collect());
            let bytes = v.to_vec();
            let head = hex(&bytes[..8.min(bytes.len())]);
            let d1 = jsonb::from_slice(&bytes).map(|w| w == v && w.to_vec() == bytes);
            let d2 = jsonb::parse_jsonb(&bytes).map(|w| w == v);
            format!("ok len={} head={} from_slice={} parse_jsonb={}", bytes.len(), head,
                    match d1 { Ok(b) => b.to_string(), Err(_) => "err".into() }, match d2 { Ok(b) => b.to_string(), Err(_) => "err".into() })
        }
        "reencode" => match jsonb::from_slice(&unhex(a[0])) {
            Ok(v) => format!("ok {}", hex(&v.to_vec())),
            Err(_) => "err Other".into(),
        },
        "utf8_check" => match jsonb::from_slice(&unhex(a[0])) {
            // every string and key inside a decoded value must be well-formed UTF-8
            Ok(v) => {
                fn chk(v: &Value) -> bool {
                    match v {
                        Value::String(s) => std::str::from_utf8(s.as_bytes()).is_ok(),
                        Value::Array(a) => a.iter().all(chk),
                        Value::Object(o) => o.iter().all(|(k, x)| std::str::from_utf8(k.as_bytes()).is_ok() && chk(x)),
                        _ => true,
                    }
                }
                format!("ok ={}", chk(&v))
            }
            Err(_) => "err Other".into(),
        },
        "num_encode" => {
            let mut b = vec![];
            parse_num(a[0]).compact_encode(&mut b).unwrap();
            format!("ok {}", hex(&b))
        }
        "num_decode" => match Number::decode(&unhex(a[0])) {
            Ok(n) => {
                let mut s = String::new();
                show_num(&n, &mut s);
                format!("ok {}", s)
            }
            Err(_) => "err Other".into(),
        },
        "num_cmp" => format!("ok ={}", ord(parse_num(a[0]).cmp(&parse_num(a[1])))),
        "num_eq" => format!("ok ={}", parse_num(a[0]) == parse_num(a[1])),
        "num_as_i64" => match parse_num(a[0]).as_i64() {
            Some(v) => format!("ok ={}", v),
            None => "ok =none".into(),
        },
        "num_as_u64" => match parse_num(a[0]).as_u64() {
            Some(v) => format!("ok ={}", v),
            None => "ok =none".into(),
        },
        "num_as_f64" => match parse_num(a[0]).as_f64() {
            Some(v) => format!("ok ={:016x}", v.to_bits()),
            None => "ok =none".into(),
        },
        // ---- C02 text parser
        "parse_value" => match jsonb::parse_value(&unhex(a[0])) {
            Ok(v) => format!("ok {}", sv(&v)),
            Err(_) => "err Other".into(),
        },
        "parse_lazy_value" => match jsonb::parse_lazy_value(&unhex(a[0])) {
            Ok(lv) => {
                let v = lv.to_vec();
                let al = match lv.array_length() {
                    Some(n) => n.to_string(),
                    None => "none".into(),
                };
                let tv = match catch_unwind(AssertUnwindSafe(|| sv(&lv.to_value()))) {
                    Ok(s) => s,
                    Err(_) => "panic".into(),
                };
                format!("ok {}|{}|{}", hex(&v), al, tv)
            }
            Err(_) => "err Other".into(),
        },
        // ---- C03 rendering
        "to_string" => format!("ok {}", hex(&canon_text(jsonb::to_string(&unhex(a[0])).as_bytes()))),
        "to_pretty_string" => format!("ok {}", hex(&canon_text(jsonb::to_pretty_string(&unhex(a[0])).as_bytes()))),
        // the exact bytes of the rendering, nothing canonicalised (the driver has the same two ops): for inputs whose rendering has no
        // float digits in it -- above all NON-JSONB input, which is echoed through from_utf8_lossy
        "to_string_bytes" => format!("ok {}", hex(jsonb::to_string(&unhex(a[0])).as_bytes())),
        "to_pretty_string_bytes" => format!("ok {}", hex(jsonb::to_pretty_string(&unhex(a[0])).as_bytes())),
        "to_string_raw" => format!("ok {}", hex(jsonb::to_string(&unhex(a[0])).as_bytes())),
        "to_pretty_string_raw" => format!("ok {}", hex(jsonb::to_pretty_string(&unhex(a[0])).as_bytes())),
        "text_roundtrip" => {
            // parse_value(to_string(b)).to_vec()
            let t = jsonb::to_string(&unhex(a[0]));
            match jsonb::parse_value(t.as_bytes()) {
                Ok(v) => format!("ok {}", hex(&v.to_vec())),
                Err(_) => "err Other".into(),
            }
        }
        // ---- C04 compare / C14 key
        "compare" => match jsonb::compare(&unhex(a[0]), &unhex(a[1])) {
            Ok(o) => format!("ok ={}", ord(o)),
            Err(_) => "err Other".into(),
        },
        "convert_to_comparable" => {
            jsonb::convert_to_comparable(&unhex(a[0]), &mut buf);
            format!("ok {}", hex(&buf))
        }
        // ---- C05 accessors
        "array_length" => match jsonb::array_length(&unhex(a[0])) {
            Some(n) => format!("ok ={}", n),
            None => "ok =none".into(),
        },
        "get_by_index" => match jsonb::get_by_index(&unhex(a[0]), a[1].parse().unwrap()) {
            Some(b) => format!("ok {}", hex(&b)),
            None => "ok =none".into(),
        },
        "get_by_name" => match jsonb::get_by_name(&unhex(a[0]), ustr(&unhex(a[1])), a[2] == "1") {
            Some(b) => format!("ok {}", hex(&b)),
            None => "ok =none".into(),
        },
        "get_by_keypath" => {
            let kp = parse_keypaths(a[1]);
            match jsonb::get_by_keypath(&unhex(a[0]), kp.iter()) {
                Some(b) => format!("ok {}", hex(&b)),
                None => "ok =none".into(),
            }
        }
        "object_keys" => match jsonb::object_keys(&unhex(a[0])) {
            Some(b) => format!("ok {}", hex(&b)),
            None => "ok =none".into(),
        },
        "object_each" => match jsonb::object_each(&unhex(a[0])) {
            Some(v) => format!(
                "ok [{}]",
                v.iter().map(|(k, x)| format!("{}:{}", hexs(k), hex(x))).collect::<Vec<_>>().join("|")
            ),
            None => "ok =none".into(),
        },
        "array_values" => match jsonb::array_values(&unhex(a[0])) {
            Some(v) => format!("ok [{}]", v.iter().map(|x| hex(x)).collect::<Vec<_>>().join("|")),
            None => "ok =none".into(),
        },
        "type_of" => match jsonb::type_of(&unhex(a[0])) {
            Ok(s) => format!("ok ={}", s),
            Err(_) => "err Other".into(),
        },
        "is_null" => format!("ok ={}", jsonb::is_null(&unhex(a[0]))),
        "as_null" => format!("ok ={}", jsonb::as_null(&unhex(a[0])).is_some()),
        "is_boolean" => format!("ok ={}", jsonb::is_boolean(&unhex(a[0]))),
        "as_bool" => match jsonb::as_bool(&unhex(a[0])) {
            Some(b) => format!("ok ={}", b),
            None => "ok =none".into(),
        },
        "to_bool" => match jsonb::to_bool(&unhex(a[0])) {
            Ok(b) => format!("ok ={}", b),
            Err(_) => "err Other".into(),
        },
        "is_number" => format!("ok ={}", jsonb::is_number(&unhex(a[0]))),
        "as_number" => match jsonb::as_number(&unhex(a[0])) {
            Some(n) => {
                let mut s = String::new();
                show_num(&n, &mut s);
                format!("ok ={}", s)
            }
            None => "ok =none".into(),
        },
        "is_i64" => format!("ok ={}", jsonb::is_i64(&unhex(a[0]))),
        "as_i64" => match jsonb::as_i64(&unhex(a[0])) {
            Some(n) => format!("ok ={}", n),
            None => "ok =none".into(),
        },
        "to_i64" => match jsonb::to_i64(&unhex(a[0])) {
            Ok(n) => format!("ok ={}", n),
            Err(_) => "err Other".into(),
        },
        "is_u64" => format!("ok ={}", jsonb::is_u64(&unhex(a[0]))),
        "as_u64" => match jsonb::as_u64(&unhex(a[0])) {
            Some(n) => format!("ok ={}", n),
            None => "ok =none".into(),
        },
        "to_u64" => match jsonb::to_u64(&unhex(a[0])) {
            Ok(n) => format!("ok ={}", n),
            Err(_) => "err Other".into(),
        },
        "is_f64" => format!("ok ={}", jsonb::is_f64(&unhex(a[0]))),
        "as_f64" => match jsonb::as_f64(&unhex(a[0])) {
            Some(n) => format!("ok ={:016x}", n.to_bits()),
            None => "ok =none".into(),
        },
        "to_f64" => match jsonb::to_f64(&unhex(a[0])) {
            Ok(n) => format!("ok ={:016x}", n.to_bits()),
            Err(_) => "err Other".into(),
        },
        "is_string" => format!("ok ={}", jsonb::is_string(&unhex(a[0]))),
        "as_str" => match jsonb::as_str(&unhex(a[0])) {
            Some(s) => format!("ok {}", hex(s.as_bytes())),
            None => "ok =none".into(),
        },
        "to_str" => match jsonb::to_str(&unhex(a[0])) {
            Ok(s) => format!("ok {}", hex(&canon_text_scalar(s.as_bytes(), &unhex(a[0])))),
            Err(_) => "err Other".into(),
        },
        "is_array" => format!("ok ={}", jsonb::is_array(&unhex(a[0]))),
        "is_object" => format!("ok ={}", jsonb::is_object(&unhex(a[0]))),
        "exists_all_keys" => {
            let ks = hexlist(a[1]);
            format!("ok ={}", jsonb::exists_all_keys(&unhex(a[0]), ks.iter().map(|k| k.as_slice())))
        }
        "exists_any_keys" => {
            let ks = hexlist(a[1]);
            format!("ok ={}", jsonb::exists_any_keys(&unhex(a[0]), ks.iter().map(|k| k.as_slice())))
        }
        "traverse_check_string" => {
            let needle = unhex(a[1]);
            format!("ok ={}", jsonb::traverse_check_string(&unhex(a[0]), |s| s.starts_with(&needle)))
        }
        // ---- C12 / C13
        "contains" => format!("ok ={}", jsonb::contains(&unhex(a[0]), &unhex(a[1]))),
        "array_distinct" => bufres(jsonb::array_distinct(&unhex(a[0]), &mut buf), &buf),
        "array_intersection" => bufres(jsonb::array_intersection(&unhex(a[0]), &unhex(a[1]), &mut buf), &buf),
        "array_except" => bufres(jsonb::array_except(&unhex(a[0]), &unhex(a[1]), &mut buf), &buf),
        "array_overlap" => match jsonb::array_overlap(&unhex(a[0]), &unhex(a[1])) {
            Ok(b) => format!("ok ={}", b),
            Err(e) => format!("err {}", err_kind(&e)),
        },
        // ---- C06 editors
        "concat" => bufres(jsonb::concat(&unhex(a[0]), &unhex(a[1]), &mut buf), &buf),
        "delete_by_name" => bufres(jsonb::delete_by_name(&unhex(a[0]), ustr(&unhex(a[1])), &mut buf), &buf),
        "delete_by_index" => bufres(jsonb::delete_by_index(&unhex(a[0]), a[1].parse().unwrap(), &mut buf), &buf),
        "delete_by_keypath" => {
            let kp = parse_keypaths(a[1]);
            bufres(jsonb::delete_by_keypath(&unhex(a[0]), kp.iter(), &mut buf), &buf)
        }
        "array_insert" => bufres(jsonb::array_insert(&unhex(a[0]), a[1].parse().unwrap(), &unhex(a[2]), &mut buf), &buf),
        "object_insert" => bufres(
            jsonb::object_insert(&unhex(a[0]), ustr(&unhex(a[1])), &unhex(a[2]), a[3] == "1", &mut buf),
            &buf,
        ),
        "object_delete" => {
            let ks = hexlist(a[1]);
            let set: BTreeSet<&str> = ks.iter().map(|k| ustr(k)).collect();
            bufres(jsonb::object_delete(&unhex(a[0]), &set, &mut buf), &buf)
        }
        "object_pick" => {
            let ks = hexlist(a[1]);
            let set: BTreeSet<&str> = ks.iter().map(|k| ustr(k)).collect();
            bufres(jsonb::object_pick(&unhex(a[0]), &set, &mut buf), &buf)
        }
        "strip_nulls" => bufres(jsonb::strip_nulls(&unhex(a[0]), &mut buf), &buf),
        "build_array" => {
            let items = hexlist(a[0]);
            bufres(jsonb::build_array(items.iter().map(|x| x.as_slice()), &mut buf), &buf)
        }
        "build_object" => {
            // a[0] = keys (hex list), a[1] = values (hex list)
            let ks = hexlist(a[0]);
            let vs = hexlist(a[1]);
            bufres(
                jsonb::build_object(ks.iter().zip(vs.iter()).map(|(k, v)| (ustr(k).to_string(), v.as_slice())), &mut buf),
                &buf,
            )
        }
        // ---- C08 / C15 path evaluation; path given as neutral AST text
        "select" => {
            let jp = parse_jsonpath(a[1]);
            let sel = Selector::new(jp, mode_of(a[2]));
            let root = unhex(a[0]);
            let mut o: Vec<u64> = vec![];
            // on Err too: the data AND the offsets as the call left them
            match sel.select(&root, &mut buf, &mut o) {
                Ok(()) => format!("ok {} {}", hex(&buf), offs(&o)),
                Err(e) => format!("err {} {} {}", err_kind(&e), hex(&buf), offs(&o)),
            }
        }
        // ONE Selector object used for a sequence of calls (exists, select, predicate_match, another document, the first again):
        // every answer must be what a fresh selector gives (C15 judges the fields against the single calls)
        "sel_reuse" => {
            let jp = parse_jsonpath(a[1]);
            let sel = Selector::new(jp, mode_of(a[2]));
            let (d1, d2) = (unhex(a[0]), unhex(a[3]));
            let ex = |d: &[u8]| match sel.exists(d) {
                Ok(b) => format!("ok ={}", b),
                Err(e) => format!("err {}", err_kind(&e)),
            };
            let se = |d: &[u8]| {
                let (mut b, mut o): (Vec<u8>, Vec<u64>) = (vec![], vec![]);
                match sel.select(d, &mut b, &mut o) {
                    Ok(()) => format!("ok {} {}", hex(&b), offs(&o)),
                    Err(e) => format!("err {} {} {}", err_kind(&e), hex(&b), offs(&o)),
                }
            };
            let pm = |d: &[u8]| match sel.predicate_match(d) {
                Ok(b) => format!("ok ={}", b),
                Err(e) => format!("err {}", err_kind(&e)),
            };
            let parts = vec![ex(&d1), se(&d1), pm(&d1), se(&d2), ex(&d2), se(&d1), se(&d1)];
            parts.join(" | ")
        }
        "sel_exists" => {
            let jp = parse_jsonpath(a[1]);
            let sel = Selector::new(jp, Mode::Mixed);
            match sel.exists(&unhex(a[0])) {
                Ok(b) => format!("ok ={}", b),
                Err(e) => format!("err {}", err_kind(&e)),
            }
        }
        "sel_predicate_match" => {
            let jp = parse_jsonpath(a[1]);
            let sel = Selector::new(jp, Mode::First);
            match sel.predicate_match(&unhex(a[0])) {
                Ok(b) => format!("ok ={}", b),
                Err(e) => format!("err {}", err_kind(&e)),
            }
        }
        "get_by_path" | "get_by_path_first" | "get_by_path_array" => {
            let jp = parse_jsonpath(a[1]);
            let root = unhex(a[0]);
            let mut o: Vec<u64> = vec![];
            let r = match op {
                "get_by_path" => jsonb::get_by_path(&root, jp, &mut buf, &mut o),
                "get_by_path_first" => jsonb::get_by_path_first(&root, jp, &mut buf, &mut o),
                _ => jsonb::get_by_path_array(&root, jp, &mut buf, &mut o),
            };
            match r {
                Ok(()) => format!("ok {} {}", hex(&buf), offs(&o)),
                Err(e) => format!("err {} {} {}", err_kind(&e), hex(&buf), offs(&o)),
            }
        }
        // several selections into ONE data buffer and ONE offsets vector (what a caller filling a column does)
        "path_batch" => {
            let root = unhex(a[0]);
            let mut o: Vec<u64> = vec![];
            let mut out = String::new();
            for p in &a[2..] {
                let jp = parse_jsonpath(p);
                let r = match a[1] {
                    "get_by_path" => jsonb::get_by_path(&root, jp, &mut buf, &mut o),
                    "get_by_path_first" => jsonb::get_by_path_first(&root, jp, &mut buf, &mut o),
                    _ => jsonb::get_by_path_array(&root, jp, &mut buf, &mut o),
                };
                if let Err(e) = r {
                    out = format!("err {} ", err_kind(&e));
                    break;
                }
            }
            if out.is_empty() {
                out = "ok ".to_string();
            }
            format!("{}{} {}", out, hex(&buf), offs(&o))
        }
        "path_exists" => match jsonb::path_exists(&unhex(a[0]), parse_jsonpath(a[1])) {
            Ok(b) => format!("ok ={}", b),
            Err(e) => format!("err {}", err_kind(&e)),
        },
        "path_match" => match jsonb::path_match(&unhex(a[0]), parse_jsonpath(a[1])) {
            Ok(b) => format!("ok ={}", b),
            Err(e) => format!("err {}", err_kind(&e)),
        },
        // ---- C09 / C16 syntax
        "parse_json_path" => match jsonb::jsonpath::parse_json_path(&unhex(a[0])) {
            Ok(jp) => {
                let mut s = String::new();
                show_paths(&jp.paths, &mut s);
                format!("ok {} {}", s, hex(format!("{}", jp).as_bytes()))
            }
            Err(_) => "err Other".into(),
        },
        "print_json_path" => {
            let jp = parse_jsonpath(a[0]);
            format!("ok {}", hex(format!("{}", jp).as_bytes()))
        }
        "print_parse_json_path" => {
            let jp = parse_jsonpath(a[0]);
            let text = format!("{}", jp);
            match jsonb::jsonpath::parse_json_path(text.as_bytes()) {
                Ok(jp2) => {
                    let mut s = String::new();
                    show_paths(&jp2.paths, &mut s);
                    format!("ok {} {}", s, hex(text.as_bytes()))
                }
                Err(_) => format!("err Other {}", hex(text.as_bytes())),
            }
        }
        "reparse_json_path" => match jsonb::jsonpath::parse_json_path(&unhex(a[0])) {
            Ok(jp) => {
                let mut s1 = String::new();
                show_paths(&jp.paths, &mut s1);
                let text = format!("{}", jp);
                let s2 = match jsonb::jsonpath::parse_json_path(text.as_bytes()) {
                    Ok(jp2) => {
                        let mut s = String::new();
                        show_paths(&jp2.paths, &mut s);
                        s
                    }
                    Err(_) => "err".to_string(),
                };
                format!("ok {} {}", s1, s2)
            }
            Err(_) => "err Other".into(),
        },
        "print_parse_key_paths" => {
            let kp = jsonb::keypath::KeyPaths { paths: parse_keypaths(a[0]) };
            let text = format!("{}", kp);
            match jsonb::keypath::parse_key_paths(text.as_bytes()) {
                Ok(kp2) => format!("ok {} {}", show_keypaths(&kp2.paths), hex(text.as_bytes())),
                Err(_) => format!("err Other {}", hex(text.as_bytes())),
            }
        }
        "parse_key_paths" => match jsonb::keypath::parse_key_paths(&unhex(a[0])) {
            Ok(kp) => format!("ok {} {}", show_keypaths(&kp.paths), hex(format!("{}", kp).as_bytes())),
            Err(_) => "err Other".into(),
        },
        "print_key_paths" => {
            let kp = jsonb::keypath::KeyPaths { paths: parse_keypaths(a[0]) };
            format!("ok {}", hex(format!("{}", kp).as_bytes()))
        }
        // ---- C19 serde
        "to_serde_json" => match jsonb::to_serde_json(&unhex(a[0])) {
            Ok(v) => {
                let mut s = String::new();
                show_serde(&v, &mut s);
                format!("ok {}", s)
            }
            Err(_) => "err Other".into(),
        },
        "to_serde_json_object" => match jsonb::to_serde_json_object(&unhex(a[0])) {
            Ok(Some(m)) => {
                let mut s = String::new();
                show_serde(&serde_json::Value::Object(m), &mut s);
                format!("ok {}", s)
            }
            Ok(None) => "ok =none".into(),
            Err(_) => "err Other".into(),
        },
        "value_to_serde" => {
            let v = parse_val(a[0]);
            let j: serde_json::Value = v.into();
            let mut s = String::new();
            show_serde(&j, &mut s);
            format!("ok {}", s)
        }
        "serde_to_value" => {
            let mut p = P { s: a[0].as_bytes(), i: 0 };
            let j = parse_serde(&mut p);
            let v: Value = (&j).into();
            format!("ok {}", sv(&v))
        }
        "serde_roundtrip" => {
            let v = parse_val(a[0]);
            let j: serde_json::Value = v.clone().into();
            let back: Value = (&j).into();
            format!("ok {} ={}", sv(&back), back == v)
        }
        // ---- witnesses of recorded findings that need large or paired inputs
        // ---- the tree-level API: value.rs helpers, Display, from.rs, lazy_value.rs (model: coq/ValueApi.v)
        "value_api" => {
            let v = parse_val(a[0]);
            let b = |x: bool| if x { "1" } else { "0" };
            let num = |n: &Number| {
                let mut s = String::new();
                show_num(n, &mut s);
                s
            };
            let none = || "none".to_string();
            vec![
                "ok".to_string(),
                format!("sc={}", b(v.is_scalar())),
                format!("ob={}", b(v.is_object())),
                format!("ar={}", b(v.is_array())),
                format!("st={}", b(v.is_string())),
                format!("nu={}", b(v.is_number())),
                format!("i64={}", b(v.is_i64())),
                format!("u64={}", b(v.is_u64())),
                format!("f64={}", b(v.is_f64())),
                format!("bo={}", b(v.is_boolean())),
                format!("nl={}", b(v.is_null())),
                format!("as_i64={}", v.as_i64().map(|x| x.to_string()).unwrap_or_else(none)),
                format!("as_u64={}", v.as_u64().map(|x| x.to_string()).unwrap_or_else(none)),
                format!("as_f64={}", v.as_f64().map(|x| format!("{:016x}", x.to_bits())).unwrap_or_else(none)),
                format!("as_bool={}", v.as_bool().map(|x| b(x).to_string()).unwrap_or_else(none)),
                format!("as_str={}", v.as_str().map(|x| format!("s{}", hexs(x.as_bytes()))).unwrap_or_else(none)),
                format!("as_number={}", v.as_number().map(|x| num(x)).unwrap_or_else(none)),
                format!("as_array={}", v.as_array().map(|x| sv(&Value::Array(x.clone()))).unwrap_or_else(none)),
                format!("as_object={}", v.as_object().map(|x| sv(&Value::Object(x.clone()))).unwrap_or_else(none)),
                format!("alen={}", v.array_length().map(|x| x.to_string()).unwrap_or_else(none)),
                format!("keys={}", v.object_keys().map(|x| sv(&x)).unwrap_or_else(none)),
            ]
            .join(" ")
        }
        "value_get_ci" => match parse_val(a[0]).get_by_name_ignore_case(ustr(&unhex(a[1]))) {
            Some(x) => format!("ok {}", sv(x)),
            None => "ok =none".into(),
        },
        "value_eq_variant" => format!("ok ={}", parse_val(a[0]).eq_variant(&parse_val(a[1]))),
        // Display for Value: float tokens canonicalised like to_string (only for values whose keys hold no quote / backslash:
        // keys are written raw, so the tokeniser of canon_text would lose track); display_bytes = the exact bytes
        "display" => format!("ok {}", hex(&canon_text(format!("{}", parse_val(a[0])).as_bytes()))),
        "display_bytes" => format!("ok {}", hex(format!("{}", parse_val(a[0])).as_bytes())),
        "from_prim" => {
            let bits64 = |s: &str| u64::from_str_radix(s, 16).unwrap();
            let bits32 = |s: &str| u32::from_str_radix(s, 16).unwrap();
            let ints = |s: &str| -> Vec<i32> { if s == "_" { vec![] } else { s.split(',').map(|x| x.parse().unwrap()).collect() } };
            let vals = |s: &str| -> Vec<Value<'static>> {
                match parse_val(s) {
                    Value::Array(l) => l,
                    _ => panic!("harness: list expected"),
                }
            };
            let st = |s: &str| String::from_utf8(unhex(s)).expect("harness: string not UTF-8");
            let v: Value<'static> = match a[0] {
                "i8" => Value::from(a[1].parse::<i8>().unwrap()),
                "i16" => Value::from(a[1].parse::<i16>().unwrap()),
                "i32" => Value::from(a[1].parse::<i32>().unwrap()),
                "i64" => Value::from(a[1].parse::<i64>().unwrap()),
                "isize" => Value::from(a[1].parse::<isize>().unwrap()),
                "u8" => Value::from(a[1].parse::<u8>().unwrap()),
                "u16" => Value::from(a[1].parse::<u16>().unwrap()),
                "u32" => Value::from(a[1].parse::<u32>().unwrap()),
                "u64" => Value::from(a[1].parse::<u64>().unwrap()),
                "usize" => Value::from(a[1].parse::<usize>().unwrap()),
                "f64" => Value::from(f64::from_bits(bits64(a[1]))),
                "f32" => Value::from(f32::from_bits(bits32(a[1]))),
                "of64" => Value::from(ordered_float::OrderedFloat(f64::from_bits(bits64(a[1])))),
                "of32" => Value::from(ordered_float::OrderedFloat(f32::from_bits(bits32(a[1])))),
                "bool" => Value::from(a[1] == "1"),
                "string" => Value::from(st(a[1])),
                "str" => {
                    // From<&'a str> borrows: the text is leaked so that the value is 'static
                    let leaked: &'static str = Box::leak(st(a[1]).into_boxed_str());
                    Value::from(leaked)
                }
                "cow" => Value::from(Cow::<'static, str>::Owned(st(a[1]))),
                "unit" => Value::from(()),
                "object" => match parse_val(a[1]) {
                    Value::Object(o) => Value::from(o),
                    _ => panic!("harness: object expected"),
                },
                "vec_i32" => Value::from(ints(a[1])),
                "slice_i32" => {
                    let leaked: &'static [i32] = Box::leak(ints(a[1]).into_boxed_slice());
                    Value::from(leaked)
                }
                "iter_i32" => ints(a[1]).into_iter().collect::<Value>(),
                "vec_value" => Value::from(vals(a[1])),
                "iter_value" => vals(a[1]).into_iter().collect::<Value>(),
                "vec_str" => Value::from(hexlist(a[1]).iter().map(|k| String::from_utf8(k.clone()).unwrap()).collect::<Vec<String>>()),
                "pairs" => {
                    let ks: Vec<String> = hexlist(a[1]).iter().map(|k| String::from_utf8(k.clone()).unwrap()).collect();
                    ks.into_iter().zip(vals(a[2])).collect::<Value>()
                }
                k => panic!("harness: from_prim kind {}", k),
            };
            format!("ok {}", sv(&v))
        }
        "lazy_value" | "lazy_raw" => {
            let raw = unhex(a[0]);
            let lv: jsonb::LazyValue = if op == "lazy_value" {
                jsonb::LazyValue::from(parse_val(a[0]))
            } else {
                jsonb::LazyValue::Raw(Cow::Borrowed(&raw))
            };
            let v = lv.to_vec();
            let al = match lv.array_length() {
                Some(n) => n.to_string(),
                None => "none".into(),
            };
            let tv = match catch_unwind(AssertUnwindSafe(|| sv(&lv.to_value()))) {
                Ok(s) => s,
                Err(_) => "panic".into(),
            };
            lv.write_to_vec(&mut buf);
            format!("ok {}|{}|{}|{}", hex(&v), al, tv, hex(&buf))
        }
        "big_string" => {
            let n: usize = a[0].parse().unwrap();
            let v = Value::String(Cow::Owned("a".repeat(n)));
            let b = v.to_vec();
            match jsonb::from_slice(&b) {
                Ok(Value::String(s)) => format!("ok {}", s.len()),
                Ok(_) => "ok other-kind".into(),
                Err(_) => "err Other".into(),
            }
        }
        "big_array" => {
            let n: usize = a[0].parse().unwrap();
            let v = Value::Array(vec![Value::Null; n]);
            let b = v.to_vec();
            let al = match jsonb::array_length(&b) {
                Some(k) => k.to_string(),
                None => "none".into(),
            };
            format!("ok array_length={} is_array={}", al, jsonb::is_array(&b))
        }
        "key_vs_compare" => {
            let (x, y) = (unhex(a[0]), unhex(a[1]));
            let (mut kx, mut ky) = (vec![], vec![]);
            jsonb::convert_to_comparable(&x, &mut kx);
            jsonb::convert_to_comparable(&y, &mut ky);
            match jsonb::compare(&x, &y) {
                Ok(o) => format!("ok key={} compare={}", ord(kx.cmp(&ky)), ord(o)),
                Err(_) => "err Other".into(),
            }
        }
        // ---- C20: deeply nested documents, built here iteratively; nothing deep is printed or dropped by the harness
        "deep" => deep(a[0], a[1].parse().unwrap(), a[2]),
        _ => format!("unknown-op {}", op),
    }
}

fn deep_text(n: usize, kind: &str) -> Vec<u8> {
    let mut t = Vec::with_capacity(n * 8 + 8);
    for _ in 0..n {
        t.extend_from_slice(if kind == "arr" { b"[" } else { b"{\"a\":" });
    }
    t.extend_from_slice(if kind == "arr" { b"[]" } else { b"null" });
    for _ in 0..n {
        t.push(if kind == "arr" { b']' } else { b'}' });
    }
    t
}
fn deep_bin(n: usize, kind: &str) -> Vec<u8> {
    // innermost: [] or {"a":null}; every level wraps the previous payload in a one-element container
    let mut inner: Vec<u8> = if kind == "arr" {
        0x8000_0000u32.to_be_bytes().to_vec()
    } else {
        let mut v = 0x4000_0001u32.to_be_bytes().to_vec();
        v.extend_from_slice(&0x1000_0001u32.to_be_bytes());
        v.extend_from_slice(&0x0000_0000u32.to_be_bytes());
        v.push(b'a');
        v
    };
    // build outside-in by prepending is quadratic; instead compute sizes first, then write front to back
    let per = if kind == "arr" { 8 } else { 13 };
    let total = inner.len() + per * n;
    let mut out = Vec::with_capacity(total);
    let mut remaining = total;
    for _ in 0..n {
        remaining -= per;
        if kind == "arr" {
            out.extend_from_slice(&0x8000_0001u32.to_be_bytes());
            out.extend_from_slice(&(0x5000_0000u32 | remaining as u32).to_be_bytes());
        } else {
            out.extend_from_slice(&0x4000_0001u32.to_be_bytes());
            out.extend_from_slice(&0x1000_0001u32.to_be_bytes());
            out.extend_from_slice(&(0x5000_0000u32 | remaining as u32).to_be_bytes());
            out.push(b'a');
        }
    }
    out.append(&mut inner);
    out
}
fn deep(sub: &str, n: usize, kind: &str) -> String {
    match sub {
        "parse" => match jsonb::parse_value(&deep_text(n, kind)) {
            Ok(v) => {
                std::mem::forget(v);
                "ok".into()
            }
            Err(_) => "err Other".into(),
        },
        "parse_drop" => match jsonb::parse_value(&deep_text(n, kind)) {
            Ok(v) => {
                drop(v);
                "ok".into()
            }
            Err(_) => "err Other".into(),
        },
        "decode" => {
            let b = deep_bin(n, kind);
            match jsonb::from_slice(&b) {
                Ok(v) => {
                    std::mem::forget(v);
                    "ok".into()
                }
                Err(_) => "err Other".into(),
            }
        }
        "encode" => {
            // the value is built bottom-up without recursion, encoded, and never dropped
            let mut v: Value = if kind == "arr" { Value::Array(vec![]) } else { Value::Null };
            for _ in 0..n {
                v = if kind == "arr" {
                    Value::Array(vec![v])
                } else {
                    let mut m = BTreeMap::new();
                    m.insert("a".to_string(), v);
                    Value::Object(m)
                };
            }
            let out = v.to_vec();
            std::mem::forget(v);
            format!("ok {}", out.len())
        }
        "to_string" => format!("ok {}", jsonb::to_string(&deep_bin(n, kind)).len()),
        "to_pretty_string" => format!("ok {}", jsonb::to_pretty_string(&deep_bin(n, kind)).len()),
        // the same two renderers on a deeply nested document given as JSON TEXT (they return the text as it is: no recursion)
        "to_string_text" => format!("ok {}", jsonb::to_string(&deep_text(n, kind)).len()),
        "to_pretty_string_text" => format!("ok {}", jsonb::to_pretty_string(&deep_text(n, kind)).len()),
        // C09: the path parser on a text nested n levels deep (kind: paren | exists | filter)
        "path_parse" => {
            let mut t: Vec<u8> = Vec::new();
            match kind {
                "paren" => {
                    t.extend_from_slice(b"$?(");
                    t.extend(std::iter::repeat(b'(').take(n));
                    t.extend_from_slice(b"1==1");
                    t.extend(std::iter::repeat(b')').take(n));
                    t.push(b')');
                }
                "exists" => {
                    t.extend_from_slice(b"$?(");
                    for _ in 0..n {
                        t.extend_from_slice(b"exists(@?(");
                    }
                    t.extend_from_slice(b"1==1");
                    for _ in 0..n {
                        t.extend_from_slice(b"))");
                    }
                    t.push(b')');
                }
                _ => {
                    t.push(b'$');
                    for _ in 0..n {
                        t.extend_from_slice(b"?(@");
                    }
                    t.extend_from_slice(b"?(1==1)");
                    for _ in 0..n {
                        t.extend_from_slice(b" == 1)");
                    }
                }
            }
            match jsonb::jsonpath::parse_json_path(&t) {
                Ok(_) => "ok".into(),
                Err(_) => "err Other".into(),
            }
        }
        "compare" => {
            let b = deep_bin(n, kind);
            match jsonb::compare(&b, &b) {
                Ok(o) => format!("ok ={}", ord(o)),
                Err(_) => "err Other".into(),
            }
        }
        "get_by_path" => {
            // $[*] ... a path with a filter on a deep document; the selector itself walks positions iteratively
            let b = deep_bin(n, kind);
            let jp = parse_jsonpath(if kind == "arr" { "R;B;B;Fe(C;B)" } else { "R;D61;W;Fe(C;D61)" });
            let mut data = vec![];
            let mut offs = vec![];
            match jsonb::get_by_path(&b, jp, &mut data, &mut offs) {
                Ok(()) => format!("ok {}", data.len()),
                Err(_) => "err Other".into(),
            }
        }
        "comparable" => {
            let mut buf = vec![];
            jsonb::convert_to_comparable(&deep_bin(n, kind), &mut buf);
            format!("ok {}", buf.len())
        }
        "contains" => {
            let b = deep_bin(n, kind);
            format!("ok ={}", jsonb::contains(&b, &b))
        }
        "strip_nulls" => {
            let mut buf = vec![];
            match jsonb::strip_nulls(&deep_bin(n, kind), &mut buf) {
                Ok(()) => format!("ok {}", buf.len()),
                Err(_) => "err Other".into(),
            }
        }
        // M5: the buffer writers on a deep document.  delete_by_keypath gets a key path as long as the document is deep (one step
        // per level: index 0 / name "a"), so that it descends all the way; the others get the deep document as an operand
        "delete_by_keypath" => {
            let b = deep_bin(n, kind);
            let kp: Vec<KeyPath> = (0..n)
                .map(|_| if kind == "arr" { KeyPath::Index(0) } else { KeyPath::Name(Cow::Borrowed("a")) })
                .collect();
            let mut buf = vec![];
            match jsonb::delete_by_keypath(&b, kp.iter(), &mut buf) {
                Ok(()) => format!("ok {}", buf.len()),
                Err(_) => "err Other".into(),
            }
        }
        "get_by_keypath" => {
            let b = deep_bin(n, kind);
            let kp: Vec<KeyPath> = (0..n)
                .map(|_| if kind == "arr" { KeyPath::Index(0) } else { KeyPath::Name(Cow::Borrowed("a")) })
                .collect();
            match jsonb::get_by_keypath(&b, kp.iter()) {
                Some(v) => format!("ok {}", v.len()),
                None => "ok =none".into(),
            }
        }
        "concat" => {
            let b = deep_bin(n, kind);
            let mut buf = vec![];
            match jsonb::concat(&b, &b, &mut buf) {
                Ok(()) => format!("ok {}", buf.len()),
                Err(_) => "err Other".into(),
            }
        }
        "array_insert" => {
            let b = deep_bin(n, kind);
            let mut buf = vec![];
            match jsonb::array_insert(&b, 0, &b, &mut buf) {
                Ok(()) => format!("ok {}", buf.len()),
                Err(_) => "err Other".into(),
            }
        }
        "object_insert" => {
            // the deep document as the new value of a member of a small object, and (kind obj) as the object inserted into
            let b = deep_bin(n, kind);
            let small = [0x40u8, 0, 0, 1, 0x10, 0, 0, 1, 0, 0, 0, 0, b'a'];
            let mut buf = vec![];
            let r1 = jsonb::object_insert(&small, "b", &b, true, &mut buf);
            let mut buf2 = vec![];
            let r2 = if kind == "obj" { jsonb::object_insert(&b, "b", &small, true, &mut buf2) } else { Ok(()) };
            match (r1, r2) {
                (Ok(()), Ok(())) => format!("ok {}", buf.len() + buf2.len()),
                _ => "err Other".into(),
            }
        }
        "delete_by_name" => {
            let mut buf = vec![];
            match jsonb::delete_by_name(&deep_bin(n, kind), "a", &mut buf) {
                Ok(()) => format!("ok {}", buf.len()),
                Err(_) => "err Other".into(),
            }
        }
        "delete_by_index" => {
            let mut buf = vec![];
            match jsonb::delete_by_index(&deep_bin(n, kind), 0, &mut buf) {
                Ok(()) => format!("ok {}", buf.len()),
                Err(_) => "err Other".into(),
            }
        }
        "object_delete_pick" => {
            let b = deep_bin(n, kind);
            let set: BTreeSet<&str> = ["zz"].into_iter().collect();
            let (mut b1, mut b2) = (vec![], vec![]);
            let r1 = jsonb::object_delete(&b, &set, &mut b1);
            let r2 = jsonb::object_pick(&b, &set, &mut b2);
            match (r1, r2) {
                (Ok(()), Ok(())) => format!("ok {}", b1.len() + b2.len()),
                _ => "err Other".into(),
            }
        }
        "array_distinct" => {
            // the deep document as the single element of an array (the set functions compare elements by their bytes)
            let b = deep_bin(n, kind);
            let mut arr = vec![];
            jsonb::build_array([b.as_slice(), b.as_slice()], &mut arr).unwrap();
            let mut buf = vec![];
            match jsonb::array_distinct(&arr, &mut buf) {
                Ok(()) => format!("ok {}", buf.len()),
                Err(_) => "err Other".into(),
            }
        }
        "to_serde_json" => match jsonb::to_serde_json(&deep_bin(n, kind)) {
            Ok(v) => {
                std::mem::forget(v);
                "ok".into()
            }
            Err(_) => "err Other".into(),
        },
        "traverse" => format!("ok ={}", jsonb::traverse_check_string(&deep_bin(n, kind), |s| s == b"zz")),
        _ => "unknown-op deep".into(),
    }
}

// to_str of a float number prints ryu text; canonicalise it the same way as rendered documents
fn canon_text_scalar(s: &[u8], doc: &[u8]) -> Vec<u8> {
    if jsonb::is_number(doc) {
        canon_text(s)
    } else {
        s.to_vec()
    }
}

thread_local! {
    // set by the panic hook when the panic was raised by the harness's OWN source (argument parsing: unwrap / expect / panic! /
    // an index into the argument list in this file), not by the crate or by std on the crate's behalf (those carry the
    // location of the crate's call site: #[track_caller])
    static HARNESS_PANIC: std::cell::Cell<bool> = std::cell::Cell::new(false);
}

fn main() {
    std::panic::set_hook(Box::new(|info| {
        if let Some(loc) = info.location() {
            if loc.file() == file!() {
                HARNESS_PANIC.with(|f| f.set(true));
            }
        }
    }));
    let path = std::env::args().nth(1).unwrap_or_else(|| "-".to_string());
    let reader: Box<dyn BufRead> = if path == "-" {
        Box::new(std::io::BufReader::new(std::io::stdin()))
    } else {
        Box::new(std::io::BufReader::new(std::fs::File::open(&path).expect("open case file")))
    };
    let stdout = std::io::stdout();
    let mut out = stdout.lock();
    for line in reader.lines() {
        let line = line.unwrap();
        let line = line.trim_end();
        if line.is_empty() || line.starts_with('#') {
            continue;
        }
        let f: Vec<&str> = line.split(' ').collect();
        let id = f[0];
        HARNESS_PANIC.with(|f| f.set(false));
        let res = catch_unwind(AssertUnwindSafe(|| if f.len() < 2 { "harness-error no-op".to_string() } else { run(f[1], &f[2..]) }));
        // one write and one flush per outcome: when a later case kills the process (abort, stack overflow) every outcome
        // computed before it is already in the file
        let text = match res {
            Ok(s) => format!("{} {}\n", id, s),
            Err(_) if HARNESS_PANIC.with(|f| f.get()) => format!("{} harness-error\n", id),
            Err(_) => format!("{} panic\n", id),
        };
        out.write_all(text.as_bytes()).unwrap();
        out.flush().unwrap();
    }
}
