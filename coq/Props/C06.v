(* C06 — editing functions produce exactly the document the edit denotes. *)
From Coq Require Import List NArith ZArith Bool.
Import ListNotations.
From JB Require Import Constants Bytes Num Value Codec TreeOps SetOps Order RoundtripProofs Dispatch DispatchProofs MiscProofs.
Open Scope N_scope.

Theorem C06_concat : forall v, wfb v = true -> top_ok v -> forall w, wfb w = true -> top_ok w -> forall buf,
  concat_m (enc v) (enc w) buf = Ok (buf ++ enc (concat_t (normalise v) (normalise w))).
Proof. exact concat_on_enc. Qed.
Print Assumptions C06_concat.

Theorem C06_delete_by_name : forall v, wfb v = true -> top_ok v -> forall name buf,
  delete_by_name_m (enc v) name buf = append_enc buf (delete_by_name_t (normalise v) name).
Proof. exact delete_by_name_on_enc. Qed.
Print Assumptions C06_delete_by_name.

Theorem C06_delete_by_index : forall v, wfb v = true -> top_ok v -> forall i buf,
  delete_by_index_m (enc v) i buf = append_enc buf (delete_by_index_t (normalise v) i).
Proof. exact delete_by_index_on_enc. Qed.
Print Assumptions C06_delete_by_index.

Theorem C06_delete_by_keypath : forall v, wfb v = true -> top_ok v -> forall ks buf,
  delete_by_keypath_m (enc v) ks buf = append_enc buf (delete_by_keypath_t (normalise v) ks).
Proof. exact delete_by_keypath_on_enc. Qed.
Print Assumptions C06_delete_by_keypath.

Theorem C06_array_insert : forall v, wfb v = true -> top_ok v -> forall w, wfb w = true -> top_ok w -> forall pos buf,
  array_insert_m (enc v) pos (enc w) buf = Ok (buf ++ enc (array_insert_t (normalise v) pos (normalise w))).
Proof. exact array_insert_on_enc. Qed.
Print Assumptions C06_array_insert.

Theorem C06_object_insert : forall v, wfb v = true -> top_ok v -> forall w, wfb w = true -> top_ok w -> forall k upd buf,
  object_insert_m (enc v) k (enc w) upd buf = append_enc buf (object_insert_t (normalise v) k (normalise w) upd).
Proof. exact object_insert_on_enc. Qed.
Print Assumptions C06_object_insert.

Theorem C06_object_delete : forall v, wfb v = true -> top_ok v -> forall ks buf,
  object_delete_m (enc v) ks buf = append_enc buf (object_delete_t (normalise v) ks).
Proof. exact object_delete_on_enc. Qed.
Print Assumptions C06_object_delete.

Theorem C06_object_pick : forall v, wfb v = true -> top_ok v -> forall ks buf,
  object_pick_m (enc v) ks buf = append_enc buf (object_pick_t (normalise v) ks).
Proof. exact object_pick_on_enc. Qed.
Print Assumptions C06_object_pick.

Theorem C06_strip_nulls : forall v, wfb v = true -> top_ok v -> forall buf,
  strip_nulls_m (enc v) buf = Ok (buf ++ enc (strip_nulls_t (normalise v))).
Proof. exact strip_nulls_on_enc. Qed.
Print Assumptions C06_strip_nulls.

(* documented errors append nothing: an error result carries no buffer *)
Theorem C06_error_appends_nothing : forall buf r,
  append_enc buf r = match r with Ok v => Ok (buf ++ enc v) | Err e => Err e | Panic => Panic end.
Proof. exact append_enc_frame. Qed.
Print Assumptions C06_error_appends_nothing.
