(* C06 — editing functions produce exactly the document the edit denotes. *)
From Coq Require Import List NArith ZArith Bool.
Import ListNotations.
From JB Require Import Constants Bytes Num Value Codec TreeOps SetOps Order RoundtripProofs Dispatch DispatchProofs MiscProofs.
Open Scope N_scope.

Theorem C06_concat : forall v, wfb v = true -> top_ok v -> forall w, wfb w = true -> top_ok w -> forall buf,
  concat_m (enc v) (enc w) buf = Ok (buf ++ enc (concat_t (normalise v) (normalise w))).
Proof. exact concat_on_enc. Qed.
Print Assumptions C06_concat.

Theorem C06_delete_by_name : forall v, wfb v = true -> top_ok v -> forall name buf,
  delete_by_name_m (enc v) name buf = append_enc buf (delete_by_name_t (normalise v) name).
Proof. exact delete_by_name_on_enc. Qed.
Print Assumptions C06_delete_by_name.

Theorem C06_delete_by_index : forall v, wfb v = true -> top_ok v -> forall i buf,
  delete_by_index_m (enc v) i buf = append_enc buf (delete_by_index_t (normalise v) i).
Proof. exact delete_by_index_on_enc. Qed.
Print Assumptions C06_delete_by_index.

Theorem C06_delete_by_keypath : forall v, wfb v = true -> top_ok v -> forall ks buf,
  delete_by_keypath_m (enc v) ks buf = append_enc buf (delete_by_keypath_t (normalise v) ks).
Proof. exact delete_by_keypath_on_enc. Qed.
Print Assumptions C06_delete_by_keypath.

Theorem C06_array_insert : forall v, wfb v = true -> top_ok v -> forall w, wfb w = true -> top_ok w -> forall pos buf,
  array_insert_m (enc v) pos (enc w) buf = Ok (buf ++ enc (array_insert_t (normalise v) pos (normalise w))).
Proof. exact array_insert_on_enc. Qed.
Print Assumptions C06_array_insert.

Theorem C06_object_insert : forall v, wfb v = true -> top_ok v -> forall w, wfb w = true -> top_ok w -> forall k upd buf,
  object_insert_m (enc v) k (enc w) upd buf = append_enc buf (object_insert_t (normalise v) k (normalise w) upd).
Proof. exact object_insert_on_enc. Qed.
Print Assumptions C06_object_insert.

Theorem C06_object_delete : forall v, wfb v = true -> top_ok v -> forall ks buf,
  object_delete_m (enc v) ks buf = append_enc buf (object_delete_t (normalise v) ks).
Proof. exact object_delete_on_enc. Qed.
Print Assumptions C06_object_delete.

Theorem C06_object_pick : forall v, wfb v = true -> top_ok v -> forall ks buf,
  object_pick_m (enc v) ks buf = append_enc buf (object_pick_t (normalise v) ks).
Proof. exact object_pick_on_enc. Qed.
Print Assumptions C06_object_pick.

Theorem C06_strip_nulls : forall v, wfb v = true -> top_ok v -> forall buf,
  strip_nulls_m (enc v) buf = Ok (buf ++ enc (strip_nulls_t (normalise v))).
Proof. exact strip_nulls_on_enc. Qed.
Print Assumptions C06_strip_nulls.

(* documented errors append nothing: an error result carries no buffer *)
Theorem C06_error_appends_nothing : forall buf r,
  append_enc buf r = match r with Ok v => Ok (buf ++ enc v) | Err e => Err e | Panic => Panic end.
Proof. exact append_enc_frame. Qed.
Print Assumptions C06_error_appends_nothing.

(* ---- BEGIN edit2: byte-level statements for the offset-faithful walkers of EditWalk2.v ------------------------------
   The walker reads header words, drives the iterators of iterator.rs over the input buffer, pushes raw
   (entry, payload slice) pairs and nested builders, and calls build_into(buf).  On the encoding of a well-formed
   value, for ANY prefix buf, it returns buf ++ the encoding of the tree edit; a documented error is the same error
   and appends nothing (res_map).  No decode, no normalise: numbers keep their representation. *)
From JB Require Import TreeWf TreeWf2 EditWalk2 EditWalk2Proofs.

(* inserting can grow the object past the 2^28-byte payload bound of an entry word: the result size is a hypothesis
   (it also bounds the key length); see C06_object_insert_bytes_hyp_ok for an instance *)
Theorem C06_object_insert_bytes : forall v x key upd buf, wfb v = true -> top_ok v -> wfb x = true -> top_ok x ->
  (forall y, object_insert_t v key x upd = Ok y -> wf_size y = true) ->
  object_insert_w (enc v) key (enc x) upd buf = res_map (fun y => buf ++ enc y) (object_insert_t v key x upd).
Proof. exact object_insert_w_enc. Qed.
Print Assumptions C06_object_insert_bytes.

Theorem C06_object_delete_bytes : forall v ks buf, wfb v = true -> top_ok v ->
  object_delete_w (enc v) ks buf = res_map (fun y => buf ++ enc y) (object_delete_t v ks).
Proof. exact object_delete_w_enc. Qed.
Print Assumptions C06_object_delete_bytes.

Theorem C06_object_pick_bytes : forall v ks buf, wfb v = true -> top_ok v ->
  object_pick_w (enc v) ks buf = res_map (fun y => buf ++ enc y) (object_pick_t v ks).
Proof. exact object_pick_w_enc. Qed.
Print Assumptions C06_object_pick_bytes.

Theorem C06_strip_nulls_bytes : forall v buf, wfb v = true -> top_ok v ->
  strip_nulls_w (enc v) buf = Ok (buf ++ enc (strip_nulls_t v)).
Proof. exact strip_nulls_w_enc. Qed.
Print Assumptions C06_strip_nulls_bytes.

(* every key path; an index is any integer (in particular any i32) *)
Theorem C06_delete_by_keypath_bytes : forall v ks buf, wfb v = true -> top_ok v ->
  delete_by_keypath_w (enc v) ks buf = res_map (fun y => buf ++ enc y) (delete_by_keypath_t v ks).
Proof. exact delete_by_keypath_w_enc'. Qed.
Print Assumptions C06_delete_by_keypath_bytes.

(* the results stay well-formed (shape and size), so the statements chain *)
Theorem C06_strip_nulls_wf : forall v, wfb v = true -> wfb (strip_nulls_t v) = true.
Proof. exact strip_nulls_wfb. Qed.
Print Assumptions C06_strip_nulls_wf.
Theorem C06_delete_by_keypath_wf : forall v ks y, wfb v = true -> delete_by_keypath_t v ks = Ok y -> wfb y = true.
Proof. exact delete_by_keypath_wfb. Qed.
Print Assumptions C06_delete_by_keypath_wf.

(* non-vacuity: nested documents, nulls at several depths, a key path through index -1 into an object *)
Definition ex_k (c : N) : list N := [c].
Definition ex_one : value := VNum (NUInt 1).
Definition ex_doc : value :=                      (* {"a":null,"b":[null,{"c":null,"d":1}],"e":{"f":null,"g":[{"h":null}]}} *)
  VObj [(ex_k 97, VNull);
        (ex_k 98, VArr [VNull; VObj [(ex_k 99, VNull); (ex_k 100, ex_one)]]);
        (ex_k 101, VObj [(ex_k 102, VNull); (ex_k 103, VArr [VObj [(ex_k 104, VNull)]])])].
Example C06_ex_doc_wf : wfb ex_doc = true /\ top_ok ex_doc.
Proof. split; vm_compute; reflexivity. Qed.
Example C06_ex_strip_nulls :
  strip_nulls_w (enc ex_doc) [170; 187] =
  Ok ([170; 187] ++ enc (VObj [(ex_k 98, VArr [VNull; VObj [(ex_k 100, ex_one)]]); (ex_k 101, VObj [(ex_k 103, VArr [VObj []])])])).
Proof. vm_compute. reflexivity. Qed.
Example C06_ex_delete_by_keypath :               (* b[-1].c : the last element of b is an object, its member c goes *)
  delete_by_keypath_w (enc ex_doc) [KName (ex_k 98); KIndex (-1); KQuoted (ex_k 99)] [1] =
  Ok ([1] ++ enc (VObj [(ex_k 97, VNull);
                        (ex_k 98, VArr [VNull; VObj [(ex_k 100, ex_one)]]);
                        (ex_k 101, VObj [(ex_k 102, VNull); (ex_k 103, VArr [VObj [(ex_k 104, VNull)]])])])).
Proof. vm_compute. reflexivity. Qed.
Example C06_ex_delete_by_keypath_miss :          (* b[-3] is out of range: the input is copied *)
  delete_by_keypath_w (enc ex_doc) [KName (ex_k 98); KIndex (-3)] [1] = Ok ([1] ++ enc ex_doc)
  /\ delete_by_keypath_w (enc ex_one) [KIndex 0] [1] = Err EInvalidJsonType.
Proof. split; vm_compute; reflexivity. Qed.
Example C06_ex_object_insert :                   (* a container value under a new key between b and e; replacing a *)
  object_insert_w (enc ex_doc) (ex_k 99) (enc (VArr [ex_one; VNull])) false [7] =
  Ok ([7] ++ enc (VObj [(ex_k 97, VNull);
                        (ex_k 98, VArr [VNull; VObj [(ex_k 99, VNull); (ex_k 100, ex_one)]]);
                        (ex_k 99, VArr [ex_one; VNull]);
                        (ex_k 101, VObj [(ex_k 102, VNull); (ex_k 103, VArr [VObj [(ex_k 104, VNull)]])])]))
  /\ object_insert_w (enc ex_doc) (ex_k 97) (enc ex_one) false [7] = Err EDupKey
  /\ object_insert_w (enc ex_doc) (ex_k 97) (enc ex_one) true [7] =
     Ok ([7] ++ enc (VObj [(ex_k 97, ex_one);
                           (ex_k 98, VArr [VNull; VObj [(ex_k 99, VNull); (ex_k 100, ex_one)]]);
                           (ex_k 101, VObj [(ex_k 102, VNull); (ex_k 103, VArr [VObj [(ex_k 104, VNull)]])])])).
Proof. repeat split; vm_compute; reflexivity. Qed.
Example C06_object_insert_bytes_hyp_ok :         (* the size hypothesis of C06_object_insert_bytes is satisfiable *)
  forall y, object_insert_t ex_doc (ex_k 99) (VArr [ex_one; VNull]) false = Ok y -> wf_size y = true.
Proof. intros y H. vm_compute in H. injection H as <-. vm_compute. reflexivity. Qed.
Example C06_ex_object_delete_pick :
  object_delete_w (enc ex_doc) [ex_k 98; ex_k 122] [] = Ok (enc (VObj [(ex_k 97, VNull); (ex_k 101, VObj [(ex_k 102, VNull); (ex_k 103, VArr [VObj [(ex_k 104, VNull)]])])]))
  /\ object_pick_w (enc ex_doc) [ex_k 98; ex_k 122] [9] = Ok ([9] ++ enc (VObj [(ex_k 98, VArr [VNull; VObj [(ex_k 99, VNull); (ex_k 100, ex_one)]])]))
  /\ object_pick_w (enc (VArr [ex_one])) [ex_k 98] [9] = Err EInvalidObject.
Proof. repeat split; vm_compute; reflexivity. Qed.
(* ---- END edit2 ---- *)
