(* C06 — editing functions produce exactly the document the edit denotes. *)
(* NOTE on the `*_m` statements in this file: `*_m` (Dispatch.v) is the view-level composition "decode, apply the tree
   function, encode"; for JSONB input it is a specification device and is no longer what the correspondence check runs against
   the crate.  `*_m` is still the text branch of every `*_w` (`f_w bs = if is_jsonb bs then f_b bs else f_m bs`: on JSON text the
   Rust parses and works on the tree, and so does the model), so through `*_w` the correspondence does run `*_m` on text arguments.
   The statements tied to the Rust code are the ones about the offset-faithful walkers `*_w` below, which relate `*_w` on
   encodings directly to the same tree functions `*_t`. *)
From Coq Require Import List NArith ZArith Bool.
Import ListNotations.
From JB Require Import Constants Bytes Num Value Codec TreeOps SetOps Order RoundtripProofs Dispatch DispatchProofs MiscProofs.
Open Scope N_scope.

Theorem C06_concat : forall v, wfb v = true -> top_ok v -> forall w, wfb w = true -> top_ok w -> forall buf,
  concat_m (enc v) (enc w) buf = Ok (buf ++ enc (concat_t (normalise v) (normalise w))).
Proof. exact concat_on_enc. Qed.
Print Assumptions C06_concat.

Theorem C06_delete_by_name : forall v, wfb v = true -> top_ok v -> forall name buf,
  delete_by_name_m (enc v) name buf = append_enc buf (delete_by_name_t (normalise v) name).
Proof. exact delete_by_name_on_enc. Qed.
Print Assumptions C06_delete_by_name.

Theorem C06_delete_by_index : forall v, wfb v = true -> top_ok v -> forall i buf,
  delete_by_index_m (enc v) i buf = append_enc buf (delete_by_index_t (normalise v) i).
Proof. exact delete_by_index_on_enc. Qed.
Print Assumptions C06_delete_by_index.

Theorem C06_delete_by_keypath : forall v, wfb v = true -> top_ok v -> forall ks buf,
  delete_by_keypath_m (enc v) ks buf = append_enc buf (delete_by_keypath_t (normalise v) ks).
Proof. exact delete_by_keypath_on_enc. Qed.
Print Assumptions C06_delete_by_keypath.

Theorem C06_array_insert : forall v, wfb v = true -> top_ok v -> forall w, wfb w = true -> top_ok w -> forall pos buf,
  array_insert_m (enc v) pos (enc w) buf = Ok (buf ++ enc (array_insert_t (normalise v) pos (normalise w))).
Proof. exact array_insert_on_enc. Qed.
Print Assumptions C06_array_insert.

Theorem C06_object_insert : forall v, wfb v = true -> top_ok v -> forall w, wfb w = true -> top_ok w -> forall k upd buf,
  object_insert_m (enc v) k (enc w) upd buf = append_enc buf (object_insert_t (normalise v) k (normalise w) upd).
Proof. exact object_insert_on_enc. Qed.
Print Assumptions C06_object_insert.

Theorem C06_object_delete : forall v, wfb v = true -> top_ok v -> forall ks buf,
  object_delete_m (enc v) ks buf = append_enc buf (object_delete_t (normalise v) ks).
Proof. exact object_delete_on_enc. Qed.
Print Assumptions C06_object_delete.

Theorem C06_object_pick : forall v, wfb v = true -> top_ok v -> forall ks buf,
  object_pick_m (enc v) ks buf = append_enc buf (object_pick_t (normalise v) ks).
Proof. exact object_pick_on_enc. Qed.
Print Assumptions C06_object_pick.

Theorem C06_strip_nulls : forall v, wfb v = true -> top_ok v -> forall buf,
  strip_nulls_m (enc v) buf = Ok (buf ++ enc (strip_nulls_t (normalise v))).
Proof. exact strip_nulls_on_enc. Qed.
Print Assumptions C06_strip_nulls.

(* (the view-level model above cannot say what an error leaves in the caller's buffer -- an `Err` carries none; that part
   of the property is C06_errors_leave_the_buffer_unchanged below, about the state functions of the byte walkers) *)

(* ------------------------------------------------------------------------------------------------------------------ *)
(* The editors as the code runs them on bytes (EditWalk.v: header reads, the iterators of iterator.rs, raw (jentry,
   payload slice) pairs pushed into the builders of builder.rs, build_into on the caller's buffer; build_array /
   build_object writing entry words and payloads directly).  No decoding: the statements are about the values themselves,
   for ANY buffer content `buf`.  Size hypotheses: an input is within the bounds (wfb); where the edit can grow the
   document (concat, array_insert) the RESULT must be representable, `wf_size (result) = true` (payload < 2^28, count
   < 2^29: concatenating two huge arrays can leave the format; that is the known payload >= 2^28 finding, not this one);
   deletions never need it (a deletion of a representable document is representable: proved). *)
From JB Require Import EditWalk EditWalkProofs.

Theorem C06_concat_bytes : forall a b buf, wfb a = true -> top_ok a -> wfb b = true -> top_ok b ->
  wf_size (concat_t a b) = true ->
  concat_w (enc a) (enc b) buf = Ok (buf ++ enc (concat_t a b)).
Proof. exact concat_w_enc. Qed.
Print Assumptions C06_concat_bytes.

(* errors: the same error as on the tree (InvalidJsonType for a scalar document), nothing appended *)
Theorem C06_delete_by_name_bytes : forall v name buf, wfb v = true -> top_ok v ->
  delete_by_name_w (enc v) name buf = res_map (fun x => buf ++ enc x) (delete_by_name_t v name).
Proof. exact delete_by_name_w_enc. Qed.
Print Assumptions C06_delete_by_name_bytes.

(* every index, the whole of i32 and beyond: the arithmetic is on Z and never leaves i32 for i32 inputs (I32.v) *)
Theorem C06_delete_by_index_bytes : forall v i buf, wfb v = true -> top_ok v ->
  delete_by_index_w (enc v) i buf = res_map (fun x => buf ++ enc x) (delete_by_index_t v i).
Proof. exact delete_by_index_w_enc. Qed.
Print Assumptions C06_delete_by_index_bytes.

Theorem C06_array_insert_bytes : forall v pos x buf, wfb v = true -> top_ok v -> wfb x = true -> top_ok x ->
  wf_size (array_insert_t v pos x) = true ->
  array_insert_w (enc v) pos (enc x) buf = Ok (buf ++ enc (array_insert_t v pos x)).
Proof. exact array_insert_w_enc. Qed.
Print Assumptions C06_array_insert_bytes.

(* build_array / build_object take complete documents; no condition on the result (the header and entry words are
   computed with the same `as u32` truncations as the layout), no condition on the keys; a key list and an item list of
   different lengths are zipped (the Rust function takes an iterator of pairs: there is no count-mismatch error) *)
Theorem C06_build_array_bytes : forall vs buf, Forall (fun v => wf_size v = true) vs ->
  build_array_w (map enc vs) buf = Ok (buf ++ enc (build_array_t vs)).
Proof. exact build_array_w_enc. Qed.
Print Assumptions C06_build_array_bytes.

Theorem C06_build_object_bytes : forall ks vs buf, Forall (fun v => wf_size v = true) vs ->
  build_object_w ks (map enc vs) buf = Ok (buf ++ enc (build_object_t (combine ks vs))).
Proof. exact build_object_w_enc. Qed.
Print Assumptions C06_build_object_bytes.

(* the same two with the buffer state made explicit: on valid items the loop never takes the error return that would
   leave the reserved header slot and the entries written so far in the caller's buffer *)
Theorem C06_build_state_bytes : forall ks vs buf, Forall (fun v => wf_size v = true) vs ->
  build_array_st (map enc vs) buf = (buf ++ enc (build_array_t vs), Ok tt) /\
  build_object_st ks (map enc vs) buf = (buf ++ enc (build_object_t (combine ks vs)), Ok tt).
Proof. intros ks vs buf H. split; [exact (build_array_st_enc vs buf H)|exact (build_object_st_enc ks vs buf H)]. Qed.
Print Assumptions C06_build_state_bytes.

(* non-vacuity, computed by the byte editors: nested documents, overlapping keys, negative positions, a non-empty buffer *)
Definition c06_a : value := VObj [([97], VArr [VNum (NInt (-5)%Z); VStr [120]]); ([99], VNull)].
Definition c06_b : value := VObj [([98], VBool true); ([99], VObj [([107], VStr [121; 122])])].
Definition c06_arr : value := VArr [VNull; c06_a; VArr [VStr [113]; VStr [114]]; VNum (NUInt 7); VStr [113]].
Example C06_bytes_examples :
  (* hypotheses of the theorems hold for these documents *)
  wfb c06_a = true /\ wfb c06_b = true /\ wfb c06_arr = true /\ top_ok c06_a /\ top_ok c06_arr /\
  wf_size (concat_t c06_a c06_b) = true /\
  (* object ++ object: union, the right value wins on the shared key c *)
  concat_w (enc c06_a) (enc c06_b) [170; 187]
  = Ok ([170; 187] ++ enc (VObj [([97], VArr [VNum (NInt (-5)%Z); VStr [120]]); ([98], VBool true); ([99], VObj [([107], VStr [121; 122])])])) /\
  (* scalar ++ array, array ++ object *)
  concat_w (enc (VStr [113])) (enc c06_arr) [] = Ok (enc (VArr (VStr [113] :: match c06_arr with VArr l => l | _ => [] end))) /\
  concat_w (enc c06_arr) (enc c06_b) [1] = Ok (1 :: enc (VArr (match c06_arr with VArr l => l | _ => [] end ++ [c06_b]))) /\
  (* negative index: -4 of 5 is position 1 (the nested object) *)
  delete_by_index_w (enc c06_arr) (-4)%Z [9]
  = Ok (9 :: enc (VArr [VNull; VArr [VStr [113]; VStr [114]]; VNum (NUInt 7); VStr [113]])) /\
  delete_by_index_w (enc c06_arr) (-2147483648)%Z [9] = Ok (9 :: enc c06_arr) /\
  delete_by_index_w (enc c06_a) 0%Z [9] = Err EInvalidJsonType /\
  (* delete_by_name: top-level strings equal to the name go (not the nested one), a member goes *)
  delete_by_name_w (enc c06_arr) [113] [] = Ok (enc (VArr [VNull; c06_a; VArr [VStr [113]; VStr [114]]; VNum (NUInt 7)])) /\
  delete_by_name_w (enc c06_a) [97] [7] = Ok (7 :: enc (VObj [([99], VNull)])) /\
  delete_by_name_w (enc (VBool true)) [97] [7] = Err EInvalidJsonType /\
  (* array_insert: position -1 of 5 is 4; an object base counts as one element; clamping at both ends *)
  array_insert_w (enc c06_arr) (-1)%Z (enc c06_b) [5]
  = Ok (5 :: enc (VArr [VNull; c06_a; VArr [VStr [113]; VStr [114]]; VNum (NUInt 7); c06_b; VStr [113]])) /\
  array_insert_w (enc c06_a) 2147483647%Z (enc (VNum (NUInt 7))) [] = Ok (enc (VArr [c06_a; VNum (NUInt 7)])) /\
  array_insert_w (enc c06_a) (-2147483648)%Z (enc (VNum (NUInt 7))) [] = Ok (enc (VArr [VNum (NUInt 7); c06_a])) /\
  (* build_array / build_object: unsorted keys, a duplicate key (the last value wins) *)
  build_array_w (map enc [c06_b; VNull; c06_arr]) [3] = Ok (3 :: enc (VArr [c06_b; VNull; c06_arr])) /\
  build_object_w [[122]; [97]; [122]] (map enc [VNull; c06_arr; c06_b]) [3] = Ok (3 :: enc (VObj [([97], c06_arr); ([122], c06_b)])).
Proof. vm_compute. repeat split; reflexivity. Qed.
Print Assumptions C06_bytes_examples.

(* on buffers that are not encodings the model answers as the code does (tied by the malformed stream of the checker):
   a cut inside the header is an error that appends nothing, a cut inside the entries ends the iteration early or panics
   on the payload slice, and an invalid item of build_array is an error that leaves the reserved header slot behind *)
Example C06_bytes_on_corrupt_buffers :
  concat_w (firstn 3 (enc c06_arr)) (enc c06_b) [9] = Err EOther /\
  delete_by_index_w (firstn 10 (enc c06_arr)) 0%Z [9] = Panic /\
  build_array_st [enc c06_b; [96; 0; 0; 0]] [9] = ([9; 0; 0; 0; 0; 80; 0; 0; 37], Err EOther) /\
  build_array_st [[32; 0; 0; 0; 64]] [9] = ([9; 0; 0; 0; 0], Panic).
Proof. vm_compute. repeat split; reflexivity. Qed.
Print Assumptions C06_bytes_on_corrupt_buffers.
(* ---- BEGIN edit2: byte-level statements for the offset-faithful walkers of EditWalk2.v ------------------------------
   The walker reads header words, drives the iterators of iterator.rs over the input buffer, pushes raw
   (entry, payload slice) pairs and nested builders, and calls build_into(buf).  On the encoding of a well-formed
   value, for ANY prefix buf, it returns buf ++ the encoding of the tree edit; a documented error is the same error
   and appends nothing (res_map).  No decode, no normalise: numbers keep their representation. *)
From JB Require Import TreeWf TreeWf2 EditWalk2 EditWalk2Proofs.

(* inserting can grow the object past the 2^28-byte payload bound of an entry word: the result size is a hypothesis
   (it also bounds the key length); see C06_object_insert_bytes_hyp_ok for an instance *)
Theorem C06_object_insert_bytes : forall v x key upd buf, wfb v = true -> top_ok v -> wfb x = true -> top_ok x ->
  (forall y, object_insert_t v key x upd = Ok y -> wf_size y = true) ->
  object_insert_w (enc v) key (enc x) upd buf = res_map (fun y => buf ++ enc y) (object_insert_t v key x upd).
Proof. exact object_insert_w_enc. Qed.
Print Assumptions C06_object_insert_bytes.

Theorem C06_object_delete_bytes : forall v ks buf, wfb v = true -> top_ok v ->
  object_delete_w (enc v) ks buf = res_map (fun y => buf ++ enc y) (object_delete_t v ks).
Proof. exact object_delete_w_enc. Qed.
Print Assumptions C06_object_delete_bytes.

Theorem C06_object_pick_bytes : forall v ks buf, wfb v = true -> top_ok v ->
  object_pick_w (enc v) ks buf = res_map (fun y => buf ++ enc y) (object_pick_t v ks).
Proof. exact object_pick_w_enc. Qed.
Print Assumptions C06_object_pick_bytes.

Theorem C06_strip_nulls_bytes : forall v buf, wfb v = true -> top_ok v ->
  strip_nulls_w (enc v) buf = Ok (buf ++ enc (strip_nulls_t v)).
Proof. exact strip_nulls_w_enc. Qed.
Print Assumptions C06_strip_nulls_bytes.

(* every key path; an index is any integer (in particular any i32) *)
Theorem C06_delete_by_keypath_bytes : forall v ks buf, wfb v = true -> top_ok v ->
  delete_by_keypath_w (enc v) ks buf = res_map (fun y => buf ++ enc y) (delete_by_keypath_t v ks).
Proof. exact delete_by_keypath_w_enc'. Qed.
Print Assumptions C06_delete_by_keypath_bytes.

(* the results stay well-formed (shape and size), so the statements chain *)
Theorem C06_strip_nulls_wf : forall v, wfb v = true -> wfb (strip_nulls_t v) = true.
Proof. exact strip_nulls_wfb. Qed.
Print Assumptions C06_strip_nulls_wf.
Theorem C06_delete_by_keypath_wf : forall v ks y, wfb v = true -> delete_by_keypath_t v ks = Ok y -> wfb y = true.
Proof. exact delete_by_keypath_wfb. Qed.
Print Assumptions C06_delete_by_keypath_wf.

(* non-vacuity: nested documents, nulls at several depths, a key path through index -1 into an object *)
Definition ex_k (c : N) : list N := [c].
Definition ex_one : value := VNum (NUInt 1).
Definition ex_doc : value :=                      (* {"a":null,"b":[null,{"c":null,"d":1}],"e":{"f":null,"g":[{"h":null}]}} *)
  VObj [(ex_k 97, VNull);
        (ex_k 98, VArr [VNull; VObj [(ex_k 99, VNull); (ex_k 100, ex_one)]]);
        (ex_k 101, VObj [(ex_k 102, VNull); (ex_k 103, VArr [VObj [(ex_k 104, VNull)]])])].
Example C06_ex_doc_wf : wfb ex_doc = true /\ top_ok ex_doc.
Proof. split; vm_compute; reflexivity. Qed.
Print Assumptions C06_ex_doc_wf.
Example C06_ex_strip_nulls :
  strip_nulls_w (enc ex_doc) [170; 187] =
  Ok ([170; 187] ++ enc (VObj [(ex_k 98, VArr [VNull; VObj [(ex_k 100, ex_one)]]); (ex_k 101, VObj [(ex_k 103, VArr [VObj []])])])).
Proof. vm_compute. reflexivity. Qed.
Print Assumptions C06_ex_strip_nulls.
Example C06_ex_delete_by_keypath :               (* b[-1].c : the last element of b is an object, its member c goes *)
  delete_by_keypath_w (enc ex_doc) [KName (ex_k 98); KIndex (-1); KQuoted (ex_k 99)] [1] =
  Ok ([1] ++ enc (VObj [(ex_k 97, VNull);
                        (ex_k 98, VArr [VNull; VObj [(ex_k 100, ex_one)]]);
                        (ex_k 101, VObj [(ex_k 102, VNull); (ex_k 103, VArr [VObj [(ex_k 104, VNull)]])])])).
Proof. vm_compute. reflexivity. Qed.
Print Assumptions C06_ex_delete_by_keypath.
Example C06_ex_delete_by_keypath_miss :          (* b[-3] is out of range: the input is copied *)
  delete_by_keypath_w (enc ex_doc) [KName (ex_k 98); KIndex (-3)] [1] = Ok ([1] ++ enc ex_doc)
  /\ delete_by_keypath_w (enc ex_one) [KIndex 0] [1] = Err EInvalidJsonType.
Proof. split; vm_compute; reflexivity. Qed.
Print Assumptions C06_ex_delete_by_keypath_miss.
Example C06_ex_object_insert :                   (* a container value under a new key between b and e; replacing a *)
  object_insert_w (enc ex_doc) (ex_k 99) (enc (VArr [ex_one; VNull])) false [7] =
  Ok ([7] ++ enc (VObj [(ex_k 97, VNull);
                        (ex_k 98, VArr [VNull; VObj [(ex_k 99, VNull); (ex_k 100, ex_one)]]);
                        (ex_k 99, VArr [ex_one; VNull]);
                        (ex_k 101, VObj [(ex_k 102, VNull); (ex_k 103, VArr [VObj [(ex_k 104, VNull)]])])]))
  /\ object_insert_w (enc ex_doc) (ex_k 97) (enc ex_one) false [7] = Err EDupKey
  /\ object_insert_w (enc ex_doc) (ex_k 97) (enc ex_one) true [7] =
     Ok ([7] ++ enc (VObj [(ex_k 97, ex_one);
                           (ex_k 98, VArr [VNull; VObj [(ex_k 99, VNull); (ex_k 100, ex_one)]]);
                           (ex_k 101, VObj [(ex_k 102, VNull); (ex_k 103, VArr [VObj [(ex_k 104, VNull)]])])])).
Proof. repeat split; vm_compute; reflexivity. Qed.
Print Assumptions C06_ex_object_insert.
Example C06_object_insert_bytes_hyp_ok :         (* the size hypothesis of C06_object_insert_bytes is satisfiable *)
  forall y, object_insert_t ex_doc (ex_k 99) (VArr [ex_one; VNull]) false = Ok y -> wf_size y = true.
Proof. intros y H. vm_compute in H. injection H as <-. vm_compute. reflexivity. Qed.
Print Assumptions C06_object_insert_bytes_hyp_ok.
Example C06_ex_object_delete_pick :
  object_delete_w (enc ex_doc) [ex_k 98; ex_k 122] [] = Ok (enc (VObj [(ex_k 97, VNull); (ex_k 101, VObj [(ex_k 102, VNull); (ex_k 103, VArr [VObj [(ex_k 104, VNull)]])])]))
  /\ object_pick_w (enc ex_doc) [ex_k 98; ex_k 122] [9] = Ok ([9] ++ enc (VObj [(ex_k 98, VArr [VNull; VObj [(ex_k 99, VNull); (ex_k 100, ex_one)]])]))
  /\ object_pick_w (enc (VArr [ex_one])) [ex_k 98] [9] = Err EInvalidObject.
Proof. repeat split; vm_compute; reflexivity. Qed.
Print Assumptions C06_ex_object_delete_pick.
(* ---- END edit2 ---- *)

(* ---- the recursion fuel of strip_nulls / delete_by_keypath (EditWalk2.v: strip_item over nested items, del_item over
   the shared key-path queue) is never the reason for an answer, on ANY buffer and any prior buffer content
   (ExtraFuel06.v).  For delete_by_keypath the measure is the key path: a descent returns a strictly shorter one, also
   on corrupt objects with duplicate member names where the walker descends more than once. *)
From JB Require Import EditWalk2 ExtraFuel06.
Theorem C06_fuel_never_exhausted :
  (forall bs buf, strip_nulls_w bs buf <> Err EFuel) /\
  (forall bs ks buf, delete_by_keypath_w bs ks buf <> Err EFuel) /\
  (forall fuel item, (length item < fuel)%nat -> strip_item fuel item <> Err EFuel) /\
  (forall fuel item ks, (length ks < fuel)%nat -> del_item fuel item ks <> Err EFuel).
Proof.
  split; [exact strip_nulls_w_not_fuel|]. split; [exact delete_by_keypath_w_not_fuel|].
  split; [exact strip_item_fuel|exact del_item_fuel].
Qed.
Print Assumptions C06_fuel_never_exhausted.

(* ------------------------------------------------------------------------------------------------------------------ *)
(* "Documented error cases ... return the documented error and leave the output buffer as it was."
   The Rust editors take `buf: &mut Vec<u8>`; the byte walkers are state functions over that buffer (BufSt.v):
   `f_st args buf` = (the buffer AS THE CALL LEAVES IT, the outcome), able to express "bytes were pushed, then Err was
   returned" (build_array / build_object do).  The driver prints the buffer the model computed next to the one the Rust
   function left, on Ok and on Err, also on corrupt inputs.
   On encodings of well-formed documents (`st_spec buf r`: Ok y => (buf ++ enc y, Ok tt) | Err e => (buf, Err e)): *)
From JB Require Import BufSt EditStProofs EditFrame EditStEnc.
From JB Require SetWalk.

Theorem C06_errors_leave_the_buffer_unchanged : forall v buf, wfb v = true -> top_ok v ->
  (forall name, delete_by_name_st (enc v) name buf = st_spec buf (delete_by_name_t v name)) /\
  (forall i, delete_by_index_st (enc v) i buf = st_spec buf (delete_by_index_t v i)) /\
  (forall ks, delete_by_keypath_st (enc v) ks buf = st_spec buf (delete_by_keypath_t v ks)) /\
  (forall ks, object_delete_st (enc v) ks buf = st_spec buf (object_delete_t v ks)) /\
  (forall ks, object_pick_st (enc v) ks buf = st_spec buf (object_pick_t v ks)) /\
  (forall x key upd, wfb x = true -> top_ok x -> (forall y, object_insert_t v key x upd = Ok y -> wf_size y = true) ->
     object_insert_st (enc v) key (enc x) upd buf = st_spec buf (object_insert_t v key x upd)).
Proof.
  intros v buf W T. repeat match goal with |- _ /\ _ => split end; intros.
  - apply delete_by_name_st_enc; assumption.
  - apply delete_by_index_st_enc; assumption.
  - apply delete_by_keypath_st_enc; assumption.
  - apply object_delete_st_enc; assumption.
  - apply object_pick_st_enc; assumption.
  - apply object_insert_st_enc; assumption.
Qed.
Print Assumptions C06_errors_leave_the_buffer_unchanged.

(* the documented errors one by one: InvalidJsonType for delete_by_name / delete_by_keypath on a scalar and
   delete_by_index on a non-array, InvalidObject for the object editors on a non-object, the duplicate-key error of
   object_insert without update_flag -- each returned with the buffer exactly as it was *)
Theorem C06_documented_errors : forall v buf, wfb v = true -> top_ok v ->
  (forall name, (match v with VArr _ | VObj _ => False | _ => True end) ->
     delete_by_name_st (enc v) name buf = (buf, Err EInvalidJsonType)) /\
  (forall i, (match v with VArr _ => False | _ => True end) ->
     delete_by_index_st (enc v) i buf = (buf, Err EInvalidJsonType)) /\
  (forall ks, (match v with VArr _ | VObj _ => False | _ => True end) ->
     delete_by_keypath_st (enc v) ks buf = (buf, Err EInvalidJsonType)) /\
  (forall ks, (match v with VObj _ => False | _ => True end) ->
     object_delete_st (enc v) ks buf = (buf, Err EInvalidObject) /\
     object_pick_st (enc v) ks buf = (buf, Err EInvalidObject)) /\
  (forall x key upd, wfb x = true -> top_ok x -> (match v with VObj _ => False | _ => True end) ->
     object_insert_st (enc v) key (enc x) upd buf = (buf, Err EInvalidObject)) /\
  (forall o x key, v = VObj o -> wfb x = true -> top_ok x -> assoc_lookup key o <> None ->
     object_insert_st (enc v) key (enc x) false buf = (buf, Err EDupKey)).
Proof. exact documented_errors_leave_buffer. Qed.
Print Assumptions C06_documented_errors.

(* the editors without a documented error on valid input: the buffer as left is the old content followed by exactly the
   edited document *)
Theorem C06_success_buffer_state : forall buf,
  (forall a b, wfb a = true -> top_ok a -> wfb b = true -> top_ok b -> wf_size (concat_t a b) = true ->
     concat_st (enc a) (enc b) buf = (buf ++ enc (concat_t a b), Ok tt)) /\
  (forall v pos x, wfb v = true -> top_ok v -> wfb x = true -> top_ok x -> wf_size (array_insert_t v pos x) = true ->
     array_insert_st (enc v) pos (enc x) buf = (buf ++ enc (array_insert_t v pos x), Ok tt)) /\
  (forall v, wfb v = true -> top_ok v -> strip_nulls_st (enc v) buf = (buf ++ enc (strip_nulls_t v), Ok tt)).
Proof.
  intros buf. repeat match goal with |- _ /\ _ => split end; intros.
  - apply concat_st_enc; assumption.
  - apply array_insert_st_enc; assumption.
  - apply strip_nulls_st_enc; assumption.
Qed.
Print Assumptions C06_success_buffer_state.

(* on ARBITRARY input bytes (truncated, corrupted, JSON text that does not parse, garbage) and any buffer: whenever an
   editor returns an error -- any error -- the buffer is exactly as it was (`err_leaves`; likewise at a panic, where it
   cannot be observed).  Every editor's only write is its last step, after every `?`: array_insert reads the header of
   new_value after it has collected and pushed items, object_insert finds the duplicate key, all before build_into. *)
Theorem C06_errors_leave_the_buffer_unchanged_on_any_input :
  (forall l r, err_leaves (concat_st l r)) /\
  (forall bs name, err_leaves (delete_by_name_st bs name)) /\
  (forall bs i, err_leaves (delete_by_index_st bs i)) /\
  (forall bs pos nv, err_leaves (array_insert_st bs pos nv)) /\
  (forall bs key nv upd, err_leaves (object_insert_st bs key nv upd)) /\
  (forall bs ks, err_leaves (object_delete_st bs ks)) /\
  (forall bs ks, err_leaves (object_pick_st bs ks)) /\
  (forall bs, err_leaves (strip_nulls_st bs)) /\
  (forall bs ks, err_leaves (delete_by_keypath_st bs ks)) /\
  (forall bs, err_leaves (SetWalk.array_distinct_st bs)) /\
  (forall l r, err_leaves (SetWalk.array_intersection_st l r)) /\
  (forall l r, err_leaves (SetWalk.array_except_st l r)).
Proof. exact editors_errors_leave_buffer_on_any_input. Qed.
Print Assumptions C06_errors_leave_the_buffer_unchanged_on_any_input.

(* build_array / build_object are the exception (recorded observation, not a property violation on valid items: on
   valid items they never fail, C06_build_state_bytes): an item with an invalid header makes them return an error AFTER
   they have written -- what is left is the reserved header slot (four zero bytes) and the entry words written so far *)
Theorem C06_build_error_leaves : forall buf e,
  (forall items, snd (build_array_st items buf) = Err e ->
     fst (build_array_st items buf) = buf ++ repeat 0 4 ++ ba_entries items) /\
  (forall keys items, snd (build_object_st keys items buf) = Err e ->
     fst (build_object_st keys items buf) = buf ++ repeat 0 4 ++ bo_entries (assoc_of_list (combine keys items))).
Proof. intros buf e. split; intros; [apply (build_array_st_error_leaves items buf e)|apply (build_object_st_error_leaves keys items buf e)]; assumption. Qed.
Print Assumptions C06_build_error_leaves.

(* not vacuous: success, three documented errors, a truncated new_value (array_insert fails after it collected the
   items), a text that does not parse, and build_array leaving bytes behind *)
Example C06_buffer_state_examples :
  wfb st_doc = true /\ top_ok st_doc /\
  delete_by_name_st (enc st_doc) [97] [7; 8] = ([7; 8] ++ enc (VObj [([99], VNull)]), Ok tt) /\
  delete_by_index_st (enc st_doc) 0%Z [7; 8] = ([7; 8], Err EInvalidJsonType) /\
  object_insert_st (enc st_doc) [97] (enc VNull) false [7; 8] = ([7; 8], Err EDupKey) /\
  object_pick_st (enc (VArr [VNull])) [[97]] [7; 8] = ([7; 8], Err EInvalidObject) /\
  array_insert_st (enc (VArr [VNull; VNull])) 1%Z [32; 0] [7; 8] = ([7; 8], Err EOther) /\
  strip_nulls_st [123; 125; 125] [7; 8] = ([7; 8], Err EOther) /\
  build_array_st [enc VNull; [96; 0; 0; 0]] [7; 8] = ([7; 8; 0; 0; 0; 0; 0; 0; 0; 0], Err EOther).
Proof. exact st_examples. Qed.

(* M6 (second review): the fuel the model passes is never what decides an answer, on ARBITRARY inputs -- also for the loops
   whose exhaustion is an ordinary value (None, Ok None, Ok buf, PErr, the input itself), about which `<> Err EFuel` says
   nothing: any fuel above the one the model passes gives the same answer (FuelIndep.v) *)
From JB Require FuelIndep.
Theorem C06_fuel_is_never_decisive :
  (forall k v ks, (length ks < k)%nat -> TreeOps.del_keypath k v ks = TreeOps.del_keypath (S (length ks)) v ks) /\
  (forall k item ks, (length ks < k)%nat -> EditWalk2.del_item k item ks = EditWalk2.del_item (S (length ks)) item ks) /\
  (forall k value hdr ks, (length ks <= k)%nat -> EditWalk2.del_arr (EditWalk2.del_item k) value hdr ks = EditWalk2.del_arr (EditWalk2.del_item (length ks)) value hdr ks /\ EditWalk2.del_obj (EditWalk2.del_item k) value hdr ks = EditWalk2.del_obj (EditWalk2.del_item (length ks)) value hdr ks) /\
  (forall k item, (length item < k)%nat -> EditWalk2.strip_item k item = EditWalk2.strip_item (S (length item)) item) /\
  (forall k value hdr, (length value <= k)%nat -> EditWalk2.strip_obj (EditWalk2.strip_item k) hdr value = EditWalk2.strip_obj (EditWalk2.strip_item (length value)) hdr value /\ EditWalk2.strip_arr (EditWalk2.strip_item k) hdr value = EditWalk2.strip_arr (EditWalk2.strip_item (length value)) hdr value) /\
  (forall St R bs (step : St -> Codec.je -> list N -> res (St + R)) fin k idx len joff voff s, (length bs < k)%nat -> Iter.arr_fold bs step fin k idx len joff voff s = Iter.arr_fold bs step fin (S (length bs)) idx len joff voff s) /\
  (forall St R bs (step : St -> list N -> res (St + R)) fin k idx len joff koff s, (length bs < k)%nat -> Iter.keys_fold bs step fin k idx len joff koff s = Iter.keys_fold bs step fin (S (length bs)) idx len joff koff s) /\
  (forall k bs i len j, (length bs < k)%nat -> Walk.rd_words k bs i len j = Walk.rd_words (S (length bs)) bs i len j).
Proof. split; [exact FuelIndep.del_keypath_any_fuel|split; [exact FuelIndep.del_item_any_fuel|split; [exact FuelIndep.del_top_any_fuel|split; [exact FuelIndep.strip_item_any_fuel|split; [exact FuelIndep.strip_top_any_fuel|split; [exact (@FuelIndep.arr_fold_any_fuel)|split; [exact (@FuelIndep.keys_fold_any_fuel)|exact FuelIndep.rd_words_any_fuel]]]]]]]. Qed.
Print Assumptions C06_fuel_is_never_decisive.

(* L6 (second review): the growing editors' byte theorems carry a hypothesis on the RESULT (`wf_size (concat_t a b)`, ...), which
   a caller cannot check without computing it.  Sufficient bounds on the INPUTS, which the caller holds: the lengths of the two
   encodings (plus the key) stay below 2^28 - 16 (SizeBounds.v) *)
From JB Require SizeBounds EditWalk2 EditWalk2Proofs.
Theorem C06_result_size_from_input_sizes :
  (forall a b, wf_size a = true -> wf_size b = true -> lenN (enc a) + lenN (enc b) + 16 < 268435456 -> wf_size (concat_t a b) = true) /\
  (forall v pos x, wf_size v = true -> wf_size x = true -> lenN (enc v) + lenN (enc x) + 16 < 268435456 ->
     wf_size (array_insert_t v pos x) = true) /\
  (forall v k x u r, wf_size v = true -> wf_size x = true -> lenN k < 268435456 ->
     lenN (enc v) + lenN k + lenN (enc x) + 16 < 268435456 -> object_insert_t v k x u = Ok r -> wf_size r = true).
Proof.
  split; [exact SizeBounds.concat_size_from_inputs|]. split; [exact SizeBounds.array_insert_size_from_inputs|exact SizeBounds.object_insert_size_from_inputs].
Qed.
Print Assumptions C06_result_size_from_input_sizes.
Theorem C06_growing_editors_bytes_from_input_sizes :
  (forall a b buf, wfb a = true -> top_ok a -> wfb b = true -> top_ok b -> lenN (enc a) + lenN (enc b) + 16 < 268435456 ->
     concat_w (enc a) (enc b) buf = Ok (buf ++ enc (concat_t a b))) /\
  (forall v pos x buf, wfb v = true -> top_ok v -> wfb x = true -> top_ok x -> lenN (enc v) + lenN (enc x) + 16 < 268435456 ->
     array_insert_w (enc v) pos (enc x) buf = Ok (buf ++ enc (array_insert_t v pos x))) /\
  (forall v x key upd buf, wfb v = true -> top_ok v -> wfb x = true -> top_ok x -> lenN key < 268435456 ->
     lenN (enc v) + lenN key + lenN (enc x) + 16 < 268435456 ->
     EditWalk2.object_insert_w (enc v) key (enc x) upd buf = res_map (fun y => buf ++ enc y) (object_insert_t v key x upd)).
Proof.
  split; [exact SizeBounds.concat_w_enc_from_inputs|]. split; [exact SizeBounds.array_insert_w_enc_from_inputs|exact SizeBounds.object_insert_w_enc_from_inputs].
Qed.
Print Assumptions C06_growing_editors_bytes_from_input_sizes.
Print Assumptions C06_buffer_state_examples.
