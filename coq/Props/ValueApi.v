(* Props/ValueApi.v — the tree-level API of the crate (value.rs, from.rs, lazy_value.rs; model: ValueApi.v) connected to the
   byte-level functions.  Not a property of its own: the correspondence cases live in C03 (Display), C05 (helpers), C17
   (LazyValue::write_to_vec) and C19 (From impls).  v is any well-formed value; top_ok v = its top-level count is below 2^24
   (the first-byte test of the byte-level functions). *)
From Coq Require Import List NArith ZArith Bool.
Import ListNotations.
From JB Require Import Constants Bytes Num Value Codec TreeOps Render Dispatch DispatchProofs Walk CastWalk RenderWalk ValueApi ValueApiProofs.
Open Scope N_scope.

(* ---- value.rs helpers = the byte-level accessors on the encoding ---- *)
Theorem ValueApi_array_length : forall v, wfb v = true -> top_ok v -> array_length_w (enc v) = Ok (value_array_length v).
Proof. exact value_array_length_bytes. Qed.
Print Assumptions ValueApi_array_length.

Theorem ValueApi_object_keys : forall v, wfb v = true -> top_ok v ->
  object_keys_w (enc v) = Ok (option_map enc (value_object_keys v)).
Proof. exact value_object_keys_bytes. Qed.
Print Assumptions ValueApi_object_keys.

Theorem ValueApi_get_by_name_ignore_case : forall v, wfb v = true -> top_ok v -> forall name,
  get_by_name_w (enc v) name true = Ok (option_map enc (value_get_by_name_ignore_case v name)).
Proof. exact value_get_by_name_ignore_case_bytes. Qed.
Print Assumptions ValueApi_get_by_name_ignore_case.

(* the second lookup by the matching key finds the member the scan stopped at: the helper is the tree function of TreeOps.v *)
Theorem ValueApi_get_by_name_ignore_case_tree : forall v name,
  value_get_by_name_ignore_case v name = get_by_name_t v name true.
Proof. exact value_get_by_name_ignore_case_is_t. Qed.
Print Assumptions ValueApi_get_by_name_ignore_case_tree.

Theorem ValueApi_as_views : forall v, wfb v = true -> top_ok v ->
  as_i64_w (enc v) = Ok (value_as_i64 v) /\ as_u64_w (enc v) = Ok (value_as_u64 v) /\
  as_bool_w (enc v) = Ok (value_as_bool v) /\ as_str_w (enc v) = Ok (value_as_str v) /\
  as_number_w (enc v) = Ok (value_as_number (normalise v)) /\ as_f64_w (enc v) = Ok (value_as_f64 (normalise v)).
Proof.
  intros v Hw Ht. split; [exact (value_as_i64_bytes v Hw Ht)|]. split; [exact (value_as_u64_bytes v Hw Ht)|].
  split; [exact (value_as_bool_bytes v Hw Ht)|]. split; [exact (value_as_str_bytes v Hw Ht)|].
  split; [exact (value_as_number_bytes v Hw Ht)|exact (value_as_f64_bytes v Hw Ht)].
Qed.
Print Assumptions ValueApi_as_views.

Theorem ValueApi_is_tests : forall v, wfb v = true -> top_ok v ->
  as_null_w (enc v) = Ok (value_is_null v) /\ is_array_w (enc v) = Ok (value_is_array v) /\
  is_object_w (enc v) = Ok (value_is_object v) /\
  type_of_w (enc v) = Ok (match discriminant v with 2 => 3 | 3 => 2 | d => d end).
Proof. exact value_is_bytes. Qed.
Print Assumptions ValueApi_is_tests.

Theorem ValueApi_eq_variant : forall a b, wfb a = true -> top_ok a -> wfb b = true -> top_ok b ->
  exists ta tb, type_of_w (enc a) = Ok ta /\ type_of_w (enc b) = Ok tb /\ value_eq_variant a b = (ta =? tb).
Proof. exact value_eq_variant_bytes. Qed.
Print Assumptions ValueApi_eq_variant.

(* ---- from.rs ---- *)
Theorem ValueApi_from_i64 : forall z,
  value_as_i64 (from_i64 z) = Some z /\
  value_as_u64 (from_i64 z) = (if (0 <=? z)%Z then Some (Z.to_N z) else None) /\
  value_is_number (from_i64 z) = true /\ value_is_f64 (from_i64 z) = true /\
  wf_shape (from_i64 z) = ((- two63 <=? z) && (z <? two63))%Z.
Proof. exact from_i64_views. Qed.
Print Assumptions ValueApi_from_i64.

Theorem ValueApi_from_u64 : forall n,
  value_as_u64 (from_u64 n) = Some n /\
  value_as_i64 (from_u64 n) = (if (Z.of_N n <? two63)%Z then Some (Z.of_N n) else None) /\
  value_is_number (from_u64 n) = true /\ wf_shape (from_u64 n) = (n <? two64).
Proof. exact from_u64_views. Qed.
Print Assumptions ValueApi_from_u64.

Theorem ValueApi_from_f64 : forall b,
  value_as_f64 (from_f64 b) = Some b /\ value_as_i64 (from_f64 b) = None /\ value_as_u64 (from_f64 b) = None /\
  value_is_number (from_f64 b) = true.
Proof. exact from_f64_views. Qed.
Print Assumptions ValueApi_from_f64.

Theorem ValueApi_from_integers_roundtrip :
  (forall z, (- two63 <= z < two63)%Z -> from_slice (to_vec (from_i64 z)) = Ok (if (z =? 0)%Z then from_u64 0 else from_i64 z)) /\
  (forall n, n < two64 -> from_slice (to_vec (from_u64 n)) = Ok (from_u64 n)).
Proof. split; [exact from_i64_roundtrip|exact from_u64_roundtrip]. Qed.
Print Assumptions ValueApi_from_integers_roundtrip.

Theorem ValueApi_from_scalars :
  (forall b, value_as_bool (from_bool b) = Some b) /\ (forall s, value_as_str (from_string s) = Some s) /\
  value_is_null from_unit = true /\
  (forall A (f : A -> value) l, value_array_length (from_vec f l) = Some (lenN l)) /\
  (forall o, value_as_object (from_object o) = Some o).
Proof. exact from_scalars. Qed.
Print Assumptions ValueApi_from_scalars.

(* ---- lazy_value.rs ---- *)
Theorem ValueApi_lazy_write_to_vec_appends : forall l, (forall v, l = LValue v -> wf_size v = true) ->
  forall buf, lazy_write_to_vec buf l = buf ++ lazy_to_vec l.
Proof. exact lazy_write_to_vec_appends. Qed.
Print Assumptions ValueApi_lazy_write_to_vec_appends.

Theorem ValueApi_lazy_write_to_vec_keeps_prefix : forall l, (forall v, l = LValue v -> wf_size v = true) ->
  forall buf, exists suffix, lazy_write_to_vec buf l = buf ++ suffix /\ lazy_write_to_vec [] l = suffix.
Proof. exact lazy_write_to_vec_keeps_prefix. Qed.
Print Assumptions ValueApi_lazy_write_to_vec_keeps_prefix.

(* without any size hypothesis: the caller's bytes are kept by Value::write_to_vec and by LazyValue::write_to_vec, whatever the value *)
Theorem ValueApi_write_to_vec_only_appends :
  (forall v buf, write_to_vec buf v = buf ++ write_to_vec [] v) /\
  (forall l buf, lazy_write_to_vec buf l = buf ++ lazy_write_to_vec [] l).
Proof. split; [exact write_to_vec_only_appends|exact lazy_write_to_vec_only_appends]. Qed.
Print Assumptions ValueApi_write_to_vec_only_appends.

Theorem ValueApi_lazy_to_vec : forall v, wf_size v = true ->
  lazy_to_vec (LRaw (enc v)) = enc v /\ lazy_to_vec (lazy_of_value v) = enc v.
Proof. exact lazy_to_vec_both. Qed.
Print Assumptions ValueApi_lazy_to_vec.

Theorem ValueApi_lazy_to_value : forall v, wfb v = true ->
  lazy_to_value (LRaw (enc v)) = Ok (normalise v) /\ lazy_to_value (lazy_of_value v) = Ok v.
Proof. exact lazy_to_value_both. Qed.
Print Assumptions ValueApi_lazy_to_value.

Theorem ValueApi_lazy_array_length : forall v, wfb v = true -> top_ok v ->
  lazy_array_length_w (LRaw (enc v)) = Ok (value_array_length v) /\
  lazy_array_length_w (lazy_of_value v) = Ok (value_array_length v).
Proof. exact lazy_array_length_both. Qed.
Print Assumptions ValueApi_lazy_array_length.

Theorem ValueApi_parse_lazy_value_keeps_encodings : forall v, wfb v = true -> top_ok v ->
  parse_lazy_value (enc v) = Ok (LRaw (enc v)).
Proof. exact parse_lazy_value_enc. Qed.
Print Assumptions ValueApi_parse_lazy_value_keeps_encodings.

(* ---- From<f32>: the widening is exact (values in units of 2^-149 and 2^-1074), infinities and NaNs stay what they are ---- *)
Theorem ValueApi_from_f32_is_exact : forall b, f32_exp b <> 255 ->
  f_scaled (f32_to_f64 b) = (f32_scaled b * 2 ^ 925)%Z /\ f_is_nan (f32_to_f64 b) = false /\ f_is_inf (f32_to_f64 b) = false.
Proof. exact f32_to_f64_exact. Qed.
Print Assumptions ValueApi_from_f32_is_exact.

Theorem ValueApi_from_f32_nonfinite : forall b, f32_exp b = 255 ->
  (f32_man b = 0 -> f32_to_f64 b = if f32_sign b then F_NEG_INF else F_INF) /\
  (f32_man b <> 0 -> f_is_nan (f32_to_f64 b) = true /\ f_sign (f32_to_f64 b) = f32_sign b).
Proof. exact f32_to_f64_nonfinite. Qed.
Print Assumptions ValueApi_from_f32_nonfinite.

(* ---- impl Display for Value against to_string ----
   display_safe v (ValueApi.v): every STRING of v consists of printable ASCII (quote and backslash included), TAB, LF, CR and
   non-ASCII chars that <str as Debug> does not escape (DebugTable.v); every KEY of bytes >= 0x20 other than quote and backslash.
   plain_value v: strings and keys of printable ASCII without quote and backslash.  pf is the float printer (ryu), a parameter. *)
Theorem ValueApi_display_agrees_with_to_string : forall pf v, display_safe v = true -> display pf v = to_string_t pf v.
Proof. exact display_agrees_with_to_string. Qed.
Print Assumptions ValueApi_display_agrees_with_to_string.

Theorem ValueApi_display_agrees_with_to_string_on_plain : forall pf v, plain_value v = true -> display pf v = to_string_t pf v.
Proof. exact display_agrees_with_to_string_on_plain. Qed.
Print Assumptions ValueApi_display_agrees_with_to_string_on_plain.

(* ... and with the byte walker: to_string of the encoding prints what Display prints for the decoded tree; with the
   correspondence's placeholder printer, for the tree itself *)
Theorem ValueApi_display_is_to_string_of_the_encoding : forall pf v, wfb v = true -> top_ok v -> display_safe v = true ->
  to_string_w' pf (enc v) = Ok (display pf (normalise v)).
Proof. exact display_is_to_string_of_the_encoding. Qed.
Print Assumptions ValueApi_display_is_to_string_of_the_encoding.

Theorem ValueApi_display_t_is_to_string_w : forall v, wfb v = true -> top_ok v -> display_safe v = true ->
  to_string_w (enc v) = Ok (display_t v).
Proof. exact display_t_is_to_string_w. Qed.
Print Assumptions ValueApi_display_t_is_to_string_w.

(* where they differ (an observation, no listed property speaks about Display): a key holding a quote makes Display print text that
   is not JSON -- the crate's own parser does not read it back --, while to_string escapes it *)
Example ValueApi_display_differs :
  let v := VObj [([97; 34; 98], VNum (NUInt 1))] in
  wfb v = true /\
  display_t v = [123; 34; 97; 34; 98; 34; 58; 49; 125] /\
  to_string_t float_placeholder v = [123; 34; 97; 92; 34; 98; 34; 58; 49; 125] /\
  JsonText.parse_value (display_t v) <> Ok v /\ JsonText.parse_value (to_string_t float_placeholder v) = Ok v.
Proof. exact display_differs_key_with_quote. Qed.

(* not vacuous *)
Example ValueApi_helpers_example :
  let v := VObj [([65; 98], VArr [VNum (NInt 0); VStr [120]]); ([97], VNull)] in
  wfb v = true /\ value_get_by_name_ignore_case v [97; 66] = Some (VArr [VNum (NInt 0); VStr [120]]) /\
  get_by_name_w (enc v) [97; 66] true = Ok (Some (enc (VArr [VNum (NInt 0); VStr [120]]))) /\
  object_keys_w (enc v) = Ok (Some (enc (VArr [VStr [65; 98]; VStr [97]]))) /\
  lazy_to_value (LRaw (enc v)) = Ok (VObj [([65; 98], VArr [VNum (NUInt 0); VStr [120]]); ([97], VNull)]) /\
  lazy_write_to_vec [1; 2] (LRaw (enc v)) = [1; 2] ++ enc v /\ lazy_write_to_vec [1; 2] (LValue v) = [1; 2] ++ enc v.
Proof. vm_compute. repeat split. Qed.
