(* C02 — the JSON text parser accepts exactly the documented language, with standard meaning. *)
From Coq Require Import List NArith ZArith Bool.
Import ListNotations.
From JB Require Import Constants Bytes Utf8 Num Value JsonText TextProofs Render SerdeProofs TextRoundtrip.
Open Scope N_scope.

(* every byte string is answered with a value or an error, never a panic: the first pass over a string literal
   establishes the invariant that makes every index and read_exact of the second pass safe *)
Theorem C02_parser_never_panics : forall bs, parse_value bs <> Panic.
Proof. exact parse_value_total. Qed.
Print Assumptions C02_parser_never_panics.

Theorem C02_first_pass_invariant :
  forall fuel bs acc esc data e rest,
    scan_string fuel bs acc esc = Some (data, e, rest) -> exists body, data = rev acc ++ body /\ esc_ok body.
Proof. exact scan_string_esc_ok. Qed.
Print Assumptions C02_first_pass_invariant.

(* pinned behaviour on a document that uses escapes, a negative zero float, whitespace and a nested object *)
Example C02_example_document :
  parse_value [91; 49; 44; 32; 45; 48; 46; 53; 101; 49; 44; 32; 123; 34; 97; 92; 117; 48; 48; 52; 49; 34; 58; 32; 110; 117; 108; 108; 125; 93]
  = Ok (VArr [VNum (NUInt 1); VNum (NFloat 13840687554816376832); VObj [([97; 65], VNull)]]).
Proof. vm_compute. reflexivity. Qed.
Print Assumptions C02_example_document.

(* ---- accepted with the standard meaning: every document the library itself prints, for every well-formed value
   without floats (strings with every escape the printer emits: the seven short escapes and \u00XX for the other
   control characters; integers of both signs up to the 64-bit limits; the three literals; arrays and objects of any
   size and nesting).  pf is the float printer, irrelevant here.  The value comes back with its non-negative
   integers unsigned, which is how the text parser types them. *)
Theorem C02_printed_documents_parse_to_their_meaning :
  forall pf v, wf_shape v = true -> no_float v = true -> parse_value (to_string_t pf v) = Ok (unsign v).
Proof. exact parse_render_roundtrip. Qed.
Print Assumptions C02_printed_documents_parse_to_their_meaning.

(* a string literal with any mixture of plain bytes and escapes reads back as the string *)
Theorem C02_string_literals : forall s rest, bytes_ok s -> utf8_valid s = true ->
  parse_json_string (flat_map escape_byte s ++ 34 :: rest) = Ok (s, rest).
Proof. exact string_roundtrip. Qed.
Print Assumptions C02_string_literals.

(* integer tokens: u64 exact, negative i64 exact *)
Theorem C02_unsigned_integers_exact : forall n rest, n < two64 -> ends_number rest ->
  parse_json_number (dec_digits n ++ rest) = Ok (VNum (NUInt n), rest).
Proof. exact parse_uint_token. Qed.
Theorem C02_negative_integers_exact : forall z rest, (- two63 <= z < 0)%Z -> ends_number rest ->
  parse_json_number (dec_Z z ++ rest) = Ok (VNum (NInt z), rest).
Proof. exact parse_negint_token. Qed.
Print Assumptions C02_negative_integers_exact.

(* "every other number rounded to the nearest double ... numbers beyond the double range becoming infinities": the exact
   integer algorithm Decimal.round_dec that the model uses for this is Flocq's IEEE-754 binary64 round-to-nearest-even
   (FlocqLink.v).  Flocq's real-number development rests on the standard library's classical-real axioms (the four allowed). *)
From Coq Require Import Reals.
From Flocq Require Import Core.Core IEEE754.BinarySingleNaN IEEE754.Binary IEEE754.Bits.
From JB Require Import Decimal FlocqLink.

(* every sign, decimal mantissa and decimal exponent (positive or negative): the pattern returned denotes the nearest-even
   rounding of +-m10 * 10^e10, or the infinity of that sign exactly when that rounding reaches 2^1024 *)
Theorem C02_decimal_reader_is_flocq_nearest_even :
  forall (neg : bool) (m10 e10 : Z), (0 <= m10)%Z ->
  let x := F2R (Float radix10 (cond_Zopp neg m10) e10) in
  let r := round radix2 (FLT_exp (-1074) 53) ZnearestE x in
  let f := b64_of_bits (Z.of_N (round_dec neg m10 e10)) in
  if Rlt_bool (Rabs r) (bpow radix2 1024)
  then B2R 53 1024 f = r /\ is_finite 53 1024 f = true /\ Bsign 53 1024 f = neg
  else f = B754_infinity 53 1024 neg.
Proof. exact round_dec_is_nearest_even. Qed.
Print Assumptions C02_decimal_reader_is_flocq_nearest_even.

(* non-negative decimal exponent: both sides compute, and agree on overflow too *)
Theorem C02_decimal_reader_is_flocq_binary_normalize :
  forall (neg : bool) (m10 e10 : Z), (0 <= m10)%Z -> (0 <= e10)%Z ->
  Z.of_N (round_dec neg m10 e10) =
  bits_of_b64 (binary_normalize 53 1024 eq_refl eq_refl mode_NE (cond_Zopp neg m10 * 10 ^ e10) 0 neg).
Proof. exact round_dec_is_flocq_binary_normalize. Qed.
Print Assumptions C02_decimal_reader_is_flocq_binary_normalize.

(* as the parser calls it: integer digits, fraction digits and exponent of a literal (ASCII digits are never below '0') *)
Theorem C02_number_literal_is_nearest_even :
  forall (neg : bool) (ids fds : list N) (e : Z),
  Forall (fun d => (48 <= d)%N) ids -> Forall (fun d => (48 <= d)%N) fds ->
  let m10 := digits_val fds (digits_val ids 0%Z) in
  let e10 := (e - Z.of_nat (length fds))%Z in
  let r := round radix2 (FLT_exp (-1074) 53) ZnearestE (F2R (Float radix10 (cond_Zopp neg m10) e10)) in
  let f := b64_of_bits (Z.of_N (round_dec neg m10 e10)) in
  if Rlt_bool (Rabs r) (bpow radix2 1024)
  then B2R 53 1024 f = r /\ is_finite 53 1024 f = true /\ Bsign 53 1024 f = neg
  else f = B754_infinity 53 1024 neg.
Proof. exact decimal_literal_is_nearest_even. Qed.
Print Assumptions C02_number_literal_is_nearest_even.
