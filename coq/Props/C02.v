(* C02 — the JSON text parser accepts exactly the documented language, with standard meaning. *)
From Coq Require Import List NArith ZArith Bool.
Import ListNotations.
From JB Require Import Constants Bytes Num Value JsonText TextProofs.
Open Scope N_scope.

(* every byte string is answered with a value or an error, never a panic: the first pass over a string literal
   establishes the invariant that makes every index and read_exact of the second pass safe *)
Theorem C02_parser_never_panics : forall bs, parse_value bs <> Panic.
Proof. exact parse_value_total. Qed.
Print Assumptions C02_parser_never_panics.

Theorem C02_first_pass_invariant :
  forall fuel bs acc esc data e rest,
    scan_string fuel bs acc esc = Some (data, e, rest) -> exists body, data = rev acc ++ body /\ esc_ok body.
Proof. exact scan_string_esc_ok. Qed.
Print Assumptions C02_first_pass_invariant.

(* pinned behaviour on a document that uses escapes, a negative zero float, whitespace and a nested object *)
Example C02_example_document :
  parse_value [91; 49; 44; 32; 45; 48; 46; 53; 101; 49; 44; 32; 123; 34; 97; 92; 117; 48; 48; 52; 49; 34; 58; 32; 110; 117; 108; 108; 125; 93]
  = Ok (VArr [VNum (NUInt 1); VNum (NFloat 13840687554816376832); VObj [([97; 65], VNull)]]).
Proof. vm_compute. reflexivity. Qed.
Print Assumptions C02_example_document.
