(* C02 — the JSON text parser accepts exactly the documented language, with standard meaning. *)
From Coq Require Import List NArith ZArith Bool.
Import ListNotations.
From JB Require Import Constants Bytes Utf8 Num Value JsonText TextProofs Render SerdeProofs TextRoundtrip JsonGrammar JsonGrammarProofs.
Open Scope N_scope.

(* every byte string is answered with a value or an error, never a panic: the first pass over a string literal
   establishes the invariant that makes every index and read_exact of the second pass safe *)
Theorem C02_parser_never_panics : forall bs, parse_value bs <> Panic.
Proof. exact parse_value_total. Qed.
Print Assumptions C02_parser_never_panics.

Theorem C02_first_pass_invariant :
  forall fuel bs acc esc data e rest,
    scan_string fuel bs acc esc = Some (data, e, rest) -> exists body, data = rev acc ++ body /\ esc_ok body.
Proof. exact scan_string_esc_ok. Qed.
Print Assumptions C02_first_pass_invariant.

(* pinned behaviour on a document that uses escapes, a negative zero float, whitespace and a nested object *)
Example C02_example_document :
  parse_value [91; 49; 44; 32; 45; 48; 46; 53; 101; 49; 44; 32; 123; 34; 97; 92; 117; 48; 48; 52; 49; 34; 58; 32; 110; 117; 108; 108; 125; 93]
  = Ok (VArr [VNum (NUInt 1); VNum (NFloat 13840687554816376832); VObj [([97; 65], VNull)]]).
Proof. vm_compute. reflexivity. Qed.
Print Assumptions C02_example_document.

(* ---- accepted with the standard meaning: every document the library itself prints, for every well-formed value
   without floats (strings with every escape the printer emits: the seven short escapes and \u00XX for the other
   control characters; integers of both signs up to the 64-bit limits; the three literals; arrays and objects of any
   size and nesting).  pf is the float printer, irrelevant here.  The value comes back with its non-negative
   integers unsigned, which is how the text parser types them. *)
Theorem C02_printed_documents_parse_to_their_meaning :
  forall pf v, wf_shape v = true -> no_float v = true -> parse_value (to_string_t pf v) = Ok (unsign v).
Proof. exact parse_render_roundtrip. Qed.
Print Assumptions C02_printed_documents_parse_to_their_meaning.

(* a string literal with any mixture of plain bytes and escapes reads back as the string *)
Theorem C02_string_literals : forall s rest, bytes_ok s -> utf8_valid s = true ->
  parse_json_string (flat_map escape_byte s ++ 34 :: rest) = Ok (s, rest).
Proof. exact string_roundtrip. Qed.
Print Assumptions C02_string_literals.

(* integer tokens: u64 exact, negative i64 exact *)
Theorem C02_unsigned_integers_exact : forall n rest, n < two64 -> ends_number rest ->
  parse_json_number (dec_digits n ++ rest) = Ok (VNum (NUInt n), rest).
Proof. exact parse_uint_token. Qed.
Print Assumptions C02_unsigned_integers_exact.
Theorem C02_negative_integers_exact : forall z rest, (- two63 <= z < 0)%Z -> ends_number rest ->
  parse_json_number (dec_Z z ++ rest) = Ok (VNum (NInt z), rest).
Proof. exact parse_negint_token. Qed.
Print Assumptions C02_negative_integers_exact.

(* ================================================================== the documented language, exactly (JsonGrammar.v) *)
(* jtext t v (JsonGrammar.v): t is a text of the documented language and v the value it denotes.  The grammar is a
   transcription of RFC 8259 plus the relaxations: ws also form feed and the escaped forms \n \r \t \x0C; strings with raw
   control characters, \u{XXXX} (exactly four hex digits), unpaired surrogate escapes kept as text; integers exact in
   u64 / (with a minus sign) i64, other numbers the nearest double (infinity beyond the range); last duplicate key wins.
   Productions named DEV_ / commented DEV are behaviours of the crate that are not in the property text:
   a \u escape right after an unpaired high surrogate escape is kept as text too; bracketed surrogates lose their braces. *)

(* COMPLETENESS: every text of the documented language (in particular every RFC 8259 document, of any nesting depth)
   is accepted and yields the value it denotes *)
Theorem C02_every_documented_text_is_accepted_with_its_meaning : forall t v, jtext t v -> parse_value t = Ok v.
Proof. exact grammar_complete. Qed.
Print Assumptions C02_every_documented_text_is_accepted_with_its_meaning.

(* SOUNDNESS: nothing outside the documented language is accepted, and an accepted text never gets another value *)
Theorem C02_nothing_else_is_accepted : forall bs v, parse_value bs = Ok v -> jtext bs v.
Proof. exact grammar_sound. Qed.
Print Assumptions C02_nothing_else_is_accepted.

(* hence every other byte string is rejected with an error (never a panic, never a value) *)
Theorem C02_every_other_byte_string_is_an_error : forall bs, (forall v, ~ jtext bs v) -> exists e, parse_value bs = Err e.
Proof.
  intros bs H. destruct (parse_value bs) as [v|e|] eqn:P.
  - exfalso. apply (H v). apply grammar_sound. exact P.
  - exists e. reflexivity.
  - exfalso. exact (parse_value_total bs P).
Qed.
Print Assumptions C02_every_other_byte_string_is_an_error.

(* the pieces: string literals and number tokens, both directions, in any context *)
Theorem C02_string_literals_exact : forall bs s rest,
  parse_json_string bs = Ok (s, rest) <-> exists b, bs = b ++ 34 :: rest /\ jstring_body b s /\ utf8_valid s = true.
Proof.
  intros bs s rest. split; [apply string_sound|]. intros (b & -> & Hb & Hu). apply string_complete; assumption.
Qed.
Theorem C02_number_tokens_accepted : forall t n rest, jnumber t n -> ends_number rest -> parse_json_number (t ++ rest) = Ok (VNum n, rest).
Proof. exact number_complete. Qed.
Print Assumptions C02_number_tokens_accepted.
Theorem C02_number_tokens_only : forall bs v rest, parse_json_number bs = Ok (v, rest) -> exists t n, bs = t ++ rest /\ v = VNum n /\ jnumber t n.
Proof. exact number_sound. Qed.
Print Assumptions C02_string_literals_exact.
Print Assumptions C02_number_tokens_only.

(* RFC 8259 alone (rfc_text, JsonGrammar.v: the grammar with every relaxation removed; the text of each string UTF-8) is
   part of the documented language, so every RFC 8259 document is accepted and yields the value it denotes *)
Theorem C02_rfc8259_is_part_of_the_documented_language : forall t v, rfc_text t v -> jtext t v.
Proof. exact rfc_text_jtext. Qed.
Print Assumptions C02_rfc8259_is_part_of_the_documented_language.
Theorem C02_every_rfc8259_document_is_accepted_with_its_meaning : forall t v, rfc_text t v -> parse_value t = Ok v.
Proof. exact rfc_complete. Qed.
Print Assumptions C02_every_rfc8259_document_is_accepted_with_its_meaning.
(* [1, "a"] *)
Example C02_example_rfc_document : rfc_text [91; 49; 44; 32; 34; 97; 34; 93] (VArr [VNum (NUInt 1); VStr [97]]).
Proof.
  apply (RElem [] [91; 49; 44; 32; 34; 97; 34; 93] _ []); [constructor| |constructor].
  apply (RV_array [49; 44; 32; 34; 97; 34]). apply (REs_cons [49] _ [32; 34; 97; 34]).
  - apply (RElem [] [49] _ []); [constructor| |constructor]. apply RV_number.
    apply (Number false [49] [] [] [] 0); [apply Int_nonzero; [reflexivity|discriminate|constructor]|constructor|constructor].
  - apply REs_one. apply (RElem [32] [34; 97; 34] _ []); [apply RWS_char; [tauto|constructor]| |constructor].
    apply RV_string. apply (RStr [97] [97]); [apply RB_raw; [discriminate|discriminate|discriminate|constructor]|reflexivity].
Qed.
Print Assumptions C02_example_rfc_document.

(* RFC 8259 requires the text to be UTF-8, the grammar requires the denoted string to be UTF-8: for the bytes between
   the quotes of any string literal of the grammar the two conditions coincide (escapes are ASCII in the text and whole
   UTF-8 sequences in the meaning), so the grammar does not reject any RFC 8259 string and accepts no ill-formed text *)
Theorem C02_string_is_utf8_iff_its_text_is : forall b s, jstring_body b s -> utf8_valid b = utf8_valid s.
Proof. exact body_utf8. Qed.
Print Assumptions C02_string_is_utf8_iff_its_text_is.

(* "last duplicate key wins": looking a name up in the object denoted by a member list gives the value of the last
   member with that name *)
Theorem C02_last_duplicate_key_wins : forall ms k, assoc_lookup k (assoc_of_list ms) = last_binding k ms.
Proof. exact object_last_duplicate_wins. Qed.
Print Assumptions C02_last_duplicate_key_wins.

(* ---- the grammar is inhabited by the spellings the printer never emits: derivations built by hand ---- *)
(* between the quotes: the eight two-character escapes (quote, backslash, /, b, f, n, r, t), then \u00e9, \u{00E9}, the pair \uD83D\ude00,
   \uDC00 (unpaired low), the raw control character 0x01, \uD800 (unpaired high, last in the string) *)
Definition ex_body : list N :=
  [92; 34; 92; 92; 92; 47; 92; 98; 92; 102; 92; 110; 92; 114; 92; 116; 92; 117; 48; 48; 101; 57; 92; 117; 123; 48; 48; 69; 57; 125;
   92; 117; 68; 56; 51; 68; 92; 117; 100; 101; 48; 48; 92; 117; 68; 67; 48; 48; 1; 92; 117; 68; 56; 48; 48].
Definition ex_body_meaning : list N :=
  [34; 92; 47; 8; 12; 10; 13; 9; 195; 169; 195; 169; 240; 159; 152; 128; 92; 117; 68; 67; 48; 48; 1; 92; 117; 68; 56; 48; 48].
Example C02_example_string_derivation : jstring_body ex_body ex_body_meaning.
Proof.
  unfold ex_body, ex_body_meaning.
  do 8 (apply B_short; [reflexivity|]).
  apply (B_unicode [92; 117; 48; 48; 101; 57] [48; 48; 101; 57] 233); [apply U_plain; reflexivity|reflexivity|reflexivity|].
  apply (B_unicode [92; 117; 123; 48; 48; 69; 57; 125] [48; 48; 69; 57] 233); [apply (U_braced [48; 48; 69; 57]); reflexivity|reflexivity|reflexivity|].
  apply (B_pair [92; 117; 68; 56; 51; 68] [68; 56; 51; 68] 55357 [92; 117; 100; 101; 48; 48] [100; 101; 48; 48] 56832);
    [apply U_plain; reflexivity|reflexivity|apply U_plain; reflexivity|reflexivity|].
  apply (B_lone_low [92; 117; 68; 67; 48; 48] [68; 67; 48; 48] 56320); [apply U_plain; reflexivity|reflexivity|].
  apply B_raw; [discriminate|discriminate|].
  apply (B_lone_high [92; 117; 68; 56; 48; 48] [68; 56; 48; 48] 55296 [] []); [apply U_plain; reflexivity|reflexivity|reflexivity|].
  apply B_end.
Qed.
Print Assumptions C02_example_string_derivation.
Example C02_example_string_parsed : parse_json_string (ex_body ++ [34; 58]) = Ok (ex_body_meaning, [58]).
Proof. vm_compute. reflexivity. Qed.
Print Assumptions C02_example_string_parsed.

(* 1.5e3 and 1E-2 are doubles, -0 is the signed integer 0, 2^64 no longer fits and becomes a double, 1e400 is +infinity *)
Example C02_example_number_derivations :
  jnumber [49; 46; 53; 101; 51] (NFloat 4654311885213007872) /\ jnumber [45; 48] (NInt 0) /\
  jnumber [49; 69; 45; 50] (NFloat 4576918229304087675) /\
  jnumber [49; 56; 52; 52; 54; 55; 52; 52; 48; 55; 51; 55; 48; 57; 53; 53; 49; 54; 49; 54] (NFloat 4895412794951729152) /\
  jnumber [49; 101; 52; 48; 48] (NFloat 9218868437227405312).
Proof.
  assert (D : forall l, forallb is_digit l = true -> digits l) by (intros l H; apply Forall_forall; apply forallb_forall; exact H).
  repeat split.
  - apply (Number false [49] [46; 53] [53] [101; 51] 3);
      [apply Int_nonzero; [reflexivity|discriminate|constructor]|apply Frac_some; [discriminate|apply D; reflexivity]|
       apply (Exp_some 101 [] false [51]); [tauto|constructor|discriminate|apply D; reflexivity]].
  - apply (Number true [48] [] [] [] 0); constructor.
  - apply (Number false [49] [] [] [69; 45; 50] (-2));
      [apply Int_nonzero; [reflexivity|discriminate|constructor]|constructor|
       apply (Exp_some 69 [45] true [50]); [tauto|constructor|discriminate|apply D; reflexivity]].
  - apply (Number false [49; 56; 52; 52; 54; 55; 52; 52; 48; 55; 51; 55; 48; 57; 53; 53; 49; 54; 49; 54] [] [] [] 0);
      [apply Int_nonzero; [reflexivity|discriminate|apply D; reflexivity]|constructor|constructor].
  - apply (Number false [49] [] [] [101; 52; 48; 48] 400);
      [apply Int_nonzero; [reflexivity|discriminate|constructor]|constructor|
       apply (Exp_some 101 [] false [52; 48; 48]); [tauto|constructor|discriminate|apply D; reflexivity]].
Qed.
Print Assumptions C02_example_number_derivations.

(* {"a":1,\x0C"a":[<tab>] <form feed>}: the four characters \x0C before a token, a duplicate key (the last one wins), a tab inside an empty
   array, a space and a raw form feed before the closing brace: derivation by hand, and the parser's answer *)
Definition ex_small : list N := [123; 34; 97; 34; 58; 49; 44; 92; 120; 48; 67; 34; 97; 34; 58; 91; 9; 93; 32; 12; 125].
Example C02_example_document_derivation : jtext ex_small (VObj [([97], VArr [])]).
Proof.
  assert (Ka : jstring [34; 97; 34] [97]).
  { apply (Str [97] [97]); [apply B_raw; [discriminate|discriminate|apply B_end]|reflexivity]. }
  apply (Elem [] ex_small _ []); [constructor| |constructor].
  change (VObj [([97], VArr [])]) with (VObj (assoc_of_list [([97], VNum (NUInt 1)); ([97], VArr [])])).
  apply (V_object [34; 97; 34; 58; 49; 44; 92; 120; 48; 67; 34; 97; 34; 58; 91; 9; 93; 32; 12]).
  apply (Ms_cons [34; 97; 34] [97] [49] (VNum (NUInt 1)) [92; 120; 48; 67; 34; 97; 34; 58; 91; 9; 93; 32; 12]).
  - apply (Key [] [34; 97; 34] [97] []); [constructor|exact Ka|constructor].
  - apply (Elem [] [49] _ []); [constructor| |constructor]. apply V_number.
    apply (Number false [49] [] [] [] 0); [apply Int_nonzero; [reflexivity|discriminate|constructor]|constructor|constructor].
  - apply (Ms_one [92; 120; 48; 67; 34; 97; 34] [97] [91; 9; 93; 32; 12]).
    + apply (Key [92; 120; 48; 67] [34; 97; 34] [97] []); [apply WS_escaped_form_feed; constructor|exact Ka|constructor].
    + apply (Elem [] [91; 9; 93] _ [32; 12]); [constructor| |apply WS_rfc; [tauto|apply WS_form_feed; constructor]].
      apply (V_empty_array [9]). apply WS_rfc; [tauto|constructor].
Qed.
Print Assumptions C02_example_document_derivation.
Example C02_example_document_parsed : parse_value ex_small = Ok (VObj [([97], VArr [])]).
Proof. vm_compute. reflexivity. Qed.
Print Assumptions C02_example_document_parsed.

(* a larger text with every feature at once: escaped and raw relaxed whitespace between tokens, every escape kind, a
   surrogate pair, \u{00E9}, fraction / exponent numbers, -0, integers beyond u64 and at the i64 limit, duplicate keys,
   and the deviation: the literal "\uD800\u0041" denotes those twelve characters.  It parses (vm_compute), hence (soundness) it is derivable *)
Definition ex_large : list N :=
  [92; 110; 123; 32; 34; 107; 92; 117; 48; 48; 101; 57; 34; 32; 58; 9; 91; 49; 46; 53; 101; 51; 32; 44; 32; 45; 48; 44; 49; 69; 45; 50; 44; 49; 56; 52; 52; 54; 55; 52; 52; 48; 55; 51; 55; 48; 57; 53; 53; 49; 54; 49; 54; 44; 92; 120; 48; 67; 45; 57; 50; 50; 51; 51; 55; 50; 48; 51; 54; 56; 53; 52; 55; 55; 53; 56; 48; 56; 93; 12; 44; 32; 34; 97; 34; 58; 49; 44; 13; 10; 32; 34]
  ++ ex_body ++
  [34; 32; 92; 116; 32; 58; 32; 91; 93; 32; 44; 32; 34; 97; 34; 32; 58; 32; 34; 92; 117; 68; 56; 48; 48; 92; 117; 48; 48; 52; 49; 34; 32; 125; 92; 114; 32].
Definition ex_large_value : value :=
  VObj [(ex_body_meaning, VArr []);
        ([97], VStr [92; 117; 68; 56; 48; 48; 92; 117; 48; 48; 52; 49]);
        ([107; 195; 169], VArr [VNum (NFloat 4654311885213007872); VNum (NInt 0); VNum (NFloat 4576918229304087675);
                                VNum (NFloat 4895412794951729152); VNum (NInt (-9223372036854775808))])].
Example C02_example_large_parsed : parse_value ex_large = Ok ex_large_value.
Proof. vm_compute. reflexivity. Qed.
Print Assumptions C02_example_large_parsed.
Example C02_example_large_derivable : jtext ex_large ex_large_value.
Proof. apply C02_nothing_else_is_accepted. exact C02_example_large_parsed. Qed.

(* not in the language, hence rejected: \u{1F600} (five digits in the brackets), 01, 1., .5, +1, [1,], escaped whitespace \f *)
Example C02_example_rejections :
  map parse_value [[34; 92; 117; 123; 49; 70; 54; 48; 48; 125; 34]; [48; 49]; [49; 46]; [46; 53]; [43; 49]; [91; 49; 44; 93]; [92; 102; 49]]
  = [Err EOther; Err EOther; Err EOther; Err EOther; Err EOther; Err EOther; Err EOther].
Proof. vm_compute. reflexivity. Qed.
Print Assumptions C02_example_rejections.
Print Assumptions C02_example_large_derivable.
(* "every other number rounded to the nearest double ... numbers beyond the double range becoming infinities": the exact
   integer algorithm Decimal.round_dec that the model uses for this is Flocq's IEEE-754 binary64 round-to-nearest-even
   (FlocqLink.v).  Flocq's real-number development rests on the standard library's classical-real axioms (the four allowed). *)
From Coq Require Import Reals.
From Flocq Require Import Core.Core IEEE754.BinarySingleNaN IEEE754.Binary IEEE754.Bits.
From JB Require Import Decimal FlocqLink.

(* every sign, decimal mantissa and decimal exponent (positive or negative): the pattern returned denotes the nearest-even
   rounding of +-m10 * 10^e10, or the infinity of that sign exactly when that rounding reaches 2^1024 *)
Theorem C02_decimal_reader_is_flocq_nearest_even :
  forall (neg : bool) (m10 e10 : Z), (0 <= m10)%Z ->
  let x := F2R (Float radix10 (cond_Zopp neg m10) e10) in
  let r := round radix2 (FLT_exp (-1074) 53) ZnearestE x in
  let f := b64_of_bits (Z.of_N (round_dec neg m10 e10)) in
  if Rlt_bool (Rabs r) (bpow radix2 1024)
  then B2R 53 1024 f = r /\ is_finite 53 1024 f = true /\ Bsign 53 1024 f = neg
  else f = B754_infinity 53 1024 neg.
Proof. exact round_dec_is_nearest_even. Qed.
Print Assumptions C02_decimal_reader_is_flocq_nearest_even.

(* non-negative decimal exponent: both sides compute, and agree on overflow too *)
Theorem C02_decimal_reader_is_flocq_binary_normalize :
  forall (neg : bool) (m10 e10 : Z), (0 <= m10)%Z -> (0 <= e10)%Z ->
  Z.of_N (round_dec neg m10 e10) =
  bits_of_b64 (binary_normalize 53 1024 eq_refl eq_refl mode_NE (cond_Zopp neg m10 * 10 ^ e10) 0 neg).
Proof. exact round_dec_is_flocq_binary_normalize. Qed.
Print Assumptions C02_decimal_reader_is_flocq_binary_normalize.

(* as the parser calls it: integer digits, fraction digits and exponent of a literal (ASCII digits are never below '0') *)
Theorem C02_number_literal_is_nearest_even :
  forall (neg : bool) (ids fds : list N) (e : Z),
  Forall (fun d => (48 <= d)%N) ids -> Forall (fun d => (48 <= d)%N) fds ->
  let m10 := digits_val fds (digits_val ids 0%Z) in
  let e10 := (e - Z.of_nat (length fds))%Z in
  let r := round radix2 (FLT_exp (-1074) 53) ZnearestE (F2R (Float radix10 (cond_Zopp neg m10) e10)) in
  let f := b64_of_bits (Z.of_N (round_dec neg m10 e10)) in
  if Rlt_bool (Rabs r) (bpow radix2 1024)
  then B2R 53 1024 f = r /\ is_finite 53 1024 f = true /\ Bsign 53 1024 f = neg
  else f = B754_infinity 53 1024 neg.
Proof. exact decimal_literal_is_nearest_even. Qed.
Print Assumptions C02_number_literal_is_nearest_even.

(* the whole text (not only its strings) is UTF-8 whenever it parses: white space, punctuation, numbers and literals are
   ASCII, and a string literal is UTF-8 between its quotes exactly when the string it denotes is *)
Theorem C02_parsed_text_is_utf8 : forall t v, parse_value t = Ok v -> utf8_valid t = true.
Proof. exact parsed_text_is_utf8. Qed.
Print Assumptions C02_parsed_text_is_utf8.

(* M6 (second review): the fuel the model passes is never what decides an answer, on ARBITRARY inputs -- also for the loops
   whose exhaustion is an ordinary value (None, Ok None, Ok buf, PErr, the input itself), about which `<> Err EFuel` says
   nothing: any fuel above the one the model passes gives the same answer (FuelIndep.v) *)
From JB Require FuelIndep.
Theorem C02_fuel_is_never_decisive :
  (forall k bs, (length bs < k)%nat -> JsonText.skip_unused_fuel k bs = JsonText.skip_unused bs) /\
  (forall k bs acc esc, (length bs < k)%nat -> JsonText.scan_string k bs acc esc = JsonText.scan_string (S (length bs)) bs acc esc) /\
  (forall k data, (length data < k)%nat -> JsonText.parse_string_fuel k data [] = JsonText.parse_string data) /\
  (forall k bs, (length bs < k)%nat -> JsonText.parse_json_value k bs = JsonText.parse_json_value (S (length bs)) bs) /\
  (forall k m, (Z.log2 m < Z.of_nat k)%Z -> Decimal.ndigits_fuel k m = Decimal.ndigits m).
Proof. split; [exact FuelIndep.skip_unused_any_fuel|split; [exact FuelIndep.scan_string_any_fuel|split; [exact FuelIndep.parse_string_any_fuel|split; [exact FuelIndep.parse_json_value_any_fuel|exact FuelIndep.ndigits_any_fuel]]]]. Qed.
Print Assumptions C02_fuel_is_never_decisive.
