(* C15 — selection modes and path predicates are mutually consistent (over an arbitrary list of selected items). *)
From Coq Require Import List NArith ZArith Bool.
Import ListNotations.
From JB Require Import Constants Bytes Num Value Codec TreeOps Path PathSem ModeProofs.
Open Scope N_scope.

Section C15.
  Variables (root : value) (ps : list path) (items : list value).
  Hypothesis Hsel : find_positions PATH_FUEL root None ps = Ok items.
  Hypothesis Hnp : is_predicate ps = false.

  Theorem C15_first_is_head_of_all : forall buf,
    select_t root ps MFirst buf =
    Ok (match items with [] => (buf, []) | x :: _ => (buf ++ enc x, [lenN buf + lenN (enc x)]) end).
  Proof. exact (first_is_head root ps items Hsel Hnp). Qed.

  Theorem C15_array_holds_all : forall buf,
    select_t root ps MArray buf = Ok (buf ++ enc (VArr items), [lenN buf + lenN (enc (VArr items))]).
  Proof. exact (array_holds_all root ps items Hsel Hnp). Qed.

  Theorem C15_mixed : forall buf,
    select_t root ps MMixed buf = if (1 <? length items)%nat then select_t root ps MArray buf else select_t root ps MAll buf.
  Proof. exact (mixed_def root ps items Hsel Hnp). Qed.

  Theorem C15_exists_iff_nonempty : exists_t root ps = Ok (negb (match items with [] => true | _ => false end)).
  Proof. exact (exists_iff_nonempty root ps items Hsel Hnp). Qed.

  Theorem C15_offsets_delimit_items :
    exists data offs, select_t root ps MAll [] = Ok (data, offs) /\ cut data 0 offs = map enc items.
  Proof. exact (offsets_delimit root ps items Hsel Hnp). Qed.
End C15.
Print Assumptions C15_first_is_head_of_all.
Print Assumptions C15_array_holds_all.
Print Assumptions C15_mixed.
Print Assumptions C15_exists_iff_nonempty.
Print Assumptions C15_offsets_delimit_items.

Theorem C15_predicate_every_mode : forall root e items m buf,
  find_positions PATH_FUEL root None [PPredicate e] = Ok items ->
  select_t root [PPredicate e] m buf = Ok (buf ++ enc (VBool (pred_bool items)), []) /\
  predicate_match_t root [PPredicate e] = Ok (pred_bool items) /\
  exists_t root [PPredicate e] = Ok true.
Proof.
  exact (fun root e items m buf H =>
           conj (predicate_all_modes root e items H m buf)
                (conj (predicate_match_value root e items H) (predicate_exists_true root e))).
Qed.
Print Assumptions C15_predicate_every_mode.
