(* C15 — selection modes and path predicates are mutually consistent (over an arbitrary list of selected items). *)
From Coq Require Import List NArith ZArith Bool.
Import ListNotations.
From JB Require Import Constants Bytes Num Value Codec TreeOps Path PathSem ModeProofs.
Open Scope N_scope.

Section C15.
  Variables (root : value) (ps : list path) (items : list value).
  Hypothesis Hsel : find_positions root None ps = Ok items.
  Hypothesis Hnp : is_predicate ps = false.

  Theorem C15_first_is_head_of_all : forall buf,
    select_t root ps MFirst buf =
    Ok (match items with [] => (buf, []) | x :: _ => (buf ++ enc x, [lenN buf + lenN (enc x)]) end).
  Proof. exact (first_is_head root ps items Hsel Hnp). Qed.

  Theorem C15_array_holds_all : forall buf,
    select_t root ps MArray buf = Ok (buf ++ enc (VArr items), [lenN buf + lenN (enc (VArr items))]).
  Proof. exact (array_holds_all root ps items Hsel Hnp). Qed.

  Theorem C15_mixed : forall buf,
    select_t root ps MMixed buf = if (1 <? length items)%nat then select_t root ps MArray buf else select_t root ps MAll buf.
  Proof. exact (mixed_def root ps items Hsel Hnp). Qed.

  Theorem C15_exists_iff_nonempty : exists_t root ps = Ok (negb (match items with [] => true | _ => false end)).
  Proof. exact (exists_iff_nonempty root ps items Hsel Hnp). Qed.

  Theorem C15_offsets_delimit_items :
    exists data offs, select_t root ps MAll [] = Ok (data, offs) /\ cut data 0 offs = map enc items.
  Proof. exact (offsets_delimit root ps items Hsel Hnp). Qed.
End C15.
Print Assumptions C15_first_is_head_of_all.
Print Assumptions C15_array_holds_all.
Print Assumptions C15_mixed.
Print Assumptions C15_exists_iff_nonempty.
Print Assumptions C15_offsets_delimit_items.

Theorem C15_predicate_every_mode : forall root e items m buf,
  find_positions root None [PPredicate e] = Ok items ->
  select_t root [PPredicate e] m buf = Ok (buf ++ enc (VBool (pred_bool items)), []) /\
  predicate_match_t root [PPredicate e] = Ok (pred_bool items) /\
  exists_t root [PPredicate e] = Ok true.
Proof.
  exact (fun root e items m buf H =>
           conj (predicate_all_modes root e items H m buf)
                (conj (predicate_match_value root e items H) (predicate_exists_true root e))).
Qed.
Print Assumptions C15_predicate_every_mode.

(* ---- the result writers of the selector on byte positions (SelWalk.v build_values / build_scalar_array) ---- *)
From JB Require Import SelWalk SelWalkProofs.

(* build_values copies out the complete document of every item the positions denote and pushes the running ends *)
Theorem C15_bytes_build_values : forall bs poses items, Forall2 (den bs) poses items ->
  forall data offs, build_values_w bs poses data offs = Ok (build_values data items offs).
Proof. exact build_values_w_den. Qed.
Print Assumptions C15_bytes_build_values.
(* build_scalar_array writes exactly the encoding of the array of the denoted items *)
Theorem C15_bytes_build_array : forall bs poses items, Forall2 (den bs) poses items ->
  forall data, build_scalar_array_w bs poses data = Ok (build_array_items data items).
Proof. exact build_scalar_array_w_den. Qed.
Print Assumptions C15_bytes_build_array.

(* the mode laws for the selector on the bytes of any well-formed document *)
Section C15_bytes.
  Variables (v : value) (ps : list path) (items : list value).
  Hypothesis Hwf : wfb v = true.
  Hypothesis Hsel : find_positions (normalise v) None ps = Ok items.
  Hypothesis Hnp : is_predicate ps = false.
  Theorem C15_bytes_first_is_head_of_all : forall buf,
    select_w (enc v) ps MFirst buf = Ok (match items with [] => (buf, []) | x :: _ => (buf ++ enc x, [lenN buf + lenN (enc x)]) end).
  Proof. exact (select_w_first_is_head v ps items Hwf Hsel Hnp). Qed.
  Theorem C15_bytes_array_holds_all : forall buf,
    select_w (enc v) ps MArray buf = Ok (buf ++ enc (VArr items), [lenN buf + lenN (enc (VArr items))]).
  Proof. exact (select_w_array_holds_all v ps items Hwf Hsel Hnp). Qed.
  Theorem C15_bytes_mixed : forall buf,
    select_w (enc v) ps MMixed buf = if (1 <? length items)%nat then select_w (enc v) ps MArray buf else select_w (enc v) ps MAll buf.
  Proof. exact (select_w_mixed v ps items Hwf Hsel Hnp). Qed.
  Theorem C15_bytes_exists_iff_nonempty : sel_exists_w (enc v) ps = Ok (negb (match items with [] => true | _ => false end)).
  Proof. exact (sel_exists_w_iff_nonempty v ps items Hwf Hsel Hnp). Qed.
  Theorem C15_bytes_offsets_delimit_items :
    exists data offs, select_w (enc v) ps MAll [] = Ok (data, offs) /\ cut data 0 offs = map enc items.
  Proof. exact (select_w_offsets_delimit v ps items Hwf Hsel Hnp). Qed.
End C15_bytes.
Print Assumptions C15_bytes_first_is_head_of_all.
Print Assumptions C15_bytes_array_holds_all.
Print Assumptions C15_bytes_mixed.
Print Assumptions C15_bytes_exists_iff_nonempty.
Print Assumptions C15_bytes_offsets_delimit_items.

(* ---- the modes agree on FAILURE (Extra15.v): an error of one mode is the same error in every mode and with any buffer
   content (likewise a panic, likewise success), at tree level and for the selector on the bytes of a valid document *)
From JB Require Import Extra15.
Theorem C15_modes_agree_on_errors :
  (forall root ps m m' buf buf',
     (forall e, select_t root ps m buf = Err e -> select_t root ps m' buf' = Err e) /\
     (select_t root ps m buf = Panic -> select_t root ps m' buf' = Panic) /\
     (forall r, select_t root ps m buf = Ok r -> exists r', select_t root ps m' buf' = Ok r')) /\
  (forall v ps m m' buf buf', wfb v = true ->
     (forall e, select_w (enc v) ps m buf = Err e -> select_w (enc v) ps m' buf' = Err e) /\
     (select_w (enc v) ps m buf = Panic -> select_w (enc v) ps m' buf' = Panic) /\
     (forall r, select_w (enc v) ps m buf = Ok r -> exists r', select_w (enc v) ps m' buf' = Ok r')).
Proof. split; [exact select_t_modes_agree_on_errors|exact select_w_modes_agree_on_errors]. Qed.
Print Assumptions C15_modes_agree_on_errors.

(* exists_path fails exactly when select does (non-predicate paths; for a predicate path exists answers true unevaluated) *)
Theorem C15_exists_fails_with_select : forall root ps m buf, is_predicate ps = false ->
  failure (exists_t root ps) = failure (select_t root ps m buf).
Proof. exact exists_t_fails_with_select. Qed.
Print Assumptions C15_exists_fails_with_select.

(* the hypothesis `find_positions root None ps = Ok items` of the laws above excludes only what the crate also answers with
   an error (or a panic of the model): the evaluators have no recursion budget, a selection never fails for its length *)
From JB Require Import PathNoFuel.
Theorem C15_selection_never_fails_for_its_size :
  (forall root ps, find_positions root None ps <> Err EFuel) /\
  (forall root ps m buf, select_t root ps m buf <> Err EFuel) /\
  (forall bs ps m buf, select_w bs ps m buf <> Err EFuel).
Proof. exact (conj (fun root ps => find_positions_not_fuel root None ps) (conj select_t_not_fuel select_w_not_fuel)). Qed.
Print Assumptions C15_selection_never_fails_for_its_size.
