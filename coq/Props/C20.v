(* C20 — deep nesting and extreme arguments end in a result or an error, never a crash.
   Part A (index arithmetic) is proved here; Part B (stack depth) cannot be expressed in Gallina and is
   exhibited by child processes (see DESIGN.md and evidence). *)
From Coq Require Import ZArith.
From JB Require Import I32.
Open Scope Z_scope.

Theorem C20_negative_positions_in_range : forall idx len, i32 idx -> len_ok len -> i32 (resolve_i32 idx len).
Proof. exact resolve_in_range. Qed.
Print Assumptions C20_negative_positions_in_range.

Theorem C20_insert_position_clamped : forall idx len, i32 idx -> len_ok len ->
  let j := resolve_i32 idx len in 0 <= (if j <? 0 then 0 else if len <? j then len else j) <= len.
Proof. exact insert_clamp_in_range. Qed.
Print Assumptions C20_insert_position_clamped.

Theorem C20_keypath_sum_in_range : forall idx len, i32 idx -> len_ok len -> idx <= len -> i32 (len + idx).
Proof. exact keypath_sum_in_range. Qed.
Print Assumptions C20_keypath_sum_in_range.

Theorem C20_last_index_in_range : forall idx len, i32 idx -> len_ok len -> i64 (len + idx - 1).
Proof. exact last_index_in_range. Qed.
Print Assumptions C20_last_index_in_range.

Theorem C20_last_minus_in_range : forall v n, i64 v -> last_minus v = Some n -> n = (- v)%Z /\ i32 n /\ i64 (- v).
Proof. exact last_minus_in_range. Qed.
Print Assumptions C20_last_minus_in_range.

Theorem C20_slice_bounds : forall s e len, i64 s -> i64 e -> len_ok len -> 0 < len -> s <= e -> s < len -> 0 <= e ->
  0 <= Z.max 0 s <= Z.min (len - 1) e /\ Z.min (len - 1) e < len.
Proof. exact slice_bounds. Qed.
Print Assumptions C20_slice_bounds.

(* the arithmetic before the fixes, refuted *)
Theorem C20_old_abs_refuted : exists idx, i32 idx /\ ~ i32 (Z.abs idx).
Proof. exact abs_overflow_refuted. Qed.
Print Assumptions C20_old_abs_refuted.
Theorem C20_old_last_index_refuted : exists idx len, i32 idx /\ len_ok len /\ ~ i32 (len + idx - 1).
Proof. exact last_index_i32_refuted. Qed.
Print Assumptions C20_old_last_index_refuted.
