(* C20 — deep nesting and extreme arguments end in a result or an error, never a crash.
   Part A (index arithmetic) is proved here; Part B (stack depth) cannot be expressed in Gallina and is
   exhibited by child processes (see DESIGN.md and evidence).

   Part A is about the formulas READ FROM THE SOURCE: DBI_* (delete_by_index), AI_* (array_insert), GBK_* (get_by_keypath),
   DKP_* (delete_by_keypath), CI_* / CS_* (selector.rs convert_index / convert_slice) are generated into gen/Constants.v by
   tools/translate_consts.py, together with X_SAFE = "every + - * and every `as T` of expression X yields a value inside the
   machine type the code computes it in, under the path condition under which it is evaluated".  _T = JSON-text (Value) branch,
   _B = JSONB byte branch of the same function.  The models that the correspondence runs execute call the same definitions. *)
From Coq Require Import ZArith.
From JB Require Import Constants I32.
Open Scope Z_scope.

Theorem C20_negative_positions_in_range : forall idx len, i32 idx -> len_ok len ->
  i32 (DBI_T_RESOLVE idx len) /\ i32 (DBI_B_RESOLVE idx len) /\ i32 (AI_RESOLVE idx len) /\
  i32 (DKP_T_RESOLVE idx len) /\ i32 (DKP_B_RESOLVE idx len).
Proof. exact resolve_in_range. Qed.
Print Assumptions C20_negative_positions_in_range.

Theorem C20_delete_by_index_safe : forall index len, i32 index -> len_ok len ->
  DBI_T_RESOLVE_SAFE index len /\ DBI_T_KEEP_SAFE (DBI_T_RESOLVE index len) len /\
  DBI_B_RESOLVE_SAFE index len /\ DBI_B_SKIP_SAFE (DBI_B_RESOLVE index len) len.
Proof. exact delete_by_index_safe. Qed.
Print Assumptions C20_delete_by_index_safe.

Theorem C20_insert_position_clamped : forall pos len, i32 pos -> len_ok len ->
  AI_RESOLVE_SAFE pos len /\ AI_CLAMP_SAFE (AI_RESOLVE pos len) len /\ 0 <= AI_CLAMP (AI_RESOLVE pos len) len <= len.
Proof. exact insert_position_safe. Qed.
Print Assumptions C20_insert_position_clamped.

Theorem C20_keypath_sum_in_range : forall idx length, i32 idx -> len_ok length ->
  (GBK_T_REJECT_SAFE idx length /\
   (GBK_T_REJECT idx length = false -> GBK_T_INDEX_SAFE idx length /\ 0 <= GBK_T_INDEX idx length <= length)) /\
  (GBK_B_REJECT_SAFE idx length /\
   (GBK_B_REJECT idx length = false -> GBK_B_INDEX_SAFE idx length /\ 0 <= GBK_B_INDEX idx length <= length)).
Proof. exact get_by_keypath_safe. Qed.
Print Assumptions C20_keypath_sum_in_range.

Theorem C20_delete_by_keypath_safe : forall idx len, i32 idx -> len_ok len ->
  DKP_T_RESOLVE_SAFE idx len /\ DKP_T_SKIP_SAFE (DKP_T_RESOLVE idx len) len /\
  DKP_B_RESOLVE_SAFE idx len /\ DKP_B_SKIP_SAFE (DKP_B_RESOLVE idx len) len.
Proof. exact delete_by_keypath_safe. Qed.
Print Assumptions C20_delete_by_keypath_safe.

Theorem C20_last_index_in_range : forall idx length, i32 idx -> len_ok length ->
  (CI_LAST_SAFE idx length /\ i64 (CI_LAST idx length)) /\
  (CS_START_LAST_SAFE idx length /\ i64 (CS_START_LAST idx length)) /\
  (CS_END_LAST_SAFE idx length /\ i64 (CS_END_LAST idx length)).
Proof. exact last_index_safe. Qed.
Print Assumptions C20_last_index_in_range.

Theorem C20_last_minus_in_range : forall v n, i64 v -> last_minus v = Some n -> n = (- v)%Z /\ i32 n /\ i64 (- v).
Proof. exact last_minus_in_range. Qed.
Print Assumptions C20_last_minus_in_range.

Theorem C20_slice_bounds : forall start stop length,
  i64 start -> i64 stop -> len_ok length -> 0 < length -> CS_EMPTY start stop length = false ->
  CS_LO_SAFE start /\ CS_HI_SAFE stop length /\ 0 <= CS_LO start <= CS_HI stop length /\ CS_HI stop length < length.
Proof. exact CS_bounds_safe. Qed.
Print Assumptions C20_slice_bounds.

(* the ranges and the reference shapes, spelled out: i32 / i64 / len_ok are the usual intervals, and the generated formulas are
   `if i < 0 { len + i } else { i }`, `length + idx - 1`, max / min *)
Theorem C20_ranges_spelled_out : forall z,
  (i32 z <-> -2147483648 <= z <= 2147483647) /\ (i64 z <-> -9223372036854775808 <= z <= 9223372036854775807) /\
  (len_ok z <-> 0 <= z < 536870912).
Proof. intros z. split; [apply i32_bound|split; [apply i64_bound|apply len_ok_bound]]. Qed.
Print Assumptions C20_ranges_spelled_out.

(* the two branches (JSON text input / JSONB input) of each function compute positions by the same function *)
Theorem C20_text_eq_bytes :
  (forall i len, DBI_T_RESOLVE i len = DBI_B_RESOLVE i len) /\ (forall j len, DBI_T_KEEP j len = negb (DBI_B_SKIP j len)) /\
  (forall i len, GBK_T_REJECT i len = GBK_B_REJECT i len) /\ (forall i len, GBK_T_INDEX i len = GBK_B_INDEX i len) /\
  (forall i len, DKP_T_RESOLVE i len = DKP_B_RESOLVE i len) /\ (forall j len, DKP_T_SKIP j len = DKP_B_SKIP j len) /\
  (forall i len, CS_START_LAST i len = CI_LAST i len) /\ (forall i len, CS_END_LAST i len = CI_LAST i len).
Proof. exact text_eq_bytes. Qed.
Print Assumptions C20_text_eq_bytes.

(* the arithmetic before the fixes, refuted *)
Theorem C20_old_abs_refuted : exists idx, i32 idx /\ ~ i32 (Z.abs idx).
Proof. exact abs_overflow_refuted. Qed.
Print Assumptions C20_old_abs_refuted.
Theorem C20_old_last_index_refuted : exists idx len, i32 idx /\ len_ok len /\ ~ i32 (CI_LAST idx len).
Proof. exact last_index_i32_refuted. Qed.
Print Assumptions C20_old_last_index_refuted.

(* L5 (second review): I32.last_minus is a hand copy of the parser model's function; they are the same function, so the
   statement above is about what the parser applies *)
From JB Require PathParse.
Theorem C20_last_minus_is_the_parsers : forall v, last_minus v = PathParse.last_minus v.
Proof. exact last_minus_is_the_parsers. Qed.
Print Assumptions C20_last_minus_is_the_parsers.
Theorem C20_parser_last_minus_in_range : forall v n, i64 v -> PathParse.last_minus v = Some n -> n = (- v)%Z /\ i32 n /\ i64 (- v).
Proof. exact parser_last_minus_in_range. Qed.
Print Assumptions C20_parser_last_minus_in_range.
