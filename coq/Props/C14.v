(* C14 — the comparable key sorts bytewise exactly as compare orders documents.
   The full statement is FALSE of the faithful model: two independent refutations (recorded as known findings),
   and the part that does hold of the number image. *)
From Coq Require Import List NArith ZArith Bool.
Import ListNotations.
From JB Require Import Constants Bytes Num Value Order CmpKey MiscProofs KeyProofs.
Open Scope N_scope.

Theorem C14_refuted_integers_beyond_2p53 :
  comparable_key (VNum (NUInt 9007199254740992)) = comparable_key (VNum (NUInt 9007199254740993)) /\
  cmp_value (VNum (NUInt 9007199254740992)) (VNum (NUInt 9007199254740993)) = Lt.
Proof. exact key_refuted_big_int. Qed.
Print Assumptions C14_refuted_integers_beyond_2p53.

Theorem C14_refuted_marker_collision :
  comparable_key (VArr [VStr [97]; VStr [98]]) = comparable_key (VArr [VStr [97; 1; 4; 98]]) /\
  cmp_value (VArr [VStr [97]; VStr [98]]) (VArr [VStr [97; 1; 4; 98]]) = Lt.
Proof. exact key_refuted_marker_collision. Qed.
Print Assumptions C14_refuted_marker_collision.

(* the 8-byte image of a double is monotone: non-negative patterns keep their order above all negative ones,
   negative patterns are reversed *)
Theorem C14_number_image_monotone_nonneg : forall a b, f_sign a = false -> f_sign b = false -> a < b -> f64_image a < f64_image b.
Proof. exact f64_image_monotone_nonneg. Qed.
Print Assumptions C14_number_image_monotone_nonneg.
Theorem C14_number_image_monotone_neg : forall a b, f_sign a = true -> f_sign b = true ->
  a < 18446744073709551616 -> b < 18446744073709551616 -> a < b -> f64_image b < f64_image a.
Proof. exact f64_image_monotone_neg. Qed.
Print Assumptions C14_number_image_monotone_neg.
Theorem C14_number_image_negatives_first : forall a b, f_sign a = true -> f_sign b = false ->
  a < 18446744073709551616 -> f64_image a < f64_image b.
Proof. exact f64_image_neg_below_nonneg. Qed.
Print Assumptions C14_number_image_negatives_first.

(* What does hold, for every input in the class: on numbers the key order IS Number's order whenever the double
   view is exact (every double, both infinities, the canonical NaN, both zeros, every integer up to 2^53 and every
   larger one a double represents), and on scalars of any kinds the byte order of the keys IS compare's order.
   The two refutations above are exactly the complement: integers a double cannot hold, and container bodies in
   which a string byte can be read as a depth marker. *)
Theorem C14_number_order_is_key_order : forall a b, float_ok a -> float_ok b ->
  num_cmp (NFloat a) (NFloat b) = N.compare (f64_key a) (f64_key b).
Proof. exact float_order_is_key_order. Qed.
Print Assumptions C14_number_order_is_key_order.

Theorem C14_scalar_keys_order_as_compare : forall a b, is_scalar a = true -> is_scalar b = true -> key_exact a -> key_exact b ->
  exists ka kb, comparable_key a = Ok ka /\ comparable_key b = Ok kb /\ bytes_cmp ka kb = cmp_value a b.
Proof. exact scalar_key_order. Qed.
Print Assumptions C14_scalar_keys_order_as_compare.

(* the hypotheses are met by an integer, 2^53, a fraction, negative zero and the canonical NaN *)
Theorem C14_exactness_is_satisfiable :
  num_key_exact (NInt (-3)) /\ num_key_exact (NUInt 9007199254740992) /\ num_key_exact (NFloat 13837309855095848960) /\
  num_key_exact (NFloat 9223372036854775808) /\ num_key_exact (NFloat F_NAN).
Proof. exact key_exact_examples. Qed.
Print Assumptions C14_exactness_is_satisfiable.

(* after the fix both zeros have one key (before it, -0.0 sorted below 0 although compare calls them equal) *)
Theorem C14_both_zeros_one_key : f64_key 9223372036854775808 = f64_key 0.
Proof. reflexivity. Qed.
Print Assumptions C14_both_zeros_one_key.

(* ---- the byte walker itself (ComparableWalk.v: convert_to_comparable and its scalar / array / object helpers with
   absolute offsets and early returns): on the encoding of any well-formed document it appends exactly the key of the
   decoded tree, whatever the buffer held before. *)
From JB Require Import Codec DispatchProofs ComparableWalk ComparableWalkProofs.
Theorem C14_bytes_key : forall v buf, wfb v = true -> top_ok v ->
  comparable_w (enc v) buf = (do k <- comparable_key (normalise v); Ok (buf ++ k)).
Proof. exact comparable_w_enc. Qed.
Print Assumptions C14_bytes_key.

(* ---- containers (KeyContainerProofs.v).  The class `key_safe_doc` (CmpKey.v) is delimited against the refuted
   classes exactly as follows; each bound is shown sharp by a computed witness below.
     * numbers: every number in the document is `num_key_exactb` (a finite double, an infinity, either zero, the
       canonical NaN, or an integer that a double represents) — the complement is the class of
       C14_refuted_integers_beyond_2p53;
     * marker bytes: a string that sits at nesting depth d >= 1 has every byte > d, and a key of an object that sits at
       depth d has every byte > d + 1 (a top-level string is unrestricted) — the complement is the class of
       C14_refuted_marker_collision: a byte <= d (resp. <= d + 1) can be read as the depth marker that follows a
       shorter string in the other key, and then decides wrongly (C14_marker_bounds_are_sharp: a byte EQUAL to the
       bound already inverts the order).  Printable text (bytes >= 32) nested at most 31 levels is inside
       (`key_plain 31 31`, C14_plain_documents_are_in_the_class);
     * depth: a non-empty container sits at depth <= 254, i.e. the document is nested at most 256 levels — beyond, the
       saturated marker 255 of a member collides with the marker of its parent's next sibling
       (C14_depth_bound_is_sharp: a third collision class, equal keys for documents compare tells apart).
   On that class the key order IS compare's order, and equal keys mean exactly Equal. *)
From JB Require Import KeyContainerProofs CompareWalk CompareWalkProofs.

Theorem C14_container_keys_order_as_compare : forall a b, key_safe_doc a = true -> key_safe_doc b = true ->
  exists ka kb, comparable_key a = Ok ka /\ comparable_key b = Ok kb /\ bytes_cmp ka kb = cmp_value a b.
Proof. exact key_order_containers. Qed.
Print Assumptions C14_container_keys_order_as_compare.

Theorem C14_container_keys_equal_iff_compare_equal : forall a b, key_safe_doc a = true -> key_safe_doc b = true ->
  (comparable_key a = comparable_key b <-> cmp_value a b = Eq).
Proof. exact key_equal_iff_compare_equal. Qed.
Print Assumptions C14_container_keys_equal_iff_compare_equal.

(* the same at any depth: what is proved by induction is stronger — the order of two keys does not depend on what
   follows them inside a larger key, as long as that starts with a marker no greater than their own *)
Theorem C14_keys_order_at_any_depth : forall d a b, key_safe d a = true -> key_safe d b = true ->
  exists ka kb, key_entry d a = Ok ka /\ key_entry d b = Ok kb /\ bytes_cmp ka kb = cmp_value a b.
Proof. exact key_order_at_depth. Qed.
Print Assumptions C14_keys_order_at_any_depth.

(* on the bytes: the two offset-faithful walkers (convert_to_comparable, compare) on the encodings of two documents
   of the class — both keys are produced and compare returns exactly the byte order of the keys *)
Theorem C14_bytes_container_keys_order_as_compare : forall a b, wfb a = true -> top_ok a -> wfb b = true -> top_ok b ->
  key_safe_doc a = true -> key_safe_doc b = true ->
  exists ka kb, comparable_w (enc a) [] = Ok ka /\ comparable_w (enc b) [] = Ok kb /\
                compare_w (enc a) (enc b) = Ok (bytes_cmp ka kb).
Proof. exact key_order_on_encodings. Qed.
Print Assumptions C14_bytes_container_keys_order_as_compare.
(* it is enough that the DECODED trees are in the class (decoding makes every NaN the canonical one) *)
Theorem C14_bytes_container_keys_order_decoded : forall a b, wfb a = true -> top_ok a -> wfb b = true -> top_ok b ->
  key_safe_doc (normalise a) = true -> key_safe_doc (normalise b) = true ->
  exists ka kb, comparable_w (enc a) [] = Ok ka /\ comparable_w (enc b) [] = Ok kb /\
                compare_w (enc a) (enc b) = Ok (bytes_cmp ka kb).
Proof. exact key_order_on_encodings_norm. Qed.
Print Assumptions C14_bytes_container_keys_order_decoded.

(* a sufficient condition that is easy to read: nesting at most D <= 255, every string and key byte above D *)
Theorem C14_plain_documents_are_in_the_class : forall D v, D <= 255 -> key_plain D (N.to_nat D) v = true -> key_safe_doc v = true.
Proof. exact key_plain_in_class. Qed.
Print Assumptions C14_plain_documents_are_in_the_class.

(* the class is inhabited by a document with arrays, objects, strings one a prefix of another, an empty string, the
   three kinds of numbers, booleans, null and empty containers; and by a pair ordered three levels down inside a
   nested object, after an equal prefix, by a string that is a proper prefix of the other *)
Theorem C14_container_class_is_satisfiable :
  key_safe_doc sample_doc = true /\ key_plain 31 31 sample_doc = true /\ wfb sample_doc = true /\
  key_safe_doc deep_left = true /\ key_safe_doc deep_right = true /\ cmp_value deep_left deep_right = Lt /\
  (do ka <- comparable_key deep_left; do kb <- comparable_key deep_right; Ok (bytes_cmp ka kb)) = Ok Lt.
Proof. repeat split; vm_compute; reflexivity. Qed.
Print Assumptions C14_container_class_is_satisfiable.

Theorem C14_marker_bounds_are_sharp :
  (let a := VArr [VStr [97]; VNull] in let b := VArr [VStr [97; 1; 6]] in
   cmp_value a b = Lt /\ (do ka <- comparable_key a; do kb <- comparable_key b; Ok (bytes_cmp ka kb)) = Ok Gt /\
   key_safe_doc a = true /\ key_safe_doc b = false /\ key_safe_doc (VArr [VStr [97; 2; 6]]) = true) /\
  (let a := VObj [([97], VNull)] in let b := VObj [([97; 1; 6], VNull)] in
   cmp_value a b = Lt /\ (do ka <- comparable_key a; do kb <- comparable_key b; Ok (bytes_cmp ka kb)) = Ok Gt /\
   key_safe_doc a = true /\ key_safe_doc b = false /\ key_safe_doc (VObj [([97; 2; 6], VNull)]) = true).
Proof. split; [exact string_bound_sharp|exact object_key_bound_sharp]. Qed.
Print Assumptions C14_marker_bounds_are_sharp.

Theorem C14_depth_bound_is_sharp :
  let a := nest 254 (VArr [VArr []; VArr []]) in let b := nest 254 (VArr [VArr [VArr []]]) in
  comparable_key a = comparable_key b /\ cmp_value a b = Lt /\ key_safe_doc a = true /\ key_safe_doc b = false.
Proof. exact depth_bound_sharp. Qed.
Print Assumptions C14_depth_bound_is_sharp.

(* ---- the fuel of the comparable-key walker model.  In ComparableWalk.v running out of fuel is SILENT (the loops and the
   nesting answer `Ok buf`, rd_words answers None), so "<> Err EFuel" would say nothing.  ExtraFuel14.v copies the
   walker with every fuel a parameter (comparable_w_g g h: g V = fuel of the count-driven loops, h V = nesting fuel, as
   functions of the buffer walked; with the model's fuels S (length V) the copy IS the model, by reflexivity) and shows
   that any fuels at least the model's give the model's answer on EVERY input: the fuel never cuts a key short. *)
From JB Require Import ComparableWalk ExtraFuel14.
Theorem C14_fuel_never_exhausted :
  (forall bs buf, comparable_w_g model_fuel model_fuel bs buf = comparable_w bs buf) /\
  (forall g h, (forall V, (S (length V) <= g V)%nat) -> (forall V, (S (length V) <= h V)%nat) ->
     forall bs buf, comparable_w_g g h bs buf = comparable_w bs buf) /\
  (forall V buf f, (S (length V) <= f)%nat -> comparable_b_fuel f V buf = comparable_b V buf).
Proof. split; [exact comparable_w_g_model|]. split; [exact comparable_w_fuel_independent|exact comparable_b_fuel_independent]. Qed.
Print Assumptions C14_fuel_never_exhausted.

(* M6 (second review): the fuel the model passes is never what decides an answer, on ARBITRARY inputs -- also for the loops
   whose exhaustion is an ordinary value (None, Ok None, Ok buf, PErr, the input itself), about which `<> Err EFuel` says
   nothing: any fuel above the one the model passes gives the same answer (FuelIndep.v) *)
From JB Require FuelIndep.
Theorem C14_fuel_is_never_decisive :
  (forall k V buf, (length V < k)%nat -> ExtraFuel14.comparable_b_fuel k V buf = ComparableWalk.comparable_b V buf) /\
  (forall g h, (forall V, (S (length V) <= g V)%nat) -> (forall V, (S (length V) <= h V)%nat) -> forall bs buf, ExtraFuel14.comparable_w_g g h bs buf = ComparableWalk.comparable_w bs buf) /\
  (forall k bs i len j, (length bs < k)%nat -> Walk.rd_words k bs i len j = Walk.rd_words (S (length bs)) bs i len j).
Proof. split; [exact FuelIndep.comparable_b_any_fuel|split; [exact ExtraFuel14.comparable_w_fuel_independent|exact FuelIndep.rd_words_any_fuel]]. Qed.
Print Assumptions C14_fuel_is_never_decisive.
