(* C14 — the comparable key sorts bytewise exactly as compare orders documents.
   The full statement is FALSE of the faithful model: two independent refutations (recorded as known findings),
   and the part that does hold of the number image. *)
From Coq Require Import List NArith ZArith Bool.
Import ListNotations.
From JB Require Import Constants Bytes Num Value Order CmpKey MiscProofs KeyProofs.
Open Scope N_scope.

Theorem C14_refuted_integers_beyond_2p53 :
  comparable_key (VNum (NUInt 9007199254740992)) = comparable_key (VNum (NUInt 9007199254740993)) /\
  cmp_value (VNum (NUInt 9007199254740992)) (VNum (NUInt 9007199254740993)) = Lt.
Proof. exact key_refuted_big_int. Qed.
Print Assumptions C14_refuted_integers_beyond_2p53.

Theorem C14_refuted_marker_collision :
  comparable_key (VArr [VStr [97]; VStr [98]]) = comparable_key (VArr [VStr [97; 1; 4; 98]]) /\
  cmp_value (VArr [VStr [97]; VStr [98]]) (VArr [VStr [97; 1; 4; 98]]) = Lt.
Proof. exact key_refuted_marker_collision. Qed.
Print Assumptions C14_refuted_marker_collision.

(* the 8-byte image of a double is monotone: non-negative patterns keep their order above all negative ones,
   negative patterns are reversed *)
Theorem C14_number_image_monotone_nonneg : forall a b, f_sign a = false -> f_sign b = false -> a < b -> f64_image a < f64_image b.
Proof. exact f64_image_monotone_nonneg. Qed.
Print Assumptions C14_number_image_monotone_nonneg.
Theorem C14_number_image_monotone_neg : forall a b, f_sign a = true -> f_sign b = true ->
  a < 18446744073709551616 -> b < 18446744073709551616 -> a < b -> f64_image b < f64_image a.
Proof. exact f64_image_monotone_neg. Qed.
Print Assumptions C14_number_image_monotone_neg.
Theorem C14_number_image_negatives_first : forall a b, f_sign a = true -> f_sign b = false ->
  a < 18446744073709551616 -> f64_image a < f64_image b.
Proof. exact f64_image_neg_below_nonneg. Qed.
Print Assumptions C14_number_image_negatives_first.

(* What does hold, for every input in the class: on numbers the key order IS Number's order whenever the double
   view is exact (every double, both infinities, the canonical NaN, both zeros, every integer up to 2^53 and every
   larger one a double represents), and on scalars of any kinds the byte order of the keys IS compare's order.
   The two refutations above are exactly the complement: integers a double cannot hold, and container bodies in
   which a string byte can be read as a depth marker. *)
Theorem C14_number_order_is_key_order : forall a b, float_ok a -> float_ok b ->
  num_cmp (NFloat a) (NFloat b) = N.compare (f64_key a) (f64_key b).
Proof. exact float_order_is_key_order. Qed.
Print Assumptions C14_number_order_is_key_order.

Theorem C14_scalar_keys_order_as_compare : forall a b, is_scalar a = true -> is_scalar b = true -> key_exact a -> key_exact b ->
  exists ka kb, comparable_key a = Ok ka /\ comparable_key b = Ok kb /\ bytes_cmp ka kb = cmp_value a b.
Proof. exact scalar_key_order. Qed.
Print Assumptions C14_scalar_keys_order_as_compare.

(* the hypotheses are met by an integer, 2^53, a fraction, negative zero and the canonical NaN *)
Theorem C14_exactness_is_satisfiable :
  num_key_exact (NInt (-3)) /\ num_key_exact (NUInt 9007199254740992) /\ num_key_exact (NFloat 13837309855095848960) /\
  num_key_exact (NFloat 9223372036854775808) /\ num_key_exact (NFloat F_NAN).
Proof. exact key_exact_examples. Qed.

(* after the fix both zeros have one key (before it, -0.0 sorted below 0 although compare calls them equal) *)
Theorem C14_both_zeros_one_key : f64_key 9223372036854775808 = f64_key 0.
Proof. reflexivity. Qed.

(* ---- the byte walker itself (ComparableWalk.v: convert_to_comparable and its scalar / array / object helpers with
   absolute offsets and early returns): on the encoding of any well-formed document it appends exactly the key of the
   decoded tree, whatever the buffer held before. *)
From JB Require Import Codec DispatchProofs ComparableWalk ComparableWalkProofs.
Theorem C14_bytes_key : forall v buf, wfb v = true -> top_ok v ->
  comparable_w (enc v) buf = (do k <- comparable_key (normalise v); Ok (buf ++ k)).
Proof. exact comparable_w_enc. Qed.
Print Assumptions C14_bytes_key.
