(* C14 — the comparable key sorts bytewise exactly as compare orders documents.
   The full statement is FALSE of the faithful model: two independent refutations (recorded as known findings),
   and the part that does hold of the number image. *)
From Coq Require Import List NArith ZArith Bool.
Import ListNotations.
From JB Require Import Constants Bytes Num Value Order CmpKey MiscProofs.
Open Scope N_scope.

Theorem C14_refuted_integers_beyond_2p53 :
  comparable_key (VNum (NUInt 9007199254740992)) = comparable_key (VNum (NUInt 9007199254740993)) /\
  cmp_value (VNum (NUInt 9007199254740992)) (VNum (NUInt 9007199254740993)) = Lt.
Proof. exact key_refuted_big_int. Qed.
Print Assumptions C14_refuted_integers_beyond_2p53.

Theorem C14_refuted_marker_collision :
  comparable_key (VArr [VStr [97]; VStr [98]]) = comparable_key (VArr [VStr [97; 1; 4; 98]]) /\
  cmp_value (VArr [VStr [97]; VStr [98]]) (VArr [VStr [97; 1; 4; 98]]) = Lt.
Proof. exact key_refuted_marker_collision. Qed.
Print Assumptions C14_refuted_marker_collision.

(* the 8-byte image of a double is monotone: non-negative patterns keep their order above all negative ones,
   negative patterns are reversed *)
Theorem C14_number_image_monotone_nonneg : forall a b, f_sign a = false -> f_sign b = false -> a < b -> f64_image a < f64_image b.
Proof. exact f64_image_monotone_nonneg. Qed.
Print Assumptions C14_number_image_monotone_nonneg.
Theorem C14_number_image_monotone_neg : forall a b, f_sign a = true -> f_sign b = true ->
  a < 18446744073709551616 -> b < 18446744073709551616 -> a < b -> f64_image b < f64_image a.
Proof. exact f64_image_monotone_neg. Qed.
Print Assumptions C14_number_image_monotone_neg.
Theorem C14_number_image_negatives_first : forall a b, f_sign a = true -> f_sign b = false ->
  a < 18446744073709551616 -> f64_image a < f64_image b.
Proof. exact f64_image_neg_below_nonneg. Qed.
Print Assumptions C14_number_image_negatives_first.
