(* C13 — array set functions implement multiset semantics over identical elements. *)
From Coq Require Import List NArith ZArith Bool Permutation.
Import ListNotations.
From JB Require Import Constants Bytes Num Value Codec SetOps MiscProofs.
Open Scope N_scope.

(* two elements are the same exactly when their encodings (entry word and payload) are identical *)
Theorem C13_identity_is_identical_encoding : forall a b, item_eqb a b = true <-> enc_item a = enc_item b.
Proof. exact item_eqb_spec. Qed.
Print Assumptions C13_identity_is_identical_encoding.

(* intersection and except always partition the first list *)
Theorem C13_intersection_except_partition : forall a b,
  Permutation (items_of (array_intersection_t a b) ++ items_of (array_except_t a b)) (items_of a).
Proof. exact set_partition. Qed.
Print Assumptions C13_intersection_except_partition.

(* overlap is true exactly when the intersection is non-empty *)
Theorem C13_overlap_iff_intersection_nonempty : forall a b,
  array_overlap_t a b = negb (match items_of (array_intersection_t a b) with [] => true | _ => false end).
Proof. exact set_overlap_iff. Qed.
Print Assumptions C13_overlap_iff_intersection_nonempty.

Theorem C13_distinct_idempotent : forall v, array_distinct_t (array_distinct_t v) = array_distinct_t v.
Proof. exact set_distinct_idem. Qed.
Print Assumptions C13_distinct_idempotent.

(* every element of the input is represented in the result of distinct *)
Theorem C13_distinct_keeps_every_element : forall v x,
  In x (items_of v) -> existsb (item_eqb x) (items_of (array_distinct_t v)) = true.
Proof. exact set_distinct_covers. Qed.
Print Assumptions C13_distinct_keeps_every_element.

(* ---- the byte walkers themselves (SetWalk.v: array_distinct_jsonb / array_intersection_jsonb / array_except_jsonb /
   array_overlap_jsonb: headers read, arrays walked with ArrayIterator, a document that is not an array is one item --
   an object as a container entry over the whole buffer, a scalar as its entry word with `&value[8..]` --, items keyed by
   (JEntry, payload bytes) in a set / count map, survivors pushed raw into an ArrayBuilder and written by build_into):
   on the encodings of well-formed documents nothing errs or panics and the output is the caller's buffer followed by
   the encoding of the tree-level result.  The size hypothesis says the result fits an entry word; it holds by itself
   when the first argument is an array (the result is a sub-multiset of it). *)
From JB Require Import DispatchProofs SetWalk SetWalkProofs.
Theorem C13_set_functions_bytes_distinct : forall a buf, wfb a = true -> top_ok a -> wf_size (array_distinct_t a) = true ->
  array_distinct_w (enc a) buf = Ok (buf ++ enc (array_distinct_t a)).
Proof. exact array_distinct_w_enc. Qed.
Print Assumptions C13_set_functions_bytes_distinct.
Theorem C13_set_functions_bytes_intersection : forall a b buf, wfb a = true -> top_ok a -> wfb b = true -> top_ok b ->
  wf_size (array_intersection_t a b) = true ->
  array_intersection_w (enc a) (enc b) buf = Ok (buf ++ enc (array_intersection_t a b)).
Proof. exact array_intersection_w_enc. Qed.
Print Assumptions C13_set_functions_bytes_intersection.
Theorem C13_set_functions_bytes_except : forall a b buf, wfb a = true -> top_ok a -> wfb b = true -> top_ok b ->
  wf_size (array_except_t a b) = true ->
  array_except_w (enc a) (enc b) buf = Ok (buf ++ enc (array_except_t a b)).
Proof. exact array_except_w_enc. Qed.
Print Assumptions C13_set_functions_bytes_except.
Theorem C13_set_functions_bytes_overlap : forall a b, wfb a = true -> top_ok a -> wfb b = true -> top_ok b ->
  array_overlap_w (enc a) (enc b) = Ok (array_overlap_t a b).
Proof. exact array_overlap_w_enc. Qed.
Print Assumptions C13_set_functions_bytes_overlap.

(* array arguments: no size hypothesis *)
Theorem C13_set_functions_bytes_arrays : forall l b buf, wfb (VArr l) = true -> top_ok (VArr l) -> wfb b = true -> top_ok b ->
  array_distinct_w (enc (VArr l)) buf = Ok (buf ++ enc (array_distinct_t (VArr l))) /\
  array_intersection_w (enc (VArr l)) (enc b) buf = Ok (buf ++ enc (array_intersection_t (VArr l) b)) /\
  array_except_w (enc (VArr l)) (enc b) buf = Ok (buf ++ enc (array_except_t (VArr l) b)) /\
  array_overlap_w (enc (VArr l)) (enc b) = Ok (array_overlap_t (VArr l) b).
Proof.
  intros l b buf W T Wb Tb. repeat split.
  - apply array_distinct_w_arr; assumption.
  - apply array_intersection_w_arr; assumption.
  - apply array_except_w_arr; assumption.
  - apply array_overlap_w_enc; assumption.
Qed.
Print Assumptions C13_set_functions_bytes_arrays.

(* every combination of argument forms: an argument is the encoding of the value or a JSON text that parses to it
   (the code parses and re-encodes a text first) *)
Theorem C13_set_functions_bytes_all_forms : forall t u a b buf, wfb a = true -> wfb b = true -> stands_for t a -> stands_for u b ->
  (wf_size (array_distinct_t a) = true -> array_distinct_w t buf = Ok (buf ++ enc (array_distinct_t a))) /\
  (wf_size (array_intersection_t a b) = true -> array_intersection_w t u buf = Ok (buf ++ enc (array_intersection_t a b))) /\
  (wf_size (array_except_t a b) = true -> array_except_w t u buf = Ok (buf ++ enc (array_except_t a b))) /\
  array_overlap_w t u = Ok (array_overlap_t a b).
Proof.
  intros t u a b buf Wa Wb Sa Sb. repeat split.
  - intros H. apply array_distinct_w_forms; assumption.
  - intros H. apply array_intersection_w_forms; assumption.
  - intros H. apply array_except_w_forms; assumption.
  - apply array_overlap_w_forms; assumption.
Qed.
Print Assumptions C13_set_functions_bytes_all_forms.

(* the iterator fuel of the model is enough for every buffer, valid or not *)
Theorem C13_fuel_never_exhausted : forall bs1 bs2 buf,
  array_distinct_b bs1 buf <> Err EFuel /\ array_intersection_b bs1 bs2 buf <> Err EFuel /\
  array_except_b bs1 bs2 buf <> Err EFuel /\ array_overlap_b bs1 bs2 <> Err EFuel.
Proof. exact set_walkers_fuel. Qed.
Print Assumptions C13_fuel_never_exhausted.

(* "same element" at byte level -- equal (JEntry, payload bytes), the key of the BTreeSet / BTreeMap -- is the identity
   of SetOps.v, and for well-formed values that is: the same JSON value once both are in decoded form *)
Theorem C13_byte_identity : forall x y, wfb x = true -> wfb y = true ->
  (ikey_eqb (key x) (key y) = item_eqb x y) /\ (item_eqb x y = true <-> normalise x = normalise y).
Proof. intros x y Wx Wy. split; [apply key_bridge; apply WalkProofs.wfb_size; assumption|apply item_identity; assumption]. Qed.
Print Assumptions C13_byte_identity.

(* not vacuous: duplicates, the number one as UInt64 / Int64 / Float64 (three different elements), nested containers,
   an object operand *)
Definition c13_a : value :=
  VArr [VNum (NUInt 1); VStr [97]; VNum (NInt 1); VNum (NUInt 1); VArr [VNull]; VStr [97]; VObj [([107], VBool true)]; VArr [VNull];
        VNum (NFloat 4607182418800017408)].
Definition c13_b : value :=
  VArr [VStr [97]; VNum (NUInt 1); VNum (NUInt 1); VNum (NUInt 1); VArr [VNull]; VObj [([107], VBool false)]].
Example C13_bytes_example :
  wfb c13_a = true /\ wfb c13_b = true /\
  array_distinct_w (enc c13_a) [255] = Ok (255 :: enc (VArr [VNum (NUInt 1); VStr [97]; VNum (NInt 1); VArr [VNull]; VObj [([107], VBool true)];
                                                            VNum (NFloat 4607182418800017408)])) /\
  array_intersection_w (enc c13_a) (enc c13_b) [] = Ok (enc (VArr [VNum (NUInt 1); VStr [97]; VNum (NUInt 1); VArr [VNull]])) /\
  array_except_w (enc c13_a) (enc c13_b) [] = Ok (enc (VArr [VNum (NInt 1); VStr [97]; VObj [([107], VBool true)]; VArr [VNull];
                                                            VNum (NFloat 4607182418800017408)])) /\
  array_overlap_w (enc c13_a) (enc c13_b) = Ok true /\
  array_overlap_w (enc (VObj [([107], VBool true)])) (enc c13_a) = Ok true /\
  array_intersection_w (enc (VNum (NInt 1))) (enc c13_a) [] = Ok (enc (VArr [VNum (NInt 1)])) /\
  array_except_w (enc (VObj [([107], VBool true)])) (enc c13_b) [] = Ok (enc (VArr [VObj [([107], VBool true)]])).
Proof. vm_compute. repeat split; reflexivity. Qed.
Print Assumptions C13_bytes_example.

(* ---- the sharpened statement (SetSize.v): NO size hypothesis on the result.  The theorems above keep
   `wf_size (result) = true` for a first argument that is not an array (the result is then the one-element array built
   around the document, 8 bytes larger).  That condition is genuinely false near the limit -- exactly when the
   document's payload is >= 2^28 - 8 bytes (C13_result_size_boundary, C13_size_hypothesis_was_restrictive) -- but the
   theorem does not need it: the builder copies the children's entry words and never writes the (possibly unfaithful)
   size of the whole array at top level (BuilderFrame: build_into on arbitrary entries).  For every pair of well-formed
   documents, in every combination of argument forms, the four functions return the tree answers. *)
From JB Require Import CodecProofs SetSize.
Theorem C13_set_functions_bytes_no_size_hypothesis : forall t u a b buf,
  wfb a = true -> wfb b = true -> stands_for t a -> stands_for u b ->
  array_distinct_w t buf = Ok (buf ++ enc (array_distinct_t a)) /\
  array_intersection_w t u buf = Ok (buf ++ enc (array_intersection_t a b)) /\
  array_except_w t u buf = Ok (buf ++ enc (array_except_t a b)) /\
  array_overlap_w t u = Ok (array_overlap_t a b).
Proof. exact set_functions_forms_any. Qed.
Print Assumptions C13_set_functions_bytes_no_size_hypothesis.

Theorem C13_set_functions_bytes_enc_no_size_hypothesis : forall a b buf, wfb a = true -> top_ok a -> wfb b = true -> top_ok b ->
  array_distinct_w (enc a) buf = Ok (buf ++ enc (array_distinct_t a)) /\
  array_intersection_w (enc a) (enc b) buf = Ok (buf ++ enc (array_intersection_t a b)) /\
  array_except_w (enc a) (enc b) buf = Ok (buf ++ enc (array_except_t a b)) /\
  array_overlap_w (enc a) (enc b) = Ok (array_overlap_t a b).
Proof. exact set_functions_enc_any. Qed.
Print Assumptions C13_set_functions_bytes_enc_no_size_hypothesis.

(* the exact boundary of the old hypothesis: the result of distinct has faithful size fields (could itself be nested as
   an element) iff the argument is an array or its payload is below 2^28 - 8 = 268435448 bytes *)
Theorem C13_result_size_boundary : forall a, wfb a = true ->
  wf_size (array_distinct_t a) = match a with VArr _ => true | _ => lenN (payload a) <? 268435448 end.
Proof. exact distinct_result_size. Qed.
Print Assumptions C13_result_size_boundary.

(* ... and it is attained: a valid document (the string of 2^28 - 8 letters `a`) for which the old hypothesis fails
   while the walker still returns the encoding of the tree answer *)
Theorem C13_size_hypothesis_was_restrictive :
  exists a, wfb a = true /\ top_ok a /\ wf_size (array_distinct_t a) = false /\
            (forall buf, array_distinct_w (enc a) buf = Ok (buf ++ enc (array_distinct_t a))).
Proof. exact size_hypothesis_was_restrictive. Qed.
Print Assumptions C13_size_hypothesis_was_restrictive.

(* not vacuous, small instances through the new theorem's path: scalar and object first arguments, JSON-text form *)
Example C13_no_size_hypothesis_example :
  array_distinct_w (enc (VStr [104; 105])) [7] = Ok (7 :: enc (VArr [VStr [104; 105]])) /\
  array_intersection_w (enc (VObj [([107], VBool true)])) (enc c13_a) [7] = Ok (7 :: enc (VArr [VObj [([107], VBool true)]])) /\
  array_except_w [49] (enc c13_b) [] = Ok (enc (VArr [])) /\
  array_except_w [34; 122; 34] (enc c13_b) [] = Ok (enc (VArr [VStr [122]])).
Proof. vm_compute. repeat split; reflexivity. Qed.
Print Assumptions C13_no_size_hypothesis_example.

(* ---- laws that PIN the functions (Extra13.v; the algebraic laws above would also hold for `distinct := id`).
   Identity of elements is item_eqb (identical entry word and payload; on well-formed values: equal normal forms,
   C13_byte_identity).  cnt x l = number of elements of l identical to x; without x l = l minus the elements identical
   to x; first_flags [] l = for each position, "no identical element stands before it"; select_flags keeps the flagged
   positions.  Through C13_set_functions_bytes_* these are statements about the byte walkers' output on encodings. *)
From JB Require Import SetWalkProofs Extra13.
Theorem C13_distinct_keeps_exactly_the_first_occurrences :
  (forall v,
     NoDup (map enc_item (items_of (array_distinct_t v))) /\
     subseq (items_of (array_distinct_t v)) (items_of v) /\
     items_of (array_distinct_t v) = select_flags (first_flags [] (items_of v)) (items_of v) /\
     (forall x, cnt x (items_of (array_distinct_t v)) = if existsb (item_eqb x) (items_of v) then 1 else 0)%nat) /\
  (forall x l, items_of (array_distinct_t (VArr (x :: l))) = x :: items_of (array_distinct_t (VArr (without x l)))) /\
  items_of (array_distinct_t (VArr [])) = [].
Proof. split; [exact array_distinct_pinned|exact array_distinct_recursive]. Qed.
Print Assumptions C13_distinct_keeps_exactly_the_first_occurrences.

(* exact multiset counting, in the order of the first list *)
Theorem C13_intersection_and_except_count : forall a b x,
  cnt x (items_of (array_intersection_t a b)) = Nat.min (cnt x (items_of a)) (cnt x (items_of b)) /\
  cnt x (items_of (array_except_t a b)) = (cnt x (items_of a) - cnt x (items_of b))%nat /\
  subseq (items_of (array_intersection_t a b)) (items_of a) /\ subseq (items_of (array_except_t a b)) (items_of a).
Proof. exact intersection_except_count. Qed.
Print Assumptions C13_intersection_and_except_count.

(* M6 (second review): the fuel the model passes is never what decides an answer, on ARBITRARY inputs -- also for the loops
   whose exhaustion is an ordinary value (None, Ok None, Ok buf, PErr, the input itself), about which `<> Err EFuel` says
   nothing: any fuel above the one the model passes gives the same answer (FuelIndep.v) *)
From JB Require FuelIndep.
Theorem C13_fuel_is_never_decisive :
  (forall St R bs (step : St -> Codec.je -> list N -> res (St + R)) fin k idx len joff voff s, (length bs < k)%nat -> Iter.arr_fold bs step fin k idx len joff voff s = Iter.arr_fold bs step fin (S (length bs)) idx len joff voff s) /\
  (forall St R bs (step : St -> list N -> res (St + R)) fin k idx len joff koff s, (length bs < k)%nat -> Iter.keys_fold bs step fin k idx len joff koff s = Iter.keys_fold bs step fin (S (length bs)) idx len joff koff s).
Proof. split; [exact (@FuelIndep.arr_fold_any_fuel)|exact (@FuelIndep.keys_fold_any_fuel)]. Qed.
Print Assumptions C13_fuel_is_never_decisive.

(* L5 (second review): WHICH occurrences intersection / except keep.  quota_flags b [] a marks position i of a iff fewer
   elements identical to a[i] stand before it in a than b has copies ("scanning a left to right, an element is kept while
   unmatched copies remain in b"): intersection keeps exactly the marked positions, except exactly the others *)
Theorem C13_intersection_and_except_occurrences : forall a b,
  items_of (array_intersection_t a b) = select_flags (quota_flags (items_of b) [] (items_of a)) (items_of a) /\
  items_of (array_except_t a b) = select_flags (map negb (quota_flags (items_of b) [] (items_of a))) (items_of a).
Proof. exact intersection_except_occurrences. Qed.
Print Assumptions C13_intersection_and_except_occurrences.
(* recursively, as for distinct: the head is kept by the intersection iff b holds a copy of it, and the rest is matched
   against b with one such copy less (m' is ANY list with the counts of m minus one copy of x) *)
Theorem C13_intersection_and_except_recursive : forall x l m,
  (forall m', (forall y, cnt y m = ((if item_eqb y x then 1 else 0) + cnt y m')%nat) ->
     inter_acc (x :: l) m = x :: inter_acc l m' /\ except_acc (x :: l) m = except_acc l m') /\
  (cnt x m = 0%nat -> inter_acc (x :: l) m = inter_acc l m /\ except_acc (x :: l) m = x :: except_acc l m).
Proof. exact intersection_except_recursive. Qed.
Print Assumptions C13_intersection_and_except_recursive.
