(* C13 — array set functions implement multiset semantics over identical elements. *)
From Coq Require Import List NArith ZArith Bool Permutation.
Import ListNotations.
From JB Require Import Constants Bytes Num Value Codec SetOps MiscProofs.
Open Scope N_scope.

(* two elements are the same exactly when their encodings (entry word and payload) are identical *)
Theorem C13_identity_is_identical_encoding : forall a b, item_eqb a b = true <-> enc_item a = enc_item b.
Proof. exact item_eqb_spec. Qed.
Print Assumptions C13_identity_is_identical_encoding.

(* intersection and except always partition the first list *)
Theorem C13_intersection_except_partition : forall a b,
  Permutation (items_of (array_intersection_t a b) ++ items_of (array_except_t a b)) (items_of a).
Proof. exact set_partition. Qed.
Print Assumptions C13_intersection_except_partition.

(* overlap is true exactly when the intersection is non-empty *)
Theorem C13_overlap_iff_intersection_nonempty : forall a b,
  array_overlap_t a b = negb (match items_of (array_intersection_t a b) with [] => true | _ => false end).
Proof. exact set_overlap_iff. Qed.
Print Assumptions C13_overlap_iff_intersection_nonempty.

Theorem C13_distinct_idempotent : forall v, array_distinct_t (array_distinct_t v) = array_distinct_t v.
Proof. exact set_distinct_idem. Qed.
Print Assumptions C13_distinct_idempotent.

(* every element of the input is represented in the result of distinct *)
Theorem C13_distinct_keeps_every_element : forall v x,
  In x (items_of v) -> existsb (item_eqb x) (items_of (array_distinct_t v)) = true.
Proof. exact set_distinct_covers. Qed.
Print Assumptions C13_distinct_keeps_every_element.
