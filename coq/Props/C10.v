(* C10 — decoding untrusted bytes never panics and never yields ill-formed strings. *)
From Coq Require Import List NArith ZArith Bool.
Import ListNotations.
From JB Require Import Constants Bytes Utf8 Num Value Codec JsonText TextProofs DecodeProofs Dispatch MiscProofs.
Open Scope N_scope.

Theorem C10_parse_jsonb_never_panics : forall bs, parse_jsonb bs <> Panic.
Proof. exact parse_jsonb_total. Qed.
Print Assumptions C10_parse_jsonb_never_panics.

Theorem C10_decoded_strings_are_utf8 : forall bs v, parse_jsonb bs = Ok v -> strings_utf8 v = true.
Proof. exact parse_jsonb_utf8. Qed.
Print Assumptions C10_decoded_strings_are_utf8.

Theorem C10_from_slice_never_panics : forall bs, from_slice bs <> Panic.
Proof. exact from_slice_total. Qed.
Print Assumptions C10_from_slice_never_panics.

(* the recorded witnesses: text that the old decoder misread, and an ill-formed string payload *)
Example C10_text_not_misread :
  from_slice [49; 50; 51; 52; 53; 54; 55; 56] = Ok (VNum (NUInt 12345678)) /\
  parse_jsonb [32; 0; 0; 0; 16; 0; 0; 2; 255; 254] = Err EOther.
Proof. split; vm_compute; reflexivity. Qed.
Print Assumptions C10_text_not_misread.
