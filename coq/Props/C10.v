(* C10 — decoding untrusted bytes never panics and never yields ill-formed strings. *)
From Coq Require Import List NArith ZArith Bool.
Import ListNotations.
From JB Require Import Constants Bytes Utf8 Num Value Codec JsonText TextProofs DecodeProofs Dispatch MiscProofs DecodeMore.
Open Scope N_scope.

Theorem C10_parse_jsonb_never_panics : forall bs, parse_jsonb bs <> Panic.
Proof. exact parse_jsonb_total. Qed.
Print Assumptions C10_parse_jsonb_never_panics.

Theorem C10_decoded_strings_are_utf8 : forall bs v, parse_jsonb bs = Ok v -> strings_utf8 v = true.
Proof. exact parse_jsonb_utf8. Qed.
Print Assumptions C10_decoded_strings_are_utf8.

Theorem C10_from_slice_never_panics : forall bs, from_slice bs <> Panic.
Proof. exact from_slice_total. Qed.
Print Assumptions C10_from_slice_never_panics.

(* the recorded witnesses: text that the old decoder misread, and an ill-formed string payload *)
Example C10_text_not_misread :
  from_slice [49; 50; 51; 52; 53; 54; 55; 56] = Ok (VNum (NUInt 12345678)) /\
  parse_jsonb [32; 0; 0; 0; 16; 0; 0; 2; 255; 254] = Err EOther.
Proof. split; vm_compute; reflexivity. Qed.
Print Assumptions C10_text_not_misread.

(* "Every proper prefix of a valid encoding is rejected with an error": by the binary decoder, and by from_slice
   (whose text fallback fails on such a prefix too). *)
Theorem C10_proper_prefixes_are_rejected : forall v p, wfb v = true -> proper_prefix p (enc v) ->
  (exists e, parse_jsonb p = Err e) /\ (exists e, from_slice p = Err e).
Proof. exact (fun v p H P => conj (parse_jsonb_prefix_rejected v p H P) (from_slice_prefix_rejected v p H P)). Qed.
Print Assumptions C10_proper_prefixes_are_rejected.

(* "Bytes that are valid JSON text ... are decoded by the text fallback to the value the text denotes, never misread as
   binary": the binary decoder rejects every text the text parser accepts (inputs below TEXT_MISREAD_BOUND = 3.6 GB;
   "not beginning with a space" is not needed since fix df4d8c4), and from_slice returns the parser's value. *)
Theorem C10_text_is_never_misread_as_binary : forall t v, bytes_ok t -> lenN t < TEXT_MISREAD_BOUND ->
  parse_value t = Ok v -> exists e, parse_jsonb t = Err e.
Proof. exact text_rejected_by_binary. Qed.
Print Assumptions C10_text_is_never_misread_as_binary.

Theorem C10_text_is_decoded_by_the_fallback : forall t v, bytes_ok t -> lenN t < TEXT_MISREAD_BOUND ->
  parse_value t = Ok v -> from_slice t = Ok v.
Proof. exact from_slice_text. Qed.
Print Assumptions C10_text_is_decoded_by_the_fallback.

Theorem C10_text_not_beginning_with_a_space : forall t v, bytes_ok t -> (forall r, t <> 32 :: r) -> lenN t < 2147483648 ->
  parse_value t = Ok v -> from_slice t = Ok v.
Proof. exact from_slice_text_no_space. Qed.
Print Assumptions C10_text_not_beginning_with_a_space.

Example C10_prefixes_example :
  wfb sample_doc = true /\ length (enc sample_doc) = 55%nat /\
  forallb (fun k => match parse_jsonb (firstn k (enc sample_doc)), from_slice (firstn k (enc sample_doc)) with
                    | Err _, Err _ => true | _, _ => false end) (seq 0 55) = true /\
  from_slice (enc sample_doc) = Ok sample_doc.
Proof. exact prefixes_example. Qed.
Example C10_text_example :
  from_slice [91; 49; 93] = Ok (VArr [VNum (NUInt 1)]) /\
  from_slice [92; 110; 91; 49; 93; 32; 32; 32; 32; 32] = Ok (VArr [VNum (NUInt 1)]) /\
  from_slice [32; 34; 97; 98; 99; 34] = Ok (VStr [97; 98; 99]).
Proof. repeat split; vm_compute; reflexivity. Qed.
Print Assumptions C10_prefixes_example.
Print Assumptions C10_text_example.

(* ---- (Extra10.v) the UTF-8 guarantee for from_slice as a whole: also what the TEXT FALLBACK returns has well-formed
   UTF-8 strings and keys (the grammar's string production carries utf8_valid of the decoded text; keys likewise) *)
From JB Require Import Extra10.
Theorem C10_text_reader_strings_are_utf8 : forall bs v, parse_value bs = Ok v -> strings_utf8 v = true.
Proof. exact parse_value_utf8. Qed.
Print Assumptions C10_text_reader_strings_are_utf8.

Theorem C10_from_slice_strings_are_utf8 : forall bs v, from_slice bs = Ok v -> strings_utf8 v = true.
Proof. exact from_slice_utf8. Qed.
Print Assumptions C10_from_slice_strings_are_utf8.

(* the recursion fuel of the decoder model (S (length bs)) is never the reason for an answer, whatever the bytes: every
   nesting level reads a 4-byte header further on and costs two units, so half the length plus one is always enough *)
Theorem C10_decoder_fuel_is_never_decisive : forall bs, parse_jsonb bs <> Err EFuel.
Proof. exact parse_jsonb_not_fuel. Qed.
Print Assumptions C10_decoder_fuel_is_never_decisive.

Theorem C10_decoder_fuel_bound : forall fuel,
  (forall w bs, (length bs + 3 <= 2 * fuel)%nat -> decode_scalar fuel w bs <> Err EFuel) /\
  (forall bs, (length bs + 1 <= 2 * fuel)%nat -> decode_jsonb fuel bs <> Err EFuel).
Proof. exact decode_fuel_enough. Qed.
Print Assumptions C10_decoder_fuel_bound.

(* C10_proper_prefixes_are_rejected, sharpened: the rejection is a genuine error of the decoder, not the model's fuel *)
Theorem C10_proper_prefixes_are_rejected_by_a_real_error : forall v p, wfb v = true -> proper_prefix p (enc v) ->
  (exists e, parse_jsonb p = Err e /\ e <> EFuel) /\ from_slice p = Err EOther.
Proof. exact prefix_rejected_not_fuel. Qed.
Print Assumptions C10_proper_prefixes_are_rejected_by_a_real_error.

(* the same for the text fallback and hence for from_slice as a whole: on no input is the model's fuel the reason for
   the answer (every value consumes a byte, every escape consumes a byte) *)
Theorem C10_from_slice_fuel_is_never_decisive :
  (forall bs, parse_value bs <> Err EFuel) /\ (forall bs, from_slice bs <> Err EFuel).
Proof. split; [exact parse_value_not_fuel|exact from_slice_not_fuel]. Qed.
Print Assumptions C10_from_slice_fuel_is_never_decisive.

(* M6 (second review): the fuel the model passes is never what decides an answer, on ARBITRARY inputs -- also for the loops
   whose exhaustion is an ordinary value (None, Ok None, Ok buf, PErr, the input itself), about which `<> Err EFuel` says
   nothing: any fuel above the one the model passes gives the same answer (FuelIndep.v) *)
From JB Require FuelIndep.
Theorem C10_fuel_is_never_decisive :
  (forall k bs, (length bs < k)%nat -> Codec.decode_jsonb k bs = Codec.decode_jsonb (S (length bs)) bs) /\
  (forall k w bs, (S (length bs) < k)%nat -> Codec.decode_scalar k w bs = Codec.decode_scalar (S (S (length bs))) w bs) /\
  (forall k bs, (length bs < k)%nat -> JsonText.parse_json_value k bs = JsonText.parse_json_value (S (length bs)) bs).
Proof. split; [exact FuelIndep.decode_jsonb_any_fuel|split; [exact FuelIndep.decode_scalar_any_fuel|exact FuelIndep.parse_json_value_any_fuel]]. Qed.
Print Assumptions C10_fuel_is_never_decisive.
