(* C08 — JSONPath evaluation returns exactly the items the path denotes; it never panics. *)
From Coq Require Import List NArith ZArith Bool.
Import ListNotations.
From JB Require Import Constants Bytes Num Value TreeOps Path PathSem EvalProofs.
Open Scope N_scope.

(* on every path in the image of the parser (steps after $ / @ are plain steps or filters; filter expressions are
   comparisons of operands, && / ||, exists(...); arithmetic is parsed but answered with an error) evaluation ends
   in a result or an error, for every document *)
Theorem C08_evaluation_never_panics : forall fuel root cur ps k,
  match ps with
  | PCurrent :: r => cur <> None /\ forallb (step_ok k) r = true
  | PRoot :: r => forallb (step_ok k) r = true
  | [PPredicate e] => expr_ok k e = true
  | r => forallb (step_ok k) r = true
  end -> find_positions fuel root cur ps <> Panic.
Proof. exact find_positions_np. Qed.
Print Assumptions C08_evaluation_never_panics.

Theorem C08_filter_never_panics : forall fuel root pos e k, expr_ok k e = true -> filter_expr fuel root pos e <> Panic.
Proof. exact filter_expr_np. Qed.
Print Assumptions C08_filter_never_panics.

(* pinned meaning of the steps on a small document: wildcard passes a non-array through, ranges with last, a filter
   keeps an item when some pair of operand values satisfies the comparison *)
Example C08_example_selection :
  let doc := VObj [([97], VArr [VNum (NUInt 1); VNum (NUInt 5); VNum (NUInt 9)]); ([98], VNum (NUInt 5))] in
  find_positions PATH_FUEL doc None [PRoot; PDotField [97]; PIndices [ASlice (IIndex 1) (ILast 0); AIndex (IIndex 0)]]
    = Ok [VNum (NUInt 5); VNum (NUInt 9); VNum (NUInt 1)] /\
  find_positions PATH_FUEL doc None [PRoot; PDotField [97]; PBracketWild; PFilter (EBin OEq (EPaths [PCurrent]) (EPaths [PRoot; PDotField [98]]))]
    = Ok [VNum (NUInt 5)] /\
  find_positions PATH_FUEL doc None [PRoot; PDotField [98]; PBracketWild] = Ok [VNum (NUInt 5)] /\
  find_positions PATH_FUEL doc None [PRoot; PFilter (EArithB BAdd (EPaths [PCurrent]) (EValue (PVNum (NUInt 1))))] = Err EOther.
Proof. vm_compute. repeat split; reflexivity. Qed.
Print Assumptions C08_example_selection.
