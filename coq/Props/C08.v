(* C08 — JSONPath evaluation returns exactly the items the path denotes; it never panics. *)
From Coq Require Import List NArith ZArith Bool.
Import ListNotations.
From JB Require Import Constants Bytes Num Value TreeOps Path PathSem EvalProofs.
Open Scope N_scope.

(* on every path in the image of the parser (steps after $ / @ are plain steps or filters; filter expressions are
   comparisons of operands, && / ||, exists(...); arithmetic is parsed but answered with an error) evaluation ends
   in a result or an error, for every document.  `path_ok`, `step_ok`, `expr_ok` are structural: no bound on the
   length or the nesting depth of the path (EvalProofs.v) *)
Theorem C08_evaluation_never_panics : forall root cur ps,
  path_ok (match cur with Some _ => true | None => false end) ps -> find_positions root cur ps <> Panic.
Proof. exact find_positions_np. Qed.
Print Assumptions C08_evaluation_never_panics.

Theorem C08_filter_never_panics : forall root e, expr_ok e = true -> forall pos, filter_expr root pos e <> Panic.
Proof. exact filter_expr_np. Qed.
Print Assumptions C08_filter_never_panics.

(* pinned meaning of the steps on a small document: wildcard passes a non-array through, ranges with last, a filter
   keeps an item when some pair of operand values satisfies the comparison *)
Example C08_example_selection :
  let doc := VObj [([97], VArr [VNum (NUInt 1); VNum (NUInt 5); VNum (NUInt 9)]); ([98], VNum (NUInt 5))] in
  find_positions doc None [PRoot; PDotField [97]; PIndices [ASlice (IIndex 1) (ILast 0); AIndex (IIndex 0)]]
    = Ok [VNum (NUInt 5); VNum (NUInt 9); VNum (NUInt 1)] /\
  find_positions doc None [PRoot; PDotField [97]; PBracketWild; PFilter (EBin OEq (EPaths [PCurrent]) (EPaths [PRoot; PDotField [98]]))]
    = Ok [VNum (NUInt 5)] /\
  find_positions doc None [PRoot; PDotField [98]; PBracketWild] = Ok [VNum (NUInt 5)] /\
  find_positions doc None [PRoot; PFilter (EArithB BAdd (EPaths [PCurrent]) (EValue (PVNum (NUInt 1))))] = Err EOther.
Proof. vm_compute. repeat split; reflexivity. Qed.
Print Assumptions C08_example_selection.

(* ---- the selector as the code runs it: byte positions into the root buffer (SelWalk.v), never decoding ---- *)
From JB Require Import Codec DispatchProofs SelWalk SelWalkProofs.

(* a position denotes a sub-value when its offsets delimit exactly that value's payload in the buffer (SelWalkProofs.den);
   one step of the selector on a denoting position yields, in order and with repetitions, positions denoting exactly
   what the step selects on the value — or fails / panics exactly when the tree step does *)
Theorem C08_bytes_step : forall bs p pos x, den bs pos x ->
  res_rel (Forall2 (den bs)) (step_pos_w bs p pos) (select_step p x).
Proof. exact step_pos_den. Qed.
Print Assumptions C08_bytes_step.

(* the frontier after a whole path, filters included (any length, any nesting: the evaluators recurse on the structure
   of the expression, there is no fuel): positions denoting the tree evaluator's items *)
Theorem C08_bytes_positions_and_filters : forall root, good root ->
  (forall cur curv ps, cur_rel root cur curv ->
     res_rel (Forall2 (den (enc root))) (find_positions_w (enc root) cur ps) (find_positions root curv ps)) /\
  (forall pos x e, den (enc root) pos x -> res_rel eq (filter_expr_w (enc root) pos e) (filter_expr root x e)).
Proof. exact find_filter_rel. Qed.
Print Assumptions C08_bytes_positions_and_filters.

(* Selector::select / exists / predicate_match on the encoding of any well-formed value = the tree evaluator on the
   decoded document (normalise v = what parse_jsonb (enc v) yields), for EVERY path and mode: values, errors and
   panics alike, so no restriction to the parser's image is needed *)
Theorem C08_bytes_select : forall v ps m buf, wfb v = true -> select_w (enc v) ps m buf = select_t (normalise v) ps m buf.
Proof. exact select_w_enc. Qed.
Print Assumptions C08_bytes_select.
Theorem C08_bytes_exists : forall v ps, wfb v = true -> sel_exists_w (enc v) ps = exists_t (normalise v) ps.
Proof. exact sel_exists_w_enc. Qed.
Print Assumptions C08_bytes_exists.
Theorem C08_bytes_predicate_match : forall v ps, wfb v = true -> sel_predicate_match_w (enc v) ps = predicate_match_t (normalise v) ps.
Proof. exact sel_predicate_match_w_enc. Qed.
Print Assumptions C08_bytes_predicate_match.
(* the walker model and the decode-then-evaluate model of Dispatch.v agree on encodings *)
Theorem C08_bytes_select_is_view : forall v ps m buf, wfb v = true -> select_w (enc v) ps m buf = Dispatch.select_m (enc v) ps m buf.
Proof. exact select_w_m. Qed.
Print Assumptions C08_bytes_select_is_view.

(* the public functions get_by_path / get_by_path_first / get_by_path_array / path_exists / path_match *)
Theorem C08_bytes_get_by_path : forall md v ps buf, wfb v = true -> top_ok v ->
  get_by_path_gen_w md (enc v) ps buf = select_t (normalise v) ps md buf.
Proof. exact get_by_path_gen_w_enc. Qed.
Print Assumptions C08_bytes_get_by_path.
Theorem C08_bytes_path_exists : forall v ps, wfb v = true -> top_ok v -> path_exists_w (enc v) ps = exists_t (normalise v) ps.
Proof. exact path_exists_w_enc. Qed.
Print Assumptions C08_bytes_path_exists.
Theorem C08_bytes_path_match : forall v ps, wfb v = true -> top_ok v -> path_match_w (enc v) ps = predicate_match_t (normalise v) ps.
Proof. exact path_match_w_enc. Qed.
Print Assumptions C08_bytes_path_match.

(* on paths of the parser's image the byte-level selector never panics on an encoding *)
Theorem C08_bytes_never_panics : forall v ps m buf, wfb v = true ->
  path_ok false ps -> select_w (enc v) ps m buf <> Panic.
Proof. exact select_w_never_panics. Qed.
Print Assumptions C08_bytes_never_panics.

(* a nested document, a path with a wildcard, an index range with `last` and a filter comparing @.k with $.b:
   $.*[1 to last]?(@.k >= $.b)  on  {"a":[{"k":1},{"k":5},{"k":9},"x"],"b":5}  selects {"k":5} and {"k":9};
   the walker computes it on the bytes, item by item and as an array *)
Example C08_bytes_example :
  let k n := VObj [([107], VNum (NUInt n))] in
  let doc := VObj [([97], VArr [k 1; k 5; k 9; VStr [120]]); ([98], VNum (NUInt 5))] in
  let p := [PRoot; PDotWild; PIndices [ASlice (IIndex 1) (ILast 0)];
            PFilter (EBin OGe (EPaths [PCurrent; PDotField [107]]) (EPaths [PRoot; PDotField [98]]))] in
  select_w (enc doc) p MAll [] = Ok (enc (k 5) ++ enc (k 9), [15; 30]) /\
  select_w (enc doc) p MArray [7] = Ok (7 :: enc (VArr [k 5; k 9]), [43]) /\
  select_w (enc doc) p MFirst [] = Ok (enc (k 5), [15]) /\
  sel_exists_w (enc doc) p = Ok true /\
  find_positions_w (enc doc) None [PRoot; PDotWild; PIndices [ASlice (IIndex 1) (ILast 0)]]
    = Ok [PosC 57 15; PosC 72 15; PosS STRING_TAG 87 1] /\
  select_w (firstn 60 (enc doc)) p MAll [] = Err EOther.
Proof. vm_compute. repeat split; reflexivity. Qed.
Print Assumptions C08_bytes_example.

(* the public functions of the walker model and of the view-level model agree on encodings *)
Theorem C08_bytes_public_is_view : forall md v ps buf, wfb v = true -> top_ok v ->
  get_by_path_gen_w md (enc v) ps buf = Dispatch.get_by_path_gen md (enc v) ps buf.
Proof. exact get_by_path_gen_w_m. Qed.
Print Assumptions C08_bytes_public_is_view.

(* ---- no recursion budget (PathNoFuel.v): filter_expr / filter_expr_w recurse on the structure of the expression, so a
   path of ANY length and nesting (thousands of && / || terms, deep parentheses, nested exists(), filters in filters) is
   evaluated in full; the model error EFuel is never the answer of the tree evaluator on any document, of the byte selector
   on ANY buffer, or of the public functions on any argument (JSONB or JSON text).  C08_bytes_select and the C15 laws
   therefore speak about the documented meaning of every path, not about a shared "fuel" outcome. ---- *)
From JB Require Import PathNoFuel.
Theorem C08_evaluation_has_no_recursion_budget :
  (forall root cur ps, find_positions root cur ps <> Err EFuel) /\
  (forall root e pos, filter_expr root pos e <> Err EFuel) /\
  (forall root ps m buf, select_t root ps m buf <> Err EFuel) /\
  (forall root ps, exists_t root ps <> Err EFuel) /\
  (forall root ps, predicate_match_t root ps <> Err EFuel).
Proof.
  exact (conj find_positions_not_fuel (conj filter_expr_not_fuel (conj select_t_not_fuel (conj exists_t_not_fuel predicate_match_t_not_fuel)))).
Qed.
Print Assumptions C08_evaluation_has_no_recursion_budget.
Theorem C08_bytes_selector_has_no_recursion_budget :
  (forall bs cur ps, find_positions_w bs cur ps <> Err EFuel) /\
  (forall bs e pos, filter_expr_w bs pos e <> Err EFuel) /\
  (forall bs ps m buf, select_w bs ps m buf <> Err EFuel) /\
  (forall bs ps, sel_exists_w bs ps <> Err EFuel) /\
  (forall bs ps, sel_predicate_match_w bs ps <> Err EFuel) /\
  (forall md bs ps buf, get_by_path_gen_w md bs ps buf <> Err EFuel) /\
  (forall bs ps, path_exists_w bs ps <> Err EFuel) /\
  (forall bs ps, path_match_w bs ps <> Err EFuel).
Proof.
  exact (conj find_positions_w_not_fuel (conj filter_expr_w_not_fuel (conj select_w_not_fuel (conj sel_exists_w_not_fuel
        (conj sel_predicate_match_w_not_fuel (conj get_by_path_gen_w_not_fuel (conj path_exists_w_not_fuel path_match_w_not_fuel))))))).
Qed.
Print Assumptions C08_bytes_selector_has_no_recursion_budget.
(* a filter of 70 `||` terms of which only the last holds is evaluated (by both evaluators) as the crate evaluates it *)
Example C08_long_chain_is_evaluated :
  let e := or_chain 70 (EBin OEq (EValue (PVNum (NUInt 1))) (EValue (PVNum (NUInt 1)))) in
  find_positions (VNum (NUInt 5)) None [PRoot; PFilter e] = Ok [VNum (NUInt 5)] /\
  select_w (enc (VNum (NUInt 5))) [PRoot; PFilter e] MAll [] = Ok (enc (VNum (NUInt 5)), [10]) /\
  select_t (VNum (NUInt 5)) [PRoot; PFilter e] MAll [] = Ok (enc (VNum (NUInt 5)), [10]).
Proof. exact long_chain_is_evaluated. Qed.
Print Assumptions C08_long_chain_is_evaluated.

(* ---- the never-panics chain, closed (PathClosed.v): C09_parser_image gives every accepted text an AST of the parser's shape;
   every AST of that shape satisfies `path_ok` (the hypothesis of C08_evaluation_never_panics / C08_bytes_never_panics);
   so the evaluation of ANY accepted path on ANY well-formed document never panics: tree evaluator, byte selector, and the
   public functions on a JSONB or JSON-text argument (`stands_for t v`: t = enc v, or a JSON text that reads as v) ---- *)
From JB Require Import PathParse PathImage PathClosed.
From JB Require TextBinProofs.
Theorem C08_accepted_paths_satisfy_the_never_panics_hypotheses :
  (forall ps, shape_path ps -> path_ok false ps) /\ (forall bs ps, parse_json_path bs = Ok ps -> path_ok false ps).
Proof. exact (conj shape_path_ok parse_path_ok). Qed.
Print Assumptions C08_accepted_paths_satisfy_the_never_panics_hypotheses.

Theorem C08_evaluation_of_any_accepted_path_never_panics : forall bs ps, parse_json_path bs = Ok ps ->
  (forall root, find_positions root None ps <> Panic) /\
  (forall root m buf, select_t root ps m buf <> Panic) /\
  (forall root, exists_t root ps <> Panic) /\
  (forall root, predicate_match_t root ps <> Panic) /\
  (forall v m buf, wfb v = true -> select_w (enc v) ps m buf <> Panic) /\
  (forall v, wfb v = true -> sel_exists_w (enc v) ps <> Panic) /\
  (forall v, wfb v = true -> sel_predicate_match_w (enc v) ps <> Panic) /\
  (forall md t v buf, wfb v = true -> TextBinProofs.stands_for t v -> get_by_path_gen_w md t ps buf <> Panic) /\
  (forall t v, wfb v = true -> TextBinProofs.stands_for t v -> path_exists_w t ps <> Panic) /\
  (forall t v, wfb v = true -> TextBinProofs.stands_for t v -> path_match_w t ps <> Panic).
Proof.
  intros bs ps H.
  exact (conj (accepted_find_positions_np bs ps H) (conj (accepted_select_t_np bs ps H) (conj (accepted_exists_t_np bs ps H)
        (conj (accepted_predicate_match_t_np bs ps H) (conj (accepted_select_w_np bs ps H) (conj (accepted_sel_exists_w_np bs ps H)
        (conj (accepted_sel_predicate_match_w_np bs ps H) (conj (accepted_get_by_path_np bs ps H) (conj (accepted_path_exists_np bs ps H)
        (accepted_path_match_np bs ps H)))))))))).
Qed.
Print Assumptions C08_evaluation_of_any_accepted_path_never_panics.

(* ---- what the steps MEAN, stated declaratively and independently of the code mirror (PathSemLaws.v): PathSem.v — the
   evaluator the byte selector is proved equal to — satisfies these laws ---- *)
From JB Require Import PathSemLaws.
Theorem C08_step_meanings :
  (* [i], 0 <= i: the element at position i *)
  (forall l i, (0 <= i)%Z -> select_indices l [AIndex (IIndex i)] = match nth_error l (Z.to_nat i) with Some x => [x] | None => [] end) /\
  (forall l i, (i < 0)%Z -> select_indices l [AIndex (IIndex i)] = []) /\
  (* [last]: the last element; [last - k]: the k-th from the end; [last + k], 0 < k: nothing *)
  (forall l, select_indices l [AIndex (ILast 0)] = match rev l with x :: _ => [x] | [] => [] end) /\
  (forall l k, (0 <= k)%Z -> select_indices l [AIndex (ILast (- k))] = match nth_error (rev l) (Z.to_nat k) with Some x => [x] | None => [] end) /\
  (forall l k, (0 < k)%Z -> select_indices l [AIndex (ILast k)] = []) /\
  (* [s to e]: the sublist between the clamped bounds, both included *)
  (forall l s e, select_indices l [ASlice s e] =
     firstn (Z.to_nat (Z.min (bound e (lenZ l)) (lenZ l - 1) - Z.max 0 (bound s (lenZ l)) + 1)) (skipn (Z.to_nat (Z.max 0 (bound s (lenZ l)))) l)) /\
  (* [a, b, ...]: the selections one after the other *)
  (forall l a r, select_indices l (a :: r) = select_indices l [a] ++ select_indices l r) /\
  (* [*] on an array: its elements; on anything else: the item itself.  .* on an object: its values.  .name: that member *)
  (forall v, select_step PBracketWild v = Ok (match v with VArr l => l | _ => [v] end)) /\
  (forall v, select_step PDotWild v = Ok (match v with VObj o => map snd o | _ => [] end)) /\
  (forall p n v, p = PDotField n \/ p = PColonField n \/ p = PObjectField n ->
     select_step p v = Ok (match v with VObj o => match assoc_lookup n o with Some x => [x] | None => [] end | _ => [] end)) /\
  (forall ixs v, select_step (PIndices ixs) v = Ok (match v with VArr l => select_indices l ixs | _ => [] end)) /\
  (* steps map the frontier item by item, in order, and compose *)
  (forall fe p fr, plain_step p = true -> walk fe [p] fr = flat_map_res (select_step p) fr) /\
  (forall fe ps qs fr, walk fe (ps ++ qs) fr = do m <- walk fe ps fr; walk fe qs m) /\
  (* a filter keeps, in order, exactly the items at which its expression is true *)
  (forall fe e fr out, walk fe [PFilter e] fr = Ok out -> exists g, out = filter g fr /\ forall x, In x fr -> fe x e = Ok (g x)) /\
  (* a comparison is true at an item exactly when some pair of operand values satisfies it *)
  (forall root op l r fr out, cmp_op op -> walk (fun pos e => filter_expr root pos e) [PFilter (EBin op l r)] fr = Ok out ->
     exists g, out = filter g fr /\ forall x, In x fr -> (g x = true <-> cmp_holds root op l r x)) /\
  (* && / || : conjunction / disjunction of the results *)
  (forall root x l r a b, filter_expr root x l = Ok a -> filter_expr root x r = Ok b ->
     filter_expr root x (EBin OAnd l r) = Ok (a && b) /\ filter_expr root x (EBin OOr l r) = Ok (a || b)) /\
  (* exists(p): the sub-path selects something *)
  (forall root x ps, filter_expr root x (EExists ps) = Ok true <-> exists items, find_positions root (Some x) ps = Ok items /\ items <> []).
Proof.
  exact (conj index_law (conj negative_index_law (conj last_law (conj last_minus_law (conj last_plus_law (conj slice_law
        (conj indices_concat_law (conj bracket_wildcard_law (conj dot_wildcard_law (conj field_law (conj indices_step_law
        (conj plain_step_law (conj steps_compose_law (conj filter_step_law (conj comparison_filter_law (conj and_or_values exists_law)))))))))))))))).
Qed.
Print Assumptions C08_step_meanings.

(* M6 (second review): the fuel the model passes is never what decides an answer, on ARBITRARY inputs -- also for the loops
   whose exhaustion is an ordinary value (None, Ok None, Ok buf, PErr, the input itself), about which `<> Err EFuel` says
   nothing: any fuel above the one the model passes gives the same answer (FuelIndep.v) *)
From JB Require FuelIndep.
Theorem C08_fuel_is_never_decisive :
  forall k bs i len j, (length bs < k)%nat -> Walk.rd_words k bs i len j = Walk.rd_words (S (length bs)) bs i len j.
Proof. exact FuelIndep.rd_words_any_fuel. Qed.
Print Assumptions C08_fuel_is_never_decisive.
