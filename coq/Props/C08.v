(* C08 — JSONPath evaluation returns exactly the items the path denotes; it never panics. *)
From Coq Require Import List NArith ZArith Bool.
Import ListNotations.
From JB Require Import Constants Bytes Num Value TreeOps Path PathSem EvalProofs.
Open Scope N_scope.

(* on every path in the image of the parser (steps after $ / @ are plain steps or filters; filter expressions are
   comparisons of operands, && / ||, exists(...); arithmetic is parsed but answered with an error) evaluation ends
   in a result or an error, for every document *)
Theorem C08_evaluation_never_panics : forall fuel root cur ps k,
  match ps with
  | PCurrent :: r => cur <> None /\ forallb (step_ok k) r = true
  | PRoot :: r => forallb (step_ok k) r = true
  | [PPredicate e] => expr_ok k e = true
  | r => forallb (step_ok k) r = true
  end -> find_positions fuel root cur ps <> Panic.
Proof. exact find_positions_np. Qed.
Print Assumptions C08_evaluation_never_panics.

Theorem C08_filter_never_panics : forall fuel root pos e k, expr_ok k e = true -> filter_expr fuel root pos e <> Panic.
Proof. exact filter_expr_np. Qed.
Print Assumptions C08_filter_never_panics.

(* pinned meaning of the steps on a small document: wildcard passes a non-array through, ranges with last, a filter
   keeps an item when some pair of operand values satisfies the comparison *)
Example C08_example_selection :
  let doc := VObj [([97], VArr [VNum (NUInt 1); VNum (NUInt 5); VNum (NUInt 9)]); ([98], VNum (NUInt 5))] in
  find_positions PATH_FUEL doc None [PRoot; PDotField [97]; PIndices [ASlice (IIndex 1) (ILast 0); AIndex (IIndex 0)]]
    = Ok [VNum (NUInt 5); VNum (NUInt 9); VNum (NUInt 1)] /\
  find_positions PATH_FUEL doc None [PRoot; PDotField [97]; PBracketWild; PFilter (EBin OEq (EPaths [PCurrent]) (EPaths [PRoot; PDotField [98]]))]
    = Ok [VNum (NUInt 5)] /\
  find_positions PATH_FUEL doc None [PRoot; PDotField [98]; PBracketWild] = Ok [VNum (NUInt 5)] /\
  find_positions PATH_FUEL doc None [PRoot; PFilter (EArithB BAdd (EPaths [PCurrent]) (EValue (PVNum (NUInt 1))))] = Err EOther.
Proof. vm_compute. repeat split; reflexivity. Qed.
Print Assumptions C08_example_selection.

(* ---- the selector as the code runs it: byte positions into the root buffer (SelWalk.v), never decoding ---- *)
From JB Require Import Codec DispatchProofs SelWalk SelWalkProofs.

(* a position denotes a sub-value when its offsets delimit exactly that value's payload in the buffer (SelWalkProofs.den);
   one step of the selector on a denoting position yields, in order and with repetitions, positions denoting exactly
   what the step selects on the value — or fails / panics exactly when the tree step does *)
Theorem C08_bytes_step : forall bs p pos x, den bs pos x ->
  res_rel (Forall2 (den bs)) (step_pos_w bs p pos) (select_step p x).
Proof. exact step_pos_den. Qed.
Print Assumptions C08_bytes_step.

(* the frontier after a whole path, filters included, for every fuel: positions denoting the tree evaluator's items *)
Theorem C08_bytes_positions_and_filters : forall root, good root -> forall fuel,
  (forall cur curv ps, cur_rel root cur curv ->
     res_rel (Forall2 (den (enc root))) (find_positions_w fuel (enc root) cur ps) (find_positions fuel root curv ps)) /\
  (forall pos x e, den (enc root) pos x -> res_rel eq (filter_expr_w fuel (enc root) pos e) (filter_expr fuel root x e)).
Proof. exact find_filter_rel. Qed.
Print Assumptions C08_bytes_positions_and_filters.

(* Selector::select / exists / predicate_match on the encoding of any well-formed value = the tree evaluator on the
   decoded document (normalise v = what parse_jsonb (enc v) yields), for EVERY path and mode: values, errors and
   panics alike, so no restriction to the parser's image is needed *)
Theorem C08_bytes_select : forall v ps m buf, wfb v = true -> select_w (enc v) ps m buf = select_t (normalise v) ps m buf.
Proof. exact select_w_enc. Qed.
Print Assumptions C08_bytes_select.
Theorem C08_bytes_exists : forall v ps, wfb v = true -> sel_exists_w (enc v) ps = exists_t (normalise v) ps.
Proof. exact sel_exists_w_enc. Qed.
Print Assumptions C08_bytes_exists.
Theorem C08_bytes_predicate_match : forall v ps, wfb v = true -> sel_predicate_match_w (enc v) ps = predicate_match_t (normalise v) ps.
Proof. exact sel_predicate_match_w_enc. Qed.
Print Assumptions C08_bytes_predicate_match.
(* the walker model and the decode-then-evaluate model of Dispatch.v agree on encodings *)
Theorem C08_bytes_select_is_view : forall v ps m buf, wfb v = true -> select_w (enc v) ps m buf = Dispatch.select_m (enc v) ps m buf.
Proof. exact select_w_m. Qed.
Print Assumptions C08_bytes_select_is_view.

(* the public functions get_by_path / get_by_path_first / get_by_path_array / path_exists / path_match *)
Theorem C08_bytes_get_by_path : forall md v ps buf, wfb v = true -> top_ok v ->
  get_by_path_gen_w md (enc v) ps buf = select_t (normalise v) ps md buf.
Proof. exact get_by_path_gen_w_enc. Qed.
Print Assumptions C08_bytes_get_by_path.
Theorem C08_bytes_path_exists : forall v ps, wfb v = true -> top_ok v -> path_exists_w (enc v) ps = exists_t (normalise v) ps.
Proof. exact path_exists_w_enc. Qed.
Print Assumptions C08_bytes_path_exists.
Theorem C08_bytes_path_match : forall v ps, wfb v = true -> top_ok v -> path_match_w (enc v) ps = predicate_match_t (normalise v) ps.
Proof. exact path_match_w_enc. Qed.
Print Assumptions C08_bytes_path_match.

(* on paths of the parser's image the byte-level selector never panics on an encoding *)
Theorem C08_bytes_never_panics : forall v ps m buf k, wfb v = true ->
  match ps with
  | PCurrent :: r => False
  | PRoot :: r => forallb (step_ok k) r = true
  | [PPredicate e] => expr_ok k e = true
  | r => forallb (step_ok k) r = true
  end -> select_w (enc v) ps m buf <> Panic.
Proof. exact select_w_never_panics. Qed.
Print Assumptions C08_bytes_never_panics.

(* a nested document, a path with a wildcard, an index range with `last` and a filter comparing @.k with $.b:
   $.*[1 to last]?(@.k >= $.b)  on  {"a":[{"k":1},{"k":5},{"k":9},"x"],"b":5}  selects {"k":5} and {"k":9};
   the walker computes it on the bytes, item by item and as an array *)
Example C08_bytes_example :
  let k n := VObj [([107], VNum (NUInt n))] in
  let doc := VObj [([97], VArr [k 1; k 5; k 9; VStr [120]]); ([98], VNum (NUInt 5))] in
  let p := [PRoot; PDotWild; PIndices [ASlice (IIndex 1) (ILast 0)];
            PFilter (EBin OGe (EPaths [PCurrent; PDotField [107]]) (EPaths [PRoot; PDotField [98]]))] in
  select_w (enc doc) p MAll [] = Ok (enc (k 5) ++ enc (k 9), [15; 30]) /\
  select_w (enc doc) p MArray [7] = Ok (7 :: enc (VArr [k 5; k 9]), [43]) /\
  select_w (enc doc) p MFirst [] = Ok (enc (k 5), [15]) /\
  sel_exists_w (enc doc) p = Ok true /\
  find_positions_w PATH_FUEL (enc doc) None [PRoot; PDotWild; PIndices [ASlice (IIndex 1) (ILast 0)]]
    = Ok [PosC 57 15; PosC 72 15; PosS STRING_TAG 87 1] /\
  select_w (firstn 60 (enc doc)) p MAll [] = Err EOther.
Proof. vm_compute. repeat split; reflexivity. Qed.
Print Assumptions C08_bytes_example.

(* the public functions of the walker model and of the view-level model agree on encodings *)
Theorem C08_bytes_public_is_view : forall md v ps buf, wfb v = true -> top_ok v ->
  get_by_path_gen_w md (enc v) ps buf = Dispatch.get_by_path_gen md (enc v) ps buf.
Proof. exact get_by_path_gen_w_m. Qed.
Print Assumptions C08_bytes_public_is_view.
