(* C01 — Binary encoding round-trips every value and is exactly the documented layout. *)
From Coq Require Import List NArith ZArith Bool.
Import ListNotations.
From JB Require Import Constants Bytes Num NumProofs Value Codec Order CodecProofs RoundtripProofs.
Open Scope N_scope.

(* the constants the translator read from src/constants.rs are the ones the README documents *)
Theorem C01_readme_constants :
  (SCALAR_CONTAINER_TAG, OBJECT_CONTAINER_TAG, ARRAY_CONTAINER_TAG) = (0x20000000, 0x40000000, 0x80000000) /\
  (NULL_TAG, STRING_TAG, NUMBER_TAG, FALSE_TAG, TRUE_TAG, CONTAINER_TAG)
    = (0x00000000, 0x10000000, 0x20000000, 0x30000000, 0x40000000, 0x50000000) /\
  (CONTAINER_HEADER_TYPE_MASK, CONTAINER_HEADER_LEN_MASK, JENTRY_TYPE_MASK, JENTRY_OFF_LEN_MASK)
    = (0xE0000000, 0x1FFFFFFF, 0x70000000, 0x0FFFFFFF) /\
  (NUMBER_ZERO, NUMBER_NAN, NUMBER_INF, NUMBER_NEG_INF, NUMBER_INT, NUMBER_UINT, NUMBER_FLOAT)
    = (0x00, 0x10, 0x20, 0x30, 0x40, 0x50, 0x60).
Proof. repeat split. Qed.
Print Assumptions C01_readme_constants.

(* the encoder of ser.rs (buffer, reserve_jentries, replace_jentry back-patching) writes exactly the layout
   function `enc`: header word = kind | count, one entry word per element = type | exact payload length,
   object keys once, ahead of the values, numbers in compact form *)
Theorem C01_encoder_writes_the_layout : forall v, wf_size v = true -> to_vec v = enc v.
Proof. exact to_vec_is_layout. Qed.
Print Assumptions C01_encoder_writes_the_layout.

(* every entry word carries the exact byte length of its payload *)
Theorem C01_entry_lengths_exact : forall v, wf_size v = true -> je_len (fst (enc_item v)) = lenN (snd (enc_item v)).
Proof. exact word_len. Qed.
Print Assumptions C01_entry_lengths_exact.

(* decoding an encoding gives the value back; `normalise` is the only representation change of a round trip:
   Int64 0 becomes UInt64 0 and every NaN becomes the canonical NaN *)
Theorem C01_decode_encode : forall v, wfb v = true -> parse_jsonb (enc v) = Ok (normalise v).
Proof. exact parse_jsonb_enc. Qed.
Print Assumptions C01_decode_encode.

Theorem C01_decoded_value_is_equal : forall v, cmp_value (normalise v) v = Eq.
Proof. exact normalise_equal. Qed.
Print Assumptions C01_decoded_value_is_equal.

(* re-encoding the decoded value reproduces the identical bytes *)
Theorem C01_reencode_identical : forall v d, wfb v = true -> parse_jsonb (enc v) = Ok d -> enc d = enc v /\ cmp_value d v = Eq.
Proof. exact reencode_identical. Qed.
Print Assumptions C01_reencode_identical.

(* numbers: exact through the compact codec, in the shortest of the 1/2/3/5/9 byte forms *)
Theorem C01_numbers_exact : forall n, num_in_range n = true -> num_decode (compact_encode n) = Ok (normalise_num n).
Proof. exact num_roundtrip. Qed.
Print Assumptions C01_numbers_exact.

(* non-vacuity: a nested value with an empty object in the middle of an array, a multi-byte key, width boundaries *)
Example C01_example_is_well_formed :
  wfb (VArr [VStr [97]; VObj []; VNum (NUInt 127); VNum (NUInt 128); VNum (NInt (-32769));
             VObj [([195; 169], VArr [VNull; VNum (NFloat 4607182418800017408)])]]) = true.
Proof. vm_compute. reflexivity. Qed.
Print Assumptions C01_example_is_well_formed.

(* numbers take the SHORTEST of the 1/2/3/5/9 byte forms: no byte string that Number::decode reads as the same number is
   shorter than what compact_encode writes (NumCodecProofs.v; also C18_compact_encode_is_the_shortest_form) *)
From JB Require Import NumCodecProofs.
Theorem C01_compact_encode_is_the_shortest_form :
  forall n, num_in_range n = true ->
  In (length (compact_encode n)) [1; 2; 3; 5; 9]%nat /\
  forall bs m, bytes_ok bs -> num_decode bs = Ok m -> normalise_num m = normalise_num n ->
               (length (compact_encode n) <= length bs)%nat.
Proof.
  intros n Hr. split; [apply compact_encode_length_cases|]. intros bs m. apply compact_encode_shortest. exact Hr.
Qed.
Print Assumptions C01_compact_encode_is_the_shortest_form.
(* ---- the other two observation points of the codec: write_to_vec into a caller's buffer appends exactly the layout,
   and from_slice (binary decoder first, text as the fallback) decodes every encoding *)
From JB Require Import Dispatch TextBinProofs.
Theorem C01_write_to_vec_appends_the_layout : forall v, wf_size v = true -> forall buf, write_to_vec buf v = buf ++ enc v.
Proof. exact write_to_vec_spec. Qed.
Print Assumptions C01_write_to_vec_appends_the_layout.

Theorem C01_from_slice_decodes_encodings : forall v, wfb v = true -> from_slice (enc v) = Ok (normalise v).
Proof. exact from_slice_enc. Qed.
Print Assumptions C01_from_slice_decodes_encodings.

(* L5 (second review): the integers on the wire read WITHOUT the decoder's helpers (sext / rd_be): the bytes are the
   big-endian base-256 digits (be_sum), a signed integer is that number in two's complement (2^(8k) subtracted exactly when the
   top bit of the first byte is set) *)
Theorem C01_wire_integers_by_value :
  (forall bs, Z.of_N (rd_be bs 0) = be_sum bs) /\
  (forall bs, bytes_ok bs -> bs <> [] -> sext (length bs) (rd_be bs 0) = twos_value bs) /\
  (forall bs n, bytes_ok bs -> num_wire bs n ->
     match bs with
     | t :: rest =>
         (t = NUMBER_INT -> n = NInt (twos_value rest)) /\
         (t = NUMBER_UINT -> exists u, n = NUInt u /\ Z.of_N u = be_sum rest) /\
         (t = NUMBER_FLOAT -> exists b, n = NFloat b /\ Z.of_N b = be_sum rest)
     | [] => False
     end).
Proof. split; [exact rd_be_is_be_sum|split; [exact sext_is_twos_value|exact num_wire_by_value]]. Qed.
Print Assumptions C01_wire_integers_by_value.
