(* C01 — Binary encoding round-trips every value and is exactly the documented layout. *)
From Coq Require Import List NArith ZArith.
From JB Require Import Constants Bytes Num Value Codec.
Open Scope N_scope.

(* the constants the translator read from src/constants.rs are the ones the README documents *)
Theorem C01_readme_constants :
  (SCALAR_CONTAINER_TAG, OBJECT_CONTAINER_TAG, ARRAY_CONTAINER_TAG) = (0x20000000, 0x40000000, 0x80000000) /\
  (NULL_TAG, STRING_TAG, NUMBER_TAG, FALSE_TAG, TRUE_TAG, CONTAINER_TAG)
    = (0x00000000, 0x10000000, 0x20000000, 0x30000000, 0x40000000, 0x50000000) /\
  (CONTAINER_HEADER_TYPE_MASK, CONTAINER_HEADER_LEN_MASK, JENTRY_TYPE_MASK, JENTRY_OFF_LEN_MASK)
    = (0xE0000000, 0x1FFFFFFF, 0x70000000, 0x0FFFFFFF) /\
  (NUMBER_ZERO, NUMBER_NAN, NUMBER_INF, NUMBER_NEG_INF, NUMBER_INT, NUMBER_UINT, NUMBER_FLOAT)
    = (0x00, 0x10, 0x20, 0x30, 0x40, 0x50, 0x60).
Proof. repeat split. Qed.
Print Assumptions C01_readme_constants.
