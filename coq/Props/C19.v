(* C19 — conversion to and from serde_json preserves the document. *)
From Coq Require Import List NArith ZArith Bool.
Import ListNotations.
From JB Require Import Constants Bytes Num Value Order Serde SerdeProofs.
Open Scope N_scope.

(* converting a well-shaped finite document to serde_json and back gives the document, up to the one representation
   change serde_json imposes (a non-negative Int64 comes back as UInt64) *)
Theorem C19_roundtrip : forall v, wf_shape v = true -> forall s, to_serde_json_t v = Ok s -> serde_to_value s = unsign v.
Proof. exact serde_roundtrip. Qed.
Print Assumptions C19_roundtrip.

(* ... which is an equal value: the two conversions are mutually inverse on JSON documents *)
Theorem C19_roundtrip_equal : forall v s, wf_shape v = true -> to_serde_json_t v = Ok s -> cmp_value (serde_to_value s) v = Eq.
Proof. exact serde_roundtrip_equal. Qed.
Print Assumptions C19_roundtrip_equal.

(* the object-only variant returns the members for an object, nothing for other kinds, and agrees with the general one *)
Theorem C19_object_variant : forall v,
  to_serde_json_object_t v = match v with VObj _ => res_map Some (to_serde_json_t v) | _ => Ok None end.
Proof. exact serde_object_variant. Qed.
Print Assumptions C19_object_variant.

(* ---- the byte walker itself (SerdeWalk.v: containter_to_serde_json / scalar_to_serde_json over iterate_object_entries /
   iterate_array, recursing on the payload sub-slices, with a failed read as an error and a slice out of bounds as a
   panic): on the encoding of any well-formed v it returns the tree conversion of v — no read fails, nothing panics, the
   only error is the tree conversion's own (a NaN or an infinity somewhere in the document). *)
From JB Require Import Codec DispatchProofs SerdeWalk SerdeWalkProofs.

Theorem C19_to_serde_json_bytes : forall v, wfb v = true -> top_ok v -> to_serde_json_w (enc v) = to_serde_json_t (normalise v).
Proof. exact to_serde_json_w_enc_norm. Qed.
Print Assumptions C19_to_serde_json_bytes.

Theorem C19_to_serde_json_object_bytes : forall v, wfb v = true -> top_ok v ->
  to_serde_json_object_w (enc v) = to_serde_json_object_t (normalise v).
Proof. exact to_serde_json_object_w_enc_norm. Qed.
Print Assumptions C19_to_serde_json_object_bytes.

(* ... which is also the tree conversion of v as it stands (the decoder's representation change is invisible) *)
Theorem C19_to_serde_json_bytes_exact : forall v, wfb v = true -> top_ok v ->
  to_serde_json_w (enc v) = to_serde_json_t v /\ to_serde_json_object_w (enc v) = to_serde_json_object_t v.
Proof. intros v H T. split; [apply to_serde_json_w_enc|apply to_serde_json_object_w_enc]; assumption. Qed.
Print Assumptions C19_to_serde_json_bytes_exact.

(* so the bytes -> serde_json -> Value trip gives an equal document *)
Theorem C19_bytes_roundtrip_equal : forall v s, wfb v = true -> top_ok v -> to_serde_json_w (enc v) = Ok s ->
  cmp_value (serde_to_value s) v = Eq.
Proof.
  intros v s H T E. rewrite (to_serde_json_w_enc v H T) in E. apply (serde_roundtrip_equal v s); [|exact E].
  unfold wfb in H. apply andb_true_iff in H. apply H.
Qed.
Print Assumptions C19_bytes_roundtrip_equal.

(* a nested document with numbers of all three kinds, a string, an empty container; and a non-finite float *)
Definition c19_doc : value :=
  VObj [([97], VArr [VNum (NInt (-5)); VNum (NUInt 18446744073709551615); VNum (NFloat 4609434218613702656);
                     VStr [104; 105]; VNull; VArr []]);
        ([98], VObj [([99], VBool true); ([100], VNum (NInt 0))])].
Example C19_bytes_example :
  wfb c19_doc = true /\
  to_serde_json_w (enc c19_doc)
  = Ok (SObj [([97], SArr [SNum (SNeg (-5)); SNum (SPos 18446744073709551615); SNum (SFloat 4609434218613702656);
                           SStr [104; 105]; SNull; SArr []]);
              ([98], SObj [([99], SBool true); ([100], SNum (SPos 0))])]) /\
  to_serde_json_object_w (enc c19_doc) = res_map Some (to_serde_json_w (enc c19_doc)) /\
  to_serde_json_object_w (enc (VArr [c19_doc])) = Ok None /\
  to_serde_json_w (enc (VArr [VNum (NFloat F_INF)])) = Err EOther.
Proof. vm_compute. repeat split; reflexivity. Qed.
