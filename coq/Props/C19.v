(* C19 — conversion to and from serde_json preserves the document. *)
From Coq Require Import List NArith ZArith Bool.
Import ListNotations.
From JB Require Import Constants Bytes Num Value Order Serde SerdeProofs.
Open Scope N_scope.

(* converting a well-shaped finite document to serde_json and back gives the document, up to the one representation
   change serde_json imposes (a non-negative Int64 comes back as UInt64) *)
Theorem C19_roundtrip : forall v, wf_shape v = true -> forall s, to_serde_json_t v = Ok s -> serde_to_value s = unsign v.
Proof. exact serde_roundtrip. Qed.
Print Assumptions C19_roundtrip.

(* ... which is an equal value: the two conversions are mutually inverse on JSON documents *)
Theorem C19_roundtrip_equal : forall v s, wf_shape v = true -> to_serde_json_t v = Ok s -> cmp_value (serde_to_value s) v = Eq.
Proof. exact serde_roundtrip_equal. Qed.
Print Assumptions C19_roundtrip_equal.

(* the object-only variant returns the members for an object, nothing for other kinds, and agrees with the general one *)
Theorem C19_object_variant : forall v,
  to_serde_json_object_t v = match v with VObj _ => res_map Some (to_serde_json_t v) | _ => Ok None end.
Proof. exact serde_object_variant. Qed.
Print Assumptions C19_object_variant.
