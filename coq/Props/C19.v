(* C19 — conversion to and from serde_json preserves the document. *)
From Coq Require Import List NArith ZArith Bool.
Import ListNotations.
From JB Require Import Constants Bytes Num Value Order Serde SerdeProofs.
Open Scope N_scope.

(* converting a well-shaped finite document to serde_json and back gives the document, up to the one representation
   change serde_json imposes (a non-negative Int64 comes back as UInt64) *)
Theorem C19_roundtrip : forall v, wf_shape v = true -> forall s, to_serde_json_t v = Ok s -> serde_to_value s = unsign v.
Proof. exact serde_roundtrip. Qed.
Print Assumptions C19_roundtrip.

(* ... which is an equal value: the two conversions are mutually inverse on JSON documents *)
Theorem C19_roundtrip_equal : forall v s, wf_shape v = true -> to_serde_json_t v = Ok s -> cmp_value (serde_to_value s) v = Eq.
Proof. exact serde_roundtrip_equal. Qed.
Print Assumptions C19_roundtrip_equal.

(* the object-only variant returns the members for an object, nothing for other kinds, and agrees with the general one *)
Theorem C19_object_variant : forall v,
  to_serde_json_object_t v = match v with VObj _ => res_map Some (to_serde_json_t v) | _ => Ok None end.
Proof. exact serde_object_variant. Qed.
Print Assumptions C19_object_variant.

(* ---- the byte walker itself (SerdeWalk.v: containter_to_serde_json / scalar_to_serde_json over iterate_object_entries /
   iterate_array, recursing on the payload sub-slices, with a failed read as an error and a slice out of bounds as a
   panic): on the encoding of any well-formed v it returns the tree conversion of v — no read fails, nothing panics, the
   only error is the tree conversion's own (a NaN or an infinity somewhere in the document). *)
From JB Require Import Codec DispatchProofs SerdeWalk SerdeWalkProofs.

Theorem C19_to_serde_json_bytes : forall v, wfb v = true -> top_ok v -> to_serde_json_w (enc v) = to_serde_json_t (normalise v).
Proof. exact to_serde_json_w_enc_norm. Qed.
Print Assumptions C19_to_serde_json_bytes.

Theorem C19_to_serde_json_object_bytes : forall v, wfb v = true -> top_ok v ->
  to_serde_json_object_w (enc v) = to_serde_json_object_t (normalise v).
Proof. exact to_serde_json_object_w_enc_norm. Qed.
Print Assumptions C19_to_serde_json_object_bytes.

(* ... which is also the tree conversion of v as it stands (the decoder's representation change is invisible) *)
Theorem C19_to_serde_json_bytes_exact : forall v, wfb v = true -> top_ok v ->
  to_serde_json_w (enc v) = to_serde_json_t v /\ to_serde_json_object_w (enc v) = to_serde_json_object_t v.
Proof. intros v H T. split; [apply to_serde_json_w_enc|apply to_serde_json_object_w_enc]; assumption. Qed.
Print Assumptions C19_to_serde_json_bytes_exact.

(* so the bytes -> serde_json -> Value trip gives an equal document *)
Theorem C19_bytes_roundtrip_equal : forall v s, wfb v = true -> top_ok v -> to_serde_json_w (enc v) = Ok s ->
  cmp_value (serde_to_value s) v = Eq.
Proof.
  intros v s H T E. rewrite (to_serde_json_w_enc v H T) in E. apply (serde_roundtrip_equal v s); [|exact E].
  unfold wfb in H. apply andb_true_iff in H. apply H.
Qed.
Print Assumptions C19_bytes_roundtrip_equal.

(* a nested document with numbers of all three kinds, a string, an empty container; and a non-finite float *)
Definition c19_doc : value :=
  VObj [([97], VArr [VNum (NInt (-5)); VNum (NUInt 18446744073709551615); VNum (NFloat 4609434218613702656);
                     VStr [104; 105]; VNull; VArr []]);
        ([98], VObj [([99], VBool true); ([100], VNum (NInt 0))])].
Example C19_bytes_example :
  wfb c19_doc = true /\
  to_serde_json_w (enc c19_doc)
  = Ok (SObj [([97], SArr [SNum (SNeg (-5)); SNum (SPos 18446744073709551615); SNum (SFloat 4609434218613702656);
                           SStr [104; 105]; SNull; SArr []]);
              ([98], SObj [([99], SBool true); ([100], SNum (SPos 0))])]) /\
  to_serde_json_object_w (enc c19_doc) = res_map Some (to_serde_json_w (enc c19_doc)) /\
  to_serde_json_object_w (enc (VArr [c19_doc])) = Ok None /\
  to_serde_json_w (enc (VArr [VNum (NFloat F_INF)])) = Err EOther.
Proof. vm_compute. repeat split; reflexivity. Qed.
Print Assumptions C19_bytes_example.

(* ---- the first sentence of the property: "converting JSONB bytes (or the value tree) to a serde_json value gives the
   same document an independent strict parser reads from its text rendering: same structure, strings, member sets, and
   each number as the same u64, i64 or f64".  The independent strict parser is the declarative RFC 8259 grammar
   `rfc_text t d` (JsonGrammar.v); `sj_of_value d` (SerdeRfc.v) is the serde_json value a reader holding d hands out, with
   serde_json's classification of numbers (non-negative integer fitting u64: PosInt, negative fitting i64: NegInt, else
   Float; members in key order) -- a structural map written without reference to the conversion under test.  For every
   valid document with finite numbers: to_string and to_pretty_string of the bytes print RFC 8259 texts of ONE document
   d, equal to v under compare, and to_serde_json of the same bytes is sj_of_value d -- and of any d' the grammar reads
   from either text, because the grammar is functional.  (pf = the shortest-round-trip float printer, a parameter of the
   model; the hypothesis says it prints an RFC number denoting the float it was given.) *)
From JB Require Import Render JsonGrammar RenderRfc RenderWalk SerdeRfc.
Theorem C19_serde_value_is_what_the_rendering_denotes : forall pf v,
  wfb v = true -> top_ok v -> finite_numbers v = true -> (forall b, In b (floats_of v) -> rfc_float_text pf b) ->
  exists tc tp d,
    to_string_w' pf (enc v) = Ok tc /\ to_pretty_string_w' pf (enc v) = Ok tp /\
    rfc_text tc d /\ rfc_text tp d /\ cmp_value d v = Eq /\
    to_serde_json_w (enc v) = Ok (sj_of_value d) /\
    (forall d', rfc_text tc d' \/ rfc_text tp d' -> to_serde_json_w (enc v) = Ok (sj_of_value d')).
Proof. exact serde_value_is_what_the_rendering_denotes. Qed.
Print Assumptions C19_serde_value_is_what_the_rendering_denotes.

(* the same for the value tree (From<Value> for serde_json::Value and to_serde_json on a tree), compact or pretty *)
Theorem C19_serde_value_is_what_the_rendering_denotes_tree : forall pf pretty v,
  wf_shape v = true -> finite_numbers v = true -> (forall b, In b (floats_of v) -> rfc_float_text pf b) ->
  exists d, rfc_text (render pf pretty 0 v) d /\ cmp_value d v = Eq /\
            to_serde_json_t v = Ok (sj_of_value d) /\ value_to_serde v = Ok (sj_of_value d) /\
            forall d', rfc_text (render pf pretty 0 v) d' -> to_serde_json_t v = Ok (sj_of_value d').
Proof. exact serde_value_is_what_the_rendering_denotes_t. Qed.
Print Assumptions C19_serde_value_is_what_the_rendering_denotes_tree.

(* the conversion of a finite document never fails, whatever the shape of the tree, and is the structural map *)
Theorem C19_conversion_is_structural : forall v, finite_numbers v = true ->
  to_serde_json_t v = Ok (sj_of_value v) /\ value_to_serde v = Ok (sj_of_value v) /\ sj_of_value (unsign v) = sj_of_value v.
Proof. intros v H. split; [|split]; [apply to_serde_is_sj_of_value; exact H|apply to_serde_is_sj_of_value; exact H|apply sj_of_unsign]. Qed.
Print Assumptions C19_conversion_is_structural.

(* not vacuous: c19_doc (numbers of all three kinds, among them the double 1.5 and the Int64 0 that a reader sees as the
   u64 0) with a printer that prints "1.5" satisfies every hypothesis; the document denoted and its reader's value *)
Example C19_rendering_example :
  let pf := fun _ : N => [49; 46; 53] in
  wfb c19_doc = true /\ top_ok c19_doc /\ finite_numbers c19_doc = true /\
  (forall b, In b (floats_of c19_doc) -> rfc_float_text pf b) /\
  to_string_w' pf (enc c19_doc) = Ok (render pf false 0 c19_doc) /\
  rfc_text (render pf false 0 c19_doc) (denoted c19_doc) /\
  denoted c19_doc <> c19_doc /\
  to_serde_json_w (enc c19_doc) = Ok (sj_of_value (denoted c19_doc)).
Proof.
  intros pf.
  assert (Hw : wfb c19_doc = true) by (vm_compute; reflexivity).
  assert (Ht : top_ok c19_doc) by (vm_compute; try reflexivity; try exact I; auto).
  assert (Hf : finite_numbers c19_doc = true) by (vm_compute; reflexivity).
  assert (Hpf : forall b, In b (floats_of c19_doc) -> rfc_float_text pf b).
  { intros b Hb. vm_compute in Hb. destruct Hb as [<-|[]]. exact rfc_float_text_example. }
  split; [exact Hw|]. split; [exact Ht|]. split; [exact Hf|]. split; [exact Hpf|].
  split; [|split; [|split]].
  - vm_compute. reflexivity.
  - destruct (to_string_rfc pf c19_doc Hw Ht Hf Hpf) as (t & E & R).
    replace (render pf false 0 c19_doc) with t; [exact R|]. vm_compute in E. injection E as <-. vm_compute. reflexivity.
  - vm_compute. discriminate.
  - apply to_serde_json_w_rfc; assumption.
Qed.
Print Assumptions C19_rendering_example.

(* ---- "mutually inverse", the other direction (Extra19.v): for every serde_json value s of serde_json's data model
   (sj_wf: a NegInt is negative, a Float is finite -- Number's own invariants -- and a Map is its key-ordered list of
   distinct keys), Value::from(s) converted back gives s identically, through to_serde_json and through From<Value>;
   the Value built is a jsonb document when the strings of s are Rust Strings and the numbers fit their types; and
   whatever to_serde_json returns is in the data model.  With C19_roundtrip (serde_to_value s = unsign v): the two
   conversions are mutually inverse bijections between finite documents in the reader's representation and serde values. *)
From JB Require Import Extra19.
Theorem C19_conversions_are_mutually_inverse :
  (forall s, sj_wf s = true -> to_serde_json_t (serde_to_value s) = Ok s /\ value_to_serde (serde_to_value s) = Ok s) /\
  (forall s, sj_wf s = true -> sj_strings s = true -> wf_shape (serde_to_value s) = true) /\
  (forall v s, wf_shape v = true -> to_serde_json_t v = Ok s -> sj_wf s = true /\ serde_to_value s = unsign v).
Proof.
  split; [exact serde_value_roundtrip_both|]. split; [exact serde_to_value_wf|].
  intros v s Hw H. split; [exact (to_serde_json_image_wf v Hw s H)|exact (serde_roundtrip v Hw s H)].
Qed.
Print Assumptions C19_conversions_are_mutually_inverse.

(* From<Value> for serde_json::Value (value_to_serde) is to_serde_json on the tree wherever that succeeds -- in particular
   on every document with finite numbers; where to_serde_json returns its error (a NaN or an infinity somewhere in the
   document) the model of From<Value> returns Panic (`from_f64(v).unwrap()`), and that is the only way it panics *)
Theorem C19_from_value_agrees_with_to_serde_json :
  (forall v, finite_numbers v = true -> value_to_serde v = to_serde_json_t v) /\
  (forall v, value_to_serde v = err_to_panic (to_serde_json_t v)) /\
  (forall v, to_serde_json_t v <> Panic) /\
  (forall v, value_to_serde v = Panic <-> exists e, to_serde_json_t v = Err e).
Proof.
  split; [exact value_to_serde_finite|]. split; [exact value_to_serde_is_to_serde_json|].
  split; [exact to_serde_json_t_no_panic|exact value_to_serde_panics_iff].
Qed.
Print Assumptions C19_from_value_agrees_with_to_serde_json.

(* ---- the recursion fuel of the to_serde_json walker (containter_to_serde_json over the payload sub-slices) is never the
   reason for an answer, on ANY buffer, binary or text (ExtraFuel19.v): every nested item is at least 8 bytes shorter *)
From JB Require Import ExtraFuel19.
Theorem C19_fuel_never_exhausted :
  (forall bs, to_serde_json_w bs <> Err EFuel) /\ (forall bs, to_serde_json_object_w bs <> Err EFuel) /\
  (forall fuel bs, (length bs < fuel)%nat -> container_to_serde_w fuel bs <> Err EFuel).
Proof. split; [exact to_serde_json_w_not_fuel|]. split; [exact to_serde_json_object_w_not_fuel|exact container_to_serde_fuel]. Qed.
Print Assumptions C19_fuel_never_exhausted.

(* M6 (second review): the fuel the model passes is never what decides an answer, on ARBITRARY inputs -- also for the loops
   whose exhaustion is an ordinary value (None, Ok None, Ok buf, PErr, the input itself), about which `<> Err EFuel` says
   nothing: any fuel above the one the model passes gives the same answer (FuelIndep.v) *)
From JB Require FuelIndep.
Theorem C19_fuel_is_never_decisive :
  (forall k bs, (length bs < k)%nat -> SerdeWalk.container_to_serde_w k bs = SerdeWalk.container_to_serde_w (S (length bs)) bs) /\
  (forall k bs, (length bs < k)%nat -> JsonText.parse_json_value k bs = JsonText.parse_json_value (S (length bs)) bs) /\
  (forall St R bs (step : St -> Codec.je -> list N -> res (St + R)) fin k idx len joff voff s, (length bs < k)%nat -> Iter.arr_fold bs step fin k idx len joff voff s = Iter.arr_fold bs step fin (S (length bs)) idx len joff voff s) /\
  (forall k bs i len j, (length bs < k)%nat -> Walk.rd_words k bs i len j = Walk.rd_words (S (length bs)) bs i len j).
Proof. split; [exact FuelIndep.container_to_serde_any_fuel|split; [exact FuelIndep.parse_json_value_any_fuel|split; [exact (@FuelIndep.arr_fold_any_fuel)|exact FuelIndep.rd_words_any_fuel]]]. Qed.
Print Assumptions C19_fuel_is_never_decisive.

(* L5 (second review): the number classification of sj_of_value by VALUE, independent of the conversion's code: an integer
   (in either integer variant) is PosInt of itself when non-negative and NegInt of itself when negative, a float is itself;
   sj_num_of is the only function with that property *)
Theorem C19_number_classification_by_value :
  (forall n, same_number n (sj_num_of n)) /\ (forall n s, same_number n s -> s = sj_num_of n).
Proof. split; [exact sj_num_of_same_number|exact same_number_unique]. Qed.
Print Assumptions C19_number_classification_by_value.

(* ---- the other From impls of from.rs (model ValueApi.v, all statements in Props/ValueApi.v): an integer primitive lands in the
   variant of its signedness and is read back by as_i64 / as_u64; what its encoding decodes to is the same number *)
From JB Require ValueApi ValueApiProofs.
Theorem C19_from_integer_primitives :
  (forall z, ValueApi.value_as_i64 (ValueApi.from_i64 z) = Some z) /\
  (forall n, ValueApi.value_as_u64 (ValueApi.from_u64 n) = Some n) /\
  (forall z, (- two63 <= z < two63)%Z ->
     Dispatch.from_slice (Codec.to_vec (ValueApi.from_i64 z)) = Ok (if (z =? 0)%Z then ValueApi.from_u64 0 else ValueApi.from_i64 z)) /\
  (forall n, n < two64 -> Dispatch.from_slice (Codec.to_vec (ValueApi.from_u64 n)) = Ok (ValueApi.from_u64 n)).
Proof.
  split; [intros z; exact (proj1 (ValueApiProofs.from_i64_views z))|]. split; [intros n; exact (proj1 (ValueApiProofs.from_u64_views n))|].
  split; [exact ValueApiProofs.from_i64_roundtrip|exact ValueApiProofs.from_u64_roundtrip].
Qed.
Print Assumptions C19_from_integer_primitives.
