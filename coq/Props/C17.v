(* C17 — functions that write into a caller's buffer only append to it. *)
From Coq Require Import List NArith ZArith Bool.
Import ListNotations.
From JB Require Import Constants Bytes Num Value Codec TreeOps Path PathSem ModeProofs Dispatch MiscProofs.
Open Scope N_scope.

(* path selection: what is appended does not depend on the buffer, offsets are positions in that buffer *)
Theorem C17_selection_appends : forall root ps m pre,
  select_t root ps m pre = shift_result pre (select_t root ps m []).
Proof. exact select_frame. Qed.
Print Assumptions C17_selection_appends.

(* every editor of the dispatch model appends the encoding of its tree result, or fails and appends nothing *)
Theorem C17_editors_append : forall buf r,
  append_enc buf r = match r with Ok v => Ok (buf ++ enc v) | Err e => Err e | Panic => Panic end.
Proof. exact append_enc_frame. Qed.
Print Assumptions C17_editors_append.

(* the selector on byte positions (SelWalk.v): what it appends for an encoding does not depend on the buffer *)
From JB Require Import SelWalk SelWalkProofs.
Theorem C17_bytes_selection_appends : forall v ps m pre, wfb v = true ->
  select_w (enc v) ps m pre = shift_result pre (select_w (enc v) ps m []).
Proof. exact select_w_frame. Qed.
Print Assumptions C17_bytes_selection_appends.
