(* C17 — functions that write into a caller's buffer only append to it. *)
From Coq Require Import List NArith ZArith Bool.
Import ListNotations.
From JB Require Import Constants Bytes Num Value Codec TreeOps Path PathSem ModeProofs Dispatch MiscProofs.
Open Scope N_scope.

(* path selection: what is appended does not depend on the buffer, offsets are positions in that buffer *)
Theorem C17_selection_appends : forall root ps m pre,
  select_t root ps m pre = shift_result pre (select_t root ps m []).
Proof. exact select_frame. Qed.
Print Assumptions C17_selection_appends.

(* every editor of the dispatch model appends the encoding of its tree result, or fails and appends nothing *)
Theorem C17_editors_append : forall buf r,
  append_enc buf r = match r with Ok v => Ok (buf ++ enc v) | Err e => Err e | Panic => Panic end.
Proof. exact append_enc_frame. Qed.
Print Assumptions C17_editors_append.

(* the selector on byte positions (SelWalk.v): what it appends for an encoding does not depend on the buffer *)
From JB Require Import SelWalk SelWalkProofs.
Theorem C17_bytes_selection_appends : forall v ps m pre, wfb v = true ->
  select_w (enc v) ps m pre = shift_result pre (select_w (enc v) ps m []).
Proof. exact select_w_frame. Qed.
Print Assumptions C17_bytes_selection_appends.

(* the byte editors (EditWalk.v: iterators, builders, build_into on the caller's buffer) on encodings: the existing
   content is kept as a prefix and what follows it is what the same call appends to an empty buffer; an error appends
   nothing (an `Err` carries no buffer: the caller's buffer is as it was) *)
From JB Require Import DispatchProofs EditWalk EditWalkProofs.
Theorem C17_editors_append_bytes : forall buf,
  (forall a b, wfb a = true -> top_ok a -> wfb b = true -> top_ok b -> wf_size (concat_t a b) = true ->
     concat_w (enc a) (enc b) buf = res_map (app buf) (concat_w (enc a) (enc b) [])) /\
  (forall v name, wfb v = true -> top_ok v ->
     delete_by_name_w (enc v) name buf = res_map (app buf) (delete_by_name_w (enc v) name [])) /\
  (forall v i, wfb v = true -> top_ok v ->
     delete_by_index_w (enc v) i buf = res_map (app buf) (delete_by_index_w (enc v) i [])) /\
  (forall v pos x, wfb v = true -> top_ok v -> wfb x = true -> top_ok x -> wf_size (array_insert_t v pos x) = true ->
     array_insert_w (enc v) pos (enc x) buf = res_map (app buf) (array_insert_w (enc v) pos (enc x) [])) /\
  (forall vs, Forall (fun v => wf_size v = true) vs ->
     build_array_w (map enc vs) buf = res_map (app buf) (build_array_w (map enc vs) [])) /\
  (forall ks vs, Forall (fun v => wf_size v = true) vs ->
     build_object_w ks (map enc vs) buf = res_map (app buf) (build_object_w ks (map enc vs) [])).
Proof. exact editors_append_bytes. Qed.
Print Assumptions C17_editors_append_bytes.
(* ---- BEGIN edit2: the byte editors of EditWalk2.v (object_insert / object_delete / object_pick / strip_nulls /
   delete_by_keypath) on encodings: the bytes already in the buffer stay, what is appended does not depend on them,
   an error appends nothing ---- *)
From JB Require Import DispatchProofs EditWalk2 EditWalk2Proofs.
Theorem C17_bytes_edit2_appends : forall v, wfb v = true -> top_ok v -> forall buf,
  (forall ks, object_delete_w (enc v) ks buf = res_map (app buf) (object_delete_w (enc v) ks [])) /\
  (forall ks, object_pick_w (enc v) ks buf = res_map (app buf) (object_pick_w (enc v) ks [])) /\
  strip_nulls_w (enc v) buf = res_map (app buf) (strip_nulls_w (enc v) []) /\
  (forall ks, delete_by_keypath_w (enc v) ks buf = res_map (app buf) (delete_by_keypath_w (enc v) ks [])) /\
  (forall x key upd, wfb x = true -> top_ok x -> (forall y, object_insert_t v key x upd = Ok y -> wf_size y = true) ->
     object_insert_w (enc v) key (enc x) upd buf = res_map (app buf) (object_insert_w (enc v) key (enc x) upd [])).
Proof. exact edit2_appends. Qed.
Print Assumptions C17_bytes_edit2_appends.
(* ---- END edit2 ---- *)
