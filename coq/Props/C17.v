(* C17 — functions that write into a caller's buffer only append to it. *)
From Coq Require Import List NArith ZArith Bool.
Import ListNotations.
From JB Require Import Constants Bytes Num Value Codec TreeOps Path PathSem ModeProofs Dispatch MiscProofs.
Open Scope N_scope.

(* path selection: what is appended does not depend on the buffer, offsets are positions in that buffer *)
Theorem C17_selection_appends : forall root ps m pre,
  select_t root ps m pre = shift_result pre (select_t root ps m []).
Proof. exact select_frame. Qed.
Print Assumptions C17_selection_appends.

(* (what an editor's error return leaves in the buffer cannot be said about a model of type `res (list N)`: see
   C17_errors_append_nothing and C17_editors_leave_prefix_on_any_input below, about the state functions) *)

(* the selector on byte positions (SelWalk.v): what it appends for an encoding does not depend on the buffer *)
From JB Require Import SelWalk SelWalkProofs.
Theorem C17_bytes_selection_appends : forall v ps m pre, wfb v = true ->
  select_w (enc v) ps m pre = shift_result pre (select_w (enc v) ps m []).
Proof. exact select_w_frame. Qed.
Print Assumptions C17_bytes_selection_appends.

(* the byte editors (EditWalk.v: iterators, builders, build_into on the caller's buffer) on encodings: the existing
   content is kept as a prefix and what follows it is what the same call appends to an empty buffer; an error appends
   nothing (an `Err` carries no buffer: the caller's buffer is as it was) *)
From JB Require Import DispatchProofs EditWalk EditWalkProofs.
Theorem C17_editors_append_bytes : forall buf,
  (forall a b, wfb a = true -> top_ok a -> wfb b = true -> top_ok b -> wf_size (concat_t a b) = true ->
     concat_w (enc a) (enc b) buf = res_map (app buf) (concat_w (enc a) (enc b) [])) /\
  (forall v name, wfb v = true -> top_ok v ->
     delete_by_name_w (enc v) name buf = res_map (app buf) (delete_by_name_w (enc v) name [])) /\
  (forall v i, wfb v = true -> top_ok v ->
     delete_by_index_w (enc v) i buf = res_map (app buf) (delete_by_index_w (enc v) i [])) /\
  (forall v pos x, wfb v = true -> top_ok v -> wfb x = true -> top_ok x -> wf_size (array_insert_t v pos x) = true ->
     array_insert_w (enc v) pos (enc x) buf = res_map (app buf) (array_insert_w (enc v) pos (enc x) [])) /\
  (forall vs, Forall (fun v => wf_size v = true) vs ->
     build_array_w (map enc vs) buf = res_map (app buf) (build_array_w (map enc vs) [])) /\
  (forall ks vs, Forall (fun v => wf_size v = true) vs ->
     build_object_w ks (map enc vs) buf = res_map (app buf) (build_object_w ks (map enc vs) [])).
Proof. exact editors_append_bytes. Qed.
Print Assumptions C17_editors_append_bytes.
(* ---- BEGIN edit2: the byte editors of EditWalk2.v (object_insert / object_delete / object_pick / strip_nulls /
   delete_by_keypath) on encodings: the bytes already in the buffer stay, what is appended does not depend on them,
   an error appends nothing ---- *)
From JB Require Import DispatchProofs EditWalk2 EditWalk2Proofs.
Theorem C17_bytes_edit2_appends : forall v, wfb v = true -> top_ok v -> forall buf,
  (forall ks, object_delete_w (enc v) ks buf = res_map (app buf) (object_delete_w (enc v) ks [])) /\
  (forall ks, object_pick_w (enc v) ks buf = res_map (app buf) (object_pick_w (enc v) ks [])) /\
  strip_nulls_w (enc v) buf = res_map (app buf) (strip_nulls_w (enc v) []) /\
  (forall ks, delete_by_keypath_w (enc v) ks buf = res_map (app buf) (delete_by_keypath_w (enc v) ks [])) /\
  (forall x key upd, wfb x = true -> top_ok x -> (forall y, object_insert_t v key x upd = Ok y -> wf_size y = true) ->
     object_insert_w (enc v) key (enc x) upd buf = res_map (app buf) (object_insert_w (enc v) key (enc x) upd [])).
Proof. exact edit2_appends. Qed.
Print Assumptions C17_bytes_edit2_appends.
(* ---- END edit2 ---- *)

(* ---- the builder on ARBITRARY entries (BuilderFrame.v).  BuilderProofs.write_entry_spec identifies what build_into
   appends with the layout, for entries whose length fields are right (entry_okb).  The frame property itself needs no
   such hypothesis: for raw entries whose length field lies, for containers whose size wraps in `as u32` -- what the
   iterators hand to the builders on a corrupt input -- write_entry still never modifies the bytes already in the
   buffer, and what it appends and the entry word it returns depend on the entry alone (every replace_jentry lands in a
   slot reserved by the same call, addressed from the buffer length at reservation time). *)
From JB Require Import Builder BuilderProofs BuilderFrame.
Theorem C17_builder_frame_any_entries : forall e buf,
  exists tail j, write_entry buf e = (buf ++ tail, j) /\ (forall buf', write_entry buf' e = (buf' ++ tail, j)).
Proof. exact write_entry_frame_any. Qed.
Print Assumptions C17_builder_frame_any_entries.

(* with the appended bytes named (witem: the layout with the RETURNED entry words and length sums), and the two
   build_into entry points *)
Theorem C17_builder_frame_explicit : forall e buf,
  write_entry buf e = (buf ++ wpl e, wje e) /\
  (entry_okb e = true -> witem e = entry_item e) /\
  (forall es, build_arr_into buf es = buf ++ build_arr_into [] es) /\
  (forall kes, build_obj_into buf kes = buf ++ build_obj_into [] kes).
Proof.
  intros e buf. split; [apply write_entry_frame|]. split; [apply witem_ok|].
  split; intros; [apply build_arr_into_frame|apply build_obj_into_frame].
Qed.
Print Assumptions C17_builder_frame_explicit.

(* ---- every byte editor on ANY input (EditFrame.v): valid encodings, truncated or corrupted buffers, JSON text,
   garbage; any prior buffer content.  `appends_only f`: if the call on an empty buffer returns out, the call on buf
   returns buf ++ out; if it returns an error, the same error; if it panics, it panics. *)
From JB Require Import EditFrame.
From JB Require SetWalk.
Theorem C17_editors_append_on_any_input :
  (forall l r, appends_only (concat_w l r)) /\
  (forall bs name, appends_only (delete_by_name_w bs name)) /\
  (forall bs i, appends_only (delete_by_index_w bs i)) /\
  (forall bs pos nv, appends_only (array_insert_w bs pos nv)) /\
  (forall items, appends_only (build_array_w items)) /\
  (forall keys items, appends_only (build_object_w keys items)) /\
  (forall bs key nv upd, appends_only (object_insert_w bs key nv upd)) /\
  (forall bs ks, appends_only (object_delete_w bs ks)) /\
  (forall bs ks, appends_only (object_pick_w bs ks)) /\
  (forall bs, appends_only (strip_nulls_w bs)) /\
  (forall bs ks, appends_only (delete_by_keypath_w bs ks)) /\
  (forall bs, appends_only (SetWalk.array_distinct_w bs)) /\
  (forall l r, appends_only (SetWalk.array_intersection_w l r)) /\
  (forall l r, appends_only (SetWalk.array_except_w l r)).
Proof. exact editors_append_on_any_input. Qed.
Print Assumptions C17_editors_append_on_any_input.

(* ---- the same about the STATE functions (BufSt.v: `f_st args buf` = (the buffer as the call leaves it, the outcome);
   the `_w` functions above are their views, which forget the buffer of a failed call).  `framed`: on any input, in all
   three outcomes, the buffer as left is the buffer on entry followed by what the call leaves when started on the empty
   buffer, and the outcome does not depend on the buffer. *)
From JB Require Import BufSt EditStProofs.
Theorem C17_editors_leave_prefix_on_any_input :
  (forall l r, framed (concat_st l r)) /\
  (forall bs name, framed (delete_by_name_st bs name)) /\
  (forall bs i, framed (delete_by_index_st bs i)) /\
  (forall bs pos nv, framed (array_insert_st bs pos nv)) /\
  (forall items, framed (build_array_st items)) /\
  (forall keys items, framed (build_object_st keys items)) /\
  (forall bs key nv upd, framed (object_insert_st bs key nv upd)) /\
  (forall bs ks, framed (object_delete_st bs ks)) /\
  (forall bs ks, framed (object_pick_st bs ks)) /\
  (forall bs, framed (strip_nulls_st bs)) /\
  (forall bs ks, framed (delete_by_keypath_st bs ks)) /\
  (forall bs, framed (SetWalk.array_distinct_st bs)) /\
  (forall l r, framed (SetWalk.array_intersection_st l r)) /\
  (forall l r, framed (SetWalk.array_except_st l r)).
Proof. exact editors_leave_prefix_on_any_input. Qed.
Print Assumptions C17_editors_leave_prefix_on_any_input.

(* "When the function returns an error for a documented reason nothing is appended": for ANY error return (documented
   or not: truncated or corrupted input, text that does not parse), any input bytes and any buffer content, the buffer
   after the call is the buffer before it.  `err_leaves m`: snd (m buf) = Err e -> fst (m buf) = buf (and the same at a
   panic).  Twelve editors; build_array / build_object are the exception, next theorem. *)
Theorem C17_errors_append_nothing :
  (forall l r, err_leaves (concat_st l r)) /\
  (forall bs name, err_leaves (delete_by_name_st bs name)) /\
  (forall bs i, err_leaves (delete_by_index_st bs i)) /\
  (forall bs pos nv, err_leaves (array_insert_st bs pos nv)) /\
  (forall bs key nv upd, err_leaves (object_insert_st bs key nv upd)) /\
  (forall bs ks, err_leaves (object_delete_st bs ks)) /\
  (forall bs ks, err_leaves (object_pick_st bs ks)) /\
  (forall bs, err_leaves (strip_nulls_st bs)) /\
  (forall bs ks, err_leaves (delete_by_keypath_st bs ks)) /\
  (forall bs, err_leaves (SetWalk.array_distinct_st bs)) /\
  (forall l r, err_leaves (SetWalk.array_intersection_st l r)) /\
  (forall l r, err_leaves (SetWalk.array_except_st l r)).
Proof. exact editors_errors_leave_buffer_on_any_input. Qed.
Print Assumptions C17_errors_append_nothing.

(* on encodings the two together, with the appended bytes named: EditStEnc.v / Props/C06.v
   (C06_errors_leave_the_buffer_unchanged, C06_success_buffer_state) *)

(* build_array / build_object write into the caller's buffer themselves and can fail half way (an item with a bad
   header): the buffer AS THE FUNCTION LEAVES IT, error or not, still has the caller's bytes as an untouched prefix *)
Theorem C17_build_array_object_leave_prefix : forall buf,
  (forall items, build_array_st items buf = (buf ++ fst (build_array_st items []), snd (build_array_st items []))) /\
  (forall keys items, build_object_st keys items buf = (buf ++ fst (build_object_st keys items []), snd (build_object_st keys items []))).
Proof. intros buf. split; intros; [apply build_array_st_frame|apply build_object_st_frame]. Qed.
Print Assumptions C17_build_array_object_leave_prefix.
(* and what they leave behind it when they fail: the reserved header slot and the entry words written so far (so an
   error return of these two DOES append: at least four bytes) *)
Theorem C17_build_array_object_error_appends : forall buf e,
  (forall items, snd (build_array_st items buf) = Err e ->
     fst (build_array_st items buf) = buf ++ repeat 0 4 ++ ba_entries items /\ fst (build_array_st items buf) <> buf) /\
  (forall keys items, snd (build_object_st keys items buf) = Err e ->
     fst (build_object_st keys items buf) = buf ++ repeat 0 4 ++ bo_entries (assoc_of_list (combine keys items))).
Proof.
  intros buf e. split; intros.
  - split; [apply (build_array_st_error_leaves items buf e)|apply (build_array_st_error_appends items buf e)]; assumption.
  - apply (build_object_st_error_leaves keys items buf e); assumption.
Qed.
Print Assumptions C17_build_array_object_error_appends.

(* not vacuous: an entry that is NOT entry_okb (a raw entry claiming 100 bytes for 2, a nested object whose returned
   length 13 is not its true length 16): what is written differs from the layout, and is still only appended; and a
   corrupted document (one length byte of a valid encoding changed) on which an editor still answers, one on which it
   panics, a truncated one on which it errs -- with a non-empty buffer *)
Definition c17_bad_entry : entry := EArr [ERaw (STRING_TAG, 100) [1; 2]; EObj [([107], ERaw (NUMBER_TAG, 0) [9; 9; 9])]].
Definition c17_corrupt : list N :=
  [64; 0; 0; 2; 16; 0; 0; 1; 16; 0; 0; 1; 80; 0; 0; 14; 16; 0; 0; 2; 97; 98; 128; 0; 0; 2; 32; 0; 0; 2; 16; 0; 0; 1; 80; 1; 120; 104; 105].
Example C17_any_input_example :
  entry_okb c17_bad_entry = false /\
  write_entry [255; 254] c17_bad_entry
  = ([255; 254] ++ [128; 0; 0; 2; 16; 0; 0; 100; 80; 0; 0; 13; 1; 2; 64; 0; 0; 1; 16; 0; 0; 1; 32; 0; 0; 0; 107; 9; 9; 9],
     (CONTAINER_TAG, 125)) /\
  wpl c17_bad_entry <> epl c17_bad_entry /\
  delete_by_name_w c17_corrupt [98] [7; 8]
  = Ok ([7; 8] ++ [64; 0; 0; 1; 16; 0; 0; 1; 80; 0; 0; 14; 97; 128; 0; 0; 2; 32; 0; 0; 2; 16; 0; 0; 1; 80; 1]) /\
  strip_nulls_w c17_corrupt [7; 8] = Panic /\ strip_nulls_w c17_corrupt [] = Panic /\
  delete_by_name_w (firstn 3 c17_corrupt) [98] [7; 8] = Err EOther.
Proof. vm_compute. repeat split; try reflexivity. discriminate. Qed.
Print Assumptions C17_any_input_example.

(* ---- Value::write_to_vec itself (ser.rs): the caller's buffer is kept and exactly the document's encoding is appended *)
From JB Require Import CodecProofs.
Theorem C17_write_to_vec_appends : forall v, wf_size v = true -> forall buf, write_to_vec buf v = buf ++ enc v.
Proof. exact write_to_vec_spec. Qed.
Print Assumptions C17_write_to_vec_appends.

(* ---- selections write into TWO caller vectors (data, offsets).  SelSt.v models Selector::select / get_by_path* as state
   functions over the pair, with the order of effects of the Rust code; SelStProofs.v: ---- *)
From JB Require Import SelSt SelStProofs.

(* "an error appends nothing", for selections, on ANY root bytes, any path, any mode, any content of the two vectors: an Err
   return leaves BOTH vectors as they were — it can only be an error of the path evaluation, which runs to its end before the
   first write; the result writers themselves (build_values, build_scalar_array, build_predicate_result) never return Err *)
Theorem C17_selection_errors_append_nothing :
  (forall bs ps m s e, snd (select_st bs ps m s) = Err e -> fst (select_st bs ps m s) = s /\ find_positions_w bs None ps = Err e) /\
  (forall md bs ps s e, snd (get_by_path_gen_st md bs ps s) = Err e -> fst (get_by_path_gen_st md bs ps s) = s) /\
  (forall bs poses, no_err (build_values_st bs poses) /\ no_err (build_scalar_array_st bs poses) /\ no_err (build_predicate_result_st poses)).
Proof. exact (conj select_st_err (conj get_by_path_gen_st_err writers_never_err)). Qed.
Print Assumptions C17_selection_errors_append_nothing.

(* what is left on arbitrary root bytes, exactly: the state function does what its view (select_w / get_by_path_gen_w: the
   functions the C08 / C15 theorems are about) says — on Ok the view's data and the caller's offsets followed by the view's;
   on Err both vectors untouched and the same error; a panic exactly when the view panics (vectors then unobservable) *)
Theorem C17_selection_state_on_any_input :
  (forall bs ps m, agrees (select_st bs ps m) (select_w bs ps m)) /\
  (forall md bs ps, agrees (get_by_path_gen_st md bs ps) (get_by_path_gen_w md bs ps)).
Proof. exact (conj select_st_view get_by_path_gen_st_view). Qed.
Print Assumptions C17_selection_state_on_any_input.

(* on the encoding of a well-formed document: the selected items behind the caller's bytes, the offsets as positions in the
   caller's buffer behind the caller's offsets; an error leaves both as they were *)
Theorem C17_bytes_selection_state : forall v ps m data o0, wfb v = true ->
  match select_t (normalise v) ps m [] with
  | Ok (d, o) => select_st (enc v) ps m (data, o0) = ((data ++ d, o0 ++ map (fun x => lenN data + x) o), Ok tt)
  | Err e => select_st (enc v) ps m (data, o0) = ((data, o0), Err e)
  | Panic => snd (select_st (enc v) ps m (data, o0)) = Panic
  end.
Proof. exact select_st_enc. Qed.
Print Assumptions C17_bytes_selection_state.

Example C17_selection_state_example :
  let doc := VArr [VNum (NUInt 1); VStr [120]; VArr []] in
  select_st (enc doc) [PRoot; PBracketWild] MAll ([7; 7], [2]) =
    (([7; 7] ++ enc (VNum (NUInt 1)) ++ enc (VStr [120]) ++ enc (VArr []), [2; 12; 21; 25]), Ok tt) /\
  select_st (enc doc) [PRoot; PBracketWild; PFilter (EPaths [])] MAll ([7; 7], [2]) = (([7; 7], [2]), Err EOther) /\
  snd (select_st (firstn 20 (enc doc)) [PRoot; PBracketWild] MAll ([7; 7], [2])) = Panic.
Proof. exact select_st_example. Qed.
Print Assumptions C17_selection_state_example.

(* ---- LazyValue::write_to_vec (lazy_value.rs; model ValueApi.v): both variants only append, and append what to_vec returns *)
From JB Require ValueApi ValueApiProofs.
Theorem C17_lazy_write_to_vec_appends : forall l, (forall v, l = Dispatch.LValue v -> wf_size v = true) ->
  forall buf, ValueApi.lazy_write_to_vec buf l = buf ++ Dispatch.lazy_to_vec l.
Proof. exact ValueApiProofs.lazy_write_to_vec_appends. Qed.
Print Assumptions C17_lazy_write_to_vec_appends.

(* ... and for EVERY value, without the size bound: the Encoder's reserve / append / back-patch never touches the caller's bytes *)
Theorem C17_write_to_vec_only_appends_any_value :
  (forall v buf, write_to_vec buf v = buf ++ write_to_vec [] v) /\
  (forall l buf, ValueApi.lazy_write_to_vec buf l = buf ++ ValueApi.lazy_write_to_vec [] l).
Proof. split; [exact ValueApiProofs.write_to_vec_only_appends|exact ValueApiProofs.lazy_write_to_vec_only_appends]. Qed.
Print Assumptions C17_write_to_vec_only_appends_any_value.
