(* C18 — Numbers keep their exact value through the codec and are ordered by that value. *)
From Coq Require Import List NArith ZArith.
From JB Require Import Constants Bytes Num NumProofs.

Theorem C18_decode_total : forall bs, num_decode bs <> Panic.
Proof. exact num_decode_total. Qed.
Print Assumptions C18_decode_total.

Theorem C18_order_refl : forall a, num_cmp a a = Eq.
Proof. exact num_cmp_refl. Qed.
Print Assumptions C18_order_refl.

Theorem C18_order_antisym : forall a b, num_cmp a b = CompOpp (num_cmp b a).
Proof. exact num_cmp_antisym. Qed.
Print Assumptions C18_order_antisym.

Theorem C18_order_trans : forall a b c o, num_cmp a b = o -> num_cmp b c = o -> num_cmp a c = o.
Proof. exact num_cmp_trans. Qed.
Print Assumptions C18_order_trans.

Theorem C18_equal_iff_same_value :
  forall a b, num_cmp a b = Eq <-> scaled a = scaled b.
Proof. exact num_cmp_eq_iff. Qed.
Print Assumptions C18_equal_iff_same_value.

Theorem C18_nan_greatest : forall a b, scaled b = ENaN -> scaled a <> ENaN -> num_cmp a b = Lt.
Proof. exact num_cmp_nan_greatest. Qed.
Print Assumptions C18_nan_greatest.

Theorem C18_signed_unsigned_equal : forall z, (0 <= z)%Z -> num_cmp (NInt z) (NUInt (Z.to_N z)) = Eq.
Proof. exact num_cmp_int_uint. Qed.
Print Assumptions C18_signed_unsigned_equal.

Theorem C18_old_order_refuted :
  exists a b c, num_cmp_old a b = Eq /\ num_cmp_old b c = Eq /\ num_cmp_old a c <> Eq.
Proof. exact num_cmp_old_refuted. Qed.
Print Assumptions C18_old_order_refuted.

(* the f64 view of an integer (`as f64`) is Flocq's IEEE-754 binary64 round-to-nearest-even: FlocqLink.v.
   Flocq's real-number development rests on the standard library's classical-real axioms (the four allowed ones). *)
From Coq Require Import Reals.
From Flocq Require Import Core.Core IEEE754.BinarySingleNaN IEEE754.Binary IEEE754.Bits.
From JB Require Import FlocqLink.

Theorem C18_as_f64_is_flocq_nearest_even :
  forall z : Z, (- 2 ^ 63 <= z < 2 ^ 64)%Z ->
  Z.of_N (round_ne z) = bits_of_b64 (binary_normalize 53 1024 eq_refl eq_refl mode_NE z 0 false).
Proof. exact round_ne_is_flocq_binary_normalize. Qed.
Print Assumptions C18_as_f64_is_flocq_nearest_even.

Theorem C18_as_f64_is_nearest_even_real :
  forall z : Z, (- 2 ^ 63 <= z < 2 ^ 64)%Z ->
  let f := b64_of_bits (Z.of_N (round_ne z)) in
  B2R 53 1024 f = round radix2 (FLT_exp (-1074) 53) ZnearestE (IZR z) /\
  is_finite 53 1024 f = true /\
  (z <> 0%Z -> Bsign 53 1024 f = (z <? 0)%Z).
Proof. exact round_ne_is_nearest_even. Qed.
Print Assumptions C18_as_f64_is_nearest_even_real.

Theorem C18_as_f64_views_are_flocq :
  forall x, num_in_range x = true ->
  match x with
  | NInt z => Z.of_N (as_f64 x) = bits_of_b64 (binary_normalize 53 1024 eq_refl eq_refl mode_NE z 0 false)
  | NUInt n => Z.of_N (as_f64 x) = bits_of_b64 (binary_normalize 53 1024 eq_refl eq_refl mode_NE (Z.of_N n) 0 false)
  | NFloat b => as_f64 x = b
  end.
Proof. exact as_f64_is_flocq. Qed.
Print Assumptions C18_as_f64_views_are_flocq.

(* the model's reading of a Float64 bit pattern (sign, NaN, infinities, exact value scaled by 2^1074), on which the order of
   numbers is defined, is Flocq's reading of the same pattern *)
Theorem C18_float_reading_is_flocq :
  forall b : N,
  let f := b64_of_bits (Z.of_N b) in
  Bsign 53 1024 f = f_sign b /\
  match f_ext b with
  | ENaN => is_nan 53 1024 f = true
  | EPosInf => f = B754_infinity 53 1024 false
  | ENegInf => f = B754_infinity 53 1024 true
  | EFin z => is_finite 53 1024 f = true /\ B2R 53 1024 f = (IZR z * bpow radix2 (-1074))%R
  end.
Proof. exact f_ext_is_flocq. Qed.
Print Assumptions C18_float_reading_is_flocq.

(* "ordered by that value": on finite numbers the order is the order of the real numbers denoted (integers as themselves,
   Float64 through Flocq's B2R) *)
Theorem C18_order_is_real_order :
  forall a b va vb, scaled a = EFin va -> scaled b = EFin vb -> num_cmp a b = Rcompare (num_R a) (num_R b).
Proof. exact num_cmp_is_real_order. Qed.
Print Assumptions C18_order_is_real_order.

(* the same cast against the Coq standard library's executable IEEE-754 specification (Coq.Floats.SpecFloat, the functions
   Flocq's binary_normalize is made of: FlocqLink.flocq_binary_normalize_is_specfloat): no real numbers, no axioms *)
From JB Require SpecFloatLink.
Theorem C18_as_f64_is_specfloat_nearest_even :
  forall z : Z, (- 2 ^ 63 <= z < 2 ^ 64)%Z ->
  SpecFloatLink.bits_of_SF64 (SpecFloat.binary_normalize 53 1024 z 0 false) = Z.of_N (round_ne z).
Proof. exact SpecFloatLink.round_ne_is_specfloat. Qed.
Print Assumptions C18_as_f64_is_specfloat_nearest_even.

Theorem C18_flocq_binary_normalize_is_specfloat :
  forall (z e : Z) (szero : bool),
  bits_of_b64 (binary_normalize 53 1024 eq_refl eq_refl mode_NE z e szero) =
  SpecFloatLink.bits_of_SF64 (SpecFloat.binary_normalize 53 1024 z e szero).
Proof. exact flocq_normalize_bits_specfloat. Qed.
Print Assumptions C18_flocq_binary_normalize_is_specfloat.
