(* C18 — Numbers keep their exact value through the codec and are ordered by that value. *)
From Coq Require Import List NArith ZArith.
From JB Require Import Constants Bytes Num NumProofs.

Theorem C18_decode_total : forall bs, num_decode bs <> Panic.
Proof. exact num_decode_total. Qed.
Print Assumptions C18_decode_total.

Theorem C18_order_refl : forall a, num_cmp a a = Eq.
Proof. exact num_cmp_refl. Qed.
Print Assumptions C18_order_refl.

Theorem C18_order_antisym : forall a b, num_cmp a b = CompOpp (num_cmp b a).
Proof. exact num_cmp_antisym. Qed.
Print Assumptions C18_order_antisym.

Theorem C18_order_trans : forall a b c o, num_cmp a b = o -> num_cmp b c = o -> num_cmp a c = o.
Proof. exact num_cmp_trans. Qed.
Print Assumptions C18_order_trans.

Theorem C18_equal_iff_same_value :
  forall a b, num_cmp a b = Eq <-> scaled a = scaled b.
Proof. exact num_cmp_eq_iff. Qed.
Print Assumptions C18_equal_iff_same_value.

Theorem C18_nan_greatest : forall a b, scaled b = ENaN -> scaled a <> ENaN -> num_cmp a b = Lt.
Proof. exact num_cmp_nan_greatest. Qed.
Print Assumptions C18_nan_greatest.

Theorem C18_signed_unsigned_equal : forall z, (0 <= z)%Z -> num_cmp (NInt z) (NUInt (Z.to_N z)) = Eq.
Proof. exact num_cmp_int_uint. Qed.
Print Assumptions C18_signed_unsigned_equal.

Theorem C18_old_order_refuted :
  exists a b c, num_cmp_old a b = Eq /\ num_cmp_old b c = Eq /\ num_cmp_old a c <> Eq.
Proof. exact num_cmp_old_refuted. Qed.
Print Assumptions C18_old_order_refuted.

(* the f64 view of an integer (`as f64`) is Flocq's IEEE-754 binary64 round-to-nearest-even: FlocqLink.v.
   Flocq's real-number development rests on the standard library's classical-real axioms (the four allowed ones). *)
From Coq Require Import Reals.
From Flocq Require Import Core.Core IEEE754.BinarySingleNaN IEEE754.Binary IEEE754.Bits.
From JB Require Import FlocqLink.

Theorem C18_as_f64_is_flocq_nearest_even :
  forall z : Z, (- 2 ^ 63 <= z < 2 ^ 64)%Z ->
  Z.of_N (round_ne z) = bits_of_b64 (binary_normalize 53 1024 eq_refl eq_refl mode_NE z 0 false).
Proof. exact round_ne_is_flocq_binary_normalize. Qed.
Print Assumptions C18_as_f64_is_flocq_nearest_even.

Theorem C18_as_f64_is_nearest_even_real :
  forall z : Z, (- 2 ^ 63 <= z < 2 ^ 64)%Z ->
  let f := b64_of_bits (Z.of_N (round_ne z)) in
  B2R 53 1024 f = round radix2 (FLT_exp (-1074) 53) ZnearestE (IZR z) /\
  is_finite 53 1024 f = true /\
  (z <> 0%Z -> Bsign 53 1024 f = (z <? 0)%Z).
Proof. exact round_ne_is_nearest_even. Qed.
Print Assumptions C18_as_f64_is_nearest_even_real.

Theorem C18_as_f64_views_are_flocq :
  forall x, num_in_range x = true ->
  match x with
  | NInt z => Z.of_N (as_f64 x) = bits_of_b64 (binary_normalize 53 1024 eq_refl eq_refl mode_NE z 0 false)
  | NUInt n => Z.of_N (as_f64 x) = bits_of_b64 (binary_normalize 53 1024 eq_refl eq_refl mode_NE (Z.of_N n) 0 false)
  | NFloat b => as_f64 x = b
  end.
Proof. exact as_f64_is_flocq. Qed.
Print Assumptions C18_as_f64_views_are_flocq.

(* the model's reading of a Float64 bit pattern (sign, NaN, infinities, exact value scaled by 2^1074), on which the order of
   numbers is defined, is Flocq's reading of the same pattern *)
Theorem C18_float_reading_is_flocq :
  forall b : N,
  let f := b64_of_bits (Z.of_N b) in
  Bsign 53 1024 f = f_sign b /\
  match f_ext b with
  | ENaN => is_nan 53 1024 f = true
  | EPosInf => f = B754_infinity 53 1024 false
  | ENegInf => f = B754_infinity 53 1024 true
  | EFin z => is_finite 53 1024 f = true /\ B2R 53 1024 f = (IZR z * bpow radix2 (-1074))%R
  end.
Proof. exact f_ext_is_flocq. Qed.
Print Assumptions C18_float_reading_is_flocq.

(* "ordered by that value": on finite numbers the order is the order of the real numbers denoted (integers as themselves,
   Float64 through Flocq's B2R) *)
Theorem C18_order_is_real_order :
  forall a b va vb, scaled a = EFin va -> scaled b = EFin vb -> num_cmp a b = Rcompare (num_R a) (num_R b).
Proof. exact num_cmp_is_real_order. Qed.
Print Assumptions C18_order_is_real_order.

(* the same cast against the Coq standard library's executable IEEE-754 specification (Coq.Floats.SpecFloat, the functions
   Flocq's binary_normalize is made of: FlocqLink.flocq_binary_normalize_is_specfloat): no real numbers, no axioms *)
From JB Require SpecFloatLink.
Theorem C18_as_f64_is_specfloat_nearest_even :
  forall z : Z, (- 2 ^ 63 <= z < 2 ^ 64)%Z ->
  SpecFloatLink.bits_of_SF64 (SpecFloat.binary_normalize 53 1024 z 0 false) = Z.of_N (round_ne z).
Proof. exact SpecFloatLink.round_ne_is_specfloat. Qed.
Print Assumptions C18_as_f64_is_specfloat_nearest_even.

Theorem C18_flocq_binary_normalize_is_specfloat :
  forall (z e : Z) (szero : bool),
  bits_of_b64 (binary_normalize 53 1024 eq_refl eq_refl mode_NE z e szero) =
  SpecFloatLink.bits_of_SF64 (SpecFloat.binary_normalize 53 1024 z e szero).
Proof. exact flocq_normalize_bits_specfloat. Qed.
Print Assumptions C18_flocq_binary_normalize_is_specfloat.

(* ======================================================================================================================
   The ALGORITHM of `impl Ord for Number` (NumOrd.v: the nine match arms, OrderedFloat::cmp, cmp_int_float with its guards,
   trunc, `as i128`, fractional tie-break and `unwrap`) computes the order of exact values `num_cmp` used above, so every
   C18_order_* / C18_equal_iff_same_value / C18_nan_greatest statement is a statement about the code as written.  The
   correspondence ops num_cmp / num_eq run this algorithm model against the crate. *)
From JB Require Import NumOrd NumOrdProofs NumCodecProofs.
Import ListNotations.

Theorem C18_ord_algorithm_computes_the_order_of_values :
  forall a b, num_in_range a = true -> num_in_range b = true ->
  num_cmp_rs_res a b = Ok (num_cmp a b) /\ num_cmp_rs a b = num_cmp a b /\
  num_eqb_rs_res a b = Ok (num_eqb a b) /\ num_eqb_rs a b = num_eqb a b.
Proof.
  intros a b Ha Hb. repeat split.
  - exact (num_cmp_rs_res_correct a b Ha Hb).
  - exact (num_cmp_rs_correct a b Ha Hb).
  - exact (num_eqb_rs_res_correct a b Ha Hb).
  - exact (num_eqb_rs_correct a b Ha Hb).
Qed.
Print Assumptions C18_ord_algorithm_computes_the_order_of_values.

(* cmp_int_float on its own: for every integer strictly between -2^64 and 2^64 (every i64 and u64 cast to i128) and every
   64-bit pattern, it returns the order of the exact values and its `unwrap` does not panic *)
Theorem C18_cmp_int_float_is_exact :
  forall l r, (r < two64)%N -> (- Z.of_N two64 < l < Z.of_N two64)%Z ->
  cmp_int_float l r = Ok (ext_cmp (EFin (l * two1074)) (f_ext r)).
Proof. exact cmp_int_float_spec. Qed.
Print Assumptions C18_cmp_int_float_is_exact.

(* OrderedFloat::cmp as written (lt and gt through ge) is the order of the extended values *)
Theorem C18_ordered_float_cmp_is_exact : forall a b, of_cmp_rs a b = ext_cmp (f_ext a) (f_ext b).
Proof. exact of_cmp_rs_spec. Qed.
Print Assumptions C18_ordered_float_cmp_is_exact.

(* the laws, stated of the algorithm *)
Theorem C18_ord_algorithm_is_a_total_order :
  forall a b c, num_in_range a = true -> num_in_range b = true -> num_in_range c = true ->
  num_cmp_rs a a = Eq /\ num_cmp_rs a b = CompOpp (num_cmp_rs b a) /\
  (forall o, num_cmp_rs a b = o -> num_cmp_rs b c = o -> num_cmp_rs a c = o) /\
  (num_cmp_rs a b = Eq <-> scaled a = scaled b) /\
  (scaled b = ENaN -> scaled a <> ENaN -> num_cmp_rs a b = Lt).
Proof.
  intros a b c Ha Hb Hc. repeat split.
  - rewrite num_cmp_rs_correct by assumption. apply num_cmp_refl.
  - apply num_cmp_rs_antisym; assumption.
  - intros o. apply num_cmp_rs_trans; assumption.
  - apply num_cmp_rs_eq_iff; assumption.
  - apply num_cmp_rs_eq_iff; assumption.
  - intros H1 H2. rewrite num_cmp_rs_correct by assumption. apply num_cmp_nan_greatest; assumption.
Qed.
Print Assumptions C18_ord_algorithm_is_a_total_order.

(* non-vacuity on the boundaries: 2^53 (where `as f64` starts rounding), 2^63, 2^64 (the guards), -0.0 against 0, NaN *)
Example C18_ord_algorithm_boundaries :
  num_cmp_rs_res (NInt 9007199254740993) (NFloat 4845873199050653696) = Ok Gt /\          (* 2^53+1 > 2^53 as f64 *)
  num_cmp_rs_res (NFloat 4845873199050653696) (NInt 9007199254740992) = Ok Eq /\
  num_cmp_rs_res (NInt 9223372036854775807) (NFloat 4890909195324358656) = Ok Lt /\      (* i64::MAX < 2^63 as f64 *)
  num_cmp_rs_res (NUInt 9223372036854775808) (NFloat 4890909195324358656) = Ok Eq /\
  num_cmp_rs_res (NInt (-9223372036854775808)) (NFloat 14114281232179134464) = Ok Eq /\  (* i64::MIN = -2^63 as f64 *)
  num_cmp_rs_res (NUInt 18446744073709551615) (NFloat F_TWO64) = Ok Lt /\                (* u64::MAX < 2^64 as f64 *)
  num_cmp_rs_res (NUInt 18446744073709551615) (NFloat 4895412794951729151) = Ok Gt /\    (* ... > the double below 2^64 *)
  num_cmp_rs_res (NFloat F_NEG_TWO64) (NInt (-9223372036854775808)) = Ok Lt /\
  num_cmp_rs_res (NFloat 9223372036854775808) (NFloat 0) = Ok Eq /\                      (* -0.0 = 0.0 *)
  num_cmp_rs_res (NFloat 9223372036854775808) (NInt 0) = Ok Eq /\                        (* -0.0 = 0 *)
  num_cmp_rs_res (NUInt 0) (NFloat 9223372036854775808) = Ok Eq /\
  num_cmp_rs_res (NInt 0) (NFloat 1) = Ok Lt /\                                          (* 0 < least subnormal *)
  num_cmp_rs_res (NFloat F_NAN) (NFloat 18444492273895866369) = Ok Eq /\                 (* NaN = NaN, any payload *)
  num_cmp_rs_res (NFloat F_INF) (NFloat F_NAN) = Ok Lt /\
  num_cmp_rs_res (NUInt 18446744073709551615) (NFloat F_NAN) = Ok Lt /\
  num_cmp_rs_res (NFloat F_NAN) (NInt 5) = Ok Gt.
Proof. vm_compute. repeat split. Qed.
Print Assumptions C18_ord_algorithm_boundaries.

(* ---- the codec ---- *)
Theorem C18_codec_round_trip :
  forall n, num_in_range n = true -> num_decode (compact_encode n) = Ok (normalise_num n).
Proof. exact num_roundtrip. Qed.
Print Assumptions C18_codec_round_trip.

(* the round trip keeps the exact value (it only turns Int64 0 into UInt64 0 and every NaN into the canonical NaN) *)
Theorem C18_codec_round_trip_keeps_the_value :
  forall n, num_in_range n = true ->
  exists m, num_decode (compact_encode n) = Ok m /\ scaled m = scaled n /\ num_cmp m n = Eq.
Proof.
  intros n Hr. exists (normalise_num n). split; [apply num_roundtrip; exact Hr|].
  assert (E : scaled (normalise_num n) = scaled n).
  { destruct n as [z|u|b]; cbn [normalise_num].
    - destruct (z =? 0)%Z eqn:Ez; [|reflexivity]. apply Z.eqb_eq in Ez. subst z. reflexivity.
    - reflexivity.
    - destruct (f_is_nan b) eqn:En; [|reflexivity]. cbn [scaled]. rewrite (f_ext_nan b En). reflexivity. }
  split; [exact E|]. apply num_cmp_eq_iff. exact E.
Qed.
Print Assumptions C18_codec_round_trip_keeps_the_value.

(* the encoder writes 1, 2, 3, 5 or 9 bytes, and no byte string that decodes to the same number is shorter *)
Theorem C18_compact_encode_is_the_shortest_form :
  forall n, num_in_range n = true ->
  In (length (compact_encode n)) [1; 2; 3; 5; 9]%nat /\
  num_decode (compact_encode n) = Ok (normalise_num n) /\
  forall bs m, bytes_ok bs -> num_decode bs = Ok m -> normalise_num m = normalise_num n ->
               (length (compact_encode n) <= length bs)%nat.
Proof.
  intros n Hr. split; [apply compact_encode_length_cases|]. apply compact_encode_is_minimum. exact Hr.
Qed.
Print Assumptions C18_compact_encode_is_the_shortest_form.

(* which length: 1 for zero, NaN and the infinities; tag + the least of 1, 2, 4, 8 bytes holding the integer; 9 for floats *)
Theorem C18_compact_encode_length :
  forall n, length (compact_encode n) =
  match n with
  | NInt z => if (z =? 0)%Z then 1%nat else S (int_width z)
  | NUInt u => if (u =? 0)%N then 1%nat else S (uint_width u)
  | NFloat b => if orb (f_is_nan b) (f_is_inf b) then 1%nat else 9%nat
  end.
Proof. exact compact_encode_length. Qed.
Print Assumptions C18_compact_encode_length.

(* Number::decode accepts exactly the seven documented forms (num_wire: tag, payload length, value read), whatever the
   payload bytes are: it does NOT insist on the shortest form (a 9-byte Int64 holding 5 is read as Int64 5: example
   NumCodecProofs.num_decode_accepts_non_shortest; the property constrains what the ENCODER emits); every other byte
   string is an error, never a panic; what it accepts is an i64 / a u64 / a 64-bit pattern. *)
Theorem C18_decode_accepts_exactly_the_documented_forms :
  forall bs n, num_decode bs = Ok n <-> num_wire bs n.
Proof. exact num_decode_accepts_iff. Qed.
Print Assumptions C18_decode_accepts_exactly_the_documented_forms.

Theorem C18_malformed_number_bytes_are_rejected :
  forall bs,
  (num_decode bs = Err EOther <-> (forall n, ~ num_wire bs n)) /\
  ((exists n, num_decode bs = Ok n) <-> num_shape bs) /\
  (~ num_shape bs -> num_decode bs = Err EOther) /\
  num_decode bs <> Panic /\
  (forall n, bytes_ok bs -> num_decode bs = Ok n -> num_in_range n = true).
Proof.
  intros bs. split; [apply num_decode_rejects_iff|]. split; [apply num_decode_ok_iff_shape|].
  split; [apply num_decode_bad_shape_is_error|]. split; [apply num_decode_total|].
  intros n. apply num_decode_in_range.
Qed.
Print Assumptions C18_malformed_number_bytes_are_rejected.

(* ---- the integer views: exact or absent, never a different value.  Float64 has no integer view at all
   (`Number::Float64(_) => None` in as_i64 / as_u64, also for 5.0) ---- *)
Theorem C18_integer_views_are_exact_or_absent :
  forall n, num_in_range n = true ->
  (forall z, as_i64 n = Some z -> scaled n = EFin (z * two1074) /\ (- two63 <= z < two63)%Z) /\
  (as_i64 n = None <->
     (exists b, n = NFloat b) \/ (exists v, scaled n = EFin (v * two1074) /\ ~ (- two63 <= v < two63)%Z)) /\
  (forall u, as_u64 n = Some u -> scaled n = EFin (Z.of_N u * two1074) /\ (u < two64)%N) /\
  (as_u64 n = None <->
     (exists b, n = NFloat b) \/ (exists v, scaled n = EFin (v * two1074) /\ ~ (0 <= v < Z.of_N two64)%Z)).
Proof.
  intros n Hr. split; [intros z; apply as_i64_exact; exact Hr|]. split; [apply as_i64_none_iff; exact Hr|].
  split; [intros u; apply as_u64_exact; exact Hr|]. apply as_u64_none_iff; exact Hr.
Qed.
Print Assumptions C18_integer_views_are_exact_or_absent.

(* the byte walkers (CompareWalk.v, Order.v, PathSem.v) call the specification `num_cmp` on numbers they have just decoded:
   on such numbers (always in range, by the decoder) the algorithm returns the same answer *)
Theorem C18_ord_algorithm_on_decoded_numbers :
  forall bs1 bs2 x y, bytes_ok bs1 -> bytes_ok bs2 -> num_decode bs1 = Ok x -> num_decode bs2 = Ok y ->
  num_cmp_rs_res x y = Ok (num_cmp x y) /\ num_eqb_rs_res x y = Ok (num_eqb x y).
Proof.
  intros bs1 bs2 x y H1 H2 D1 D2.
  pose proof (num_decode_in_range bs1 x H1 D1) as Rx. pose proof (num_decode_in_range bs2 y H2 D2) as Ry.
  split; [apply num_cmp_rs_res_correct; assumption|apply num_eqb_rs_res_correct; assumption].
Qed.
Print Assumptions C18_ord_algorithm_on_decoded_numbers.
