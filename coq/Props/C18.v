(* C18 — Numbers keep their exact value through the codec and are ordered by that value. *)
From Coq Require Import List NArith ZArith.
From JB Require Import Constants Bytes Num NumProofs.

Theorem C18_decode_total : forall bs, num_decode bs <> Panic.
Proof. exact num_decode_total. Qed.
Print Assumptions C18_decode_total.

Theorem C18_order_refl : forall a, num_cmp a a = Eq.
Proof. exact num_cmp_refl. Qed.
Print Assumptions C18_order_refl.

Theorem C18_order_antisym : forall a b, num_cmp a b = CompOpp (num_cmp b a).
Proof. exact num_cmp_antisym. Qed.
Print Assumptions C18_order_antisym.

Theorem C18_order_trans : forall a b c o, num_cmp a b = o -> num_cmp b c = o -> num_cmp a c = o.
Proof. exact num_cmp_trans. Qed.
Print Assumptions C18_order_trans.

Theorem C18_equal_iff_same_value :
  forall a b, num_cmp a b = Eq <-> scaled a = scaled b.
Proof. exact num_cmp_eq_iff. Qed.
Print Assumptions C18_equal_iff_same_value.

Theorem C18_nan_greatest : forall a b, scaled b = ENaN -> scaled a <> ENaN -> num_cmp a b = Lt.
Proof. exact num_cmp_nan_greatest. Qed.
Print Assumptions C18_nan_greatest.

Theorem C18_signed_unsigned_equal : forall z, (0 <= z)%Z -> num_cmp (NInt z) (NUInt (Z.to_N z)) = Eq.
Proof. exact num_cmp_int_uint. Qed.
Print Assumptions C18_signed_unsigned_equal.

Theorem C18_old_order_refuted :
  exists a b c, num_cmp_old a b = Eq /\ num_cmp_old b c = Eq /\ num_cmp_old a c <> Eq.
Proof. exact num_cmp_old_refuted. Qed.
Print Assumptions C18_old_order_refuted.
