(* C12 — containment follows the PostgreSQL @> rules, using the same equality as compare. *)
From Coq Require Import List NArith ZArith Bool.
Import ListNotations.
From JB Require Import Constants Bytes Num Value Order Contain MiscProofs ContainProofs.
Open Scope N_scope.

(* scalars contain only equals, and "equal" is the equality compare reports *)
Theorem C12_scalar_containment_is_compare_equality :
  forall a b, is_scalar a = true -> is_scalar b = true -> (contains_t a b = true <-> cmp_value a b = Eq).
Proof. exact contains_scalars. Qed.
Print Assumptions C12_scalar_containment_is_compare_equality.

(* a top-level array also contains a bare scalar equal to one of its elements *)
Theorem C12_array_contains_bare_scalar :
  forall l b, is_scalar b = true -> contains_t (VArr l) b = existsb (fun x => value_eqb x b) l.
Proof. exact contains_array_scalar. Qed.
Print Assumptions C12_array_contains_bare_scalar.

(* containment is reflexive on every value whose object keys are unique (every value the library builds) ... *)
Theorem C12_reflexive : forall v, wf_shape v = true -> contains_t v v = true.
Proof. exact contains_refl. Qed.
Print Assumptions C12_reflexive.

(* ... and transitive on all values, with no side condition *)
Theorem C12_transitive : forall c b a, contains_t b c = true -> contains_t a b = true -> contains_t a c = true.
Proof. exact contains_trans. Qed.
Print Assumptions C12_transitive.
