(* C12 — containment follows the PostgreSQL @> rules, using the same equality as compare. *)
From Coq Require Import List NArith ZArith Bool.
Import ListNotations.
From JB Require Import Constants Bytes Num Value Order Contain MiscProofs ContainProofs.
Open Scope N_scope.

(* scalars contain only equals, and "equal" is the equality compare reports *)
Theorem C12_scalar_containment_is_compare_equality :
  forall a b, is_scalar a = true -> is_scalar b = true -> (contains_t a b = true <-> cmp_value a b = Eq).
Proof. exact contains_scalars. Qed.
Print Assumptions C12_scalar_containment_is_compare_equality.

(* a top-level array also contains a bare scalar equal to one of its elements *)
Theorem C12_array_contains_bare_scalar :
  forall l b, is_scalar b = true -> contains_t (VArr l) b = existsb (fun x => value_eqb x b) l.
Proof. exact contains_array_scalar. Qed.
Print Assumptions C12_array_contains_bare_scalar.

(* containment is reflexive on every value whose object keys are unique (every value the library builds) ... *)
Theorem C12_reflexive : forall v, wf_shape v = true -> contains_t v v = true.
Proof. exact contains_refl. Qed.
Print Assumptions C12_reflexive.

(* ... and transitive on all values, with no side condition *)
Theorem C12_transitive : forall c b a, contains_t b c = true -> contains_t a b = true -> contains_t a c = true.
Proof. exact contains_trans. Qed.
Print Assumptions C12_transitive.

(* ---- the byte walker itself (ContainWalk.v: contains / contains_jsonb / array_contains / scalar_payload_eq, two
   buffers, nothing decoded except number payloads, keys of `right` looked up in `left` with get_jentry_by_name, values
   sliced out with index expressions, recursion on (sub-slice, sub-slice)): on the encodings of any two well-formed
   documents every header, entry word, key and payload it reads is the one it means to read, no read fails, no slice
   panics, the recursion fuel S (length right) is enough, and the answer is the @> of the two documents -- with the
   numbers compared by value whatever their encoding. *)
From JB Require Import Codec DispatchProofs Dispatch ContainWalk ContainWalkProofs.
Theorem C12_contains_bytes : forall a b, wfb a = true -> wfb b = true -> top_ok a -> top_ok b ->
  contains_w (enc a) (enc b) = Ok (contains_t a b).
Proof. exact contains_w_enc. Qed.
Print Assumptions C12_contains_bytes.

(* the binary branch alone needs no bound on the top-level count *)
Theorem C12_contains_jsonb_bytes : forall a b, wfb a = true -> wfb b = true ->
  contains_b (enc a) (enc b) = Ok (contains_t a b).
Proof. exact contains_b_enc. Qed.
Print Assumptions C12_contains_jsonb_bytes.

(* the walker and the decode-then-tree model agree on encodings; the tree function does not see the representation
   change of a decode/encode round trip *)
Theorem C12_contains_bytes_is_view : forall a b, wfb a = true -> wfb b = true -> top_ok a -> top_ok b ->
  contains_w (enc a) (enc b) = contains_m (enc a) (enc b).
Proof. exact contains_w_m_enc. Qed.
Print Assumptions C12_contains_bytes_is_view.

(* the recursion fuel of the model is enough for EVERY pair of buffers, valid or not: the fuel-exhausted outcome is
   unreachable (each recursive call gets a slice of `right` that is at least 8 bytes shorter) *)
Theorem C12_fuel_never_exhausted : forall l r, contains_jsonb_w (S (length r)) l r <> Err EFuel.
Proof. exact contains_b_fuel. Qed.
Print Assumptions C12_fuel_never_exhausted.

(* not vacuous: a nested object/array with the number one as UInt64 1 on the left and as Float64 1.0 on the right
   (different payload bytes), and a top-level array that contains a bare scalar *)
Definition c12_left : value :=
  VObj [([97], VArr [VNum (NUInt 1); VStr [120]; VObj [([107], VNum (NInt (-5))); ([122], VNull)]; VArr [VBool true; VNum (NUInt 300)]]);
        ([98], VStr [104; 105])].
Definition c12_right : value :=
  VObj [([97], VArr [VArr [VNum (NFloat 4643985272004935680)]; VObj [([107], VNum (NFloat 13840687554816376832))]; VNum (NFloat 4607182418800017408)])].
Example C12_bytes_example :
  wfb c12_left = true /\ wfb c12_right = true /\
  contains_w (enc c12_left) (enc c12_right) = Ok true /\ contains_t c12_left c12_right = true /\
  contains_w (enc c12_right) (enc c12_left) = Ok false /\
  contains_w (enc (VArr [VNum (NInt 7); VStr [97]])) (enc (VNum (NFloat 4619567317775286272))) = Ok true /\
  contains_w (enc (VArr [VArr [VNum (NInt 7)]])) (enc (VNum (NInt 7))) = Ok false.
Proof. vm_compute. repeat split; reflexivity. Qed.
Print Assumptions C12_bytes_example.

(* ---- the specification itself, written from the property text (ContainSpec.v): an inductive relation with one rule
   per sentence -- equal scalars; object/object when every member of b is contained in the member of a under the same
   key; array/array when every element of b is contained in SOME element of a -- plus the top-level rule for a bare
   scalar.  No length test, no variant test, no lookup, no scalar/container split: those are implementation choices of
   the Rust function and are shown here to be consequences.  The executable `contains_t` (hence, by C12_contains_bytes,
   what the byte walker returns) decides exactly this relation on documents with unique sorted keys. *)
From JB Require Import ContainSpec ContainSpecProofs.
Theorem C12_contains_is_the_declarative_relation :
  forall a b, wf_shape a = true -> wf_shape b = true -> (contains_t a b = true <-> contains_top a b).
Proof. exact contains_t_spec. Qed.
Print Assumptions C12_contains_is_the_declarative_relation.

Theorem C12_contains_bytes_is_the_declarative_relation :
  forall a b, wfb a = true -> wfb b = true -> top_ok a -> top_ok b ->
  exists r, contains_w (enc a) (enc b) = Ok r /\ (r = true <-> contains_top a b).
Proof.
  intros a b Wa Wb Ta Tb. exists (contains_t a b). split; [apply contains_w_enc; assumption|].
  apply contains_t_spec; [unfold wfb in Wa|unfold wfb in Wb]; apply andb_true_iff in Wa, Wb; tauto.
Qed.
Print Assumptions C12_contains_bytes_is_the_declarative_relation.

(* not vacuous: the relation holds for the nested example above by explicit rule applications (no computation of
   contains_t involved), and fails in the other direction *)
Example C12_declarative_example :
  contains_top c12_left c12_right /\ ~ contains_top c12_right c12_left /\
  contains_top (VArr [VNum (NInt 7); VStr [97]]) (VNum (NFloat 4619567317775286272)) /\
  ~ contains_top (VArr [VArr [VNum (NInt 7)]]) (VNum (NInt 7)).
Proof.
  split; [|split; [|split]].
  - left. apply contained_objects. intros k bv [E|[]]. injection E as <- <-.
    eexists. split; [left; reflexivity|]. apply contained_arrays. intros bv [<-|[<-|[<-|[]]]].
    + eexists. split; [right; right; right; left; reflexivity|]. apply contained_arrays. intros bv [<-|[]].
      eexists. split; [right; left; reflexivity|]. apply contained_scalars. repeat split; vm_compute; reflexivity.
    + eexists. split; [right; right; left; reflexivity|]. apply contained_objects. intros k bv [E|[]]. injection E as <- <-.
      eexists. split; [left; reflexivity|]. apply contained_scalars. repeat split; vm_compute; reflexivity.
    + eexists. split; [left; reflexivity|]. apply contained_scalars. repeat split; vm_compute; reflexivity.
  - intros H. apply C12_contains_is_the_declarative_relation in H; [|reflexivity|reflexivity]. vm_compute in H. discriminate H.
  - right. eexists. split; [reflexivity|]. split; [reflexivity|]. eexists. split; [left; reflexivity|]. repeat split; vm_compute; reflexivity.
  - intros H. apply C12_contains_is_the_declarative_relation in H; [|reflexivity|reflexivity]. vm_compute in H. discriminate H.
Qed.

(* M6 (second review): the fuel the model passes is never what decides an answer, on ARBITRARY inputs -- also for the loops
   whose exhaustion is an ordinary value (None, Ok None, Ok buf, PErr, the input itself), about which `<> Err EFuel` says
   nothing: any fuel above the one the model passes gives the same answer (FuelIndep.v) *)
From JB Require FuelIndep.
Theorem C12_fuel_is_never_decisive :
  (forall k l r, (length r < k)%nat -> ContainWalk.contains_jsonb_w k l r = ContainWalk.contains_jsonb_w (S (length r)) l r) /\
  (forall St R bs (step : St -> Codec.je -> list N -> res (St + R)) fin k idx len joff voff s, (length bs < k)%nat -> Iter.arr_fold bs step fin k idx len joff voff s = Iter.arr_fold bs step fin (S (length bs)) idx len joff voff s) /\
  (forall k bs i len j, (length bs < k)%nat -> Walk.rd_words k bs i len j = Walk.rd_words (S (length bs)) bs i len j).
Proof. split; [exact FuelIndep.contains_jsonb_w_any_fuel|split; [exact (@FuelIndep.arr_fold_any_fuel)|exact FuelIndep.rd_words_any_fuel]]. Qed.
Print Assumptions C12_fuel_is_never_decisive.
Print Assumptions C12_declarative_example.
